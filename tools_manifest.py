#!/usr/bin/env python3
"""Regenerates MANIFEST.json from the table below (keeps it schema-valid)."""
import json, os
HERE = os.path.dirname(os.path.abspath(__file__))
props = [json.loads(l) for l in open(os.path.join(HERE, 'properties.jsonl'))]

# pid -> (technique, level text, level note, design ref)
CLAIMED = {
 'C01': ("Coq proof (byte-level reader model: header codec round trip, offset arithmetic, selector normalisation) + model/implementation correspondence via extracted OCaml",
         "Theorems in coq/theories/Props/C01.v quantify over every well-formed level layout, FAB, offset and selector; the extracted model is run against PlotfileCooker on generated plotfiles and every selector form, with an independent numpy oracle deciding the property on disagreement.",
         "Trusts the Coq kernel, extraction (ExtrOcamlBasic/ExtrOcamlString), driver.ml, the Python harness, and that numpy/Python primitives behave as modelled; see DESIGN.md section 6.",
         "DESIGN.md section 3 C01"),
 'C02': ("Coq proof (print/parse round trip of the Header and Cell_H parsers, level-limit semantics, field-key renaming) + correspondence",
         "Theorems in Props/C02.v: for every well-formed header record, opening with any admissible limit returns exactly the record restricted to levels 0..limit, a limit above the finest level is refused, level headers round-trip with and without min/max tables, field keys are distinct and in header order. The printed text is what the implementation reads; PlotfileCooker attributes are compared with the model's parse and an independent oracle.",
         "Line/token text model (tokens whitespace-free); float tokens opaque (float_ok recogniser); np.linspace grids checked numerically, not proved.",
         "DESIGN.md section 3 C02"),
 'C15': ("Coq proof (sequential file scan complete and terminating, files partition the level, permutation theorem for the chained iterator) + correspondence under 4 completion orders",
         "Theorems in Props/C15.v: the scan of encode_file fs returns the specified read of every FAB in order and stops; iterating a well-formed level yields a permutation of the per-box reads for every layout; iter(selection) = indexing interface. Implementation iterated under identity/reverse/random/rotated task orders of a controlled pool and compared with the model sequence and the multiset oracle.",
         "multiprocessing.imap ordering guarantee is modelled by the controlled pool, not verified; np.unique = sorted dedup.",
         "DESIGN.md section 3 C15"),
 'C03': ("Coq proof (validator completeness on every well-formed plotfile image for all 16 option sets, the np.isclose comparison of the binary-data check being an oracle parameter) + exhaustive option-set correspondence",
         "Props/C03.v: taste_good close o limit (pf_disk pf) = true for every wf_plotfile, every layout, every admissible limit and every option set; for the six sets reaching the binary-data check (repaired by a fix: commit) under the stated hypothesis that the min/max tables are close to the extrema of the stored non-NaN values; data scan and row order theorems; the pinned code's rejection of everything kept as a refuted theorem. All 16 option sets x limits x {fail, nofail} are run on every generated plotfile (NaN / inf payloads included) and compared with the model, plus images with spoilt tables.",
         "box-coordinate check exercised on the implementation only; np.isclose / float parsing is an oracle table computed by numpy; signalling NaNs, ragged tables and offset ties are outside; os.listdir; text model restrictions of C02.",
         "DESIGN.md section 3 C03"),
 'C04': ("Coq proof (validator soundness over arbitrary directory contents: accepted implies headers readable at recorded offsets and files exactly tiled) + corruption-stream correspondence with independent oracle",
         "Props/C04.v: good implies every named file exists, every recorded (file, offset) yields a header naming the level header's index range and field count, every file is exactly a FAB sequence for its boxes; an accepted file extended by any bytes is rejected. 17 corruption operators applied singly and in pairs; implementation verdict (both modes) vs model vs independent consistency oracle.",
         "malformed stream is ASCII-token structured; box-bound corruptions checked on the implementation only (float arithmetic not modelled).",
         "DESIGN.md section 3 C04"),
 'C20': ("Coq proof (accepted file is tiled; a box recorded at a tile start whose header check passed reads back as that tile with the declared shape) + read-back of every accepted damaged image",
         "Props/C20.v with the explicit proviso br_off = tile start; harness reads every box of every image the validator accepts (28% of the generated corrupted/edited images) and compares with the FAB whose header names the index range.",
         "offsets pointing at header-shaped text embedded in payload are outside the generated stream and outside the theorem (stated proviso).",
         "DESIGN.md section 3 C20"),
 'C05': ("Coq proof of the whole tool (refinement: colander (pf_disk pf) = pf_disk (colander_spec pf) for every well-formed plotfile, layout, variable list and limit; output well-formed) + three-way directory-image correspondence (implementation = tool model = extracted specification)",
         "Props/C05.v: C05_tool, C05_output_wellformed, C05_level_any_layout, C05_level_header, C05_worker_any_layout, C05_kept_fields_bit_identical, C05_strained_box_wf, C05_header_rewrite, C05_resolve_vars. The executable model Writers.Colander.colander is compared with the output directory of Colander.strain byte for byte / token for token on generated plotfiles x variable lists x limits, and with the image of the extracted specification colander_spec of the abstract plotfile (whose own image is compared with the directory on disk); the independent reader decides the property (fields, levels, geometry, bit-identical boxes, min/max rows, taste verdict incl. box coordinates).",
         "the case where no requested field exists is outside the specification (model = implementation only); text model restrictions of C02; float tokens compared by value.",
         "DESIGN.md section 3 C05"),
 'C08': ("Coq proof (byte-level box read, expand_array = cell replication, level-ordered painting = finest covering level, totality, order-freedom) + bit-for-bit correspondence and independent covering-grid oracle",
         "Props/C08.v: C08_covering (pixel (x,y) of every returned field = stored word of the cell of the finest selected level with a box over it; grid_level = that level) for every list of well-formed 2D levels in any file layout, every limit and field list; C08_succeeds, C08_total (no uninitialised pixel), C08_expand, C08_box_read, C08_order_free. Extracted Mandoline.Plate.plate compared bit for bit with Mandoline(...).slice(fformat='return') and an independent numpy covering grid on generated 2D plotfiles.",
         "x/y coordinates (np.linspace) compared numerically, not proved; numpy slice assignment and np.repeat/reshape modelled (Array.Paint, Mandoline.Plate); field-name resolution (parse_input_fields) checked by correspondence only.",
         "DESIGN.md section 3 C08"),
 'C10': ("Coq proof (per-file scan complete, expand_array3d = cell replication, level-ordered painting = covering grid, independence of the completion order of the per-file tasks) + bit-for-bit correspondence of the .npy under controlled completion orders",
         "Props/C10.v: C10_covering, C10_order_free (every two complete delivery orders of the imap_unordered results give the same grid), C10_scan_file, C10_expand3, C10_limit_patches, for every list of well-formed 3D levels in any layout. The whip entry point is run in-process under a controlled pool (identity / reverse / random / rotated completion orders), the .npy compared with the extracted model fed the same orders and with an independent covering-grid oracle, for float64 and float32 and every level limit.",
         "dtype conversion = numpy astype applied by the harness (abstract cast); two defects repaired by fix: commits (bytes header, ignored --limit_level), see KNOWN_FINDINGS.txt; np.repeat / slice assignment modelled.",
         "DESIGN.md section 3 C10"),
 'C09': ("Coq proof (occupancy resolution divides every box corner; covering mask = not covered by the next level; per-level sums = uncovered cells; whole-cell refinement) + exact integer/dyadic correspondence of per-box worker results and totals",
         "Props/C09.v: C09_resolution_aligned, C09_mask, C09_partition_masked, C09_partition_finest, C09_limit, C09_once, for every mix of box sizes and alignments. pestle.volume_integral (API and CLI) is run on generated 3D plotfiles (incl. meshes whose smallest box edge does not divide every corner), integer payloads and dyadic cell volumes make every float operation exact: per-box worker results and the total are compared bit for bit with the extracted model and an independent occupancy oracle; decimal geometries within 1e-12.",
         "floating-point rounding of np.sum is outside the theorems (exact stream); the read prefix of the workers is the C01 single-field read; three defects repaired by fix: commits (limit handling, occupancy resolution), see KNOWN_FINDINGS.txt.",
         "DESIGN.md section 3 C09"),
 'C19': ("Coq proof (box matching on the half-cell lattice: CASE 1 with the covering box and integral local index at every interior cell centre; side conditions from disjoint / nested boxes; refusal outside) + correspondence of the (array, coordinates) handed to map_coordinates",
         "Props/C19.v: C19_case1, C19_same_level, C19_finer_level, C19_outside_refused. PlotfileCooker[field](x,y,z) is queried at interior cell centres of every level (stored value within 1e-9), other lattice points and outside points on generated 3D plotfiles with shifted origins and anisotropic dyadic cells, for name / int / list / slice selections; a spy on map_coordinates checks that the box read and the local index are the model's.",
         "scipy map_coordinates (cubic spline) is an oracle: node value at integral coordinates is trusted and checked numerically; float comparisons are modelled on the integer half-cell lattice (exact on dyadic geometry); CASE 2 (between boxes) is outside the model; two defects repaired by fix: commits (origin ignored, slice selections).",
         "DESIGN.md section 3 C19"),
 'C06': ("Coq proof of the whole tool (refinement: combine_tool (pf_disk pf1) (pf_disk pf2) = pf_disk (combine_spec ...) for every pair of well-formed plotfiles on the same boxes in any two layouts, in whichever mode is picked; level theorems per mode; mode-choice theorems) + three-way directory-image correspondence",
         "Props/C06.v: C06_tool, C06_level_bybox / _byoffset / _byfile, C06_mode_same_files, C06_mode_byfile, C06_level_header, C06_pair, C06_any_layout, C06_lock_step, C06_box_contents, C06_refuses. The executable model Writers.Combine.combine_tool is compared with the output directory of combine byte for byte / token for token on pairs of generated plotfiles x selections in all layout relations (identical / permuted / unrelated / mixed / escalating), and with the image of the extracted specification combine_pure; different meshes (incl. geometries where physical bounds cannot tell them apart) must be refused before any write; the independent reader decides the property.",
         "field-selection string parsing is Python's (resolved names enter the model); text model restrictions of C02; float tokens compared by value.",
         "DESIGN.md section 3 C06"),
 'C11': ("Coq proof of the whole tool for user recipes (refinement: chef recipe keep names (pf_disk pf) = pf_disk (chef_spec ...) for every well-formed 3D plotfile, layout, kept list and recipe function; built from the per-file scan, the level theorem, the level-header rewrite and file-listing irrelevance; cooked box = kept components bit for bit followed by the recipe's; recorded min/max are true extrema) + byte-for-byte directory correspondence + Cantera oracle for the built-in recipes",
         "Props/C11.v: C11_tool, C11_scan, C11_level_any_layout, C11_file_listing_irrelevant, C11_box_contents, C11_minmax (recipe is a parameter). Chef(...).cook() is run with generated user recipes (.py files: 1-3 components, arithmetic and position-dependent, results of type float64 / bool / float32 / int64) x kept-field strings x serial / controlled pool, and with the built-in recipes HRR / ENT / SRi / SDi / RRi on Cantera h2o2 plotfiles (species lists, 'all', reactions, kept temp / Y, cells without a state, varying pressures); the output directory is compared byte for byte with the extracted model fed the table of recipe results, and parsed by the independent reader (names, kept bit-identical, new = recipe(box), min/max, taste).",
         "the decimal printing of the min/max rows is outside the model (bit-pattern tokens, compared by value; the byte-level comparison is skipped for components with NaN or zeros of both signs); the values of the built-in recipes are Cantera's (independent SolutionArray evaluation, 1e-9 relative), not modelled; the solution-array form of user recipes shares the skeleton and is covered by the built-in stream only.",
         "DESIGN.md section 3 C11"),
 'C17': ("Coq proof (ghost stripping keeps exactly the interior cells for every ghost width; the scan of a state file converts every box in file order; level theorem: for any layout of the state boxes the per-file results are mapped back to box order and the written level is well-formed; recorded min/max are true extrema) + byte-for-byte correspondence of the converted level directories + independent reader / taste with box coordinates",
         "Props/C17.v: C17_interior, C17_minmax, C17_scan, C17_level_any_layout, C17_level_plain, C17_level_directory. The executable model Writers.Chk2plt.convert_level (state-file scan, ghost stripping, flooring table, gradp / I_R at recorded offsets, offset-sorted tasks mapped back to box order) is compared byte for byte with chk2plt's output on synthetic checkpoints (1-3 levels, 1-3 ghost cells, anisotropic shifted domains, independent layouts per data subset, all flag combinations, species from list or reference plotfile); the independent reader checks fields, levels, boxes, time, geometry, interior values, rescaled mass fractions, min/max; taste with box coordinates; the checkpoint tree is hashed before and after (incl. one checkpoint with a state FAB above 4 MiB per run).",
         "partial: the checkpoint Header parse, dx = domain / grid, box bounds and the text writers are checked at property level only (not modelled); flooring division is numpy's (table); two defects repaired by fix: commits, see KNOWN_FINDINGS.txt.",
         "DESIGN.md section 3 C17"),
 'C14': ("Coq proof of the pipeline theorem with its hypotheses discharged for all three writers (C14_full_chain: every finite sequence of colander, combine and chef (user recipe) runs succeeds, equals the composed specifications, every intermediate directory is the image of a good plotfile - a cooked plotfile is good because the model's min/max stand-ins are float literals; validator accepts every output; strain-all and cook-then-combine identities) + hop-by-hop correspondence of the composed extracted models AND of the composed specifications with the real tool chain",
         "Props/C14.v: C14_pipeline, C14_colander_chain, C14_strain_combine_chain, C14_chain_then_chef, C14_full_chain (chef anywhere in the chain), C14_full_outputs_accepted, C14_outputs_read_back / C14_outputs_iterate (what the reader returns on the outputs), C14_outputs_accepted, C14_strain_all_identity, C14_cook_combine. Pipelines over {colander, chef, combine with sibling, combine with ancestor} (all sequences of length <= 2 over the kinds, sampled up to 4) are run on generated plotfiles; after every hop the output is parsed by the independent reader and compared with the composed pure numpy operations, validated by taste (with and without box coordinates), compared byte for byte with the composition of the extracted Writers.* models, and the images of the composed pure operations of the theorem (Entry.e_full_chain on the abstract plotfile) are compared with those of the composed tool models - the instance of C14_full_chain for each chain; plus chains with a built-in Cantera recipe (cook keeping temp / Y(O2), combine back into the original).",
         "built-in (Cantera) recipes enter chains by correspondence only; 'good' (a Prop) is not evaluated on generated plotfiles: the image check pf_disk pf = directory on disk and the per-hop agreement stand for it; chk2plt as a source is covered by C17.",
         "DESIGN.md section 3 C14"),
 'C12': ("Coq proof (ordered map/imap pairing is independent of the execution order; file-system confluence of tasks touching disjoint files for every execution order; order-free keyed painting) + exhaustive task-order runs of every tool under a controlled pool with audited task file sets",
         "Props/C12.v: C12_ordered_pairing, C12_unordered_needs_keys, C12_fs_confluence, C12_painting_order_free. 13 tool scenarios (reader selections / iteration, taste, colander, combine x3 modes, chef, mandoline 2D / 3D, pestle, whip, chk2plt) are run under the submission order and 27 other task orders (all 24 orders of every pool call with <= 4 tasks, reverse, random), and in serial mode where it exists; returned values and the sha256 of every output file must equal the baseline; every task's open() calls are audited and the independence hypothesis of the confluence theorem is checked on every pool call; thorough tier adds real process pools with 1, 2, 16 workers.",
         "schedules are explored at task granularity (justified by the audited disjointness of task file sets); the OS scheduler and multiprocessing's ordering guarantee for map/imap are trusted; worker count enters only through the real-pool runs of the thorough tier.",
         "DESIGN.md section 3 C12"),
 'C07': ("Coq proof (slice_box case analysis: last centre at-or-below / first at-or-above; each side of the bracket = what the finest painting level painted; patches of a level; exact affine / constant / endpoint identities of the interpolation over Q) + bit-for-bit correspondence of returned arrays with an independent array-based sample oracle",
         "Props/C07.v: C07_slice_box_cases, C07_side_finest, C07_left_patches, C07_right_patches, C07_footprint, C07_affine_exact, C07_constant_normal, C07_on_sample. Mandoline.slice(fformat='return') is run for all three normals at lattice positions (cell centres/faces of every level, eighths around box faces, domain faces and neighbourhood, random, default, outside), field lists incl. grid_level/all, limits, serial and controlled pool, on plotfiles with random / affine-along-normal / constant-along-normal payloads; returned arrays must equal bit for bit the numpy interpolation of the samples selected by an independent box-free oracle; the model's two canvases must equal those samples.",
         "positions restricted to the dx/8 lattice (float comparisons exact there); IEEE rounding of the interpolation evaluated by numpy, its algebra proved over Q; totality (every pixel defined) is checked by the correspondence (oracle has a sample at every pixel) but not proved; three defects repaired by fix: commits (half-cell margin, default position, grid_level at domain faces).",
         "DESIGN.md section 3 C07"),
 'C18': ("Coq proof (minuterie reads the header time for any field count; table layout shows every field once for odd and even counts; shown values are extrema of the per-box tables; listing complete and duplicate-free for any classifier; species list; row chunking lossless) + parsed-stdout correspondence of the entry points and pickle round trip",
         "Props/C18.v: C18_time, C18_minmax_values, C18_rows (+ refutation of the pinned layout), C18_listing, C18_species, C18_rows_of. minuterie, menu (default, -m, -f) and marinate are run in-process on generated 2D/3D plotfiles (odd/even counts, with/without species, unknown names contained in one another or with regex metacharacters, negative/infinite/tiny times, infinite extrema); stdout is parsed back into names and (field, min, max) cells and compared with the generator's tables formatted by '{:.3}' and with the extracted model; the pickle is loaded, compared attribute by attribute and every box read through it.",
         "text formatting and pickle are Python's (checked, not modelled); the regex classification is a parameter supplied by the harness' transcription of the database; field names equal to a class key of the database are excluded; five defects repaired by fix: commits.",
         "DESIGN.md section 3 C18"),
 'C13': ("Coq proof (path algebra: every explicit write target lies under the output path for every spelling; suffix-built default outputs are siblings of the input, never inside it) + audited runs of every tool with input snapshots and exhaustive/sampled I/O fault injection",
         "Props/C13.v: C13_explicit_outputs, C13_join_components, C13_default_outputs, C13_suffix_defaults (+ computed examples for combine / chk2plt / mandoline defaults). Every tool is run in-process from another working directory with inputs/outputs spelled relative, './', trailing '/', '//', absolute; an audit hook records every open-for-write / mkdir / rename / remove / rmtree; inputs are snapshotted (content, mtime, mode) before and after; default output locations are predicted by the extracted path model; failing invocations (unknown field, truncated binary file) must raise; an OSError is injected at sampled (quick) or all (thorough) write-class operations and write() calls: the tool must raise (or complete with the identical output when the library retried), inputs unchanged, writes confined to the output location.",
         "the kernel's file system, symbolic links and '..' are outside the model; defaults of combine / chk2plt / mandoline are modelled and checked against the runs but proved only by computed examples; mandoline image output is not exercised (matplotlib); seven defects repaired by fix: commits.",
         "DESIGN.md section 3 C13"),
 'C16': ("Coq proof (every written box holds its own level's two bracketing planes and is the in-plane footprint of a box near the plane; exact affine / constant identities; ceiling-division file distribution writes every box exactly once within the file budget) + byte-for-byte reconstruction of the written Cell_D files and independent 2D reader, with two recorded known findings",
         "Props/C16.v: C16_own_level_partial, C16_affine_exact, C16_constant_normal, C16_chunking (+ refutation of the pinned floor division, + the one-sided witness). Mandoline.slice(fformat='plotfile') is run on generated 3D plotfiles (incl. slices above the one-megabyte threshold with 9 and 16 boxes); the 2D plotfile is parsed by the independent reader (fields, time, in-plane geometry, footprints of the met boxes each once, values = own-level interpolation bit for bit, min/max, taste with box coordinates) and the Cell_D files are rebuilt byte for byte from the extracted model. Inputs in the two known-finding regions (plane within half a cell of a box face; selected level without a box near the plane) are reported as KNOWN-FINDING, any other failure as VIOLATION.",
         "partial: the full property is false of the code in the two known-finding regions (KNOWN_FINDINGS.txt); positions on the dx/8 lattice; float interpolation by numpy; two defects repaired by fix: commits (aliased arrays, chunking).",
         "DESIGN.md section 3 C16"),
}
PENDING_REASON = "check not built yet in this round (model and theorems planned in DESIGN.md section 3); not claimed until its check runs"

checks = []
na = []
for p in props:
    pid = p['id']
    if pid in CLAIMED:
        tech, text, note, ref = CLAIMED[pid]
        checks.append({
            'property_id': pid,
            'quick_cmd': f'./check {pid} --tier quick',
            'thorough_cmd': f'./check {pid} --tier thorough',
            'evidence_file': f'/verif/evidence/{pid}.json',
            'replay_cmd_template': f'./check {pid} --replay {{path}}',
            'engine': 'coq-model+correspondence',
            'level_claimed': {'category': 'proof', 'text': text, 'design_ref': ref},
            'level_note': note,
            'technique': tech,
        })
    else:
        na.append({'property_id': pid, 'reason': PENDING_REASON})

manifest = {
 'version': 1,
 'setup_cmd': './setup.sh',
 'hooks': {
   'guard': 'AMR_KITCHEN_VERIF',
   'enable': 'no source hook is needed: the harness rebinds multiprocessing.Pool / module-level Pool names from outside and imports amr_kitchen from $VERIF_REPO (default /repo)',
   'baseline_off_cmd': 'cd /repo && /venv/bin/python -m pytest -ra -q -p no:cacheprovider --timeout=900 --continue-on-collection-errors',
   'source_commits': [],
   'add_only': True,
 },
 'engines': [
   {'name': 'coq-model+correspondence', 'path': '/verif/coq + /verif/harness',
    'serves_properties': sorted(CLAIMED),
    'kind_free_text': 'hand-written executable Gallina model with kernel-checked theorems (coq/theories), extracted to OCaml and compared with the implementation on generated inputs by harness/ (Python)'}],
 'checks': checks,
 'not_applicable': na,
 'notes': open(os.path.join(HERE, 'MANIFEST.notes.txt')).read() if os.path.exists(os.path.join(HERE, 'MANIFEST.notes.txt')) else '',
}
json.dump(manifest, open(os.path.join(HERE, 'MANIFEST.json'), 'w'), indent=1)
print('claimed', sorted(CLAIMED), 'n/a', len(na))
