"""Generation of abstract AMReX plotfiles and an independent writer of the
on-disk format (text headers + binary FAB files).

Everything random derives from the random.Random instance passed in."""
import os
import shutil
import random
import struct
import numpy as np

SPECIAL_BITS = [
    0x7ff8000000000000, 0x7ff8000000000001, 0xfff8000000000000, 0x7ff0000000000001,  # NaNs
    0x7ff0000000000000, 0xfff0000000000000,  # +-inf
    0x0000000000000000, 0x8000000000000000,  # +-0
    0x0000000000000001, 0x800fffffffffffff, 0x0010000000000000,  # denormals / min normal
    0x7fefffffffffffff, 0xffefffffffffffff, 0x3ff0000000000000, 0xbff0000000000000,
]

FIELD_POOL = ['temp', 'density', 'x_velocity', 'y_velocity', 'z_velocity', 'volFrac',
              'Y(H2)', 'Y(O2)', 'Y(OH)', 'Y(N2)', 'I_R(H2)', 'mag_vort', 'HeatRelease',
              'rhoh', 'pressure', 'a', 'b_c', 'field 7', 'avg_pressure', 'mixture_fraction']


MAX_PAYLOAD_BYTES = 1000000


class Level:
    def __init__(self):
        self.boxes = []      # list of (lo tuple, hi tuple) inclusive index ranges
        self.data = []       # per box: ndarray (nx, ny[, nz], nf) float64, Fortran order
        self.files = []      # list of (name, [box ids in on-disk order])


class PF:
    """abstract plotfile"""

    def __init__(self):
        self.ndims = 3
        self.fields = []
        self.time = 0.0
        self.geo_low = []
        self.dx0 = []
        self.n0 = []
        self.levels = []
        self.bf = 2
        self.meta = {}
        self.step = 0

    @property
    def nlevels(self):
        return len(self.levels)

    def ratio_list(self):
        """refinement ratios between consecutive levels (2 everywhere unless [ratios] is set)"""
        return list(getattr(self, 'ratios', None) or [2] * max(0, len(self.levels) - 1))

    def scale(self, lv):
        k = 1
        for r in self.ratio_list()[:lv]:
            k *= r
        return k

    def dx(self, lv):
        return [d / self.scale(lv) for d in self.dx0]

    def geo_high(self):
        if getattr(self, 'geo_high_given', None):
            return list(self.geo_high_given)
        return [lo + n * d for lo, n, d in zip(self.geo_low, self.n0, self.dx0)]

    def grid_size(self, lv):
        return [n * self.scale(lv) for n in self.n0]


# ---------------------------------------------------------------- mesh

def _cut_region(rng, blocks, ndims, maxlen=3):
    """Cut a set of unit blocks (tuples) into boxes (lo, hi in block units,
    inclusive) of mixed sizes, each at most maxlen blocks per direction."""
    todo = set(blocks)
    out = []
    order = sorted(todo)
    rng.shuffle(order)
    for b in order:
        if b not in todo:
            continue
        lo = list(b)
        hi = list(b)
        # grow in random directions
        for _ in range(rng.randint(0, 2 * ndims)):
            d = rng.randrange(ndims)
            if hi[d] - lo[d] + 1 >= maxlen:
                continue
            sign = rng.choice((-1, 1))
            nlo, nhi = list(lo), list(hi)
            if sign > 0:
                nhi[d] += 1
                face = [(nhi[d] if k == d else None) for k in range(ndims)]
            else:
                nlo[d] -= 1
                face = [(nlo[d] if k == d else None) for k in range(ndims)]
            # all blocks of the new face must be free
            rngs = [range(nlo[k], nhi[k] + 1) if face[k] is None else [face[k]] for k in range(ndims)]
            cells = _product(rngs)
            if all(c in todo for c in cells):
                lo, hi = nlo, nhi
        for c in _product([range(lo[k], hi[k] + 1) for k in range(ndims)]):
            todo.discard(c)
        out.append((tuple(lo), tuple(hi)))
    return out


def _product(rngs):
    out = [()]
    for r in rngs:
        out = [o + (v,) for o in out for v in r]
    return out


def gen_mesh(rng, ndims, nlevels, bf, max_blocks=3, refine_p=0.5):
    """Returns n0 and per level the list of boxes (lo, hi) in cell indices."""
    nb0 = [rng.randint(1, max_blocks) for _ in range(ndims)]
    n0 = [b * bf for b in nb0]
    levels = []
    # level 0: all blocks
    blocks = _product([range(b) for b in nb0])
    region = set(blocks)
    for lv in range(nlevels):
        boxes_b = _cut_region(rng, region, ndims)
        boxes = [(tuple(l * bf for l in lo), tuple((h + 1) * bf - 1 for h in hi)) for lo, hi in boxes_b]
        rng.shuffle(boxes)
        levels.append(boxes)
        if lv + 1 == nlevels:
            break
        # choose blocks of this level to refine (at least one)
        cur = sorted(region)
        chosen = [b for b in cur if rng.random() < refine_p]
        if not chosen:
            chosen = [rng.choice(cur)]
        # a refined block of bf cells becomes 2 blocks per direction at the next level
        region = set()
        for b in chosen:
            for off in _product([range(2)] * ndims):
                region.add(tuple(2 * b[k] + off[k] for k in range(ndims)))
    return n0, levels


def _segments(rng, start, stop):
    """split [start, stop) (in blocks, length >= 2) into segments of 2 or 3 blocks"""
    segs = []
    pos = start
    while stop - pos >= 2:
        rem = stop - pos
        if rem in (2, 3):
            n = rem
        elif rem == 4:
            n = 2
        else:
            n = rng.choice([2, 3])
        segs.append((pos, pos + n))
        pos += n
    return segs


def gen_mesh_chunky(rng, ndims, nlevels, bf):
    """Meshes without small boxes: every box edge is 2*bf or 3*bf cells and the
    refined regions start at arbitrary multiples of bf - so the smallest box
    edge does NOT divide every box corner (the '16 and 24' situation)."""
    nb0 = [rng.choice([2, 3, 4, 5]) for _ in range(ndims)]
    n0 = [b * bf for b in nb0]
    region = [(0, b) for b in nb0]          # per axis [start, stop) in blocks of the level
    levels = []
    for lv in range(nlevels):
        segs = [_segments(rng, a, b) for a, b in region]
        boxes_b = _product(segs)
        boxes = [(tuple(s[0] * bf for s in bx), tuple(s[1] * bf - 1 for s in bx)) for bx in boxes_b]
        rng.shuffle(boxes)
        levels.append(boxes)
        if lv + 1 == nlevels:
            break
        covered = [(min(s[0] for s in sg), max(s[1] for s in sg)) for sg in segs]
        nxt = []
        for a, b in covered:
            fa, fb = 2 * a, 2 * b          # the parent region in blocks of the finer level
            length = rng.randint(2, min(fb - fa, 5))
            start = rng.randint(fa, fb - length)
            nxt.append((start, start + length))
        region = nxt
    return n0, levels


# ---------------------------------------------------------------- payload

def bits_to_f64(bits):
    return np.frombuffer(struct.pack('<%dQ' % len(bits), *bits), dtype='<f8').copy()


def gen_payload(rng, shape, kind, base=0):
    n = int(np.prod(shape))
    if kind == 'ints':
        vals = np.arange(base, base + n, dtype='float64')
    elif kind == 'random':
        vals = np.array([rng.uniform(-1e3, 1e3) for _ in range(n)], dtype='float64')
    elif kind == 'special':
        vals = bits_to_f64([rng.choice(SPECIAL_BITS) if rng.random() < 0.5
                            else rng.getrandbits(64) for _ in range(n)])
    elif kind == 'smallints':
        vals = np.array([float(rng.randint(-9, 9)) for _ in range(n)], dtype='float64')
    else:
        raise ValueError(kind)
    return np.asfortranarray(vals.reshape(shape, order='F'))


# ---------------------------------------------------------------- layout

def gen_layout(rng, nboxes, kind=None):
    """boxes -> files (random surjection) with a per-file on-disk order."""
    kind = kind or rng.choice(['monotone', 'reversed', 'random', 'random', 'onefile', 'onebox'])
    if kind == 'onefile':
        nfiles = 1
    elif kind == 'onebox':
        nfiles = nboxes
    else:
        nfiles = rng.randint(1, nboxes)
    assign = list(range(nfiles)) + [rng.randrange(nfiles) for _ in range(nboxes - nfiles)]
    rng.shuffle(assign)
    # file names need not be consecutive nor in box order
    ids = rng.sample(range(0, max(nfiles + 3, 8)), nfiles)
    files = []
    for f in range(nfiles):
        members = [b for b in range(nboxes) if assign[b] == f]
        if kind == 'reversed':
            members.reverse()
        elif kind in ('random', 'onefile', 'onebox'):
            rng.shuffle(members)
        files.append(("Cell_D_%05d" % ids[f], members))
    rng.shuffle(files)
    return files, kind


# ---------------------------------------------------------------- plotfile

def gen_fields(rng, nmin=1, nmax=9, allow_repeat=False):
    n = rng.randint(nmin, nmax)
    names = rng.sample(FIELD_POOL, n)
    if allow_repeat and n >= 2 and rng.random() < 0.3:
        names[rng.randrange(1, n)] = names[0]
    if allow_repeat and n >= 3 and rng.random() < 0.35:
        # repeats together with a literal name equal to a generated key (x, x_2, x)
        base = names[0]
        pos = sorted(rng.sample(range(1, n), 2))
        r = rng.random()
        if r < 0.35:
            names[pos[0]] = base + '_2'
            names[pos[1]] = base
        elif r < 0.7:
            names[pos[0]] = base
            names[pos[1]] = base + '_2'
        else:
            # another field merely BEGINS with the repeated name (rho, rhoE, rho)
            names[pos[0]] = base + 'E'
            names[pos[1]] = base
        if n >= 4 and rng.random() < 0.5:
            names[rng.choice([k for k in range(1, n) if k not in pos])] = base
    return names


def gen_geometry(rng, ndims, stream):
    if stream == 'exact':
        lows = [0.0, 0.0, 1.0, -2.0, 0.5, -0.25, 8.0]
        dxs = [1.0, 0.5, 0.25, 2.0, 0.125]
    else:
        lows = [0.0, 0.0, 0.1, -0.3, 0.016, 1e-3]
        dxs = [0.002, 0.1, 0.3, 0.016, 1.0 / 3.0]
    kind = rng.choice(['zero', 'zero', 'nonzero', 'aniso', 'both'])
    if kind in ('zero', 'aniso'):
        low = [0.0] * ndims
    else:
        low = [rng.choice(lows[1:]) for _ in range(ndims)]
    if kind in ('aniso', 'both'):
        dx = [rng.choice(dxs) for _ in range(ndims)]
    else:
        dx = [rng.choice(dxs)] * ndims
    return low, dx, kind


def awkward_axis(r2, n):
    """(low, dx) for an axis of n cells whose extent / dx, computed in floating
    point from the header's own numbers, falls just BELOW n (so that int()
    truncates it to n - 1), or None"""
    lows = [0.1, -0.3, -1.8, -2.0, 0.016, 0.7, 1e-3, 0.0]
    dxs = [0.1, 0.3, 0.7, 0.05, 0.016, 1.0 / 3.0, 0.002, 1.1, 0.9 / n, 0.3 / n, 1.8 / n, 2.3 / n, 1.0 / n]
    cands = [(lo, dx) for lo in lows for dx in dxs if int(((lo + n * dx) - lo) / dx) < n]
    return r2.choice(cands) if cands else None


def make_awkward(r2, pf):
    done = []
    for d in range(pf.ndims):
        if r2.random() < 0.7:
            c = awkward_axis(r2, pf.n0[d])
            if c:
                pf.geo_low[d], pf.dx0[d] = c
                done.append(d)
    return done


def make_odd0(r2, pf, mesh):
    """one more cell along one axis of the level-0 domain (an ODD cell count):
    the level-0 boxes touching the high face grow by one cell"""
    d = r2.randrange(pf.ndims)
    top = pf.n0[d] - 1
    mesh[0] = [(lo, tuple(h + 1 if (k == d and h == top) else h for k, h in enumerate(hi))) for lo, hi in mesh[0]]
    pf.n0 = [n + 1 if k == d else n for k, n in enumerate(pf.n0)]
    return d


def gen_plotfile(rng, ndims=None, nlevels=None, payload=None, geo_stream=None,
                 nfields=None, max_blocks=3, allow_repeat=False, layout=None, bf=None, mesh='blocks',
                 awkward=0.0, odd0=0.0, odd_names=0.0, domain_first=0.0, unicode_names=0.0):
    """awkward / odd0: probabilities of a geometry whose extent/dx quotient
    rounds below the cell count, and of an odd level-0 cell count.  Both draw
    from a generator derived from (not advancing) rng, so that the other choices
    of a seed stay what they were."""
    pf = PF()
    r2 = random.Random(repr(rng.getstate()[1][:8]))
    pf.ndims = ndims or rng.choice([2, 3])
    nlevels = nlevels or rng.choice([1, 1, 2, 2, 3, 4])
    pf.bf = bf or rng.choice([2, 2, 4])
    pf.fields = gen_fields(rng, *(nfields or (1, 9)), allow_repeat=allow_repeat)
    pf.time = rng.choice([0.0, 0.49947225144556617, 1.5e-4, 12.0, -1.0])
    pf.step = rng.choice([0, 7, 70100])
    geo_stream = geo_stream or rng.choice(['exact', 'decimal'])
    pf.geo_low, pf.dx0, geo_kind = gen_geometry(rng, pf.ndims, geo_stream)
    if mesh == 'chunky':
        pf.n0, mesh = gen_mesh_chunky(rng, pf.ndims, nlevels, pf.bf)
    else:
        pf.n0, mesh = gen_mesh(rng, pf.ndims, nlevels, pf.bf, max_blocks=max_blocks)
    # a cap on the payload (the list-based model is quadratic in the size of a binary file): the finest levels of a mesh
    # that would hold more than a megabyte are dropped (four levels of blocking factor 4 in 3D can reach several)
    def _cells(boxes):
        return sum(int(np.prod([h - l + 1 for l, h in zip(lo, hi)])) for lo, hi in boxes)
    while len(mesh) > 1 and sum(_cells(b) for b in mesh) * len(pf.fields) * 8 > MAX_PAYLOAD_BYTES:
        mesh = mesh[:-1]
        nlevels -= 1
    extra = []
    if odd_names and r2.random() < odd_names and len(pf.fields) >= 2:
        # names that only differ by case (the twin of field 0 comes later), names with format / regex
        # metacharacters, repeated ones among them
        n = len(pf.fields)
        kind = r2.choice(['case', 'case', 'percent', 'braces', 'mixed'])
        f0 = pf.fields[0]
        twin = f0.swapcase() if f0.swapcase() != f0 else f0 + 'X'
        if kind in ('case', 'mixed'):
            pf.fields[r2.randrange(1, n)] = twin
        if kind in ('percent', 'mixed') and n >= 3:
            a, b = r2.sample(range(1, n), 2)
            pf.fields[a] = pf.fields[b] = r2.choice(['conv%', 'eff%%', 'rate_%d', '100%s'])
        if kind == 'braces' and n >= 3:
            a, b = r2.sample(range(1, n), 2)
            pf.fields[a] = pf.fields[b] = r2.choice(['c{0}', 'q{}', 'w[1]', 'd\\d+'])
        extra.append('names:' + kind)
    r3 = random.Random(repr(rng.getstate()[1][:8]) + 'unicode')
    if unicode_names and r3.random() < unicode_names and len(pf.fields) >= 2:
        # field names that are not plain ASCII (UTF-8 in the Header), the ASCII remainder of one of them being another
        # field's name
        n = len(pf.fields)
        a, b = sorted(r3.sample(range(n), 2))
        pair = r3.choice([('\u0394p', 'p'), ('\u03c1u', 'u'), ('temp\u00e9rature', 'temprature'), ('\u03c9_H2', '_H2'),
                          ('Y(H\u2082O)', 'Y(HO)'), ('\u00b5_visc', '_visc')])
        if pair[0] not in pf.fields and pair[1] not in pf.fields:
            pf.fields[a] = pair[0]
            if r3.random() < 0.6:
                pf.fields[b] = pair[1]
            extra.append('names:unicode')
    if odd0 and r2.random() < odd0:
        pf.n0 = list(pf.n0)
        extra.append('odd0:%d' % make_odd0(r2, pf, mesh))
    if domain_first and r2.random() < domain_first:
        # the way AMReX does it: the domain bounds are given, the cell size is their quotient, box bounds are low + k * dx
        # (the upper bound of the boxes at the high face can then sit one ulp above the stated domain bound)
        lows, highs = [], []
        for n in pf.n0:
            cands = [(lo, lo + k / 10) for lo in (0.1, -0.3, 0.016, 0.7, 1e-3, 2.0, -1.8, 12.5) for k in range(1, 41)]
            over = [(lo, hi) for lo, hi in cands if lo + n * ((hi - lo) / n) > hi]       # the top box ends above the stated bound
            lo, hi = r2.choice(over) if over and r2.random() < 0.8 else r2.choice(cands)
            lows.append(lo)
            highs.append(hi)
        pf.geo_low, pf.geo_high_given = lows, highs
        pf.dx0 = [(h - l) / n for l, h, n in zip(pf.geo_low, pf.geo_high_given, pf.n0)]
        extra.append('domain-first')
    elif awkward and r2.random() < awkward:
        pf.geo_low, pf.dx0 = list(pf.geo_low), list(pf.dx0)
        ax = make_awkward(r2, pf)
        if ax:
            extra.append('awkward:' + ''.join(map(str, ax)))
    payload = payload or rng.choice(['ints', 'random', 'special'])
    base = 0
    layouts = []
    for boxes in mesh:
        lv = Level()
        lv.boxes = boxes
        for lo, hi in boxes:
            shape = tuple(h - l + 1 for l, h in zip(lo, hi)) + (len(pf.fields),)
            lv.data.append(gen_payload(rng, shape, payload, base))
            base += int(np.prod(shape))
        lv.files, lk = gen_layout(rng, len(boxes), layout)
        layouts.append(lk)
        pf.levels.append(lv)
    pf.meta = dict(ndims=pf.ndims, nlevels=nlevels, bf=pf.bf, nfields=len(pf.fields),
                   payload=payload, geo=geo_stream + '/' + geo_kind, layouts=layouts,
                   nboxes=[len(l.boxes) for l in pf.levels],
                   nfiles=[len(l.files) for l in pf.levels], n0=pf.n0)
    if extra:
        pf.meta['geo'] += '+' + '+'.join(extra)
    return pf


def flatten_axis(pf, d):
    """turns pf into a slab one coarse cell thick along direction d (2**lv cells at level lv): keeps the boxes that touch
    the low face and crops them; levels left without a box are dropped together with those above"""
    levels = []
    for lv, level in enumerate(pf.levels):
        thick = 2 ** lv
        keep = [b for b, (lo, hi) in enumerate(level.boxes) if lo[d] == 0]
        if not keep:
            break
        new = Level()
        renum = {}
        for b in keep:
            lo, hi = level.boxes[b]
            renum[b] = len(new.boxes)
            new.boxes.append((lo, tuple(min(h, thick - 1) if k == d else h for k, h in enumerate(hi))))
            sl = [slice(None)] * (pf.ndims + 1)
            sl[d] = slice(0, thick)
            new.data.append(np.asfortranarray(level.data[b][tuple(sl)]))
        for name, members in level.files:
            m = [renum[b] for b in members if b in renum]
            if m:
                new.files.append((name, m))
        levels.append(new)
    pf.levels = levels
    pf.n0 = [1 if k == d else n for k, n in enumerate(pf.n0)]
    if getattr(pf, 'geo_high_given', None):
        pf.geo_high_given = None
    pf.meta.update(nlevels=len(levels), nboxes=[len(l.boxes) for l in levels], nfiles=[len(l.files) for l in levels],
                   n0=pf.n0, slab_axis=d, layouts=pf.meta['layouts'][:len(levels)])
    return pf


def gen_deep_plotfile(rng, nlevels=12, ndims=2, nfields=2, box=2):
    """a well-formed plotfile with MANY levels (Level_10, Level_11, ... sort before Level_2 as strings): every level
    is one box of [box] cells per direction; box = 2: it refines one cell of the box below; box = 4: it refines the
    middle two cells of the box below (every box contains the mid-plane of all finer ones).  Tiny, so that a dozen
    levels stay cheap"""
    pf = PF()
    pf.ndims = ndims
    pf.bf = 2
    pf.fields = gen_fields(rng, nfields, nfields)
    pf.time = 0.25
    pf.step = 7
    pf.geo_low = [0.0] * ndims
    pf.dx0 = [1.0] * ndims
    pf.n0 = [box] * ndims
    lo = tuple([0] * ndims)
    base = 0
    layouts = []
    for lv in range(nlevels):
        level = Level()
        hi = tuple(l + box - 1 for l in lo)
        level.boxes = [(lo, hi)]
        shape = tuple([box] * ndims) + (nfields,)
        level.data.append(gen_payload(rng, shape, 'ints', base))
        base += int(np.prod(shape))
        level.files, lk = gen_layout(rng, 1, None)
        layouts.append(lk)
        pf.levels.append(level)
        if box == 2:
            # the next level refines one cell of this box
            cell = tuple(l + rng.randint(0, 1) for l in lo)
            lo = tuple(2 * c for c in cell)
        else:
            # the next level refines the middle half of this box
            lo = tuple(2 * (l + box // 4) for l in lo)
    pf.meta = dict(ndims=ndims, nlevels=nlevels, bf=2, nfields=nfields, payload='ints', geo='exact/zero', layouts=layouts,
                   nboxes=[1] * nlevels, nfiles=[1] * nlevels, n0=pf.n0, deep=True)
    return pf


# ---------------------------------------------------------------- writer

def fnum(x):
    """float token as AMReX / Python print it"""
    return repr(float(x))


def fab_header(lo, hi, ncomp):
    zeros = ','.join('0' for _ in hi)
    return ("FAB ((8, (64 11 52 0 1 12 0 1023)),(8, (8 7 6 5 4 3 2 1)))"
            f"(({','.join(map(str, lo))}) ({','.join(map(str, hi))}) ({zeros})) {ncomp}\n").encode('ascii')


def fab_bytes(lo, hi, arr):
    return fab_header(lo, hi, arr.shape[-1]) + np.asarray(arr, dtype='<f8').tobytes(order='F')


def level_files(lv):
    """-> dict name -> bytes, and per box (name, offset)"""
    files = {}
    loc = [None] * len(lv.boxes)
    for name, members in lv.files:
        buf = bytearray()
        for b in members:
            loc[b] = (name, len(buf))
            lo, hi = lv.boxes[b]
            buf += fab_bytes(lo, hi, lv.data[b])
        files[name] = bytes(buf)
    return files, loc


def minmax_token(v):
    return '%.16e' % v


def cell_h_text(pf, lv, loc=None, mins=None, maxs=None):
    level = pf.levels[lv]
    if loc is None:
        _, loc = level_files(level)
    nb = len(level.boxes)
    nf = len(pf.fields)
    zeros = ','.join('0' for _ in range(pf.ndims))
    out = ["1\n", "1\n", f"{nf}\n", "0\n", f"({nb} 0\n"]
    for lo, hi in level.boxes:
        out.append(f"(({','.join(map(str, lo))}) ({','.join(map(str, hi))}) ({zeros}))\n")
    out.append(")\n")
    out.append(f"{nb}\n")
    for name, off in loc:
        out.append(f"FabOnDisk: {name} {off}\n")
    out.append("\n")
    out.append(f"{nb},{nf}\n")
    for b in range(nb):
        row = mins[b] if mins is not None else [minmax_token(np.min(level.data[b][..., c])) for c in range(nf)]
        out.append(','.join(row) + ',\n')
    out.append("\n")
    out.append(f"{nb},{nf}\n")
    for b in range(nb):
        row = maxs[b] if maxs is not None else [minmax_token(np.max(level.data[b][..., c])) for c in range(nf)]
        out.append(','.join(row) + ',\n')
    return ''.join(out)


def box_bounds(pf, lv, lo, hi):
    dx = pf.dx(lv)
    dl = [d * 2 ** lv for d in getattr(pf, 'dom_lo0', [0] * pf.ndims)]
    return [(pf.geo_low[d] + (lo[d] - dl[d]) * dx[d], pf.geo_low[d] + (hi[d] + 1 - dl[d]) * dx[d]) for d in range(pf.ndims)]


def shift_index_space(pf, shift0):
    """AMReX index space need not start at zero: moves the whole index space by shift0 coarse cells per direction
    (domain boxes, level boxes and FAB headers alike; the physical geometry stays where it was)"""
    pf.dom_lo0 = list(shift0)
    for lv, level in enumerate(pf.levels):
        sh = [d * 2 ** lv for d in shift0]
        level.boxes = [(tuple(a + d for a, d in zip(lo, sh)), tuple(a + d for a, d in zip(hi, sh))) for lo, hi in level.boxes]
    pf.meta['index_shift'] = list(shift0)
    return pf


def header_text(pf, extra_ratio=0):
    nl = pf.nlevels
    zeros = ','.join('0' for _ in range(pf.ndims))
    out = [getattr(pf, 'version', 'HyperCLaw-V1.1') + "\n", f"{len(pf.fields)}\n"]
    out += [f + "\n" for f in pf.fields]
    out.append(f"{pf.ndims}\n")
    out.append(fnum(pf.time) + "\n")
    out.append(f"{nl - 1}\n")
    out.append(' '.join(fnum(x) for x in pf.geo_low) + " \n")
    out.append(' '.join(fnum(x) for x in pf.geo_high()) + " \n")
    out.append(' '.join(str(r) for r in pf.ratio_list() + [2] * extra_ratio) + "\n")
    tups = []
    for lv in range(nl):
        dlo = [d * 2 ** lv for d in getattr(pf, 'dom_lo0', [0] * pf.ndims)]
        sizes = ','.join(str(l + s - 1) for l, s in zip(dlo, pf.grid_size(lv)))
        tups.append(f"(({','.join(map(str, dlo))}) ({sizes}) ({zeros}))")
    out.append(' '.join(tups) + "\n")
    out.append(' '.join(str(pf.step) for _ in range(nl)) + "\n")
    for lv in range(nl):
        out.append(' '.join(fnum(x) for x in pf.dx(lv)) + " \n")
    out.append("0\n")
    out.append("0\n")
    for lv in range(nl):
        level = pf.levels[lv]
        out.append(f"{lv} {len(level.boxes)} {fnum(pf.time)}\n")
        out.append(f"{pf.step}\n")
        nudge = getattr(pf, 'bound_nudge', {})
        for bi, (lo, hi) in enumerate(level.boxes):
            for d, (a, b) in enumerate(box_bounds(pf, lv, lo, hi)):
                # (printed bounds one unit in the last place off, as low + index * dx computed in floating point can be)
                na, nb = nudge.get((lv, bi, d), (0, 0))
                a = float(np.nextafter(a, np.inf if na > 0 else -np.inf)) if na else a
                b = float(np.nextafter(b, np.inf if nb > 0 else -np.inf)) if nb else b
                out.append(f"{fnum(a)} {fnum(b)}\n")
        out.append(f"Level_{lv}/Cell\n")
    return ''.join(out)


def write_plotfile(pf, path):
    os.makedirs(path)
    with open(os.path.join(path, 'Header'), 'w', encoding='utf-8') as f:
        f.write(header_text(pf, extra_ratio=pf.meta.get('extra_ratio', 0)))
    for lv, level in enumerate(pf.levels):
        d = os.path.join(path, f"Level_{lv}")
        os.makedirs(d)
        files, loc = level_files(level)
        for name, content in files.items():
            with open(os.path.join(d, name), 'wb') as f:
                f.write(content)
        with open(os.path.join(d, 'Cell_H'), 'w') as f:
            f.write(cell_h_text(pf, lv, loc))
    return path


def mixed_digit_files(pf, r):
    """renames the binary files of the levels that have several so that five- and six-digit numbers meet
    (Cell_D_99999 next to Cell_D_100000: AMReX adds digits as needed): sorted as strings the six-digit ones come
    first, sorted as numbers they come last"""
    done = False
    for level in pf.levels:
        n = len(level.files)
        if n < 2:
            continue
        six = set(r.sample(range(n), r.randint(1, n - 1)))
        lo5 = r.sample(range(20000, 100000), n)
        hi6 = r.sample(range(100000, 200000), n)
        level.files = [(f"Cell_D_{hi6[k] if k in six else lo5[k]}", m) for k, (name, m) in enumerate(level.files)]
        done = True
    if done:
        pf.meta['file_numbers'] = 'five and six digits'
    return done


def symlink_parts(path, store, r):
    """moves level directories and / or binary files of the plotfile at [path] into the directory [store] under OTHER
    names and leaves symbolic links in their place (archived levels, de-duplicated binaries): every reader follows the
    links, the plotfile is as well-formed as before.  -> description"""
    os.makedirs(store, exist_ok=True)
    done = []
    for lvdir in sorted(d for d in os.listdir(path) if d.startswith('Level_')):
        full = os.path.join(path, lvdir)
        how = r.choice(['keep', 'dir', 'files', 'files', 'dir+files'])
        if 'files' in how:
            for k, name in enumerate(sorted(n for n in os.listdir(full) if n.startswith('Cell_D_'))):
                if r.random() < 0.7:
                    tgt = os.path.join(store, f"{lvdir}_fab_{k:03d}.bin")
                    shutil.move(os.path.join(full, name), tgt)
                    os.symlink(tgt, os.path.join(full, name))
        if 'dir' in how:
            tgt = os.path.join(store, 'archived_' + lvdir.lower().replace('_', ''))
            shutil.move(full, tgt)
            os.symlink(tgt, full)
        done.append(f"{lvdir}:{how}")
    return ' '.join(done)


# ---------------------------------------------------------------- to the model

def level_to_sx(pf, lv):
    level = pf.levels[lv]
    fabs = []
    for (lo, hi), arr in zip(level.boxes, level.data):
        fabs.append([list(lo), list(hi), arr.shape[-1], np.asarray(arr, dtype='<f8').tobytes(order='F')])
    files = [[name.encode(), list(members)] for name, members in level.files]
    return [fabs, files]


def arr_canon(a):
    """numpy array -> (shape list, raw bytes in Fortran order)"""
    a = np.asarray(a)
    if a.dtype != np.dtype('float64'):
        return ['dtype', str(a.dtype)]
    return [list(a.shape), a.astype('<f8').tobytes(order='F')]


def write_huge_offset_plotfile(path):
    """a well-formed one-level plotfile whose single binary file is larger than 2 GiB (written sparse: a few kB on
    disk): box 0 is 65536 x 64 x 64 cells of zeros, box 1 (4 x 64 x 64, distinct values) starts behind 2**31 bytes
    -> (pf, offset of box 1, data of box 1)"""
    pf = PF()
    pf.ndims, pf.fields, pf.time, pf.step = 3, ['temp'], 0.5, 7
    pf.geo_low, pf.dx0, pf.n0 = [0.0, 0.0, 0.0], [1.0, 1.0, 1.0], [65536 + 4, 64, 64]
    pf.bf = 2
    lev = Level()
    lev.boxes = [((0, 0, 0), (65535, 63, 63)), ((65536, 0, 0), (65539, 63, 63))]
    small = np.asfortranarray(np.arange(1, 4 * 64 * 64 + 1, dtype='float64').reshape((4, 64, 64, 1), order='F'))
    pf.levels = [lev]
    os.makedirs(os.path.join(path, 'Level_0'))
    h0 = fab_header(*lev.boxes[0], 1)
    off1 = len(h0) + 8 * 65536 * 64 * 64
    with open(os.path.join(path, 'Level_0', 'Cell_D_00000'), 'wb') as f:
        f.write(h0)
        f.seek(off1)
        f.write(fab_bytes(*lev.boxes[1], small))
    lev.data = [np.zeros((1, 1, 1, 1)), small]
    lev.files = [('Cell_D_00000', [0, 1])]
    with open(os.path.join(path, 'Header'), 'w') as f:
        f.write(header_text(pf))
    zero = minmax_token(0.0)
    with open(os.path.join(path, 'Level_0', 'Cell_H'), 'w') as f:
        f.write(cell_h_text(pf, 0, [('Cell_D_00000', 0), ('Cell_D_00000', off1)],
                            mins=[[zero], [minmax_token(1.0)]], maxs=[[zero], [minmax_token(float(small.max()))]]))
    pf.meta = dict(case='binary file above 2 GiB (sparse)', nlevels=1, ndims=3)
    return pf, off1, small
