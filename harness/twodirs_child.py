"""Child process of the two-directories scenarios: a tool is run with RELATIVE paths in one working directory, the
process changes its working directory, and the same call - same relative names, other data - is made there.  Real
process pools (nothing of the controlled pool is installed); amr_kitchen is imported while the working directory
is a third one.  Every result must be that of its own directory.

usage: python -m harness.twodirs_child <tool> <seed> <root>     prints 'BAD: ...' lines, then 'DONE'
"""
import os
import random
import sys

tool, seed, root = sys.argv[1], int(sys.argv[2]), sys.argv[3]
os.makedirs(os.path.join(root, 'elsewhere'), exist_ok=True)
os.chdir(os.path.join(root, 'elsewhere'))          # the working directory at import time is neither run directory

import numpy as np                                   # noqa: E402
import amr_kitchen                                   # noqa: E402,F401
from amr_kitchen import PlotfileCooker              # noqa: E402
from amr_kitchen.colander.colander import Colander  # noqa: E402
from amr_kitchen.combine import combine             # noqa: E402
from amr_kitchen.taste.taste import Taster          # noqa: E402
from amr_kitchen.chk2plt import chk2plt             # noqa: E402
from harness import gen, genchk, diskimg, oracle     # noqa: E402
from harness.props import c01, c06, c14, c17          # noqa: E402

# a schedule the operating system may choose at any time, forced for the whole scenario: the task-feeding thread of every
# process pool is descheduled between handing out its last task and marking the end of the tasks (results can all be back
# before the mark - a pool that is dropped at that moment dead-locks)
import multiprocessing.pool as _mpp               # noqa: E402
import time as _time                              # noqa: E402
_set_length = _mpp.IMapIterator._set_length


def _late_set_length(self, length):
    _time.sleep(0.2)
    return _set_length(self, length)


_mpp.IMapIterator._set_length = _late_set_length

bad = []
rng = random.Random(seed)
runs = [os.path.join(root, 'runA'), os.path.join(root, 'runB')]
for r in runs:
    os.makedirs(r)


def fresh_data(pf, base):
    for lev in pf.levels:
        for k, d in enumerate(lev.data):
            lev.data[k] = gen.gen_payload(rng, d.shape, 'random', base)
    return pf


def two_plotfiles(layout='reversed'):
    """two plotfiles on the same mesh with the same field names, other values, own layouts (out-of-order in their files)"""
    for _ in range(50):
        a = gen.gen_plotfile(rng, ndims=3, max_blocks=2, nfields=(2, 4), nlevels=rng.choice([1, 2]), payload='random', layout=layout)
        if max(len(l.boxes) for l in a.levels) >= 3:
            break
    a.fields = [f.replace(' ', '_') for f in a.fields]
    import copy
    b = fresh_data(copy.deepcopy(a), 0)
    return a, b


def outcome(f):
    try:
        return ('ok', f())
    except BaseException as e:       # noqa
        return ('raised', f"{type(e).__name__}: {e}"[:300])


if tool == 'colander':
    pfs = two_plotfiles()
    keys = c01.reader_keys(pfs[0].fields)
    variables = rng.sample(keys, rng.randint(1, len(keys)))
    for r, pf in zip(runs, pfs):
        os.chdir(r)
        diskimg.write_image(diskimg.image_of(pf), 'plt00010')
        res = outcome(lambda: Colander(plotfile='plt00010', limit_level=None, output='strained', variables=list(variables)).strain())
        if res[0] != 'ok':
            bad.append(f"colander with relative paths in {os.path.basename(r)} raised: {res[1]}")
    for r, pf in zip(runs, pfs):
        p = os.path.join(r, 'strained')
        try:
            d = c14.contents_match(oracle.contents_of_image(oracle.read_image(p)), c14.pure_colander(pf, variables, pf.nlevels - 1))
        except Exception as e:      # noqa
            d = f"output is not a well-formed plotfile: {type(e).__name__}: {e}"
        if d:
            bad.append(f"the strained plotfile of {os.path.basename(r)}: {d}")

elif tool == 'chef':
    # two cooks in one process, in parallel mode (the real worker pool of the first cook may still be there for the second):
    # same relative names, another recipe file, other data
    from amr_kitchen.chef import Chef                 # noqa: E402
    from harness.props import c11                     # noqa: E402
    pfs = two_plotfiles()
    keys = c01.reader_keys(pfs[0].fields)
    a = keys[0]
    sources = ['def recipe(field_indexes, box_array):\n    """doubled"""\n    return 2.0 * box_array[..., field_indexes[%r]]\n' % a,
               'def recipe(field_indexes, box_array):\n    """shifted"""\n    return box_array[..., field_indexes[%r]] + 100.0\n' % a]
    for r, pf, src in zip(runs, pfs, sources):
        os.chdir(r)
        diskimg.write_image(diskimg.image_of(pf), 'plt00010')
        with open('recipe.py', 'w') as f:
            f.write(src)
        res = outcome(lambda: Chef(plotfile='plt00010', recipe='recipe.py', outfile='cooked', kept_fields=a, serial=False).cook())
        if res[0] != 'ok':
            bad.append(f"chef with relative paths in {os.path.basename(r)} raised: {res[1]}")
    for r, pf, name in zip(runs, pfs, ('doubled', 'shifted')):
        fn = c11.load_recipe(os.path.join(r, 'recipe.py'))
        want, _ = c14.pure_chef(pf, fn, [name], a)
        try:
            d = c14.contents_match(oracle.contents_of_image(oracle.read_image(os.path.join(r, 'cooked'))), want)
        except Exception as e:      # noqa
            d = f"output is not a well-formed plotfile: {type(e).__name__}: {e}"
        if d:
            bad.append(f"the cooked plotfile of {os.path.basename(r)} (recipe '{name}'): {d}")

elif tool == 'combine':
    pfs = two_plotfiles('onefile')        # every level in one binary file, shuffled: with the sibling's other order, the by-offset mode
    seconds = []
    for r, pf in zip(runs, pfs):
        os.chdir(r)
        sib = c06.second_plotfile(rng, pf, 'same_files_permuted')       # same files, another on-disk order: the by-offset mode
        sib.fields = ['sib_' + f.replace(' ', '_') for f in sib.fields]
        seconds.append(sib)
        diskimg.write_image(diskimg.image_of(pf), 'plt_a')
        diskimg.write_image(diskimg.image_of(sib), 'plt_b')
        res = outcome(lambda: combine(PlotfileCooker('plt_a'), PlotfileCooker('plt_b'), pltout='combined'))
        if res[0] != 'ok':
            bad.append(f"combine with relative paths in {os.path.basename(r)} raised: {res[1]}")
    for r, pf, sib in zip(runs, pfs, seconds):
        want, n1, n2 = c14.pure_combine(pf, sib, None, None)
        try:
            d = c14.contents_match(oracle.contents_of_image(oracle.read_image(os.path.join(r, 'combined'))), want)
        except Exception as e:      # noqa
            d = f"output is not a well-formed plotfile: {type(e).__name__}: {e}"
        if d:
            bad.append(f"the combined plotfile of {os.path.basename(r)}: {d}")

elif tool == 'taste':
    a, b = two_plotfiles()
    os.chdir(runs[0])
    diskimg.write_image(diskimg.image_of(a), 'plt00100')
    for nofail in (True, False):
        res = outcome(lambda: bool(Taster('plt00100', nofail=nofail, verbose=0)))
        if res != ('ok', True):
            bad.append(f"a well-formed plotfile given by a relative path is not reported good: {res}")
    os.chdir(runs[1])
    img = diskimg.image_of(b)
    lv = rng.randrange(b.nlevels)
    fn = sorted(img['dirs'][f'Level_{lv}']['files'])[0]
    content = img['dirs'][f'Level_{lv}']['files'][fn]
    img['dirs'][f'Level_{lv}']['files'][fn] = content[:len(content) - 8 * rng.randint(1, 5)]      # truncated payload
    diskimg.write_image(img, 'plt00100')
    res = outcome(lambda: bool(Taster('plt00100', nofail=True, verbose=0)))
    if res != ('ok', False):
        bad.append(f"a plotfile with a truncated binary file, same relative name in another directory: non-failing mode gave {res}")
    res = outcome(lambda: bool(Taster('plt00100', nofail=False, verbose=0)))
    if res[0] != 'raised':
        bad.append(f"a plotfile with a truncated binary file, same relative name in another directory: failing mode gave {res}")

elif tool == 'reader':
    pfs = two_plotfiles()
    keys = c01.reader_keys(pfs[0].fields)
    for r, pf in zip(runs, pfs):
        os.chdir(r)
        diskimg.write_image(diskimg.image_of(pf), 'plt00010')
        pck = PlotfileCooker('plt00010')
        for lv in range(pf.nlevels):
            n = len(pf.levels[lv].boxes)
            want = sorted(np.asarray(d[..., 0], dtype='<f8').tobytes(order='F') for d in pf.levels[lv].data)
            res = outcome(lambda: sorted(np.asarray(x).tobytes(order='F') for x in pck[keys[0]][lv]))
            if res != ('ok', want):
                bad.append(f"iterating level {lv} of the plotfile of {os.path.basename(r)} (relative path) did not yield its boxes: "
                           + (res[1] if res[0] != 'ok' else f"{len(res[1])} arrays, {sum(1 for x in res[1] if x in want)} of them this plotfile's"))
            sel = list(range(n))[::-1]
            res = outcome(lambda: [np.asarray(x).tobytes(order='F') for x in pck[keys[0]][lv].iter(sel)])
            wants = [np.asarray(pf.levels[lv].data[b][..., 0], dtype='<f8').tobytes(order='F') for b in sel]
            if res != ('ok', wants):
                bad.append(f"iter(selection) on level {lv} of the plotfile of {os.path.basename(r)} (relative path) did not yield the selected boxes")

elif tool == 'chk2plt':
    chks = [genchk.gen_checkpoint(rng, nlevels=1), None]
    import copy
    chks[1] = copy.deepcopy(chks[0])
    for lev in chks[1].levels:
        for sub, arrs in lev['data'].items():
            for k, a in enumerate(arrs):
                arrs[k] = np.asfortranarray(a * 1.5 + 0.25)
    for r, c in zip(runs, chks):
        os.chdir(r)
        genchk.write_checkpoint(c, 'chk00007')
        res = outcome(lambda: chk2plt('chk00007', species=list(c.species), gradp=False, species_reactions=False, floor_massfracs=False,
                                      pltdir='converted') and None)
        if res[0] != 'ok':
            bad.append(f"chk2plt with relative paths in {os.path.basename(r)} raised: {res[1]}")
    for r, c in zip(runs, chks):
        try:
            d = c17.check_contents(oracle.contents_of_image(oracle.read_image(os.path.join(r, 'converted'))), c, False, False, False)
        except Exception as e:      # noqa
            d = f"output is not a well-formed plotfile: {type(e).__name__}: {e}"
        if d:
            bad.append(f"the converted plotfile of {os.path.basename(r)}: {d}")
    stray = [x for x in os.listdir(os.path.join(root, 'elsewhere'))]
    if stray:
        bad.append(f"entries were created in the directory the process was in when amr_kitchen was imported: {stray[:4]}")

else:
    bad.append('unknown tool ' + tool)

for b_ in bad:
    print('BAD: ' + b_, flush=True)
print('DONE', flush=True)
os._exit(0)
