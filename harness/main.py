import argparse
import importlib
import json
import os
import sys


def main():
    ap = argparse.ArgumentParser()
    ap.add_argument('pid')
    ap.add_argument('--tier', default=os.environ.get('VERIF_TIER', 'quick'), choices=['quick', 'thorough'])
    ap.add_argument('--replay')
    a = ap.parse_args()
    seed = int(os.environ.get('VERIF_SEED', '1'))
    mod = importlib.import_module('harness.props.' + a.pid.lower())
    if a.replay:
        sys.exit(mod.replay(json.load(open(a.replay))))
    sys.exit(mod.run(a.tier, seed))


if __name__ == '__main__':
    main()
