import argparse
import importlib
import json
import os
import sys


def main():
    ap = argparse.ArgumentParser()
    ap.add_argument('pid')
    ap.add_argument('--tier', default=os.environ.get('VERIF_TIER', 'quick'), choices=['quick', 'thorough'])
    ap.add_argument('--replay')
    a = ap.parse_args()
    seed = int(os.environ.get('VERIF_SEED', '1'))
    mod = importlib.import_module('harness.props.' + a.pid.lower())
    if a.replay:
        doc = json.load(open(a.replay))
        if hasattr(mod, 'replay'):
            sys.exit(mod.replay(doc))
        # generic replay: the case function named in the document (run_case by default) on the recorded case seed
        from harness import core
        core.worker_init(core.REPO, quiet=False)
        r = getattr(mod, doc.get('case_fn', 'run_case'))(int(doc['seed']))
        bad = r['violations'] + r['disagreements']
        for v in bad:
            print('REPLAY:', v.get('what'))
        sys.exit(1 if bad else 0)
    sys.exit(mod.run(a.tier, seed))


if __name__ == '__main__':
    main()
