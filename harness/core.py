"""Shared machinery of the checks: environment, controlled pool, worker
processes (implementation + extracted model), proof gate, known findings,
evidence and violation reporting."""
import collections
import concurrent.futures as cf
import hashlib
import json
import os
import pickle
import random
import re
import shutil
import subprocess
import sys
import tempfile
import time
import traceback

VERIF = os.path.dirname(os.path.dirname(os.path.abspath(__file__)))
COQ = os.path.join(VERIF, 'coq')
REPO = os.environ.get('VERIF_REPO', '/repo')
# runs against a scratch copy of the repository (seeded-change evaluation) keep
# their evidence and replays apart from the registered checks' files
OUT = VERIF if os.path.realpath(REPO) == '/repo' else os.path.join(VERIF, 'scratch', 'alt')
ALLOWED_AXIOMS = set()   # every property theorem is closed under the global context


# ------------------------------------------------------------------ pool

class CPool:
    """In-process stand-in for multiprocessing.Pool / pathos ProcessingPool.
    Arguments and results cross a pickle boundary as with real workers.
    policy['order']: 'identity' | 'reverse' | 'random' (execution = completion
    order of the tasks of each call); every call is logged."""
    policy = {'order': 'identity', 'seed': 0}
    log = []
    ncalls = 0

    def __init__(self, processes=None, *a, **k):
        if processes is not None and processes < 1:
            raise ValueError("Number of processes must be at least 1")      # as multiprocessing.Pool
        self._processes = processes or CPool.policy.get('processes') or os.cpu_count() or 1       # what multiprocessing.Pool records
        self._pending = []

    def __enter__(self):
        return self

    def __exit__(self, *a):
        self._flush()
        return False

    def close(self):
        self._flush()

    def join(self):
        self._flush()

    def terminate(self):
        self._flush()

    def clear(self):
        pass

    @staticmethod
    def _copy(x):
        try:
            return pickle.loads(pickle.dumps(x))
        except Exception:
            return x

    def _order(self, n):
        pol = CPool.policy
        CPool.ncalls += 1
        idx = list(range(n))
        if pol['order'] == 'reverse':
            idx.reverse()
        elif pol['order'] == 'random':
            random.Random(pol['seed'] * 1000003 + CPool.ncalls).shuffle(idx)
        elif pol['order'] == 'rotate':
            k = (pol['seed'] + 1) % max(n, 1)
            idx = idx[k:] + idx[:k]
        elif pol['order'] == 'lex':
            # the seed-th permutation in lexicographic order (mod n!): seeds 0..23 run every order of <= 4 tasks
            import math
            k = pol['seed'] % math.factorial(min(n, 12)) if n else 0
            pool_, idx = list(range(n)), []
            for j in range(n, 0, -1):
                f = math.factorial(j - 1)
                q, k = divmod(k, f) if j <= 12 else (0, k)
                idx.append(pool_.pop(q % len(pool_)))
        return idx

    def _run(self, f, tasks, kind, chunksize=1):
        if kind != 'apply_async':
            self._flush()
        tasks = list(tasks)
        n = len(tasks)
        if chunksize is None:
            # multiprocessing.Pool.map: tasks travel in chunks of ceil(n / (4 * workers)); one chunk is ONE pickle (objects
            # shared by its tasks stay shared on the worker's side) and its tasks run one after the other in one worker
            chunksize, extra = divmod(n, self._processes * 4)
            chunksize += 1 if extra else 0
        chunksize = max(1, chunksize)
        sent = {}
        if chunksize > 1:
            groups = [list(range(i, min(i + chunksize, n))) for i in range(0, n, chunksize)]
            order = [i for g in self._order(len(groups)) for i in groups[g]]
            for g in groups:
                for i, t in zip(g, self._copy([tasks[i] for i in g])):
                    sent[i] = t
        else:
            order = self._order(n)
        res = [None] * len(tasks)
        audit = CPool.policy.get('audit')
        files = [None] * len(tasks)
        for i in order:
            if audit:
                AUDIT['events'] = []
                AUDIT['on'] = True
            try:
                res[i] = ('ok', self._copy(f(sent[i] if i in sent else self._copy(tasks[i]))))
            except Exception as e:   # transported to the parent like a real pool
                res[i] = ('exc', e)
            if audit:
                AUDIT['on'] = False
                files[i] = list(AUDIT['events'])
        entry = {'kind': kind, 'fun': getattr(f, '__name__', str(f)), 'ntasks': len(tasks), 'order': order}
        if CPool.policy.get('capture'):
            entry['results'] = [r[1] if r[0] == 'ok' else None for r in res]
        if audit:
            entry['files'] = files
        CPool.log.append(entry)
        return order, res

    @staticmethod
    def _unwrap(r):
        if r[0] == 'exc':
            raise r[1]
        return r[1]

    def map(self, f, it, chunksize=None):
        _, res = self._run(f, it, 'map', chunksize)
        return [self._unwrap(r) for r in res]

    def imap(self, f, it, chunksize=1):
        _, res = self._run(f, it, 'imap')
        return (self._unwrap(r) for r in res)

    def imap_unordered(self, f, it, chunksize=1):
        order, res = self._run(f, it, 'imap_unordered')
        return (self._unwrap(res[i]) for i in order)

    def uimap(self, f, it):
        return self.imap_unordered(f, it)

    def starmap(self, f, it, chunksize=None):
        return self.map(lambda a: f(*a), it, chunksize)

    # ---- asynchronous submissions: queued, and run (in the policy's order) at the next synchronisation point -
    # a result being waited for or fetched, another pool call, close / join / terminate / leaving a with block
    class _Async:
        def __init__(self, pool):
            self._pool, self._r = pool, None

        def _done(self):
            if self._r is None:
                self._pool._flush()

        def get(self, timeout=None):
            self._done()
            return CPool._unwrap(self._r)

        def wait(self, timeout=None):
            self._done()

        def ready(self):
            self._done()
            return True

        def successful(self):
            self._done()
            return self._r[0] == 'ok'

    def _flush(self):
        pend = getattr(self, '_pending', [])
        self._pending = []
        if not pend:
            return
        order, res = self._run(lambda t: t[0](*t[1], **t[2]), [(f, a, k) for (f, a, k, _, _, _) in pend], 'apply_async')
        for i in order:
            _, _, _, cb, ecb, ar = pend[i]
            ar._r = res[i]
            if res[i][0] == 'ok' and cb:
                cb(res[i][1])
            if res[i][0] == 'exc' and ecb:
                ecb(res[i][1])

    def apply_async(self, func, args=(), kwds=None, callback=None, error_callback=None):
        ar = CPool._Async(self)
        if not hasattr(self, '_pending'):
            self._pending = []
        self._pending.append((func, tuple(args), dict(kwds or {}), callback, error_callback, ar))
        return ar

    def apply(self, func, args=(), kwds=None):
        return self.apply_async(func, args, kwds).get()

    def map_async(self, f, it, chunksize=None, callback=None, error_callback=None):
        ar = CPool._Async(self)
        try:
            ar._r = ('ok', self.map(f, it))
            if callback:
                callback(ar._r[1])
        except Exception as e:
            ar._r = ('exc', e)
            if error_callback:
                error_callback(e)
        return ar


_REAL = {}


def install_pool(mode='controlled'):
    """mode 'controlled' -> CPool everywhere; 'real' -> original pools."""
    import multiprocessing
    import importlib
    if not _REAL:
        _REAL['mp'] = multiprocessing.Pool
    mods = []
    for name in ('amr_kitchen.chk2plt.chk2plt', 'amr_kitchen.chef.chef'):
        try:
            m = importlib.import_module(name)
            mods.append(m)
            _REAL.setdefault(name, getattr(m, 'Pool', None))
        except Exception:
            pass
    if mode == 'controlled':
        multiprocessing.Pool = CPool
        for m in mods:
            if hasattr(m, 'Pool'):
                m.Pool = CPool
    else:
        multiprocessing.Pool = _REAL['mp']
        for m in mods:
            if _REAL.get(m.__name__) is not None:
                m.Pool = _REAL[m.__name__]


AUDIT = {'on': False, 'events': [], 'installed': False}


def _audit_hook(event, args):
    if AUDIT['on'] and event == 'open' and args and isinstance(args[0], (str, bytes)):
        mode = args[1] if len(args) > 1 and isinstance(args[1], str) else 'r'
        path = args[0].decode() if isinstance(args[0], bytes) else args[0]
        AUDIT['events'].append((os.path.abspath(path), 'w' if any(c in mode for c in 'wax+') else 'r'))


def set_policy(order='identity', seed=0, capture=False, audit=False):
    if audit and not AUDIT['installed']:
        sys.addaudithook(_audit_hook)
        AUDIT['installed'] = True
    CPool.policy = {'order': order, 'seed': seed, 'capture': capture, 'audit': audit}
    CPool.ncalls = 0
    CPool.log = []


# ------------------------------------------------------------------ workers

W = {}   # per-worker state


def worker_init(repo, quiet=True, scratch_root=None):
    os.environ.setdefault('MPLBACKEND', 'Agg')
    sys.path.insert(0, repo)
    sys.path.insert(0, VERIF)
    if quiet:
        dn = os.open(os.devnull, os.O_WRONLY)
        os.dup2(dn, 1)
        os.dup2(dn, 2)
    import warnings
    warnings.filterwarnings('ignore')
    import amr_kitchen  # noqa: F401  (from VERIF_REPO)
    assert os.path.realpath(os.path.dirname(os.path.dirname(amr_kitchen.__file__))) == os.path.realpath(repo), \
        f"amr_kitchen imported from {amr_kitchen.__file__}, expected {repo}"
    install_pool('controlled')
    from harness.sx import Model
    W['model'] = Model()
    W['scratch'] = tempfile.mkdtemp(prefix='akv_', dir=scratch_root)
    import atexit
    atexit.register(lambda: shutil.rmtree(W['scratch'], ignore_errors=True))


ALIVE = []


def kept_alive(obj):
    """the tool object stays referenced (as in a user's script: cld = Colander(...); cld.strain()) while its output is
    read - whatever it still holds open or buffered is not released by garbage collection; the last few are kept"""
    ALIVE.append(obj)
    del ALIVE[:-4]
    return obj


def scratch_dir(tag):
    # digits are dropped from the tag on purpose: within one worker process
    # successive cases REUSE the same paths, so state kept by the
    # implementation across calls (caches keyed by path, open handles) meets
    # different contents at the same path
    d = os.path.join(W['scratch'], re.sub(r'\d+', '', tag))
    shutil.rmtree(d, ignore_errors=True)
    return d


def run_cases(fn, cases, nworkers=None, timeout=900):
    """Runs fn(case) for every case in worker processes; returns the list of
    results (exceptions in the harness itself are re-raised)."""
    nworkers = nworkers or min(14, os.cpu_count() or 4, max(1, len(cases)))
    # worker processes leave through os._exit (no atexit): the parent owns and removes the scratch root
    scratch_root = tempfile.mkdtemp(prefix='akvroot_')
    ex = cf.ProcessPoolExecutor(max_workers=nworkers, initializer=worker_init, initargs=(REPO, True, scratch_root))
    out = []
    failed = False
    try:
        futs = [ex.submit(fn, c) for c in cases]
        deadline = time.time() + timeout
        for c, f in zip(cases, futs):
            try:
                out.append(f.result(timeout=max(1, deadline - time.time())))
            except cf.TimeoutError:
                out.append({'hang': c})
                for p in list(getattr(ex, '_processes', {}).values()):
                    p.kill()
                break
            except BaseException:
                # a failure of the harness itself (a dead model driver ...): never wait for the other workers
                failed = True
                for p in list(getattr(ex, '_processes', {}).values()):
                    p.kill()
                raise
    finally:
        hung = failed or any(isinstance(o, dict) and 'hang' in o for o in out)
        ex.shutdown(wait=not hung, cancel_futures=True)
        shutil.rmtree(scratch_root, ignore_errors=True)
    return out


def outcome(fn):
    """Runs an implementation call; -> ('ok', value) | ('raises', type name)"""
    try:
        return ('ok', fn())
    except BaseException as e:   # SystemExit included (CLI tools)
        if isinstance(e, KeyboardInterrupt):
            raise
        return ('raises', type(e).__name__ + ': ' + str(e)[:200])


# ------------------------------------------------------------------ proofs

GREP_FORBIDDEN = re.compile(r'\b(Admitted|admit|Axiom|Parameter|Conjecture|Abort All)\b|Unset Guard|bypass_check|-type-in-type|Admit Obligations')


def strip_comments(text):
    out = []
    depth = 0
    i = 0
    while i < len(text):
        if text.startswith('(*', i):
            depth += 1
            i += 2
        elif text.startswith('*)', i) and depth > 0:
            depth -= 1
            i += 2
        else:
            if depth == 0:
                out.append(text[i])
            i += 1
    return ''.join(out)


def proof_gate(pid, thorough=False):
    """Re-checks Props/<pid>.v with coqc (all its dependencies are built by
    make), collects the Print Assumptions transcript and runs the textual
    gate.  Returns dict(ok, theorems, assumptions, problems, checker_cmd)."""
    problems = []
    t0 = time.time()
    mk = subprocess.run(['bash', '-c', f'cd {COQ} && ([ -f Makefile ] || coq_makefile -f _CoqProject -o Makefile >/dev/null) && timeout 1500 make -j8 2>&1 | tail -5'],
                        capture_output=True, text=True)
    if mk.returncode != 0 or 'Error' in mk.stdout:
        problems.append('make failed: ' + mk.stdout[-500:])
    src = os.path.join(COQ, 'theories', 'Props', pid + '.v')
    cmd = f'cd {COQ} && timeout 600 coqc -Q theories AK theories/Props/{pid}.v'
    r = subprocess.run(['bash', '-c', cmd], capture_output=True, text=True)
    if r.returncode != 0:
        problems.append('coqc failed: ' + (r.stdout + r.stderr)[-800:])
    text = strip_comments(open(src).read()) if os.path.exists(src) else ''
    theorems = re.findall(r'\b(?:Theorem|Corollary)\s+([A-Za-z0-9_\']+)', text)
    nprint = len(re.findall(r'Print Assumptions', text))
    closed = r.stdout.count('Closed under the global context')
    axioms = [l.strip() for l in r.stdout.splitlines() if re.match(r'^[A-Za-z_][\w\.]*\s*:', l) and 'Closed' not in l]
    axioms = [a for a in axioms if a.split(':')[0].strip() not in ALLOWED_AXIOMS]
    if nprint < len(theorems):
        problems.append(f'{len(theorems)} theorems but {nprint} Print Assumptions')
    if closed < nprint and r.returncode == 0:
        problems.append(f'only {closed}/{nprint} theorems closed under the global context; axioms: {axioms[:5]}')
    # textual gate on the whole development
    for root, _, files in os.walk(os.path.join(COQ, 'theories')):
        for fn in files:
            if fn.endswith('.v'):
                t = strip_comments(open(os.path.join(root, fn)).read())
                m = GREP_FORBIDDEN.search(t)
                if m:
                    problems.append(f'forbidden "{m.group(0)}" in {fn}')
                if re.search(r'^\s*(Hypothesis|Variable|Context)\b', t, re.M) and not re.search(r'^\s*Section\b', t, re.M):
                    problems.append(f'Hypothesis/Variable outside a section in {fn}')
    if thorough and not problems:
        ck = subprocess.run(['bash', '-c', f'cd {COQ} && timeout 1500 coqchk -silent -o -Q theories AK AK.Props.{pid} 2>&1 | tail -30'],
                            capture_output=True, text=True)
        if ck.returncode != 0 or 'Fatal' in ck.stdout or 'Error' in ck.stdout:
            problems.append('coqchk: ' + ck.stdout[-600:])
        cmd += ' ; coqchk -silent -o -Q theories AK AK.Props.' + pid
    return dict(ok=not problems, theorems=theorems, closed=closed, problems=problems,
                checker_cmd=f'make -C coq (full .vo build) ; coqc -Q theories AK theories/Props/{pid}.v' + (' ; coqchk -o' if thorough else ''),
                wall=time.time() - t0, transcript=r.stdout[-3000:])


# ------------------------------------------------------------------ two working directories, real pools

def two_dirs_case(pid, tool, seed):
    """runs harness.twodirs_child in a child process (real process pools, relative paths, a chdir between two runs of
    the same call on same-named inputs with other data) -> case result dict"""
    out = dict(evals=1, keys=[khash('two-dirs', tool, seed)], dist={f'case=relative paths in two working directories, real pools with a delayed end-of-tasks mark ({tool})': 1},
               samples=[], violations=[], disagreements=[])
    root = scratch_dir(f"twodirs_{tool}_{seed}")
    os.makedirs(root)
    env = dict(os.environ, PYTHONPATH=REPO + os.pathsep + VERIF)
    desc = dict(seed=seed, case_fn='two_dirs', tool=tool)
    try:
        r = subprocess.run([sys.executable, '-m', 'harness.twodirs_child', tool, str(seed), root], env=env, cwd=VERIF,
                           capture_output=True, text=True, timeout=240)
        lines = r.stdout.splitlines()
        bads = [l[5:] for l in lines if l.startswith('BAD: ')]
        if 'DONE' not in lines:
            bads.append('the scenario died: ' + (r.stderr.strip().splitlines() or ['?'])[-1][:300])
    except subprocess.TimeoutExpired:
        bads = ['the scenario (real pools, end-of-tasks mark of every imap delayed by 0.2 s) did not terminate within 240 s']
    for b in bads[:3]:
        out['violations'].append(dict(desc, kind='two-dirs', what=b))
    return out


# ------------------------------------------------------------------ findings

def with_corpus(pid, cases):
    """corpus/<pid>.json holds case seeds kept from earlier failures (inputs
    that distinguished a seeded or real defect): they run first, on every run"""
    p = os.path.join(VERIF, 'corpus', pid + '.json')
    if not os.path.exists(p):
        return cases
    with open(p) as f:
        seeds = [int(s) for s in json.load(f).get('seeds', [])]
    seen = set(cases)
    return [s for s in dict.fromkeys(seeds) if s not in seen] + cases


def known_findings(pid):
    """lines 'known: property=Cxx key=<key> <text>' of KNOWN_FINDINGS.txt"""
    out = {}
    p = os.path.join(VERIF, 'KNOWN_FINDINGS.txt')
    if os.path.exists(p):
        for line in open(p):
            m = re.match(r'known:\s+property=(\S+)\s+key=(\S+)\s+(.*)', line.strip())
            if m and m.group(1) == pid:
                out[m.group(2)] = m.group(3)
    return out


# ------------------------------------------------------------------ reporting

class Report:
    def __init__(self, pid, tier, seed):
        self.pid, self.tier, self.seed = pid, tier, seed
        self.t0 = time.time()
        import glob
        for old in glob.glob(os.path.join(OUT, "replay", pid + "_*.json")):
            os.remove(old)
        self.evals = 0
        self.keys = set()
        self.dist = collections.Counter()
        self.samples = []
        self.violations = []        # (replay dict, has_failing_input)
        self.known_hits = collections.Counter()
        self.obligations = []       # (name, discharged bool)
        self.notes = []
        self.extra = {}

    def merge(self, r):
        """merge a worker result dict"""
        if 'hang' in r:
            self.violations.append(({'kind': 'hang', 'case': r['hang'],
                                     'what': 'implementation did not terminate within the time limit'}, True))
            return
        self.evals += r.get('evals', 0)
        self.keys.update(r.get('keys', []))
        self.dist.update(r.get('dist', {}))
        for s in r.get('samples', []):
            if len(self.samples) < 6:
                self.samples.append(s)
        for v in r.get('violations', []):
            self.violations.append((v, True))
        for v in r.get('disagreements', []):
            self.violations.append((v, False))
        self.known_hits.update(r.get('known', {}))
        for k, v in r.get('extra', {}).items():
            self.extra[k] = self.extra.get(k, 0) + v

    def obligation(self, name, ok):
        self.obligations.append((name, bool(ok)))

    def finish(self, level_rule, trusted_base, assumptions, checker_cmd, known=None):
        known = known or {}
        os.makedirs(os.path.join(OUT, 'evidence'), exist_ok=True)
        os.makedirs(os.path.join(OUT, 'replay'), exist_ok=True)
        for key, n in sorted(self.known_hits.items()):
            print(f"KNOWN-FINDING: property={self.pid} {key}: {known.get(key, '')} ({n} cases)")
        nviol = 0
        # failing inputs first; one VIOLATION line per distinct kind
        seen = set()
        for v, concrete in sorted(self.violations, key=lambda x: not x[1]):
            kind = (v.get('kind'), concrete)
            if kind in seen:
                continue
            seen.add(kind)
            nviol += 1
            path = os.path.join(OUT, 'replay', f"{self.pid}_{len(seen)}.json")
            with open(path, 'w') as f:
                json.dump({'property': self.pid, 'seed': self.seed, 'tier': self.tier,
                           'failing_input_found': concrete, **v}, f, indent=1, default=repr)
            print(f"VIOLATION property={self.pid} replay={path}" + ('' if concrete else ' no-failing-input-found'))
        failed_obl = [n for n, ok in self.obligations if not ok]
        ev = {
            'property_id': self.pid, 'tier': self.tier, 'seed': self.seed, 'level': 'proof',
            'coverage': {
                'obligations': len(self.obligations),
                'discharged': sum(1 for _, ok in self.obligations if ok),
                'obligation_names': [n for n, _ in self.obligations],
                'failed_obligations': failed_obl,
                'checker_cmd': checker_cmd,
                'trusted_base': trusted_base,
                'evaluations': self.evals,
                'distinct_nontrivial': len(self.keys),
                'rule': level_rule,
                'samples': self.samples[:6],
                'input_distribution': dict(sorted(self.dist.items())),
                'known_finding_hits': dict(self.known_hits),
                **self.extra,
            },
            'assumptions': assumptions,
            'wall_s': round(time.time() - self.t0, 2),
            'violations': nviol,
        }
        if self.notes:
            ev['coverage']['notes'] = self.notes
        with open(os.path.join(OUT, 'evidence', self.pid + '.json'), 'w') as f:
            json.dump(ev, f, indent=1, default=repr)
        return 1 if nviol else 0


def khash(*parts):
    return hashlib.sha1(repr(parts).encode()).hexdigest()[:16]


COMMON_TRUSTED = [
    "Coq 8.16.1 kernel (coqc; coqchk -o in the thorough tier); vm_compute used only in Examples and refutation witnesses; no native_compute",
    "axioms: none - every theorem of the Props file prints 'Closed under the global context'",
    "extraction: ExtrOcamlBasic + ExtrOcamlString directives only (bool/option/list/prod/unit/sumbool -> OCaml built-ins, ascii -> char, string -> char list); Z/N/positive/nat stay inductive; OCaml 4.13.1",
    "coq/extract/driver.ml (hand-written sx parser/printer; decimal conversion by the extracted Coq functions)",
    "correspondence harness (Python): generators, independent plotfile writer/reader, canonicalisation, controlled in-process pool with pickle boundary",
    "modelled, not verified: numpy primitives (fromfile, reshape order='F', basic/fancy indexing, unique, argsort), Python text primitives (split, int, replace, f-strings), multiprocessing's map/imap ordering guarantee, the OS",
]
