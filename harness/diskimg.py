"""Directory images of plotfiles as data (token-structured text headers +
binary files), corruption operators on them, rendering to a real directory /
to the model's sx, and an independent consistency oracle."""
import copy
import os
import re
import numpy as np
from harness import gen


def tokens_of(text_str):
    lines = text_str.split('\n')
    assert lines[-1] == ''
    return [[t.encode() for t in l.split()] for l in lines[:-1]]


def image_of(pf, extra_ratio=0):
    img = {'header': tokens_of(gen.header_text(pf, extra_ratio)), 'dirs': {}}
    for lv, level in enumerate(pf.levels):
        files, loc = gen.level_files(level)
        img['dirs'][f"Level_{lv}"] = {'cellh': tokens_of(gen.cell_h_text(pf, lv, loc)), 'files': dict(files)}
    return img


def render_text(tokens):
    return b''.join(b' '.join(l) + b'\n' for l in tokens)


def write_image(img, path):
    os.makedirs(path)
    if img['header'] is not None:
        with open(os.path.join(path, 'Header'), 'wb') as f:
            f.write(render_text(img['header']))
    for name, d in img['dirs'].items():
        dp = os.path.join(path, name)
        os.makedirs(dp)
        if d['cellh'] is not None:
            with open(os.path.join(dp, 'Cell_H'), 'wb') as f:
                f.write(render_text(d['cellh']))
        for fn, content in d['files'].items():
            with open(os.path.join(dp, fn), 'wb') as f:
                f.write(content)
    return path


def image_sx(img):
    from harness.sx import opt
    dirs = []
    for name, d in img['dirs'].items():
        dirs.append([name.encode(), opt(d['cellh']), [[fn.encode(), c] for fn, c in d['files'].items()]])
    return [opt(img['header']), dirs]


# ------------------------------------------------------------ Cell_H structure

def cellh_layout(tokens):
    """line numbers of the parts of a (well-formed) Cell_H token list"""
    n = int(tokens[4][0].replace(b'(', b''))
    idx0 = 5
    fod0 = idx0 + n + 2
    return dict(n=n, nfields_line=2, count_line=4, idx=range(idx0, idx0 + n), close=idx0 + n,
                count2=idx0 + n + 1, fod=range(fod0, fod0 + n))


FAB_RE = re.compile(rb'^FAB \(\(8, \(64 11 52 0 1 12 0 1023\)\),\(8, \(8 7 6 5 4 3 2 1\)\)\)'
                    rb'\(\((-?\d+(?:,-?\d+)*)\) \((-?\d+(?:,-?\d+)*)\) \((\d+(?:,\d+)*)\)\) (\d+)\n$')


HDR_TAIL = re.compile(rb'(?:^|[\s(])\((-?\d+(?:,-?\d+)*)\) \((-?\d+(?:,-?\d+)*)\) \((\d+(?:,\d+)*)\)\) (\d+)\n$')


def scan_fabs(content):
    """strict sequential scan: list of (start, header_len, lo, hi, nc, data_len)
    or None when the file is not an exact sequence of FABs"""
    pos = 0
    out = []
    n = len(content)
    while pos < n:
        e = content.find(b'\n', pos)
        if e < 0:
            return None
        m = FAB_RE.match(content[pos:e + 1])
        if not m:
            return None
        lo = tuple(int(x) for x in m.group(1).split(b','))
        hi = tuple(int(x) for x in m.group(2).split(b','))
        nc = int(m.group(4))
        if len(lo) != len(hi) or any(h < l for l, h in zip(lo, hi)):
            return None
        size = 8 * nc * int(np.prod([h - l + 1 for l, h in zip(lo, hi)]))
        if e + 1 + size > n:
            return None
        out.append((pos, e + 1 - pos, lo, hi, nc, size))
        pos = e + 1 + size
    return out


def parse_cellh_strict(tokens, nfields):
    """-> list of (lo, hi, file, offset) or None"""
    try:
        if [t for t in tokens[2]] != [str(nfields).encode()]:
            return None
        lay = cellh_layout(tokens)
        n = lay['n']
        if tokens[lay['close']] != [b')'] or tokens[lay['count2']] != [str(n).encode()]:
            return None
        boxes = []
        for i in range(n):
            a, b, _ = tokens[lay['idx'][i]]
            lo = tuple(int(x) for x in a.replace(b'(', b'').replace(b')', b'').split(b','))
            hi = tuple(int(x) for x in b.replace(b'(', b'').replace(b')', b'').split(b','))
            tag, fn, off = tokens[lay['fod'][i]]
            if not re.fullmatch(rb'\d+', off):
                return None
            boxes.append((lo, hi, fn.decode(), int(off)))
        return boxes
    except Exception:
        return None


def consistent(img, nfields, limit):
    """Independent oracle for C04: the level headers of levels 0..limit and the
    binary files agree: every named file exists, is exactly a sequence of
    FABs with nfields components, the FABs are the boxes the level header
    assigns to the file in recorded-offset order, and at every recorded
    offset starts the FAB of that box."""
    for lv in range(limit + 1):
        d = img['dirs'].get(f"Level_{lv}")
        if d is None or d['cellh'] is None:
            return False, f"level {lv}: directory or level header missing"
        boxes = parse_cellh_strict(d['cellh'], nfields)
        if boxes is None:
            return False, f"level {lv}: level header entries missing or unparsable"
        byfile = {}
        for (lo, hi, fn, off) in boxes:
            byfile.setdefault(fn, []).append((off, lo, hi))
        for fn, lst in byfile.items():
            if fn not in d['files']:
                return False, f"level {lv}: binary file {fn} missing"
            fabs = scan_fabs(d['files'][fn])
            if fabs is None:
                return False, f"level {lv}: {fn} is not an exact sequence of FABs"
            lst.sort(key=lambda x: x[0])
            if len(fabs) != len(lst):
                return False, f"level {lv}: {fn} holds {len(fabs)} FABs for {len(lst)} boxes"
            for (start, hl, lo, hi, nc, size), (off, blo, bhi) in zip(fabs, lst):
                if nc != nfields:
                    return False, f"level {lv}: {fn} FAB with {nc} components"
                if (lo, hi) != (blo, bhi):
                    return False, f"level {lv}: {fn} FAB index range {lo}-{hi} vs level header {blo}-{bhi}"
                # "a byte position from which that box's FAB header can be read":
                # the line starting at the recorded offset ends where the FAB's
                # header ends and its tail still names the index range and count
                content = d['files'][fn]
                e = content.find(b'\n', off) if 0 <= off <= len(content) else -1
                m = HDR_TAIL.search(content[off:e + 1]) if e == start + hl - 1 else None
                if not m or (tuple(int(x) for x in m.group(1).split(b',')), tuple(int(x) for x in m.group(2).split(b',')),
                             int(m.group(4))) != (lo, hi, nc):
                    return False, f"level {lv}: {fn} the FAB header of box {blo}-{bhi} cannot be read from recorded offset {off} (FAB at {start})"
    return True, ''


# ------------------------------------------------------------ corruption operators
# each operator: (img, rng) -> (new img, description) or None when not applicable

def _pick_file(img, rng, limit):
    lv = rng.randint(0, limit)
    d = img['dirs'][f"Level_{lv}"]
    fn = rng.choice(sorted(d['files']))
    return lv, d, fn


def _fab_sites(content):
    return scan_fabs(content) or []


def op_delete_file(img, rng, limit):
    lv, d, fn = _pick_file(img, rng, limit)
    del d['files'][fn]
    return f"delete_file level={lv} file={fn}"


def op_truncate(img, rng, limit):
    lv, d, fn = _pick_file(img, rng, limit)
    c = d['files'][fn]
    fabs = _fab_sites(c)
    kind = rng.choice(['byte', 'mid', 'at_fab', 'in_header', 'one'])
    if kind == 'byte':
        pos = rng.randrange(len(c))
    elif kind == 'one':
        pos = len(c) - 1
    elif kind == 'at_fab' and len(fabs) > 1:
        pos = rng.choice(fabs[1:])[0]
    elif kind == 'in_header':
        s = rng.choice(fabs)
        pos = s[0] + rng.randrange(1, s[1])
    else:
        pos = len(c) - 8 * rng.randint(1, max(1, min(8, len(c) // 16)))
    d['files'][fn] = c[:max(pos, 0)]
    return f"truncate level={lv} file={fn} at={pos} of {len(c)} ({kind})"


def op_extend(img, rng, limit):
    lv, d, fn = _pick_file(img, rng, limit)
    extra = rng.choice([b'\x00' * 8, b'\x00', b'\n', b'x' * rng.randint(1, 40),
                        gen.fab_header((0, 0, 0), (0, 0, 0), 1), bytes(rng.getrandbits(8) for _ in range(16))])
    d['files'][fn] += extra
    return f"extend level={lv} file={fn} by {len(extra)} bytes"


def op_insert(img, rng, limit):
    lv, d, fn = _pick_file(img, rng, limit)
    c = d['files'][fn]
    s = rng.choice(_fab_sites(c))
    pos = s[0] + s[1] + (8 * rng.randrange(0, s[5] // 8 + 1) if rng.random() < 0.7 else rng.randrange(0, s[5] + 1))
    n = rng.choice([8, 8, 16, 1, 3, 64])
    d['files'][fn] = c[:pos] + bytes(rng.getrandbits(8) for _ in range(n)) + c[pos:]
    return f"insert level={lv} file={fn} pos={pos} n={n}"


def op_remove(img, rng, limit):
    lv, d, fn = _pick_file(img, rng, limit)
    c = d['files'][fn]
    s = rng.choice(_fab_sites(c))
    n = min(rng.choice([8, 8, 16, 1, 5]), s[5])
    pos = s[0] + s[1] + rng.randrange(0, s[5] - n + 1)
    d['files'][fn] = c[:pos] + c[pos + n:]
    return f"remove level={lv} file={fn} pos={pos} n={n}"


def _rewrite_fab_header(img, rng, limit, f):
    lv, d, fn = _pick_file(img, rng, limit)
    c = d['files'][fn]
    s = rng.choice(_fab_sites(c))
    lo, hi, nc = f(list(s[2]), list(s[3]), s[4])
    d['files'][fn] = c[:s[0]] + gen.fab_header(lo, hi, nc) + c[s[0] + s[1]:]
    return lv, fn, s[0]


def op_alter_shape(img, rng, limit):
    def f(lo, hi, nc):
        k = rng.randrange(len(hi))
        hi[k] += rng.choice([1, 2, -1]) if hi[k] > lo[k] else rng.choice([1, 2])
        return lo, hi, nc
    lv, fn, at = _rewrite_fab_header(img, rng, limit, f)
    return f"alter_shape level={lv} file={fn} fab_at={at}"


def op_alter_ncomp(img, rng, limit):
    lv, fn, at = _rewrite_fab_header(img, rng, limit, lambda lo, hi, nc: (lo, hi, nc + rng.choice([1, -1]) if nc > 1 else nc + 1))
    return f"alter_ncomp level={lv} file={fn} fab_at={at}"


def op_shift_fab_indices(img, rng, limit):
    def f(lo, hi, nc):
        k = rng.randrange(len(hi))
        s = rng.choice([1, -1, 2, 8])
        lo[k] += s
        hi[k] += s
        return lo, hi, nc
    lv, fn, at = _rewrite_fab_header(img, rng, limit, f)
    return f"shift_fab_indices level={lv} file={fn} fab_at={at} (same shape, other index range)"


def _cellh(img, rng, limit):
    lv = rng.randint(0, limit)
    d = img['dirs'][f"Level_{lv}"]
    return lv, d, cellh_layout(d['cellh'])


def op_shift_cellh_indices(img, rng, limit):
    lv, d, lay = _cellh(img, rng, limit)
    i = rng.randrange(lay['n'])
    line = d['cellh'][lay['idx'][i]]
    lo = [int(x) for x in line[0].replace(b'(', b'').replace(b')', b'').split(b',')]
    hi = [int(x) for x in line[1].replace(b'(', b'').replace(b')', b'').split(b',')]
    k = rng.randrange(len(lo))
    s = rng.choice([1, -1, 4])
    lo[k] += s
    hi[k] += s
    line[0] = b'((' + b','.join(str(x).encode() for x in lo) + b')'
    line[1] = b'(' + b','.join(str(x).encode() for x in hi) + b')'
    return f"shift_cellh_indices level={lv} box={i}"


def op_drop_index_line(img, rng, limit):
    lv, d, lay = _cellh(img, rng, limit)
    i = rng.randrange(lay['n'])
    del d['cellh'][lay['idx'][i]]
    return f"drop_index_line level={lv} box={i}"


def op_drop_fab_line(img, rng, limit):
    lv, d, lay = _cellh(img, rng, limit)
    i = rng.randrange(lay['n'])
    del d['cellh'][lay['fod'][i]]
    return f"drop_fab_line level={lv} box={i}"


def op_garble_entry(img, rng, limit):
    lv, d, lay = _cellh(img, rng, limit)
    i = rng.randrange(lay['n'])
    which = rng.choice(['idx_lo', 'idx_hi', 'offset', 'count', 'nfields', 'drop_token', 'extra_token'])
    bad = rng.choice([b'x7', b'@@', b'1.5', b'(a,b)', b'--3'])
    if which == 'idx_lo':
        d['cellh'][lay['idx'][i]][0] = b'((' + bad + b',0)'
    elif which == 'idx_hi':
        d['cellh'][lay['idx'][i]][1] = b'(' + bad + b')'
    elif which == 'offset':
        d['cellh'][lay['fod'][i]][2] = bad
    elif which == 'count':
        d['cellh'][lay['count2']] = [bad]
    elif which == 'nfields':
        d['cellh'][lay['nfields_line']] = [bad]
    elif which == 'drop_token':
        d['cellh'][lay['fod'][i]] = d['cellh'][lay['fod'][i]][:2]
    else:
        d['cellh'][lay['idx'][i]] = d['cellh'][lay['idx'][i]] + [b'9']
    return f"garble_entry level={lv} box={i} {which} -> {bad!r}"


def op_bad_file_name(img, rng, limit):
    lv, d, lay = _cellh(img, rng, limit)
    i = rng.randrange(lay['n'])
    others = sorted(set(d['files']) - {d['cellh'][lay['fod'][i]][1].decode()})
    if others and rng.random() < 0.5:
        new = rng.choice(others).encode()
    else:
        new = b'Cell_D_99999'
    d['cellh'][lay['fod'][i]][1] = new
    return f"bad_file_name level={lv} box={i} -> {new!r}"


def op_bad_offset(img, rng, limit):
    lv, d, lay = _cellh(img, rng, limit)
    i = rng.randrange(lay['n'])
    off = int(d['cellh'][lay['fod'][i]][2])
    size = len(d['files'].get(d['cellh'][lay['fod'][i]][1].decode(), b''))
    new = rng.choice([off + rng.randint(70, 200), off + 8 * rng.randint(10, 40), size, size + 5, off + size, max(0, off - rng.randint(70, 300)) if off else off + 97])
    d['cellh'][lay['fod'][i]][2] = str(new).encode()
    return f"bad_offset level={lv} box={i} {off} -> {new}"


def op_nudge_offset(img, rng, limit):
    """C20: a few bytes off (may stay inside the header line)"""
    lv, d, lay = _cellh(img, rng, limit)
    i = rng.randrange(lay['n'])
    off = int(d['cellh'][lay['fod'][i]][2])
    new = max(0, off + rng.choice([1, 2, 3, 5, 10, 20, 40, 55, 60, -1, -3, -8]))
    d['cellh'][lay['fod'][i]][2] = str(new).encode()
    return f"nudge_offset level={lv} box={i} {off} -> {new}"


def op_offset_into_data(img, rng, limit):
    """the recorded offset of a box points inside that box's own payload (the offsets keep their order)"""
    lv, d, lay = _cellh(img, rng, limit)
    i = rng.randrange(lay['n'])
    fn = d['cellh'][lay['fod'][i]][1].decode()
    off = int(d['cellh'][lay['fod'][i]][2])
    fabs = scan_fabs(d['files'].get(fn, b'')) or []
    hit = [f for f in fabs if f[0] == off]
    if not hit or hit[0][5] < 16:
        return None
    start, hl, lo, hi, nc, size = hit[0]
    new = start + hl + 8 * rng.randrange(1, size // 8)
    d['cellh'][lay['fod'][i]][2] = str(new).encode()
    return f"offset_into_data level={lv} box={i} {off} -> {new}"


def op_wrap_offset(img, rng, limit):
    """the recorded offset of a box plus a multiple of 2**32 (what a 32-bit wrap would map back onto the true offset)"""
    lv, d, lay = _cellh(img, rng, limit)
    i = rng.randrange(lay['n'])
    off = int(d['cellh'][lay['fod'][i]][2])
    new = off + rng.choice([1, 1, 2, 3]) * 2 ** 32
    d['cellh'][lay['fod'][i]][2] = str(new).encode()
    return f"wrap_offset level={lv} box={i} {off} -> {new}"


def op_edit_fab_text(img, rng, limit):
    """C20: byte-level edit of FAB header text keeping its length or not"""
    lv, d, fn = _pick_file(img, rng, limit)
    c = d['files'][fn]
    s = rng.choice(_fab_sites(c))
    h = c[s[0]:s[0] + s[1]]
    kind = rng.choice(['prefix', 'space', 'double_space', 'zero_tuple', 'case'])
    if kind == 'prefix':
        h2 = b'XAB' + h[3:]
    elif kind == 'space':
        h2 = h.replace(b')) ', b'))  ', 1)
    elif kind == 'double_space':
        h2 = h.replace(b') (', b')  (', 1)
    elif kind == 'zero_tuple':
        k = h.rfind(b'(0')
        h2 = h[:k] + b'(1' + h[k + 2:]
    else:
        h2 = h.replace(b'FAB ', b'fab ', 1)
    d['files'][fn] = c[:s[0]] + h2 + c[s[0] + s[1]:]
    return f"edit_fab_text level={lv} file={fn} fab_at={s[0]} {kind}"


def op_header_whitespace(img, rng, limit):
    """C20: whitespace in the text headers (rendering detail) - here: an extra
    token-free blank at a harmless place is not expressible in tokens, so we
    duplicate the trailing count line or add a trailing blank line"""
    lv, d, lay = _cellh(img, rng, limit)
    d['cellh'].append([])
    return f"header_whitespace level={lv} trailing blank line"


def op_alter_cellh_ncomp(img, rng, limit):
    lv, d, lay = _cellh(img, rng, limit)
    n = int(d['cellh'][lay['nfields_line']][0])
    d['cellh'][lay['nfields_line']] = [str(n + rng.choice([1, -1]) if n > 1 else n + 1).encode()]
    return f"alter_cellh_ncomp level={lv}"


def op_swap_offsets(img, rng, limit):
    """two boxes of the same file exchange their recorded offsets"""
    lv, d, lay = _cellh(img, rng, limit)
    byfile = {}
    for i in range(lay['n']):
        byfile.setdefault(d['cellh'][lay['fod'][i]][1], []).append(i)
    cands = [v for v in byfile.values() if len(v) >= 2]
    if not cands:
        return None
    a, b = rng.sample(rng.choice(cands), 2)
    la, lb = d['cellh'][lay['fod'][a]], d['cellh'][lay['fod'][b]]
    la[2], lb[2] = lb[2], la[2]
    return f"swap_offsets level={lv} boxes={a},{b}"


def op_dup_offset(img, rng, limit):
    """a box records the offset of ANOTHER box of the same file (two boxes
    then share one recorded offset)"""
    lv, d, lay = _cellh(img, rng, limit)
    byfile = {}
    for i in range(lay['n']):
        byfile.setdefault(d['cellh'][lay['fod'][i]][1], []).append(i)
    cands = [v for v in byfile.values() if len(v) >= 2]
    if not cands:
        return None
    a, b = rng.sample(rng.choice(cands), 2)
    d['cellh'][lay['fod'][b]][2] = d['cellh'][lay['fod'][a]][2]
    return f"dup_offset level={lv} box {b} records the offset of box {a}"


def op_pad_fab_header(img, rng, limit):
    """C20: blanks inserted into the header line of the FIRST FAB of a binary file (the validator reads that
    line as it is and compares only later ones byte for byte); the recorded offsets of the boxes behind it move
    along, so the directory stays consistent - with a header line of up to ~180 bytes"""
    lv, d, lay = _cellh(img, rng, limit)
    fn = rng.choice(sorted(d['files']))
    c = d['files'][fn]
    sites = _fab_sites(c)
    if not sites or sites[0][0] != 0:
        return None
    k = rng.choice([1, 7, 30, 45, 64, 90])
    d['files'][fn] = c[:3] + b' ' * k + c[3:]
    for i in range(lay['n']):
        ent = d['cellh'][lay['fod'][i]]
        if ent[1] == fn.encode() and int(ent[2]) > 0:
            ent[2] = str(int(ent[2]) + k).encode()
    return f"pad_fab_header level={lv} file={fn} {k} blanks after 'FAB' in the first header of the file"


C04_OPS = [op_delete_file, op_truncate, op_truncate, op_extend, op_insert, op_remove, op_alter_shape, op_alter_ncomp,
           op_shift_fab_indices, op_shift_cellh_indices, op_drop_index_line, op_drop_fab_line, op_garble_entry,
           op_bad_file_name, op_bad_offset, op_alter_cellh_ncomp, op_swap_offsets, op_dup_offset, op_dup_offset]
C20_OPS = [op_nudge_offset, op_nudge_offset, op_edit_fab_text, op_header_whitespace, op_pad_fab_header]


def corrupt(img, rng, limit, ops, n=1):
    img = copy.deepcopy(img)
    descs = []
    tries = 0
    while len(descs) < n and tries < 20:
        tries += 1
        op = rng.choice(ops)
        try:
            d = op(img, rng, limit)
        except (IndexError, ValueError, KeyError):
            d = None     # site not available any more after a previous corruption
        if d:
            descs.append(d)
    return img, descs
