"""Synthetic PeleLMeX checkpoints: abstract contents, independent writer of the
on-disk format (Header, Level_k/{state,gradp,I_R,divU,p}_H and _D_xxxxx)."""
import os
import random
import numpy as np
from harness import gen

SUBSETS = ('I_R', 'divU', 'gradp', 'p', 'state')


class CHK:
    def __init__(self):
        self.species = []
        self.nghost = 1
        self.time = 0.5
        self.step = 5
        self.int_line = False
        self.geo_low = [0.0, 0.0, 0.0]
        self.dx0 = [1.0, 1.0, 1.0]
        self.n0 = [4, 4, 4]
        self.levels = []        # per level: dict(boxes, data{subset: [arrays]}, files{subset: [(name, members)]})
        self.pressure = 101325.0
        self.meta = {}

    @property
    def nlevels(self):
        return len(self.levels)

    def dx(self, lv):
        return [d / 2 ** lv for d in self.dx0]

    def geo_high(self):
        return [lo + n * d for lo, n, d in zip(self.geo_low, self.n0, self.dx0)]

    def grid_size(self, lv):
        return [n * 2 ** lv for n in self.n0]


def gen_checkpoint(rng, nlevels=None, big=False):
    """big: one level, two boxes of which one is 32x32x24 cells with 3 ghost cells and 9 species (a state FAB above 4 MiB)"""
    c = CHK()
    nlevels = nlevels or rng.choice([1, 2, 2, 3])
    bf = rng.choice([2, 4])
    c.n0, mesh = gen.gen_mesh(rng, 3, nlevels, bf, max_blocks=2)
    c.species = rng.sample(['H2', 'O2', 'OH', 'N2', 'H2O', 'CH4', 'CH2(S)', 'C(S)', 'AR'], rng.randint(1, 4))   # names with brackets included
    c.nghost = rng.choice([1, 2, 3])
    if big:
        nlevels, bf = 1, 8
        c.n0 = [32, 32, 32]
        mesh = [[((0, 0, 0), (31, 31, 23)), ((0, 0, 24), (31, 31, 31))]]
        c.species = ['H2', 'O2', 'OH', 'N2', 'H2O', 'CH4', 'CH2(S)', 'C(S)', 'AR']
        c.nghost = 3
    c.time = rng.choice([0.49947225144556617, 1.5e-4, 12.25, 3.946824488833992e-12])
    rt = random.Random(repr(rng.getstate()[1][:8]))
    if rt.random() < 0.25:
        # times whose shortest spelling has no decimal point (the mantissa is a single digit), whole-number times (the
        # initial checkpoint is written at time 0)
        c.time = rt.choice([3e-06, 2e-05, 7e-10, 4e+20, 0.0, 0.0, 2.0, 12.0])
    c.step = rng.choice([0, 5, 70100])
    c.int_line = rng.random() < 0.4
    geo_stream = rng.choice(['exact', 'exact', 'decimal'])
    c.geo_low, c.dx0, geo_kind = gen.gen_geometry(rng, 3, geo_stream)
    ns = len(c.species)
    ncomp = {'state': 4 + ns + 3, 'gradp': 3, 'I_R': ns, 'divU': 1, 'p': 1}
    layouts = {}
    for boxes in mesh:
        lev = dict(boxes=boxes, data={}, files={})
        for sub in SUBSETS:
            arrs = []
            for lo, hi in boxes:
                g = c.nghost if sub in ('state', 'divU', 'p') else 0
                if sub == 'divU':
                    g = 1
                shape = [h - l + 1 + 2 * g for l, h in zip(lo, hi)]
                if sub == 'p':
                    shape = [s + 1 for s in shape]
                nval = int(np.prod(shape)) * ncomp[sub]
                if big:
                    a = np.random.default_rng(rng.getrandbits(32)).uniform(-50.0, 50.0, nval).reshape(tuple(shape) + (ncomp[sub],), order='F')
                else:
                    a = np.array([rng.uniform(-50.0, 50.0) for _ in range(nval)]).reshape(tuple(shape) + (ncomp[sub],), order='F')
                if sub == 'state':
                    # positive mass fractions
                    a[..., 4:4 + ns] = np.abs(a[..., 4:4 + ns]) / 100.0 + 0.01
                    # "quiet" boxes: the mass fractions of every cell already sum to one up to a few 1e-6 (not exactly)
                    rq = random.Random(repr(rng.getstate()[1][:6]) + str(len(arrs)))
                    if rq.random() < 0.3:
                        nq = np.random.default_rng(rq.getrandbits(32))
                        a[..., 4:4 + ns] /= np.sum(a[..., 4:4 + ns], axis=-1, keepdims=True)
                        a[..., 4:4 + ns] *= 1.0 + nq.uniform(-6e-6, 6e-6, a.shape[:-1] + (1,))
                        c.quiet = getattr(c, 'quiet', 0) + 1
                    elif ns >= 2 and rq.random() < 0.35:
                        # small undershoots: some cells hold a slightly NEGATIVE mass fraction of one species (the sum stays
                        # positive); rescaling divides it like the others, it is not clipped
                        nq = np.random.default_rng(rq.getrandbits(32))
                        hit = nq.random(a.shape[:-1]) < 0.15
                        which = nq.integers(0, ns, a.shape[:-1])
                        for sp in range(ns):
                            col = a[..., 4 + sp]
                            sel = hit & (which == sp)
                            col[sel] = -np.abs(col[sel]) * 1e-2
                        c.undershoot = getattr(c, 'undershoot', 0) + 1
                arrs.append(np.asfortranarray(a))
            lev['data'][sub] = arrs
            files, lk = gen.gen_layout(rng, len(boxes))
            files = [(name.replace('Cell', sub), mem) for name, mem in files]
            lev['files'][sub] = files
            layouts.setdefault(sub, []).append(lk)
        c.levels.append(lev)
    c.meta = dict(nlevels=nlevels, bf=bf, nspecies=ns, nghost=c.nghost, geo=geo_stream + '/' + geo_kind,
                  int_line=c.int_line, nboxes=[len(l['boxes']) for l in c.levels], layouts_state=layouts['state'],
                  layouts_gradp=layouts['gradp'], n0=c.n0, case='big' if big else 'generated', quiet_boxes=getattr(c, 'quiet', 0), undershoot_boxes=getattr(c, 'undershoot', 0),
                  time=c.time)
    return c


def fab_index_range(c, sub, lo, hi):
    g = c.nghost if sub in ('state', 'p') else (1 if sub == 'divU' else 0)
    flo = [l - g for l in lo]
    fhi = [h + g for h in hi]
    if sub == 'p':
        fhi = [h + 1 for h in fhi]
    return flo, fhi


def level_subset_files(c, lv, sub):
    lev = c.levels[lv]
    files = {}
    loc = [None] * len(lev['boxes'])
    for name, members in lev['files'][sub]:
        buf = bytearray()
        for b in members:
            loc[b] = (name, len(buf))
            lo, hi = lev['boxes'][b]
            flo, fhi = fab_index_range(c, sub, lo, hi)
            arr = lev['data'][sub][b]
            hdr = gen.fab_header(flo, fhi, arr.shape[-1])
            if sub == 'p':
                hdr = hdr.replace(b'(0,0,0))', b'(1,1,1))')
            buf += hdr + np.asarray(arr, dtype='<f8').tobytes(order='F')
        files[name] = bytes(buf)
    return files, loc


def subset_header_text(c, lv, sub, loc):
    lev = c.levels[lv]
    nb = len(lev['boxes'])
    arrs = lev['data'][sub]
    nf = arrs[0].shape[-1]
    g = c.nghost if sub in ('state', 'p') else (1 if sub == 'divU' else 0)
    out = ["1\n", "1\n", f"{nf}\n", f"{g}\n", f"({nb} 0\n"]
    for lo, hi in lev['boxes']:
        if sub == 'p':
            out.append(f"(({','.join(map(str, lo))}) ({','.join(str(h + 1) for h in hi)}) (1,1,1))\n")
        else:
            out.append(f"(({','.join(map(str, lo))}) ({','.join(map(str, hi))}) (0,0,0))\n")
    out.append(")\n")
    out.append(f"{nb}\n")
    for name, off in loc:
        out.append(f"FabOnDisk: {name} {off}\n")
    out.append("\n")
    out.append(f"{nb},{nf}\n")
    for b in range(nb):
        out.append(','.join(gen.minmax_token(np.min(arrs[b][..., k])) for k in range(nf)) + ',\n')
    out.append("\n")
    out.append(f"{nb},{nf}\n")
    for b in range(nb):
        out.append(','.join(gen.minmax_token(np.max(arrs[b][..., k])) for k in range(nf)) + ',\n')
    return ''.join(out)


def chk_header_text(c):
    out = ["Checkpoint version: 1\n", f"{c.nlevels - 1}\n", f"{c.step}\n"]
    if c.int_line:
        out.append("1\n")
    out.append(gen.fnum(c.time) + "\n")
    out.append("3.946824488833992e-12\n")
    out.append("3.5880222625763559e-12\n")
    out.append(' '.join(gen.fnum(x) for x in c.geo_low) + " \n")
    out.append(' '.join(gen.fnum(x) for x in c.geo_high()) + " \n")
    for lev in c.levels:
        out.append(f"({len(lev['boxes'])} 0\n")
        for lo, hi in lev['boxes']:
            out.append(f"(({','.join(map(str, lo))}) ({','.join(map(str, hi))}) (0,0,0))\n")
        out.append(")\n")
    out.append(f"{c.pressure:g}\n")
    out.append("0\n")
    out.append("0\n")
    for k in range(4 + len(c.species) + 3):
        out.append(repr(0.5 + 0.001 * k) + "\n")
    return ''.join(out)


def write_checkpoint(c, path):
    os.makedirs(path)
    with open(os.path.join(path, 'Header'), 'w') as f:
        f.write(chk_header_text(c))
    for lv in range(c.nlevels):
        d = os.path.join(path, f"Level_{lv}")
        os.makedirs(d)
        for sub in SUBSETS:
            files, loc = level_subset_files(c, lv, sub)
            for name, content in files.items():
                with open(os.path.join(d, name), 'wb') as f:
                    f.write(content)
            with open(os.path.join(d, f"{sub}_H"), 'w') as f:
                f.write(subset_header_text(c, lv, sub, loc))
    return path


def expected_fields(c, gradp, reactions):
    f = ['x_velocity', 'y_velocity', 'z_velocity', 'density'] + [f'Y({s})' for s in c.species] + ['rhoh', 'temp', 'RhoRT']
    if gradp:
        f += ['gradpx', 'gradpy', 'gradpz']
    if reactions:
        f += [f'I_R({s})' for s in c.species]
    return f


def expected_box(c, lv, b, gradp, reactions, floor):
    """what the converted box must hold: interior of the state (mass fractions
    rescaled when flooring), then gradp, then I_R"""
    lev = c.levels[lv]
    g = c.nghost
    st = np.array(lev['data']['state'][b][g:-g, g:-g, g:-g, :], order='F')
    ns = len(c.species)
    if floor:
        ys = np.sum(st[..., 4:4 + ns], axis=-1)
        st[..., 4:4 + ns] /= ys[..., np.newaxis]
    parts = [st]
    if gradp:
        parts.append(lev['data']['gradp'][b])
    if reactions:
        parts.append(lev['data']['I_R'][b])
    return np.concatenate(parts, axis=-1)
