"""Independent reader of the plotfile format (never uses PlotfileCooker):
directory -> image (token-structured text + binary files) and -> abstract
contents (fields, geometry, boxes keyed by index range, per-box data and
min/max rows)."""
import os
import re
import numpy as np
from harness import diskimg


def read_tokens(path):
    with open(path, 'rb') as f:
        data = f.read()
    lines = data.split(b'\n')
    if lines and lines[-1] == b'':
        lines = lines[:-1]
    return [l.split() for l in lines]


def read_image(path):
    img = {'header': None, 'dirs': {}}
    hp = os.path.join(path, 'Header')
    if os.path.exists(hp):
        img['header'] = read_tokens(hp)
    for name in sorted(os.listdir(path)):
        dp = os.path.join(path, name)
        if os.path.isdir(dp):
            d = {'cellh': None, 'files': {}}
            for fn in sorted(os.listdir(dp)):
                fp = os.path.join(dp, fn)
                if fn == 'Cell_H':
                    d['cellh'] = read_tokens(fp)
                elif os.path.isfile(fp):
                    with open(fp, 'rb') as f:
                        d['files'][fn] = f.read()
            img['dirs'][name] = d
    return img


def _ints(tok):
    return tuple(int(x) for x in tok.replace(b'(', b'').replace(b')', b'').split(b','))


def contents_of_image(img):
    """strict parse; raises ValueError on anything unexpected"""
    h = img['header']
    if h is None:
        raise ValueError('no Header')
    pos = 0
    version = h[pos]; pos += 1
    nf = int(h[pos][0]); pos += 1
    fields = [b' '.join(h[pos + i]).decode() for i in range(nf)]; pos += nf
    ndims = int(h[pos][0]); pos += 1
    time = float(h[pos][0]); pos += 1
    maxlv = int(h[pos][0]); pos += 1
    geo_low = [float(x) for x in h[pos]]; pos += 1
    geo_high = [float(x) for x in h[pos]]; pos += 1
    factors = [int(x) for x in h[pos]]; pos += 1
    grid = [_ints(t) for t in h[pos][1::3]]; pos += 1
    steps = [int(x) for x in h[pos]]; pos += 1
    dx = []
    for _ in range(maxlv + 1):
        dx.append([float(x) for x in h[pos]]); pos += 1
    pos += 1   # coordinate system
    if h[pos] != [b'0']:
        raise ValueError('no 0 line')
    pos += 1
    if len(grid) != maxlv + 1 or len(geo_low) != ndims or len(geo_high) != ndims:
        raise ValueError('global header inconsistent')
    levels = []
    for lv in range(maxlv + 1):
        l, n, t = h[pos]; pos += 1
        if int(l) != lv:
            raise ValueError('level line')
        n = int(n)
        lvtime = float(t)
        pos += 1
        bounds = []
        for b in range(n):
            bb = []
            for d in range(ndims):
                lo, hi = h[pos]; pos += 1
                bb.append((float(lo), float(hi)))
            bounds.append(bb)
        celldir = b' '.join(h[pos]).decode().split('/')[0]; pos += 1
        d = img['dirs'].get(celldir)
        if d is None or d['cellh'] is None:
            raise ValueError(f'level {lv}: no level header')
        c = d['cellh']
        if c[2] != [str(nf).encode()]:
            raise ValueError(f'level {lv}: field count in level header')
        boxes = diskimg.parse_cellh_strict(c, nf)
        if boxes is None or len(boxes) != n:
            raise ValueError(f'level {lv}: level header does not parse / box count')
        lay = diskimg.cellh_layout(c)
        r0 = lay['fod'][-1] + 1 if n else lay['count2'] + 1
        # blank, "n,nf", n rows, blank, "n,nf", n rows
        if c[r0] != [] or c[r0 + 1] != [f"{n},{nf}".encode()]:
            raise ValueError(f'level {lv}: min table header')
        mins = [row_of(c[r0 + 2 + i], nf) for i in range(n)]
        r1 = r0 + 2 + n
        if c[r1] != [] or c[r1 + 1] != [f"{n},{nf}".encode()]:
            raise ValueError(f'level {lv}: max table header')
        maxs = [row_of(c[r1 + 2 + i], nf) for i in range(n)]
        if len(c) != r1 + 2 + n:
            raise ValueError(f'level {lv}: trailing lines in level header')
        data = []
        layout = []
        for (lo, hi, fn, off) in boxes:
            if len(lo) != ndims:
                raise ValueError('box dimension')
            content = d['files'].get(fn)
            if content is None:
                raise ValueError(f'level {lv}: missing {fn}')
            e = content.find(b'\n', off)
            m = diskimg.FAB_RE.match(content[off:e + 1])
            if not m or _ints(m.group(1)) != lo or _ints(m.group(2)) != hi or int(m.group(4)) != nf:
                raise ValueError(f'level {lv}: FAB header at {fn}:{off} does not name box {lo}-{hi} with {nf} components')
            shape = tuple(h_ - l_ + 1 for l_, h_ in zip(lo, hi)) + (nf,)
            size = 8 * int(np.prod(shape))
            raw = content[e + 1:e + 1 + size]
            if len(raw) != size:
                raise ValueError(f'level {lv}: short FAB payload')
            data.append(np.frombuffer(raw, dtype='<f8').reshape(shape, order='F'))
            layout.append((fn, off))
        for fn, content in d['files'].items():
            if diskimg.scan_fabs(content) is None:
                raise ValueError(f'level {lv}: {fn} is not an exact FAB sequence')
        nfabs = sum(len(diskimg.scan_fabs(cn)) for cn in d['files'].values())
        if nfabs != n:
            raise ValueError(f'level {lv}: {nfabs} FABs on disk for {n} boxes')
        levels.append(dict(boxes=[(lo, hi) for lo, hi, _, _ in boxes], bounds=bounds, data=data, mins=mins, maxs=maxs,
                           layout=layout, time=lvtime, celldir=celldir))
    if pos != len(h):
        raise ValueError('trailing lines in Header')
    return dict(version=version, fields=fields, ndims=ndims, time=time, geo_low=geo_low, geo_high=geo_high,
                factors=factors, grid=grid, steps=steps, dx=dx, levels=levels)


def row_of(line, nf):
    if nf == 0:
        if line not in ([b','], []):
            raise ValueError('empty min/max row expected')
        return []
    if len(line) != 1 or not line[0].endswith(b','):
        raise ValueError('min/max row')
    r = line[0].split(b',')[:-1]
    if len(r) != nf:
        raise ValueError('min/max row length')
    return r


def contents_of(path):
    return contents_of_image(read_image(path))


WORD_TOKEN = re.compile(rb'0(\d{24})e-99999')
FLOAT_RE = re.compile(rb'[+-]?(\d+\.\d*|\.\d+|\d+)([eE][+-]?\d+)?')


def _canon_piece(t):
    if t.startswith(b'w:') and len(t) == 18:        # bit pattern printed by the model (min/max of computed data)
        import struct
        return b'f:' + struct.unpack('>d', bytes.fromhex(t[2:].decode()))[0].hex().encode()
    m = WORD_TOKEN.fullmatch(t)
    if m:            # the model's stand-in for a printed float: "0", the 8 bytes of the value (most significant first, three
        import struct        # decimal digits each), "e-99999" - a float literal that no printed value can be
        d = m.group(1)
        return b'f:' + struct.unpack('>d', bytes(int(d[i:i + 3]) for i in range(0, 24, 3)))[0].hex().encode()
    if FLOAT_RE.fullmatch(t) and not re.fullmatch(rb'[+-]?\d+', t):
        return b'f:' + float(t).hex().encode()
    if t in (b'inf', b'-inf'):
        return b'f:' + float(t).hex().encode()
    return t


def canon_tokens(text):
    """token lines with float-valued tokens (also inside comma-separated
    min/max rows) replaced by their value (hex), so that str(float(x)) and
    the original spelling compare equal"""
    out = []
    for line in text:
        l2 = []
        for t in line:
            if b',' in t and not t.startswith(b'('):
                l2.append(b','.join(_canon_piece(x) for x in t.split(b',')))
            else:
                l2.append(_canon_piece(t))
        out.append(b' '.join(l2).split())
    return out


def same_image(a, b):
    """-> None or a description of the first difference"""
    ha = canon_tokens(a['header']) if a['header'] is not None else None
    hb = canon_tokens(b['header']) if b['header'] is not None else None
    if ha != hb:
        for i, (x, y) in enumerate(zip(ha or [], hb or [])):
            if x != y:
                return f"Header line {i}: {x} vs {y}"
        return f"Header: {len(ha or [])} vs {len(hb or [])} lines"
    if sorted(a['dirs']) != sorted(b['dirs']):
        return f"directories {sorted(a['dirs'])} vs {sorted(b['dirs'])}"
    for name in a['dirs']:
        da, db = a['dirs'][name], b['dirs'][name]
        ca = canon_tokens(da['cellh']) if da['cellh'] is not None else None
        cb = canon_tokens(db['cellh']) if db['cellh'] is not None else None
        if ca != cb:
            for i, (x, y) in enumerate(zip(ca or [], cb or [])):
                if x != y:
                    return f"{name}/Cell_H line {i}: {x} vs {y}"
            return f"{name}/Cell_H: {len(da['cellh'] or [])} vs {len(db['cellh'] or [])} lines"
        if sorted(da['files']) != sorted(db['files']):
            return f"{name}: files {sorted(da['files'])} vs {sorted(db['files'])}"
        for fn in da['files']:
            if da['files'][fn] != db['files'][fn]:
                return f"{name}/{fn}: binary content differs ({len(da['files'][fn])} vs {len(db['files'][fn])} bytes)"
    return None


def image_from_sx(sx):
    h, dirs = sx
    img = {'header': h[0] if h else None, 'dirs': {}}
    for name, ch, files in dirs:
        img['dirs'][name.decode()] = {'cellh': ch[0] if ch else None, 'files': {fn.decode(): c for fn, c in files}}
    return img
