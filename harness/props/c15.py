"""C15 - level iteration yields every box exactly once, whatever the schedule."""
import os
import random
from harness import core, gen
from harness.props import c01

PID = 'C15'


def valid_fsel(rng, keys):
    n = len(keys)
    kind = rng.choice(['name', 'names', 'int', 'list_asc', 'slice', 'slice_step', 'neg_int', 'list_any'])
    if kind == 'name':
        return kind, rng.choice(keys)
    if kind == 'names':
        return kind, sorted(set(rng.choice(keys) for _ in range(rng.randint(1, 3))), key=keys.index)
    if kind == 'int':
        return kind, rng.randrange(n)
    if kind == 'neg_int':
        return kind, rng.randint(-n, -1)
    if kind == 'list_asc':
        return kind, sorted(rng.sample(range(n), rng.randint(1, n)))
    if kind == 'list_any':
        return kind, [rng.randint(-n, n - 1) for _ in range(rng.randint(1, 4))]
    if kind == 'slice':
        a = rng.randint(0, n - 1)
        return kind, slice(a, rng.randint(a + 1, n))
    return kind, slice(rng.choice([None, 0, 1]), None, rng.choice([2, 3]))


def comps_of(keys, fsel):
    nf = len(keys)
    if isinstance(fsel, str):
        return keys.index(fsel)
    if isinstance(fsel, int):
        return fsel % nf
    if isinstance(fsel, slice):
        return list(range(nf))[fsel]
    if fsel and isinstance(fsel[0], str):
        return [keys.index(f) for f in fsel]
    return [f % nf for f in fsel]


def run_case(seed):
    from amr_kitchen import PlotfileCooker
    rng = random.Random(seed)
    model = core.W['model']
    out = dict(evals=0, keys=[], dist={}, samples=[], violations=[], disagreements=[])
    dist = out['dist']

    def count(k):
        dist[k] = dist.get(k, 0) + 1

    pf = gen.gen_plotfile(rng, max_blocks=rng.choice([2, 3]))
    keys = c01.reader_keys(pf.fields)
    path = core.scratch_dir(f"c15_{seed}")
    gen.write_plotfile(pf, path)
    lvs_sx = [gen.level_to_sx(pf, lv) for lv in range(pf.nlevels)]
    limit = pf.nlevels - 1
    count(f"ndims={pf.ndims}")
    count(f"levels={pf.nlevels}")
    pck = PlotfileCooker(path)
    for k in range(6):
        fkind, fsel = valid_fsel(rng, keys)
        lv = rng.randrange(pf.nlevels)
        nfiles = len(pf.levels[lv].files)
        count(f"fsel={fkind}")
        count(f"nfiles={min(nfiles, 5)}{'+' if nfiles >= 5 else ''}")
        count(f"layout={pf.meta['layouts'][lv]}")
        comps = comps_of(keys, fsel)
        expected = sorted(gen.arr_canon(d[..., comps]) for d in pf.levels[lv].data)
        st, mres = model.call('iter_all', [[x.encode() for x in keys], lvs_sx, c01.enc_fsel(fsel), limit, lv])
        mres = [[s, d] for s, d in mres] if st == 'ok' else None
        desc = dict(seed=seed, fsel=repr(fsel), level=lv, meta=pf.meta, fields=keys)
        orders = [('identity', 0), ('reverse', 0), ('random', seed + k), ('rotate', k)]
        seqs = []
        # half of the cases iterate ONE stream object again and again (every iteration must yield every box)
        shared = pck[fsel][lv] if k % 2 == 1 else None
        count(f"stream object reused={shared is not None}")
        for order, s in orders:
            core.set_policy(order, s)
            impl = core.outcome(lambda: [gen.arr_canon(a) for a in (shared if shared is not None else pck[fsel][lv])])
            out['evals'] += 1
            count(f"schedule={order}")
            ires = impl[1] if impl[0] == 'ok' else None
            seqs.append(ires)
            bad = None
            if ires is None:
                bad = 'iteration raised: ' + impl[1]
            elif sorted(ires) != expected:
                bad = (f'iteration yielded {len(ires)} arrays which are not each box of the level exactly once '
                       f'({len(expected)} boxes)')
            if bad:
                out['violations'].append(dict(desc, kind='iter-multiset', what=bad, schedule=[order, s],
                                              impl=c01.short(ires), expected=c01.short(expected),
                                              pool_log=core.CPool.log[-3:]))
                break
            if ires != mres:
                out['disagreements'].append(dict(desc, kind='iter-sequence', schedule=[order, s],
                                                 what='yielded sequence differs from the model (Level.stream_iter_all); the multiset is right',
                                                 correspondence='Reader.Level.stream_iter_all vs LevelDataStream.__iter__',
                                                 impl=c01.short(ires), model=c01.short(mres)))
                break
        core.set_policy('identity', 0)
        if nfiles >= 2:
            out['keys'].append(core.khash(seed, k))
        if not out['samples']:
            out['samples'].append(dict(desc, nboxes=len(expected), nfiles=nfiles, schedules=[o for o, _ in orders],
                                       first=c01.short(seqs[0][:1]) if seqs[0] else None))
        # on-demand iterator over a box selection: requested order
        bkind, bsel = c01.gen_bsel(rng, len(pf.levels[lv].boxes))
        count(f"iter_bsel={bkind}")
        core.set_policy(rng.choice(['identity', 'reverse', 'random']), seed)
        impl = core.outcome(lambda: c01.canon_result(pck[fsel][lv].iter(bsel) if isinstance(bsel, int)
                                                     else list(pck[fsel][lv].iter(bsel)), bsel))
        core.set_policy('identity', 0)
        out['evals'] += 1
        ires = impl[1] if impl[0] == 'ok' else None
        st, mres = model.call('getitem', [[x.encode() for x in keys], lvs_sx, c01.enc_fsel(fsel), limit, lv, c01.enc_bsel(bsel)])
        mres = [[s, d] for s, d in mres] if st == 'ok' else None
        must, exp = c01.oracle(pf, keys, fsel, lv, bsel, limit)
        bad = None
        if ires is not None and ires != exp:
            bad = 'iter(selection) did not yield the selected boxes in the requested order'
        elif ires is None and must == 'must':
            bad = 'iter(selection) raised on a valid selection: ' + impl[1]
        if bad:
            out['violations'].append(dict(desc, kind='iter-selection', what=bad, bsel=repr(bsel),
                                          impl=c01.short(ires), expected=c01.short(exp)))
        elif ires != mres:
            out['disagreements'].append(dict(desc, kind='iter-selection-model', bsel=repr(bsel),
                                             what='iter(selection) differs from the model; the property oracle holds',
                                             correspondence='Reader.Level.stream_getitem vs LevelDataStream.iter',
                                             impl=c01.short(ires) if ires is not None else impl[1], model=c01.short(mres)))
    return out


REAL_POOL_SCRIPT = r'''
import os, random, sys, tempfile, shutil
import numpy as np
from harness import gen
from amr_kitchen import PlotfileCooker
seed = int(sys.argv[1])
rng = random.Random(seed)
pf = gen.gen_plotfile(rng, nlevels=1, nfields=(2, 3), payload='ints')
d = tempfile.mkdtemp(dir=sys.argv[2])
p = os.path.join(d, 'plt')
gen.write_plotfile(pf, p)
n = len(pf.levels[0].boxes)
stream = PlotfileCooker(p)[0][0]
sels = [slice(0, 0), slice(n, n + 3), slice(n, 0), [], slice(0, n), list(range(n))[::-1], slice(None, None, 2)]
for sel in sels:
    got = [np.asarray(a) for a in stream.iter(sel)]
    want = [pf.levels[0].data[b][..., 0] for b in (range(n)[sel] if isinstance(sel, slice) else sel)]
    ok = len(got) == len(want) and all(g.shape == w.shape and g.tobytes(order='F') == np.asarray(w, dtype='<f8').tobytes(order='F') for g, w in zip(got, want))
    print('SEL', repr(sel), 'ok' if ok else 'WRONG', flush=True)
# the whole-level iterator with the real pool on a level spread over MANY binary files (more per-file tasks than workers:
# results keep arriving after the first one has been handed over)
nb = 2 * (os.cpu_count() or 4) + 7
pf2 = gen.PF()
pf2.ndims, pf2.fields, pf2.geo_low, pf2.dx0, pf2.n0, pf2.bf, pf2.meta = 3, ['a', 'b'], [0.0] * 3, [1.0] * 3, [2 * nb, 2, 2], 2, {}
lev = gen.Level()
for b in range(nb):
    lev.boxes.append(((2 * b, 0, 0), (2 * b + 1, 1, 1)))
    lev.data.append(np.asfortranarray(np.arange(16, dtype='<f8').reshape((2, 2, 2, 2), order='F') + 100.0 * b))
order = list(range(nb))
rng.shuffle(order)
lev.files = [("Cell_D_%05d" % k, [b]) for k, b in enumerate(order)]
pf2.levels = [lev]
p2 = os.path.join(d, 'plt_many_files')
gen.write_plotfile(pf2, p2)
want = sorted(np.asarray(a[..., 1], dtype='<f8').tobytes(order='F') for a in lev.data)
for rep in range(3):
    got = sorted(np.asarray(a, dtype='<f8').tobytes(order='F') for a in PlotfileCooker(p2)['b'][0])
    print('ALL', nb, 'files, pass', rep, 'ok' if got == want else 'WRONG', flush=True)
# ... and on a level held in ONE small binary file (one box), many times over: every read has finished before the pool is done
# feeding its tasks (a pool dropped at that moment dead-locks)
pf2.n0 = [2, 2, 2]
lev.boxes, lev.data, lev.files = lev.boxes[:1], lev.data[:1], [("Cell_D_00000", [0])]
want = want[:1] if want[0] == np.asarray(lev.data[0][..., 1], dtype='<f8').tobytes(order='F') else [np.asarray(lev.data[0][..., 1], dtype='<f8').tobytes(order='F')]
p3 = os.path.join(d, 'plt_one_file')
gen.write_plotfile(pf2, p3)
bad = 0
for rep in range(40):
    if rep == 20:
        # a schedule the operating system may choose at any time, forced here: the pool's task-feeding thread is descheduled
        # between handing out its last task and marking the end of the tasks - every result is back before the mark
        import multiprocessing.pool as mpp, time
        _set_length = mpp.IMapIterator._set_length
        def _late(self, length):
            time.sleep(0.05)
            return _set_length(self, length)
        mpp.IMapIterator._set_length = _late
    got = sorted(np.asarray(a, dtype='<f8').tobytes(order='F') for a in PlotfileCooker(p3)['b'][0])
    bad += got != want
    if rep >= 30:
        # the on-demand iterator under the same schedule
        st3 = PlotfileCooker(p3)['b'][0]
        bad += [np.asarray(a, dtype='<f8').tobytes(order='F') for a in st3.iter(slice(None))] != want
        bad += [np.asarray(a, dtype='<f8').tobytes(order='F') for a in st3.iter([0])] != want
    if rep % 10 == 9:
        print('ONE', 'file, passes', rep + 1, 'ok' if not bad else 'WRONG', flush=True)
print('DONE', flush=True)
'''


def real_pool_selection_case(seed):
    """the on-demand iterator with the REAL process pool (the controlled pool cannot show a hang): empty and non-empty
    box selections must be yielded and the iteration must END - run in a child process under a watchdog"""
    import subprocess
    import sys
    out = dict(evals=1, keys=[core.khash('real-pool-iter', seed)], dist={'case=on-demand iterator with the real pool (empty selections included), then the level iterator over 2 x CPUs + 7 binary files and 40 times over a one-file level (20 of them with a delayed end-of-tasks mark)': 1},
               samples=[], violations=[], disagreements=[])
    root = core.scratch_dir(f"c15_real_{seed}")
    os.makedirs(root)
    env = dict(os.environ, PYTHONPATH=core.REPO + os.pathsep + core.VERIF)
    desc = dict(seed=seed, case_fn='real_pool_selection_case')
    try:
        r = subprocess.run([sys.executable, '-c', REAL_POOL_SCRIPT, str(seed), root], env=env, capture_output=True, text=True, timeout=180)
        lines = [l for l in r.stdout.splitlines() if l.startswith(('SEL', 'ALL', 'ONE', 'DONE'))]
        if 'DONE' not in lines:
            out['violations'].append(dict(desc, kind='iter-selection', what='the on-demand iterator raised or died: ' + (r.stderr.strip().splitlines() or ['?'])[-1][:300]))
        elif any(l.endswith('WRONG') for l in lines):
            out['violations'].append(dict(desc, kind='iter-selection', what='with the real pool, iter(selection) did not yield the selected boxes in the requested order '
                                          'or the level iterator did not yield every box once: ' + '; '.join(l for l in lines if l.endswith('WRONG'))))
    except subprocess.TimeoutExpired as e:
        allout = (e.stdout.decode() if isinstance(e.stdout, bytes) else (e.stdout or '')).splitlines()
        done = [l for l in allout if l.startswith('SEL')]
        if len([l for l in allout if l.startswith('ALL')]) >= 3:
            what = ("iterating over a level held in one binary file with the real process pool, repeated 40 times (the last 20 with the pool's task-feeding thread delayed before its end-of-tasks mark), did not terminate "
                    f"within the watchdog's 180 s (passes completed before the hang: about {10 * len([l for l in allout if l.startswith('ONE')])})")
        elif len(done) >= 7:
            what = ("iterating over a level spread over many binary files with the real process pool did not terminate within 180 s "
                    f"(passes completed before the hang: {len([l for l in allout if l.startswith('ALL')])})")
        else:
            what = (f"iter(selection) with the real process pool did not terminate within 180 s (selections completed before the hang: {len(done)}; "
                    f"the next one is number {len(done)} of [empty slice, empty slice beyond the end, reversed-bounds slice, empty list, ...])")
        out['violations'].append(dict(desc, kind='iter-selection', what=what))
    return out


def huge_offset_case(_):
    """a binary file above 2 GiB (sparse): the on-demand iterator yields the box stored behind 2**31 bytes"""
    import numpy as np
    from amr_kitchen import PlotfileCooker
    out = dict(evals=1, keys=[core.khash('huge-offset')], dist={'case=binary file above 2 GiB': 1}, samples=[], violations=[], disagreements=[])
    path = os.path.join(core.scratch_dir('c15_huge'), 'plt_big')
    os.makedirs(os.path.dirname(path))
    pf, off1, small = gen.write_huge_offset_plotfile(path)
    desc = dict(case='binary file of 2 GiB + (sparse), second box at offset %d' % off1, case_fn='huge_offset_case', seed=0)
    want = np.asarray(small[..., 0], dtype='<f8').tobytes(order='F')
    for sel in ([1], slice(1, 2)):
        res = core.outcome(lambda: [np.asarray(a).tobytes(order='F') for a in PlotfileCooker(path)['temp'][0].iter(sel)])
        if res != ('ok', [want]):
            out['violations'].append(dict(desc, kind='iter-selection',
                                          what=f"iter({sel!r}) did not yield the box stored behind 2 GiB: " + (res[1] if res[0] != 'ok' else 'other data')))
            break
    return out


def two_dirs_reader(seed):
    return core.two_dirs_case(PID, 'reader', seed)


def run(tier, seed):
    rep = core.Report(PID, tier, seed)
    pg = core.proof_gate(PID, thorough=(tier == 'thorough'))
    for t in pg['theorems']:
        rep.obligation('theorem ' + t, pg['ok'])
    if not pg['ok']:
        rep.violations.append((dict(kind='proof', what='proof obligations of Props/C15.v no longer check',
                                    theorem=pg['theorems'], problems=pg['problems']), False))
    ncases = 40 if tier == 'quick' else 500
    cases = [seed * 100000 + 15000 + i for i in range(ncases)]
    for r in core.run_cases(run_case, core.with_corpus(PID, cases)):
        rep.merge(r)
    for r in core.run_cases(real_pool_selection_case, [seed * 100000 + 15900 + i for i in range(1 if tier == 'quick' else 4)]):
        rep.merge(r)
    for r in core.run_cases(huge_offset_case, [0]):
        rep.merge(r)
    for r in core.run_cases(two_dirs_reader, [seed * 100000 + 99000 + i for i in range(1 if tier == 'quick' else 5)]):
        rep.merge(r)
    rep.obligation('correspondence: Level.stream_iter_all = list(LevelDataStream.__iter__) under 4 completion orders',
                   not any(v[0].get('kind') == 'iter-sequence' for v in rep.violations))
    rep.obligation('correspondence: Level.stream_getitem = LevelDataStream.iter(selection)',
                   not any(v[0].get('kind') == 'iter-selection-model' for v in rep.violations))
    return rep.finish(
        level_rule=("cases = generated plotfile x 6 (valid field selector, level) pairs, each iterated under 4 task execution/completion "
                    "orders of the per-file read tasks (identity, reverse, random, rotation) plus one on-demand iter(selection); "
                    "non-trivial = level spread over >= 2 binary files; distinct = distinct (case seed, selector index)"),
        trusted_base=core.COMMON_TRUSTED,
        assumptions=["multiprocessing.Pool.imap yields results in submission order whatever the completion order (modelled by the controlled pool)",
                     "np.unique sorts file names as Level.np_unique does (byte order)"],
        checker_cmd=pg['checker_cmd'])
