"""C10 - whip's uniform grid is the covering grid of the chosen field."""
import os
import random
import sys
import numpy as np
from harness import core, gen
from harness.props import c01, c08

PID = 'C10'


def run_whip(path, variable, limit, dtype, outfile):
    import importlib
    cli = importlib.import_module('amr_kitchen.whip.cli')
    argv = ['whip', '-v', variable, '-y', '-o', outfile]
    if limit is not None:
        argv += ['-l', str(limit)]
    if dtype is not None:
        argv += ['-d', dtype]
    argv.append(path)
    old = sys.argv
    sys.argv = argv
    try:
        cli.main()
    finally:
        sys.argv = old
    return np.load(outfile + '.npy')


def run_case(seed):
    rng = random.Random(seed)
    model = core.W['model']
    out = dict(evals=0, keys=[], dist={}, samples=[], violations=[], disagreements=[])
    dist = out['dist']

    def count(k):
        dist[k] = dist.get(k, 0) + 1

    pf = gen.gen_plotfile(rng, ndims=3, payload=rng.choice(['ints', 'random', 'special']),
                          max_blocks=2, nfields=(1, 5), nlevels=rng.choice([1, 2, 2, 3]))
    keys = c01.reader_keys(pf.fields)
    # boxes whose values are all exactly zero (a field that vanishes in a region) above non-zero coarser data
    r2 = random.Random(seed * 433 + 3)
    nzero = 0
    if r2.random() < 0.5:
        for lev in pf.levels[1:] + pf.levels[:1]:
            for d in lev.data:
                if r2.random() < 0.4:
                    d[..., r2.randrange(d.shape[-1])] = 0.0
                    nzero += 1
    count(f"boxes with an all-zero field={'yes' if nzero else 'no'}")
    # binary file numbers beyond 99999 (AMReX then writes six digits), and field names that are decimal numbers
    if r2.random() < 0.3:
        lev = r2.choice(pf.levels)
        k = r2.randrange(len(lev.files))
        lev.files[k] = (f"Cell_D_{100000 + r2.randrange(900000)}", lev.files[k][1])
        count("a binary file with a six-digit number=yes")
    if r2.random() < 0.3 and len(pf.fields) >= 2:
        n = len(pf.fields)
        for pos, nm in zip(r2.sample(range(n), min(n, 3)), r2.sample([str(x) for x in range(n)], min(n, 3))):
            if nm not in pf.fields:
                pf.fields[pos] = nm
        keys = c01.reader_keys(pf.fields)
        count("field names that are decimal numbers=yes")
    r3 = random.Random(seed * 2953 + 17)
    kwname = None
    if r3.random() < 0.2:
        # a field called like a keyword of OTHER tools (mandoline's level map, the all-fields selector): for whip a name
        kwname = r3.choice(['grid_level', 'grid_level', 'all'])
        if kwname not in pf.fields:
            pf.fields[r3.randrange(len(pf.fields))] = kwname
        keys = c01.reader_keys(pf.fields)
    count(f"a field named like a keyword of other tools={kwname}")
    path = core.scratch_dir(f"c10_{seed}")
    gen.write_plotfile(pf, path)
    lv_sx = [gen.level_to_sx(pf, lv) for lv in range(pf.nlevels)]
    count(f"levels={pf.nlevels}")
    for lk in pf.meta['layouts']:
        count(f"layout={lk}")
    for k in range(3):
        variable = rng.choice(keys)
        if kwname and k == 0:
            variable = kwname
        comp = keys.index(variable)
        limit_arg = rng.choice([None] + list(range(pf.nlevels)))
        L = pf.nlevels - 1 if limit_arg is None else limit_arg
        dtype = rng.choice([None, 'float64', 'float32'])
        order = rng.choice(['identity', 'reverse', 'random', 'rotate'])
        count(f"dtype={dtype}")
        count(f"order={order}")
        count(f"limit={'finest' if L == pf.nlevels - 1 else 'coarser'}")
        desc = dict(seed=seed, variable=variable, limit_level=limit_arg, dtype=dtype, completion_order=order,
                    meta=pf.meta, field_names=keys)
        # the successive runs of a case write to the SAME output path (the earlier array is replaced)
        if k == 0:
            outfile = os.path.join(core.scratch_dir(f"c10_{seed}_out"), 'grid')
            os.makedirs(os.path.dirname(outfile))
        core.set_policy(order, seed + k)
        res = core.outcome(lambda: run_whip(path, variable, limit_arg, dtype, outfile))
        log = list(core.CPool.log)
        core.set_policy('identity', 0)
        out['evals'] += 1
        out['keys'].append(core.khash(seed, k))
        want = c08.covering(pf, L, comp).astype(dtype or 'float64')
        bad = None
        if res[0] != 'ok':
            bad = 'whip raised / exited: ' + res[1]
        else:
            got = res[1]
            if got.dtype != want.dtype or got.shape != want.shape or got.tobytes() != want.tobytes():
                bad = (f"the saved array is not the level-{L} covering grid of {variable!r} as {want.dtype} with axes (x, y, z): "
                       f"dtype {got.dtype} shape {got.shape}, {int((got != want).sum()) if got.shape == want.shape else '?'} cells differ")
        if bad:
            out['violations'].append(dict(desc, kind='wrong-output', what=bad))
            continue
        # the model under the completion orders the pool actually used
        calls = [c for c in log if c['fun'] == 'readfieldfrombinfile']
        orders = []
        ok_struct = len(calls) == L + 1 and all(c['kind'] == 'imap_unordered' for c in calls)
        if ok_struct:
            for lv, c in enumerate(calls):
                names = sorted({n for n, _ in pf.levels[lv].files})
                sizes = np.array([os.path.getsize(os.path.join(path, f"Level_{lv}", n)) for n in names])
                read_order = np.flip(np.argsort(sizes))
                if c['ntasks'] != len(names):
                    ok_struct = False
                    break
                orders.append([int(read_order[i]) for i in c['order']])
        d = None
        if not ok_struct:
            d = f"pool calls {[(c['fun'], c['kind'], c['ntasks']) for c in log]} are not one imap_unordered over the level's binary files per level"
        else:
            nx, ny, nz = pf.grid_size(L)
            st, m = model.call('whip', [lv_sx, L, len(keys), comp, orders, nx, ny, nz])
            if st != 'ok':
                d = 'the model refuses the case'
            elif np.frombuffer(m, dtype='<f8').reshape((nx, ny, nz)).astype(dtype or 'float64').tobytes() != res[1].tobytes():
                d = 'Whip.whip differs from the saved array'
        if d:
            out['disagreements'].append(dict(desc, kind='model-vs-impl', what=d, correspondence='Whip.Whip.whip vs whip main()'))
        elif not out['samples']:
            out['samples'].append(dict(desc, shape=list(want.shape), orders=orders))
    return out


SPAWN_SCRIPT = r"""
import multiprocessing
import sys

if __name__ == '__main__':
    multiprocessing.set_start_method(sys.argv[1])
    import amr_kitchen.whip.cli as cli
    sys.argv = ['whip'] + sys.argv[2:]
    cli.main()
"""


def start_method_case(seed):
    """whip run in a child process whose pool workers are NOT forked (start methods spawn / forkserver: the defaults outside
    Linux): the workers see only what their task carries"""
    import subprocess
    rng = random.Random(seed)
    out = dict(evals=0, keys=[core.khash('start-method', seed)], dist={}, samples=[], violations=[], disagreements=[])
    pf = gen.gen_plotfile(rng, ndims=3, payload='ints', max_blocks=2, nfields=(3, 4), nlevels=2)
    keys = c01.reader_keys(pf.fields)
    root = core.scratch_dir(f"c10_spawn_{seed}")
    os.makedirs(root)
    path = os.path.join(root, 'plt00010')
    gen.write_plotfile(pf, path)
    script = os.path.join(root, 'run_whip.py')
    with open(script, 'w') as f:
        f.write(SPAWN_SCRIPT)
    env = dict(os.environ, PYTHONPATH=core.REPO + os.pathsep + core.VERIF)
    for k, method in enumerate(['spawn', 'forkserver', 'spawn']):
        variable = keys[(seed + k) % len(keys)]
        limit_arg = [None, 0, 1][k]
        L = pf.nlevels - 1 if limit_arg is None else limit_arg
        dtype = [None, 'float32', 'float64'][k]
        outfile = os.path.join(root, f'grid{k}')
        argv = ['-v', variable, '-y', '-o', outfile] + (['-l', str(limit_arg)] if limit_arg is not None else []) + \
               (['-d', dtype] if dtype else []) + [path]
        out['evals'] += 1
        out['dist'][f"start method={method}"] = out['dist'].get(f"start method={method}", 0) + 1
        desc = dict(seed=seed, case_fn='start_method_case', start_method=method, variable=variable, limit_level=limit_arg, dtype=dtype,
                    meta=pf.meta, field_names=keys)
        try:
            r = subprocess.run([sys.executable, script, method] + argv, env=env, capture_output=True, text=True, timeout=240)
        except subprocess.TimeoutExpired:
            out['violations'].append(dict(desc, kind='wrong-output', what=f'whip under the {method} start method did not finish within 240 s'))
            continue
        want = c08.covering(pf, L, keys.index(variable)).astype(dtype or 'float64')
        if r.returncode != 0 or not os.path.exists(outfile + '.npy'):
            out['violations'].append(dict(desc, kind='wrong-output',
                                          what=f'whip under the {method} start method failed: ' + (r.stderr.strip().splitlines() or ['no output file'])[-1][:300]))
            continue
        got = np.load(outfile + '.npy')
        if got.dtype != want.dtype or got.shape != want.shape or got.tobytes() != want.tobytes():
            out['violations'].append(dict(desc, kind='wrong-output',
                                          what=(f"under the {method} start method the saved array is not the level-{L} covering grid of {variable!r}: "
                                                f"{int((got != want).sum()) if got.shape == want.shape else '?'} cells differ")))
    return out


def run(tier, seed):
    rep = core.Report(PID, tier, seed)
    pg = core.proof_gate(PID, thorough=(tier == 'thorough'))
    for t in pg['theorems']:
        rep.obligation('theorem ' + t, pg['ok'])
    if not pg['ok']:
        rep.violations.append((dict(kind='proof', what='proof obligations of Props/C10.v no longer check',
                                    theorem=pg['theorems'], problems=pg['problems']), False))
    ncases = 50 if tier == 'quick' else 600
    cases = [seed * 100000 + 10000 + i for i in range(ncases)]
    for r in core.run_cases(run_case, core.with_corpus(PID, cases)):
        rep.merge(r)
    for r in core.run_cases(start_method_case, [seed * 100000 + 10900 + i for i in range(1 if tier == 'quick' else 4)]):
        rep.merge(r)
    rep.obligation('correspondence: Whip.Whip.whip (extracted, fed the completion orders the controlled pool used) = the .npy written by '
                   'the whip entry point', not any(v[0].get('kind') == 'model-vs-impl' for v in rep.violations))
    return rep.finish(
        level_rule=("cases = generated 3D plotfile (1-3 levels, mixed non-cubic boxes, all layout kinds, int / random / special payloads) x 3 "
                    "(field, level limit incl. none, dtype none/float64/float32, completion order of the per-file tasks: identity / reverse / "
                    "random / rotated); the entry point is run in-process with sys.argv and the .npy read back; every case non-trivial"),
        trusted_base=core.COMMON_TRUSTED + [
            "dtype conversion is numpy's astype applied by the harness to the model's float64 words (abstract cast); np.repeat / slice assignment as modelled in Whip.Whip / Array.Paint",
            "np.argsort(sizes) (read order by file size) is re-evaluated by the harness to map pool completion orders to file indices"],
        assumptions=["multiprocessing imap_unordered delivers each result exactly once (modelled by the controlled pool)"],
        checker_cmd=pg['checker_cmd'])


def replay(doc):
    core.worker_init(core.REPO, quiet=False)
    r = run_case(doc['seed'])
    bad = r['violations'] + r['disagreements']
    for v in bad:
        print('REPLAY:', v.get('what'))
    return 1 if bad else 0
