"""C12 - results do not depend on worker count, task order or serial/parallel mode."""
import contextlib
import hashlib
import io
import os
import random
import sys
import numpy as np
from harness import core, gen, genchk, diskimg
from harness.props import c01, c06, c11

PID = 'C12'


def tree_digest(path):
    out = {}
    if not os.path.exists(path):
        return out
    for root, dirs, files in os.walk(path):
        for fn in files:
            fp = os.path.join(root, fn)
            with open(fp, 'rb') as f:
                out[os.path.relpath(fp, path)] = hashlib.sha256(f.read()).hexdigest()
    return out


def canon(v):
    if isinstance(v, dict):
        return {k: canon(x) for k, x in sorted(v.items())}
    if isinstance(v, (list, tuple)):
        return [canon(x) for x in v]
    if isinstance(v, np.ndarray):
        return ['nd', list(v.shape), str(v.dtype), hashlib.sha256(np.ascontiguousarray(v).tobytes()).hexdigest()]
    if isinstance(v, (float, np.floating)):
        return float(v).hex()
    if isinstance(v, (int, np.integer, str, bool)) or v is None:
        return v
    return repr(v)


# ---------------------------------------------------------------- scenarios: (setup -> ctx) and run(ctx, outdir) -> value

def scenarios(rng, root):
    """list of (name, run(outdir) -> returned value, has_serial_mode)"""
    from amr_kitchen import PlotfileCooker
    sc = []
    pf3 = gen.gen_plotfile(rng, ndims=3, max_blocks=2, nfields=(3, 5), nlevels=rng.choice([2, 2, 3]), payload='random')
    pf3.fields = [f.replace(' ', '_') for f in pf3.fields]
    if 'volFrac' not in pf3.fields:
        pf3.fields[0] = 'volFrac'
    keys3 = c01.reader_keys(pf3.fields)
    p3 = os.path.join(root, 'plt3d')
    diskimg.write_image(diskimg.image_of(pf3), p3)
    pf2 = gen.gen_plotfile(rng, ndims=2, max_blocks=3, nfields=(2, 4), nlevels=rng.choice([2, 3]), payload='random')
    keys2 = c01.reader_keys(pf2.fields)
    p2 = os.path.join(root, 'plt2d')
    gen.write_plotfile(pf2, p2)
    lv = rng.randrange(pf3.nlevels)

    def reader_getitem(outdir):
        pck = PlotfileCooker(p3)
        nb = len(pf3.levels[lv].boxes)
        return [pck[keys3[0]][lv][:], pck[[0, len(keys3) - 1]][lv][list(range(nb))[::-1]], pck[0:2][lv][[True] * nb],
                pck[[1, len(keys3) - 1]][lv][:], pck[[len(keys3) - 1]][lv][list(range(nb))]]
    sc.append(('reader selections', reader_getitem, False))

    def reader_iter(outdir):
        pck = PlotfileCooker(p3)
        return [list(pck[keys3[1]][lv]), list(pck[0:2][lv].iter(slice(None))) if hasattr(pck[0:2][lv], 'iter') else None]
    sc.append(('reader iteration', reader_iter, False))

    def taste(outdir):
        from amr_kitchen.taste.taste import Taster
        return [bool(Taster(p3, nofail=True, verbose=0)), bool(Taster(p3, nofail=True, verbose=0, boxes_coordinates=True))]
    sc.append(('taste', taste, False))

    def colander(outdir):
        from amr_kitchen.colander.colander import Colander
        Colander(plotfile=p3, limit_level=None, output=os.path.join(outdir, 'o'), variables=[keys3[-1], keys3[0]]).strain()
    sc.append(('colander', colander, False))

    sib = {}
    for rel in ('same', 'same_files_permuted', 'different'):
        q = c06.second_plotfile(rng, pf3, rel)
        q.fields = ['sib_' + f for f in q.fields]
        pth = os.path.join(root, 'sib_' + rel)
        diskimg.write_image(diskimg.image_of(q), pth)
        sib[rel] = pth

    def mk_combine(rel):
        def run(outdir):
            from amr_kitchen.combine import combine
            combine(PlotfileCooker(p3), PlotfileCooker(sib[rel]), pltout=os.path.join(outdir, 'o'))
        return run
    for rel in sib:
        sc.append((f'combine ({rel} layouts)', mk_combine(rel), False))

    rpath = os.path.join(root, 'recipe.py')
    with open(rpath, 'w') as f:
        f.write(c11.RECIPES[3][2].format(a=keys3[1], b=keys3[2], n0='cka', n1='ckb', n2=''))

    def mk_chef(serial):
        def run(outdir):
            from amr_kitchen.chef import Chef
            Chef(plotfile=p3, recipe=rpath, outfile=os.path.join(outdir, 'o'), kept_fields=keys3[1], serial=serial).cook()
        return run
    sc.append(('chef', mk_chef(False), mk_chef(True)))

    def mk_m2(serial):
        def run(outdir):
            from amr_kitchen.mandoline import Mandoline
            # two successive slices cut with one object (the state the first leaves behind must not depend on the mode)
            # (every second plotfile: two fields in another order than the plotfile's)
            m = Mandoline(p2, fields=['all'] if pf2.nlevels % 2 else [keys2[-1], keys2[0]], serial=serial, verbose=0)
            return [m.slice(fformat='return'), m.slice(fformat='return')]
        return run
    sc.append(('mandoline 2D', mk_m2(False), mk_m2(True)))

    pos = pf3.geo_low[2] + 0.5 * (pf3.n0[2] * pf3.dx0[2]) + 0.25 * pf3.dx0[2] / 2 ** (pf3.nlevels - 1)
    # (a reused object keeps its plane position when none is given: the second slice states its own)
    pos_y = pf3.geo_low[1] + 0.5 * (pf3.n0[1] * pf3.dx0[1]) + 0.25 * pf3.dx0[1] / 2 ** (pf3.nlevels - 1)

    # a plane that the finest level does not reach (no box of it within a coarse cell): that level has no task at all
    far = None
    fin = pf3.nlevels - 1
    if fin >= 1:
        for d in range(3):
            for i in range(pf3.n0[d]):
                if all(hi[d] // 2 ** fin < i - 1 or lo[d] // 2 ** fin > i + 1 for lo, hi in pf3.levels[fin].boxes):
                    far = (d, pf3.geo_low[d] + (i + 0.5) * pf3.dx0[d] + 0.25 * pf3.dx0[d] / 2 ** fin)
                    break
            if far:
                break

    def mk_m3(serial):
        def run(outdir):
            from amr_kitchen.mandoline import Mandoline
            m = Mandoline(p3, fields=[keys3[2], keys3[0], 'grid_level'], serial=serial, verbose=0)
            r = [m.slice(normal=2, pos=pos, fformat='return'), m.slice(normal=1, pos=pos_y, fformat='return')]
            if far:
                r.append(Mandoline(p3, fields=[keys3[1]], serial=serial, verbose=0).slice(normal=far[0], pos=far[1], fformat='return'))
            return r
        return run
    sc.append(('mandoline 3D slice', mk_m3(False), mk_m3(True)))

    def pestle(outdir):
        from amr_kitchen.pestle.pestle import volume_integral
        buf = io.StringIO()
        with contextlib.redirect_stdout(buf):
            pck = PlotfileCooker(p3, ghost=True)
            return [volume_integral(pck, keys3[1]), volume_integral(pck, keys3[2], use_volfrac=True)]
    sc.append(('pestle', pestle, False))

    def whip(outdir):
        import importlib
        cli = importlib.import_module('amr_kitchen.whip.cli')
        old = sys.argv
        sys.argv = ['whip', '-v', keys3[1], '-y', '-o', os.path.join(outdir, 'grid'), p3]
        try:
            cli.main()
        finally:
            sys.argv = old
    sc.append(('whip', whip, False))

    chk = genchk.gen_checkpoint(rng, nlevels=2)
    chkdir = os.path.join(root, 'chk00005')
    genchk.write_checkpoint(chk, chkdir)

    def c2p(outdir):
        from amr_kitchen.chk2plt import chk2plt
        chk2plt(chkdir, species=list(chk.species), gradp=True, species_reactions=True, floor_massfracs=True,
                pltdir=os.path.join(outdir, 'o'))
    sc.append(('chk2plt', c2p, False))
    return sc


def independent(call):
    """the hypothesis of Sched.Pool.fs_confluence on the audited tasks of one pool call:
    no task writes a file another task reads or writes"""
    files = call.get('files') or []
    for i, fi in enumerate(files):
        wi = {p for p, m in (fi or []) if m == 'w'}
        for j, fj in enumerate(files):
            if i != j and wi & {p for p, m in (fj or [])}:
                return f"task {i} and task {j} of {call['fun']} share {sorted(wi & {p for p, m in fj})[:2]}"
    return None


def run_case(seed):
    rng = random.Random(seed)
    out = dict(evals=0, keys=[], dist={}, samples=[], violations=[], disagreements=[], extra={})
    dist = out['dist']

    def count(k, n=1):
        dist[k] = dist.get(k, 0) + n

    root = core.scratch_dir(f"c12_{seed}")
    os.makedirs(root)
    thorough = os.environ.get('VERIF_TIER') == 'thorough'
    scs = scenarios(rng, root)
    # each seed takes a share of the scenarios so that the work is spread over the workers
    share = [s for k, s in enumerate(scs) if k % 4 == seed % 4]
    for name, run, serial_run in share:
        def execute(policy, sd, tag, fn=None, audit=False, ncpu=None):
            from unittest import mock
            outdir = os.path.join(root, 'out_' + tag)
            core.shutil.rmtree(outdir, ignore_errors=True)
            os.makedirs(outdir)
            core.set_policy(policy, sd, audit=audit)
            buf = io.StringIO()
            with contextlib.ExitStack() as stack:
                stack.enter_context(contextlib.redirect_stdout(buf))
                stack.enter_context(contextlib.redirect_stderr(buf))
                if ncpu is not None:
                    # the number of CPUs the tools see (they size pools and batches from it)
                    import multiprocessing
                    stack.enter_context(mock.patch.object(multiprocessing, 'cpu_count', lambda: ncpu))
                    stack.enter_context(mock.patch.object(os, 'cpu_count', lambda: ncpu))
                res = core.outcome(lambda: (fn or run)(outdir))
            log = list(core.CPool.log)
            core.set_policy('identity', 0)
            obs = (res[0], canon(res[1]) if res[0] == 'ok' else res[1], tree_digest(outdir))
            core.shutil.rmtree(outdir, ignore_errors=True)
            return obs, log
        base, log = execute('identity', 0, 'base', audit=True)
        out['evals'] += 1
        count(f"tool={name}")
        ncalls = len(log)
        maxtasks = max([c['ntasks'] for c in log], default=0)
        count('pool_calls', ncalls)
        count(f"max_tasks_per_call={'<=4' if maxtasks <= 4 else '>4'}")
        desc = dict(seed=seed, tool=name, pool_calls=[(c['fun'], c['kind'], c['ntasks']) for c in log])
        if base[0] != 'ok':
            out['violations'].append(dict(desc, kind='baseline-raised', what=f"{name} raised in the identity schedule: {base[1]}"))
            continue
        for c in log:
            why = independent(c)
            if why:
                out['disagreements'].append(dict(desc, kind='tasks-not-independent',
                                                 what=f"hypothesis of Sched.Pool.fs_confluence fails: {why}",
                                                 correspondence='audited read/write sets of pool tasks vs Sched.Pool.independent'))
        scheds = [('lex', k) for k in range(1, 24)] + [('reverse', 0)] + [('random', k) for k in range(3 if not thorough else 20)]
        for pol, sd in scheds:
            obs, _ = execute(pol, sd, f'{pol}{sd}')
            out['evals'] += 1
            count(f"schedule={pol}")
            if obs != base:
                what = 'returned values differ' if obs[1] != base[1] else \
                    'output files differ: ' + ', '.join(sorted(k for k in set(obs[2]) | set(base[2]) if obs[2].get(k) != base[2].get(k))[:4])
                if obs[0] != 'ok':
                    what = 'raised: ' + str(obs[1])
                out['violations'].append(dict(desc, kind='schedule-dependent', schedule=[pol, sd],
                                              what=f"{name}: under task order {pol}/{sd} {what} (compared with the submission-order run)"))
                break
        if serial_run:
            obs, _ = execute('identity', 0, 'serial', fn=serial_run)
            out['evals'] += 1
            count("schedule=serial-mode")
            if obs != base:
                out['violations'].append(dict(desc, kind='serial-differs',
                                              what=f"{name}: the serial mode and the parallel mode give different results"))
        for ncpu in (1, 3):
            obs, _ = execute('identity', 0, f'cpu{ncpu}', ncpu=ncpu)
            out['evals'] += 1
            count("schedule=other-cpu-count")
            if obs != base:
                out['violations'].append(dict(desc, kind='cpu-count-dependent',
                                              what=f"{name}: with {ncpu} CPU(s) visible the results differ from the run on this machine"))
                break
        if thorough and seed % 3 == 0:
            for nw in (1, 2, 16):
                core.install_pool('real')
                os.environ['VERIF_NWORKERS'] = str(nw)
                try:
                    obs, _ = execute('identity', 0, f'real{nw}')
                finally:
                    core.install_pool('controlled')
                out['evals'] += 1
                count("schedule=real-pool")
                if obs != base:
                    out['violations'].append(dict(desc, kind='real-pool-differs', what=f"{name}: a real process pool gives different results"))
                    break
    out['keys'].append(core.khash(seed))
    if not out['samples']:
        out['samples'].append(dict(seed=seed, tools=[n for n, _, _ in share]))
    return out


def run(tier, seed):
    os.environ['VERIF_TIER'] = tier
    rep = core.Report(PID, tier, seed)
    pg = core.proof_gate(PID, thorough=(tier == 'thorough'))
    for t in pg['theorems']:
        rep.obligation('theorem ' + t, pg['ok'])
    if not pg['ok']:
        rep.violations.append((dict(kind='proof', what='proof obligations of Props/C12.v no longer check',
                                    theorem=pg['theorems'], problems=pg['problems']), False))
    ncases = 16 if tier == 'quick' else 96
    cases = [seed * 100000 + 12000 + i for i in range(ncases)]
    for r in core.run_cases(run_case, core.with_corpus(PID, cases), timeout=1500 if tier == 'quick' else 6000):
        rep.merge(r)
    rep.obligation('hypotheses of Sched.Pool.fs_confluence hold on every audited pool call (no task writes a file another task of the '
                   'same call reads or writes)', not any(v[0].get('kind') == 'tasks-not-independent' for v in rep.violations))
    return rep.finish(
        level_rule=("cases = generated inputs x 13 tool scenarios (reader selections, reader iteration, taste, colander, combine in its three "
                    "modes, chef, mandoline 2D, mandoline 3D slice, pestle, whip, chk2plt); each scenario is run under the submission order "
                    "and under 27 other task orders of the controlled pool (execution = completion order; the 23 lexicographic "
                    "permutations run EVERY order of every pool call with <= 4 tasks, plus reverse and random orders), serial mode where "
                    "it exists; observable = returned values (floats by hex, arrays by digest) and sha256 of every output file; the open() "
                    "calls of every task are audited and checked against the independence hypothesis of the confluence theorem; thorough: "
                    "real process pools as well"),
        trusted_base=core.COMMON_TRUSTED + [
            "schedules are explored at task granularity (a task's file operations are not interleaved with another task's): justified by the independence check - tasks of one call touch disjoint files",
            "multiprocessing / pathos deliver map and imap results in submission order and imap_unordered results exactly once (modelled by the controlled pool)"],
        assumptions=["worker functions depend on their argument and on the files they open only (no shared mutable state across tasks other than what fork copies)"],
        checker_cmd=pg['checker_cmd'])


def replay(doc):
    core.worker_init(core.REPO, quiet=False)
    r = run_case(doc['seed'])
    bad = r['violations'] + r['disagreements']
    for v in bad:
        print('REPLAY:', v.get('what'))
    return 1 if bad else 0
