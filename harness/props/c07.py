"""C07 - mandoline 3D slices interpolate the right samples at every pixel."""
import contextlib
import io
import random
from fractions import Fraction
import numpy as np
from harness import core, gen
from harness.props import c01

PID = 'C07'


def level_arrays(pf, lv, comps):
    """full-domain arrays of level lv: occupancy and per requested component the data (0 where no box)"""
    n = pf.grid_size(lv)
    occ = np.zeros(n, dtype=bool)
    data = np.zeros(tuple(n) + (len(comps),))
    for (lo, hi), d in zip(pf.levels[lv].boxes, pf.levels[lv].data):
        sl = tuple(slice(l, h + 1) for l, h in zip(lo, hi))
        occ[sl] = True
        data[sl] = d[..., comps]
    return occ, data


def oracle_samples(pf, L, cn, P, comps):
    """independent of boxes: per pixel of the level-L in-plane grid the left / right sample
    (values, normal coordinate in lattice units, level), from the finest level offering one"""
    cx, cy = [a for a in range(3) if a != cn]
    nL = pf.grid_size(L)
    shape2 = (nL[cx], nL[cy])
    res = {}
    for side in ('left', 'right'):
        res[side] = dict(val=np.full(shape2 + (len(comps),), np.nan), normal=np.full(shape2, -10 ** 9, dtype=np.int64),
                         level=np.full(shape2, -1, dtype=np.int64))
    for lv in range(L + 1):
        f = 2 ** (L - lv)
        N = pf.grid_size(lv)[cn]
        q = P // (4 * f)
        kl = (q - 1) // 2                     # last cell whose centre is <= P
        kr = kl if (2 * kl + 1) * 4 * f == P else kl + 1
        if kl < 0:
            kl = kr                           # before the first centre of the domain: nearest sample on both sides
        if kr > N - 1:
            kr = kl
        if not (0 <= kl <= N - 1 and 0 <= kr <= N - 1):
            continue
        occ, data = level_arrays(pf, lv, comps)
        for side, k in (('left', kl), ('right', kr)):
            plane_occ = np.take(occ, k, axis=cn)
            plane = np.take(data, k, axis=cn)
            for d in range(2):
                plane_occ = np.repeat(plane_occ, f, axis=d)
                plane = np.repeat(plane, f, axis=d)
            r = res[side]
            r['val'][plane_occ] = plane[plane_occ]
            r['normal'][plane_occ] = (2 * k + 1) * 4 * f
            r['level'][plane_occ] = lv
    return res


def interpolate(res, pos_f, to_float):
    ln = to_float(res['left']['normal'])
    rn = to_float(res['right']['normal'])
    bint = res['left']['normal'] != res['right']['normal']
    out = []
    for c in range(res['left']['val'].shape[-1]):
        Lv, Rv = res['left']['val'][..., c], res['right']['val'][..., c]
        data = np.empty(Lv.shape)
        with np.errstate(all='ignore'):
            data[bint] = (Lv[bint] * (rn[bint] - pos_f) + Rv[bint] * (pos_f - ln[bint])) / (rn[bint] - ln[bint])
        data[~bint] = Rv[~bint]
        out.append(data.T)
    return out


def gen_position(rng, pf, L, cn):
    NL = pf.grid_size(L)[cn]
    top = NL * 8
    kind = rng.choice(['centre', 'centre', 'face', 'box_face_near', 'box_face_near', 'domain_face', 'near_domain_face',
                       'random', 'random', 'default', 'outside'])
    if kind == 'centre':
        lv = rng.randint(0, L)
        f = 2 ** (L - lv)
        return kind, (2 * rng.randrange(pf.grid_size(lv)[cn]) + 1) * 4 * f
    if kind == 'face':
        lv = rng.randint(0, L)
        f = 2 ** (L - lv)
        return kind, rng.randint(0, pf.grid_size(lv)[cn]) * 8 * f
    if kind == 'box_face_near':
        lv = rng.randint(0, L)
        f = 2 ** (L - lv)
        lo, hi = rng.choice(pf.levels[lv].boxes)
        face = rng.choice([lo[cn], hi[cn] + 1]) * 8 * f
        return kind, min(max(face + rng.choice([-5, -4, -3, -2, -1, 1, 2, 3, 4, 5]) * f, 0), top)
    if kind == 'domain_face':
        return kind, rng.choice([0, top])
    if kind == 'near_domain_face':
        return kind, rng.choice([1, 2, 3, 4, top - 1, top - 3, top - 4])
    if kind == 'default':
        return kind, None
    if kind == 'outside':
        return kind, rng.choice([-1, -8, top + 1, top + 16])
    return kind, rng.randint(0, top)


def gen_payload(rng, pf, cn, kind):
    """replaces the payload: 'affine' along the normal / 'const' along the normal / keep"""
    if kind == 'keep':
        return
    alpha = rng.choice([0.5, 2.0, -1.25, 3.0])
    beta = rng.choice([0.0, 10.0, -7.5])
    for lv, lev in enumerate(pf.levels):
        dxn = pf.dx(lv)[cn]
        for b, (lo, hi) in enumerate(lev.boxes):
            shape = lev.data[b].shape
            idx = np.indices(shape[:3])
            if kind == 'affine':
                xn = pf.geo_low[cn] + (lo[cn] + idx[cn] + 0.5) * dxn
                for c in range(shape[3]):
                    lev.data[b][..., c] = alpha * xn + beta + c
            else:
                cxy = [a for a in range(3) if a != cn]
                # constant along the normal: depends on the in-plane level-L pixel block only
                for c in range(shape[3]):
                    lev.data[b][..., c] = (lo[cxy[0]] + idx[cxy[0]]) * 100 * (lv + 1) + (lo[cxy[1]] + idx[cxy[1]]) + 0.25 * c


def run_case(seed):
    from amr_kitchen.mandoline import Mandoline
    rng = random.Random(seed)
    model = core.W['model']
    out = dict(evals=0, keys=[], dist={}, samples=[], violations=[], disagreements=[])
    dist = out['dist']

    def count(k):
        dist[k] = dist.get(k, 0) + 1

    pf = gen.gen_plotfile(rng, ndims=3, payload=rng.choice(['ints', 'random']), max_blocks=2, nfields=(1, 4),
                          nlevels=rng.choice([1, 2, 2, 3]), geo_stream='exact', bf=rng.choice([2, 2, 4]),
                          mesh=rng.choice(['blocks', 'blocks', 'chunky']), odd0=0.3)
    cn = rng.randrange(3)
    pkind = rng.choice(['keep', 'keep', 'affine', 'const'])
    gen_payload(rng, pf, cn, pkind)
    rb = random.Random(seed * 9137 + 41)
    if rb.random() < 0.3:
        # the printed bounds of the boxes that touch a domain face along the normal are one unit in the last place INSIDE the
        # domain (low + index * dx computed in floating point need not hit the stated domain bound digit for digit)
        pf.bound_nudge = {}
        for lv, lev in enumerate(pf.levels):
            top = pf.grid_size(lv)[cn]
            for bi, (lo, hi) in enumerate(lev.boxes):
                na = 1 if lo[cn] == 0 and pf.geo_low[cn] != 0 and rb.random() < 0.7 else 0
                nb = -1 if hi[cn] + 1 == top and rb.random() < 0.7 else 0
                if na or nb:
                    pf.bound_nudge[(lv, bi, cn)] = (na, nb)
        pf.meta['face_bounds_one_ulp_inside'] = len(pf.bound_nudge)
    count(f"printed face bounds one ulp inside the domain={bool(getattr(pf, 'bound_nudge', None))}")
    rk = random.Random(seed * 9137 + 43)
    if rk.random() < 0.2:
        # a field called like an entry mandoline adds to its result ('time', 'dx'): the field is what the caller asked for
        nm = rk.choice(['time', 'dx'])
        if nm not in pf.fields:
            pf.fields[rk.randrange(len(pf.fields))] = nm
        count("a field named time / dx")
    keys = c01.reader_keys(pf.fields)
    path = core.scratch_dir(f"c07_{seed}")
    gen.write_plotfile(pf, path)
    count(f"levels={pf.nlevels}")
    count(f"geo={pf.meta['geo']}")
    count(f"payload={pkind}")
    count(f"normal={cn}")
    cx, cy = [a for a in range(3) if a != cn]
    prev = None        # (Mandoline object, its configuration, an earlier result and its digest)
    for k in range(4):
        if k % 2 == 1 and prev is not None:
            limit_arg = prev[1][1]
        else:
            limit_arg = rng.choice([None, None] + list(range(pf.nlevels)))
        L = pf.nlevels - 1 if limit_arg is None else limit_arg
        kindp, P = gen_position(rng, pf, L, cn)
        u = Fraction(pf.dx(L)[cn]) / 8
        NL = pf.grid_size(L)[cn]
        if P is None:
            pos = None
            P_eff = NL * 4           # the domain centre
        else:
            pos = float(Fraction(pf.geo_low[cn]) + P * u)
            P_eff = P
        fk = rng.choice(['one', 'some', 'all', 'with_grid', 'grid_only'])
        if fk == 'one':
            fields = [rng.choice(keys)]
        elif fk == 'some':
            fields = rng.sample(keys, rng.randint(1, len(keys)))
        elif fk == 'all':
            fields = ['all']
        elif fk == 'grid_only':
            fields = ['grid_level']
        else:
            fields = rng.sample(keys, rng.randint(1, len(keys))) + ['grid_level']
            rg = random.Random(seed * 811 + k)
            if rg.random() < 0.5:
                # the level map asked for anywhere in the list, not only last
                fields.remove('grid_level')
                fields.insert(rg.randrange(len(fields) + 1), 'grid_level')
        serial = rng.random() < 0.5
        verb = random.Random(seed * 4409 + k).choice([0, 0, 1, 2, 3])
        count(f"verbosity={verb}")
        if k % 2 == 1 and prev is not None:
            # the second slice of a pair is cut with the SAME Mandoline object (same fields, limit, mode), elsewhere
            fields, _, serial = prev[1]
            fk = 'same object'
            if pos is None:
                # on a reused object "no position" means the previous one (the object keeps its plane): ask for the centre explicitly
                pos = float(Fraction(pf.geo_low[cn]) + P_eff * u)
        count(f"position={kindp}")
        count(f"fields={fk}")
        desc = dict(seed=seed, normal=cn, position_kind=kindp, position_units_of_dx_over_8=P, pos=pos, fields=fields,
                    limit_level=limit_arg, serial=serial, payload=pkind, meta=pf.meta, verbose=verb)
        core.set_policy(rng.choice(['identity', 'reverse', 'random']), seed + k)
        def digest(o):
            return {n: (np.asarray(v).shape, np.asarray(v).tobytes()) for n, v in o.items()} if isinstance(o, dict) else None

        def cut():
            nonlocal prev
            if k % 2 == 1 and prev is not None:
                obj = prev[0]
            else:
                obj = Mandoline(path, fields=fields, limit_level=limit_arg, serial=serial, verbose=verb)
            with contextlib.redirect_stdout(io.StringIO()):
                r = obj.slice(normal=cn, pos=pos, fformat='return')
            if k % 2 == 0:
                prev = (obj, (list(fields), limit_arg, serial), r, digest(r))
            return r
        earlier = prev if k % 2 == 1 else None
        res = core.outcome(cut)
        core.set_policy('identity', 0)
        out['evals'] += 1
        out['keys'].append(core.khash(seed, k))
        if earlier is not None and earlier[3] is not None and digest(earlier[2]) != earlier[3]:
            out['violations'].append(dict(desc, kind='earlier-result-changed',
                                          what='the arrays returned by an earlier slice() of the same Mandoline object changed when the next slice was cut'))
            prev = None
            continue
        if k % 2 == 1:
            prev = None
        if kindp == 'outside':
            if res[0] == 'ok':
                out['violations'].append(dict(desc, kind='outside-answered', what='a position outside the domain was sliced'))
            continue
        if 'all' in fields:
            names, do_grid = list(keys), True
        else:
            names, do_grid = [f for f in fields if f != 'grid_level'], 'grid_level' in fields
        comps = [keys.index(n) for n in names]
        pos_f = float(Fraction(pf.geo_low[cn]) + P_eff * u)

        def to_float(units):
            return np.vectorize(lambda q: float(Fraction(pf.geo_low[cn]) + int(q) * u))(units).astype(float) if units.size else units.astype(float)
        orc = oracle_samples(pf, L, cn, P_eff, comps)
        bad = None
        if res[0] != 'ok':
            bad = 'slicing at an in-domain position raised: ' + res[1]
        elif (orc['left']['level'] < 0).any() or (orc['right']['level'] < 0).any():
            bad = None if False else 'oracle: a pixel has no sample (generator problem)'
        else:
            o = res[1]
            want = interpolate(orc, pos_f, to_float)
            for n, w in zip(names, want):
                got = np.asarray(o.get(n))
                # (with printed bounds an ulp off the cell-centre coordinates, hence the weights, are computed from other
                # floats: equal to floating-point accuracy instead of bit for bit)
                loose = bool(getattr(pf, 'bound_nudge', None))
                if got.shape != w.shape or (got.tobytes() != w.tobytes() and not (
                        loose and np.allclose(got, w, rtol=1e-11, atol=1e-11 * max(1.0, float(np.nanmax(np.abs(w)))), equal_nan=True))):
                    nbad = int((got != w).sum()) if got.shape == w.shape else -1
                    bad = (f"output[{n!r}] is not the linear interpolation between the bracketing cell-centre samples of the finest "
                           f"level offering them ({nbad} pixels differ)")
                    break
            if not bad and do_grid:
                wl = np.minimum(orc['left']['level'], orc['right']['level']).T
                got = np.asarray(o.get('grid_level'))
                if got.shape != wl.shape or not np.array_equal(got, wl):
                    bad = "output['grid_level'] is not the level of the contributing samples"
            if not bad and float(o['slice_pos']) != pos_f:
                bad = f"slice position {o['slice_pos']!r} instead of {pos_f!r}" + (' (default = domain centre)' if P is None else '')
            if not bad:
                for axis, key in ((cx, 'x'), (cy, 'y')):
                    dx = pf.dx(L)[axis]
                    w = np.array([pf.geo_low[axis] + (i + 0.5) * dx for i in range(pf.grid_size(L)[axis])])
                    if np.asarray(o[key]).shape != w.shape or np.abs(np.asarray(o[key]) - w).max() > 0:
                        bad = f"output[{key!r}] are not the in-plane cell-centre coordinates"
            # consequences named by the property
            if not bad and pkind == 'affine' and names:
                nL = pf.grid_size(L)[cn]
                if 4 <= P_eff <= nL * 8 - 4:
                    pass   # exactness is implied by the bitwise comparison above (the oracle interpolates exact affine samples)
        if bad:
            out['violations'].append(dict(desc, kind='wrong-output', what=bad))
            continue
        # the model: the two canvases of samples
        lsx = [[[list(lo), list(hi), [np.asarray(d[..., c], dtype='<f8').tobytes(order='F') for c in comps]]
                for (lo, hi), d in zip(pf.levels[lv].boxes, pf.levels[lv].data)] for lv in range(L + 1)]
        nL = pf.grid_size(L)
        st, m = model.call('slice3d', [lsx, L, cn, P_eff, 0, nL[cn], len(comps), nL[cx], nL[cy]])
        d = None
        if st != 'ok':
            d = 'the model refuses the case'
        else:
            for side, arr in zip(('left', 'right'), m):
                o_ = orc[side]
                k_ = 0
                for x in range(nL[cx]):
                    for y in range(nL[cy]):
                        s = arr[k_]
                        k_ += 1
                        if not s:
                            d = f"Slice3D.slice3d leaves the {side} sample of pixel ({x},{y}) unwritten"
                            break
                        ws, nrm, lvl = s
                        if nrm != int(o_['normal'][x, y]) or lvl != int(o_['level'][x, y]) or \
                                [np.frombuffer(w, dtype='<f8')[0].tobytes() for w in ws] != [np.float64(v).tobytes() for v in o_['val'][x, y]]:
                            d = (f"Slice3D.slice3d {side} sample of pixel ({x},{y}): (normal {nrm}, level {lvl}) vs the implementation's "
                                 f"({int(o_['normal'][x, y])}, {int(o_['level'][x, y])}) or values differ")
                            break
                    if d:
                        break
                if d:
                    break
        if d:
            out['disagreements'].append(dict(desc, kind='model-vs-impl', what=d,
                                             correspondence='Mandoline.Slice3D.slice3d vs Mandoline.slice (array output)'))
        elif not out['samples']:
            out['samples'].append(dict(desc, shape=[nL[cy], nL[cx]]))
    return out


def run(tier, seed):
    rep = core.Report(PID, tier, seed)
    pg = core.proof_gate(PID, thorough=(tier == 'thorough'))
    for t in pg['theorems']:
        rep.obligation('theorem ' + t, pg['ok'])
    if not pg['ok']:
        rep.violations.append((dict(kind='proof', what='proof obligations of Props/C07.v no longer check',
                                    theorem=pg['theorems'], problems=pg['problems']), False))
    ncases = 60 if tier == 'quick' else 800
    cases = [seed * 100000 + 7000 + i for i in range(ncases)]
    for r in core.run_cases(run_case, core.with_corpus(PID, cases)):
        rep.merge(r)
    rep.obligation('correspondence: Mandoline.Slice3D.slice3d (left / right sample of every pixel: values, normal coordinate, level) = '
                   'the samples that reproduce the array returned by Mandoline.slice bit for bit',
                   not any(v[0].get('kind') == 'model-vs-impl' for v in rep.violations))
    return rep.finish(
        level_rule=("cases = generated 3D plotfile (1-3 levels, block and chunky meshes, shifted / anisotropic dyadic geometry; payload: "
                    "random, affine along the normal, constant along the normal) x normal axis x 4 (position on the dx/8 lattice: cell "
                    "centres and faces of every level, +-1..5 eighths around box faces, domain faces and their neighbourhood, random, "
                    "default, outside; field list incl. grid_level / all; limit; serial or controlled pool); the returned arrays are "
                    "compared bit for bit with the interpolation (same float expression) of the samples an independent array-based "
                    "oracle selects (finest level having a cell centre within one cell below / above the plane; nearest sample beyond the "
                    "outermost centres), grid_level, slice_pos and in-plane coordinates"),
        trusted_base=core.COMMON_TRUSTED + [
            "IEEE rounding of the interpolation formula is outside the model: the harness evaluates the same numpy expression on the model's / oracle's samples",
            "np.linspace cell centres and np.isclose are exact on the dyadic lattice used (coordinates are small multiples of dx/8)"],
        assumptions=["positions are multiples of dx_L/8 from the origin; arbitrary real positions are not explored"],
        checker_cmd=pg['checker_cmd'])


def replay(doc):
    core.worker_init(core.REPO, quiet=False)
    r = run_case(doc['seed'])
    bad = r['violations'] + r['disagreements']
    for v in bad:
        print('REPLAY:', v.get('what'))
    return 1 if bad else 0
