"""C19 - point queries at interior cell centres return the stored cell value."""
import random
from fractions import Fraction
import numpy as np
from harness import core, gen
from harness.props import c01

PID = 'C19'


def covered_by_finer(pf, lv, cell, L):
    """is the level-lv cell covered by a box of a finer level <= L ?"""
    for j in range(lv + 1, L + 1):
        f = pf.scale(j) // pf.scale(lv)
        for lo, hi in pf.levels[j].boxes:
            if all(l <= c * f + f - 1 and c * f <= h for l, c, h in zip(lo, cell, hi)):      # any overlap
                return True
    return False


def pick_point(rng, pf, L):
    """-> (kind, P in half-cell units of level L, level, box, cell or None)"""
    kind = rng.choice(['interior', 'interior', 'interior', 'interior', 'any_centre', 'face', 'outside', 'corner_lattice'])
    lv = rng.randint(0, L)
    f = pf.scale(L) // pf.scale(lv)
    lev = pf.levels[lv]
    b = rng.randrange(len(lev.boxes))
    lo, hi = lev.boxes[b]
    if kind == 'interior':
        # a box with an interior cell that is not covered by a finer level
        cands = []
        for lvv in range(L + 1):
            for bb, (l2, h2) in enumerate(pf.levels[lvv].boxes):
                if all(h - l >= 2 for l, h in zip(l2, h2)):
                    cands.append((lvv, bb))
        rng.shuffle(cands)
        for lvv, bb in cands[:6]:
            l2, h2 = pf.levels[lvv].boxes[bb]
            for _ in range(12):
                cell = tuple(rng.randint(l + 1, h - 1) for l, h in zip(l2, h2))
                if not covered_by_finer(pf, lvv, cell, L):
                    ff = pf.scale(L) // pf.scale(lvv)
                    return kind, [(2 * c + 1) * ff for c in cell], lvv, bb, cell
        kind = 'any_centre'
    if kind == 'any_centre':
        cell = tuple(rng.randint(l, h) for l, h in zip(lo, hi))
        return kind, [(2 * c + 1) * f for c in cell], lv, b, cell
    if kind == 'face':
        cell = tuple(rng.randint(l, h) for l, h in zip(lo, hi))
        P = [(2 * c + 1) * f for c in cell]
        d = rng.randrange(3)
        P[d] = (2 * cell[d] + rng.choice([0, 2])) * f
        return kind, P, lv, b, None
    if kind == 'corner_lattice':
        n = pf.grid_size(L)
        return kind, [rng.randint(0, 2 * n[d]) for d in range(3)], None, None, None
    n = pf.grid_size(L)
    P = [rng.randint(1, 2 * n[d] - 1) for d in range(3)]
    d = rng.randrange(3)
    P[d] = rng.choice([-1, -3, 2 * n[d] + 1, 2 * n[d] + 5, -2 * n[d]])
    return 'outside', P, None, None, None


def gen_fsel(rng, keys):
    kind = rng.choice(['name', 'name', 'int', 'names', 'slice', 'list'])
    n = len(keys)
    if kind == 'name':
        return kind, rng.choice(keys), None
    if kind == 'int':
        return kind, rng.randrange(n), None
    if kind == 'names':
        l = sorted(rng.sample(range(n), rng.randint(1, n)))
        return kind, [keys[i] for i in l], l
    if kind == 'list':
        l = sorted(rng.sample(range(n), rng.randint(1, n)))
        return kind, l, l
    for _ in range(20):
        a = rng.choice([None, rng.randrange(n), -rng.randint(1, n)])
        b = rng.choice([None, rng.randint(1, n)])
        st = rng.choice([None, None, 1, 2, 2, 3, 5])
        sl = slice(a, b, st)
        comps = list(range(*sl.indices(n)))
        if comps:
            return kind, sl, comps
    return kind, slice(0, n), list(range(n))


def run_case(seed):
    from amr_kitchen import PlotfileCooker
    import amr_kitchen.plotfile_cooker as pcm
    rng = random.Random(seed)
    model = core.W['model']
    out = dict(evals=0, keys=[], dist={}, samples=[], violations=[], disagreements=[])
    dist = out['dist']

    def count(k):
        dist[k] = dist.get(k, 0) + 1

    pf = gen.gen_plotfile(rng, ndims=3, payload=rng.choice(['ints', 'random']), max_blocks=2, nfields=(1, 4),
                          nlevels=rng.choice([1, 2, 2, 3]), geo_stream='exact', bf=rng.choice([2, 4, 4]),
                          mesh=rng.choice(['blocks', 'chunky']))
    ra = random.Random(seed * 977 + 4)
    kwname = None
    if ra.random() < 0.2 and len(pf.fields) >= 2:
        # a field called like a keyword of the command-line tools ('all', mandoline's 'grid_level'): for the reader a name
        kwname = ra.choice(['all', 'all', 'grid_level'])
        if kwname not in pf.fields:
            pf.fields[ra.randrange(len(pf.fields))] = kwname
    count(f"a field named like a tool keyword={kwname}")
    rq = random.Random(seed * 6131 + 7)
    if pf.nlevels >= 2 and rq.random() < 0.2:
        # refinement ratios other than 2 / differing between levels (the boxes keep their index ranges; a coarse cell then
        # counts as covered as soon as a finer box overlaps it).  The model is written for ratio 2: oracle only.
        pf.ratios = (rq.choice([[4], [2, 4], [4, 2], [4, 4]]) + [2, 4])[:pf.nlevels - 1]
        pf.meta['ratios'] = list(pf.ratios)
    count(f"refinement ratios={pf.meta.get('ratios', 'all 2')}")
    keys = c01.reader_keys(pf.fields)
    path = core.scratch_dir(f"c19_{seed}")
    gen.write_plotfile(pf, path)
    count(f"levels={pf.nlevels}")
    count(f"geo={pf.meta['geo']}")
    limit_arg = rng.choice([None, None] + list(range(pf.nlevels)))
    L = pf.nlevels - 1 if limit_arg is None else limit_arg
    pck = PlotfileCooker(path, limit_level=limit_arg)
    lv_sx = [[[list(lo), list(hi)] for lo, hi in pf.levels[lv].boxes] for lv in range(L + 1)]
    real_mc = pcm.map_coordinates
    calls = []

    def spy(arr, coords, *a, **k):
        calls.append((np.array(arr, copy=True), np.array(coords, dtype=float).ravel().tolist()))
        return real_mc(arr, coords, *a, **k)
    pcm.map_coordinates = spy
    try:
        for k in range(10):
            kind, P, lv, b, cell = pick_point(rng, pf, L)
            fkind, fsel, comps = gen_fsel(rng, keys)
            if kwname and k < 3:
                fkind, fsel, comps = 'the keyword-like name', kwname, None
            if comps is None:
                comps = [keys.index(fsel) if isinstance(fsel, str) else fsel]
                single = True
            else:
                single = False
            u = [Fraction(d) / 2 for d in pf.dx(L)]
            xyz = [float(Fraction(g) + p * uu) for g, p, uu in zip(pf.geo_low, P, u)]
            count(f"point={kind}")
            count(f"fields={fkind}")
            desc = dict(seed=seed, point_kind=kind, point=xyz, half_cell_units=P, fields=repr(fsel), limit_level=limit_arg,
                        level=lv, box=b, cell=cell, meta=pf.meta)
            del calls[:]
            core.set_policy('identity', 0)
            res = core.outcome(lambda: np.array(pck[fsel](*xyz), dtype=float).ravel().tolist())
            out['evals'] += 1
            out['keys'].append(core.khash(seed, k))
            # ---- the property
            if kind == 'interior':
                want = [float(pf.levels[lv].data[b][tuple(c - l for c, l in zip(cell, pf.levels[lv].boxes[b][0])) + (cc,)])
                        for cc in comps]
                scale = max(1.0, float(np.abs(pf.levels[lv].data[b]).max()))
                if res[0] != 'ok':
                    out['violations'].append(dict(desc, kind='interior-centre-refused',
                                                  what='a query at an interior cell centre raised: ' + res[1]))
                    continue
                if len(res[1]) != len(want) or max(abs(g - w) for g, w in zip(res[1], want)) > 1e-9 * scale:
                    out['violations'].append(dict(desc, kind='wrong-value',
                                                  what=f"returned {res[1]} instead of the stored cell values {want}"))
                    continue
            if kind == 'outside' and res[0] == 'ok':
                out['violations'].append(dict(desc, kind='outside-answered',
                                              what=f"a point outside the domain was answered with {res[1]}"))
                continue
            # ---- the model
            if 'ratios' in pf.meta:
                continue
            st, m = model.call('point', [lv_sx, L, P])
            d = None
            if m[0] == 0:
                if res[0] == 'ok':
                    d = 'PointQuery.point_query says the query is refused, the implementation answered'
            elif m[0] == 1:
                _, mlv, mb, num, den = m
                if res[0] != 'ok':
                    d = f"PointQuery.point_query takes CASE 1 (level {mlv}, box {mb}); the implementation raised {res[1]}"
                elif not calls:
                    d = 'no spline evaluation was observed'
                else:
                    wantc = [n / den for n in num]
                    for ci, (arr, coords) in enumerate(calls):
                        box = pf.levels[mlv].data[mb][..., comps[ci]] if ci < len(comps) else None
                        if coords != wantc or box is None or arr.shape != box.shape or arr.tobytes() != np.ascontiguousarray(box).tobytes() and \
                                arr.tobytes() != np.asarray(box).copy().tobytes():
                            if coords != wantc:
                                d = f"spline evaluated at local index {coords}, PointQuery.point_query says {wantc} in box {mb} of level {mlv}"
                            elif box is None or not np.array_equal(arr, box):
                                d = f"spline evaluated on an array that is not field {comps[ci] if ci < len(comps) else '?'} of box {mb} of level {mlv}"
                            if d:
                                break
                    if not d and len(calls) != len(comps):
                        d = f"{len(calls)} spline evaluations for {len(comps)} selected fields"
                if kind == 'interior' and not d and (mlv, mb) != (lv, b):
                    d = f"model selects box {mb} of level {mlv} for an interior centre of box {b} of level {lv}"
            else:
                pass    # CASE 2 (between boxes) is outside the property and the model
            if d:
                out['disagreements'].append(dict(desc, kind='model-vs-impl', what=d,
                                                 correspondence='Point.PointQuery.point_query vs LevelDataSelector.__call__'))
            elif not out['samples'] and kind == 'interior':
                out['samples'].append(dict(desc, returned=res[1]))
    finally:
        pcm.map_coordinates = real_mc
    return out


def run(tier, seed):
    rep = core.Report(PID, tier, seed)
    pg = core.proof_gate(PID, thorough=(tier == 'thorough'))
    for t in pg['theorems']:
        rep.obligation('theorem ' + t, pg['ok'])
    if not pg['ok']:
        rep.violations.append((dict(kind='proof', what='proof obligations of Props/C19.v no longer check',
                                    theorem=pg['theorems'], problems=pg['problems']), False))
    ncases = 60 if tier == 'quick' else 800
    cases = [seed * 100000 + 19000 + i for i in range(ncases)]
    for r in core.run_cases(run_case, core.with_corpus(PID, cases)):
        rep.merge(r)
    rep.obligation('correspondence: Point.PointQuery.point_query (refused / CASE 1 box and local index) = outcome of '
                   'LevelDataSelector.__call__ and the (array, coordinates) handed to map_coordinates',
                   not any(v[0].get('kind') == 'model-vs-impl' for v in rep.violations))
    return rep.finish(
        level_rule=("cases = generated 3D plotfile (1-3 levels, block and chunky meshes, zero / non-zero / negative origin, anisotropic "
                    "dyadic cells) x reader limit x 10 (point, field selection); points on the half-cell lattice: interior cell centres of "
                    "the finest covering level (property: stored value, 1e-9 relative), arbitrary centres, cell faces, lattice points, "
                    "points outside the domain (property: refused); field selections: name, int, name list, index list, slice"),
        trusted_base=core.COMMON_TRUSTED + [
            "scipy.ndimage.map_coordinates returns the node value at integral in-range coordinates (validated here within 1e-9 relative; not modelled)",
            "float comparisons of the box matching are exact on dyadic geometries (all coordinates are small multiples of dx_finest/2 from the origin); the model works on that integer lattice"],
        assumptions=["numpy float arithmetic on dyadic rationals of small magnitude is exact"],
        checker_cmd=pg['checker_cmd'])


def replay(doc):
    core.worker_init(core.REPO, quiet=False)
    r = run_case(doc['seed'])
    bad = r['violations'] + r['disagreements']
    for v in bad:
        print('REPLAY:', v.get('what'))
    return 1 if bad else 0
