"""C14 - tool outputs are valid tool inputs: pipelines equal the composed pure operations."""
import copy
import os
import random
import numpy as np
from harness import core, gen, genchk, diskimg, oracle
from harness.props import c01, c02, c06, c11
from harness.props import taste_common as tc

PID = 'C14'


# ---------------------------------------------------------------- pure operations on abstract contents (gen.PF objects)

def pure_colander(pf, variables, limit):
    keys = c01.reader_keys(pf.fields)
    if variables == ['all']:
        kept = list(range(len(keys)))
    else:
        kept = [keys.index(v) for v in variables if v in keys]
    out = copy.copy(pf)
    out.fields = [keys[i] for i in kept]
    out.levels = []
    for lv in range(limit + 1):
        l = gen.Level()
        l.boxes = list(pf.levels[lv].boxes)
        l.data = [np.asfortranarray(d[..., kept]) for d in pf.levels[lv].data]
        out.levels.append(l)
    return out


def pure_chef(pf, recipe_fn, new_names, kept):
    keys = c01.reader_keys(pf.fields)
    fidx = {k: i for i, k in enumerate(keys)}
    keep_ids = [fidx[x] for x in kept.split() if x in fidx] if kept else []
    out = copy.copy(pf)
    out.fields = [keys[i] for i in keep_ids] + list(new_names)
    out.levels = []
    for lev in pf.levels:
        l = gen.Level()
        l.boxes = list(lev.boxes)
        l.data = []
        for d in lev.data:
            src = np.array(d, order='F')
            new = np.asarray(recipe_fn(fidx, src.copy(order='F')), dtype='float64')
            if new.ndim < 4:
                new = new[..., np.newaxis]
            l.data.append(np.asfortranarray(np.concatenate([src[..., keep_ids], new], axis=3) if keep_ids else new))
        out.levels.append(l)
    return out, keep_ids


def pure_combine(pf1, pf2, v1, v2):
    k1, k2 = c01.reader_keys(pf1.fields), c01.reader_keys(pf2.fields)
    n1, n2 = c06.resolve(k1, k2, v1, v2)
    if not n1 or not n2:
        return None, n1, n2
    i1 = [k1.index(n) for n in n1]
    i2 = [k2.index(n) for n in n2]
    out = copy.copy(pf1)
    out.fields = n1 + n2
    out.levels = []
    for l1, l2 in zip(pf1.levels, pf2.levels):
        l = gen.Level()
        l.boxes = list(l1.boxes)
        l.data = [np.asfortranarray(np.concatenate([a[..., i1], l2.data[l2.boxes.index(bx)][..., i2]], axis=-1))
                  for bx, a in zip(l1.boxes, l1.data)]
        out.levels.append(l)
    return out, n1, n2


def contents_match(oc, pf):
    """parsed output directory vs the pure contents"""
    if oc['fields'] != list(pf.fields):
        return f"fields {oc['fields']} instead of {list(pf.fields)}"
    if len(oc['levels']) != pf.nlevels:
        return f"{len(oc['levels'])} levels instead of {pf.nlevels}"
    if oc['time'] != pf.time or oc['geo_low'] != [float(x) for x in pf.geo_low] or oc['geo_high'] != [float(x) for x in pf.geo_high()]:
        return "time / domain bounds differ"
    for lv in range(pf.nlevels):
        lev, o = pf.levels[lv], oc['levels'][lv]
        if o['boxes'] != lev.boxes:
            return f"level {lv}: boxes differ"
        if oc['dx'][lv] != [float(x) for x in pf.dx(lv)]:
            return f"level {lv}: cell sizes differ"
        for (lo, hi), data, mn, mx, want in zip(o['boxes'], o['data'], o['mins'], o['maxs'], lev.data):
            if data.shape != want.shape or data.tobytes(order='F') != np.asarray(want, dtype='<f8').tobytes(order='F'):
                return f"level {lv} box {lo}-{hi}: values differ from the composed pure operations"
            for c in range(data.shape[-1]):
                if not c11.fnum_eq(mn[c], float(np.min(data[..., c]))) or not c11.fnum_eq(mx[c], float(np.max(data[..., c]))):
                    return f"level {lv} box {lo}-{hi} component {c}: min/max rows are not the extrema of the data"
    return None


def gen_ops(rng, n):
    kinds = ['colander', 'chef', 'combine_sibling', 'combine_ancestor']
    return [rng.choice(kinds) for _ in range(n)]


def plotfile_of_checkpoint(c, gradp, reactions, floor):
    """the abstract plotfile chk2plt must write from checkpoint c (theorem C17_tool: conv_pf), as a generator plotfile: fields,
    levels, boxes, time, geometry, per box the oracle's expected data, the state subset's file layout under the Cell names"""
    pf = gen.PF()
    pf.ndims = 3
    pf.fields = genchk.expected_fields(c, gradp, reactions)
    pf.time = c.time
    pf.step = c.step
    pf.geo_low = [float(x) for x in c.geo_low]
    pf.geo_high_given = [float(x) for x in c.geo_high()]
    g0 = np.max(np.array([b[1] for b in c.levels[0]['boxes']]), axis=0) + 1
    pf.n0 = [int(x) for x in g0]
    pf.dx0 = [float(x) for x in (np.array(pf.geo_high_given) - np.array(pf.geo_low)) / g0]
    pf.bf = 2
    for lv, lev in enumerate(c.levels):
        L = gen.Level()
        L.boxes = [(tuple(lo), tuple(hi)) for lo, hi in lev['boxes']]
        L.data = [np.asfortranarray(genchk.expected_box(c, lv, b, gradp, reactions, floor)) for b in range(len(lev['boxes']))]
        L.files = [(name.replace('state', 'Cell'), list(members)) for name, members in lev['files']['state']]
        pf.levels.append(L)
    pf.meta = dict(geo='from-checkpoint', layouts=['state layout'] * len(c.levels), payload='random', nlevels=len(c.levels),
                   checkpoint=c.meta)
    return pf


def run_case(seed):
    from amr_kitchen import PlotfileCooker
    from amr_kitchen.colander.colander import Colander
    from amr_kitchen.combine import combine
    from amr_kitchen.chef import Chef
    rng = random.Random(seed)
    model = core.W['model']
    out = dict(evals=0, keys=[], dist={}, samples=[], violations=[], disagreements=[])
    dist = out['dist']

    def count(k):
        dist[k] = dist.get(k, 0) + 1

    pf0 = gen.gen_plotfile(rng, ndims=3, max_blocks=2, nfields=(2, 4), nlevels=rng.choice([1, 2, 2, 3]), unicode_names=0.2,
                           payload=rng.choice(['ints', 'random']))
    pf0.fields = [f.replace(' ', '_') for f in pf0.fields]
    root = core.scratch_dir(f"c14_{seed}")
    os.makedirs(root)
    p0 = os.path.join(root, 'plt00000')
    img0 = diskimg.image_of(pf0)
    diskimg.write_image(img0, p0)
    # chk2plt AS THE SOURCE of the chain (theorem C14_chain_from_checkpoint): the first plotfile is what chk2plt writes from a
    # generated checkpoint; the chain goes on from it when the directory written IS the image of the abstract plotfile the
    # conversion must give (exact for dyadic geometries; a printed bound that differs in its last digit ends the attempt)
    rc = random.Random(seed * 7741 + 3)
    from_chk = rc.random() < 0.15
    if from_chk:
        from amr_kitchen.chk2plt import chk2plt
        ck = genchk.gen_checkpoint(rc, nlevels=rc.choice([1, 2]))
        chkdir = os.path.join(root, 'chk00005')
        genchk.write_checkpoint(ck, chkdir)
        gradp, reactions, floor = rc.random() < 0.5, rc.random() < 0.4, rc.random() < 0.5
        pconv = os.path.join(root, 'plt_from_chk')
        resc = core.outcome(lambda: chk2plt(chkdir, species=list(ck.species), gradp=gradp, species_reactions=reactions,
                                            floor_massfracs=floor, pltdir=pconv) and None)
        ok = resc[0] == 'ok'
        if ok:
            pfc = plotfile_of_checkpoint(ck, gradp, reactions, floor)
            imgc = diskimg.image_of(pfc)
            ok = oracle.same_image(oracle.read_image(pconv), imgc) is None
        count(f"chain started from a chk2plt conversion={'yes' if ok else 'attempted (the written directory is not digit for digit the expected image)'}")
        if ok:
            pf0, p0, img0 = pfc, pconv, imgc
    rl = random.Random(seed * 389 + 1)
    if rl.random() < 0.2 and not from_chk:
        # the first plotfile of the chain has level directories / binary files that are symbolic links
        pf0.meta['symlinks'] = gen.symlink_parts(p0, os.path.join(root, 'store'), rl)
    count(f"symbolic links inside the first input={'symlinks' in pf0.meta}")
    # all sequences of length <= 2 over operation kinds are enumerated by the seeds; longer ones sampled
    nops = rng.choice([1, 2, 2, 3, 3, 4])
    kinds = ['colander', 'chef', 'combine_sibling', 'combine_ancestor']
    if nops <= 2:
        idx = seed % (len(kinds) ** nops)
        ops = [kinds[(idx // len(kinds) ** i) % len(kinds)] for i in range(nops)]
    else:
        ops = gen_ops(rng, nops)
    count(f"length={nops}")
    count(f"non-ASCII field names={'names:unicode' in pf0.meta['geo']}")
    states = [(pf0, p0, diskimg.image_sx(img0))]       # (pure contents, impl directory, model image sx)
    desc_ops = []
    model_ok = True
    spec_ops = []          # the chain as the specification side sees it (theorem C14_full_chain), while the models follow
    model_imgs = []        # the tool-model image after each of these hops

    def pf_sx(pf):
        return [c02.gheader_sx(pf), [[c02.lvboxes_sx(pf, lv), gen.level_to_sx(pf, lv), c02.cellh_sx(pf, lv)[3], c02.cellh_sx(pf, lv)[4]]
                                     for lv in range(pf.nlevels)]]
    for hop, kind in enumerate(ops):
        cur, cur_path, cur_msx = states[-1]
        keys = c01.reader_keys(cur.fields)
        outp = os.path.join(root, f"hop{hop}")
        step = None
        mres = None
        if kind == 'colander':
            vk, variables = rng.choice([('all', ['all']), ('subset', None), ('perm', None)])
            if variables is None:
                k = rng.randint(1, len(keys))
                variables = rng.sample(keys, k) if vk == 'perm' else sorted(rng.sample(keys, k), key=keys.index)
            limit = rng.randint(0, cur.nlevels - 1) if rng.random() < 0.4 else cur.nlevels - 1
            step = dict(op='colander', variables=variables, limit_level=limit)
            res = core.outcome(lambda: core.kept_alive(Colander(plotfile=cur_path, limit_level=limit, output=outp, variables=list(variables))).strain())
            nxt = pure_colander(cur, variables, limit)
            if model_ok:
                mres = model.call('colander', [[v.encode() for v in variables], [limit], cur_msx])
                spec_ops.append([0, [v.encode() for v in variables], [limit]])
        elif kind == 'chef':
            rkind, ncomp, tmpl = c11.pick_recipe(rng, seed, hop)
            a, b = rng.choice(keys), rng.choice(keys)
            new_names = [f"ck{hop}_{rkind}_{i}" for i in range(ncomp)]
            src = tmpl.format(a=a, b=b, n0=new_names[0], n1=new_names[1] if ncomp > 1 else '', n2=new_names[2] if ncomp > 2 else '')
            rpath = os.path.join(root, f"recipe{hop}.py")
            with open(rpath, 'w') as f:
                f.write(src)
            kept = rng.choice([None, ' '.join(keys), ' '.join(rng.sample(keys, rng.randint(1, len(keys))))])
            step = dict(op='chef', recipe=rkind, on=[a, b], kept_fields=kept)
            res = core.outcome(lambda: core.kept_alive(Chef(plotfile=cur_path, recipe=rpath, outfile=outp, kept_fields=kept,
                                            serial=rng.random() < 0.5)).cook())
            fn = c11.load_recipe(rpath)
            nxt, keep_ids = pure_chef(cur, fn, new_names, kept)
            if model_ok and any(c11.zeros_of_both_signs(d) for l in nxt.levels for d in l.data):
                # which zero np.min / np.max return is numpy's reduction order: the byte-level comparison with the model
                # ends here for this chain (the property oracle goes on)
                model_ok = False
                dist['model comparison ended: zeros of both signs in a cooked component'] = \
                    dist.get('model comparison ended: zeros of both signs in a cooked component', 0) + 1
            if model_ok:
                fidx = {k: i for i, k in enumerate(keys)}
                table = []
                for lvi, lev in enumerate(cur.levels):
                    for (lo, hi), data in zip(lev.boxes, lev.data):
                        new = np.asarray(fn(fidx, np.array(data, order='F')))
                        if new.ndim < 4:
                            new = new[..., np.newaxis]
                        table.append([lvi, list(lo), list(hi), [np.asarray(new[..., c], dtype='<f8').tobytes(order='F')
                                                                for c in range(new.shape[-1])]])
                mres = model.call('chef', [keep_ids, [x.encode() for x in nxt.fields], table, cur_msx])
                spec_ops.append([2, keep_ids, [x.encode() for x in nxt.fields], table])
        else:
            if kind == 'combine_ancestor':
                cands = [s for s in states[:-1] if s[0].nlevels == cur.nlevels]
                if not cands:
                    kind = 'combine_sibling'
            other_ref = None
            if kind == 'combine_ancestor':
                chosen = rng.choice(cands)
                other, other_path, other_msx = chosen
                other_ref = [1, next(i for i, st_ in enumerate(states) if st_ is chosen)]
            else:
                other = c06.second_plotfile(rng, _with_layout(rng, cur), 'different')
                other_path = os.path.join(root, f"sibling{hop}")
                oimg = diskimg.image_of(other)
                diskimg.write_image(oimg, other_path)
                other_msx = diskimg.image_sx(oimg)
            k2 = c01.reader_keys(other.fields)
            v1 = rng.choice([None, rng.sample(keys, rng.randint(1, len(keys)))])
            v2 = rng.choice([None, rng.sample(k2, rng.randint(1, len(k2)))])
            step = dict(op=kind, vars1=v1, vars2=v2, other_fields=k2)
            nxt, n1, n2 = pure_combine(cur, other, v1, v2)
            res = core.outcome(lambda: combine(PlotfileCooker(cur_path), PlotfileCooker(other_path), pltout=outp,
                                               vars1=copy.copy(v1), vars2=copy.copy(v2)))
            if nxt is None:
                # nothing left to take from one side: refused by design; the pipeline ends here
                desc_ops.append(dict(step, refused=True))
                if res[0] == 'ok':
                    out['disagreements'].append(dict(seed=seed, ops=desc_ops, kind='model-vs-impl',
                                                     what='an empty selection was combined', correspondence='combine refusal'))
                break
            if model_ok:
                mres = model.call('combine', [[x.encode() for x in n1], [x.encode() for x in n2], cur_msx, other_msx])
                spec_ops.append([1, [x.encode() for x in n1], [x.encode() for x in n2], other_ref or [0, pf_sx(other)]])
        desc_ops.append(step)
        count(f"op={step['op']}")
        out['evals'] += 1
        desc = dict(seed=seed, ops=desc_ops, hop=hop, fields0=c01.reader_keys(pf0.fields), meta=pf0.meta)
        bad = None
        if res[0] != 'ok':
            bad = f"hop {hop} ({step['op']}) raised on a tool-written input: " + res[1]
        else:
            iimg = oracle.read_image(outp)
            try:
                oc = oracle.contents_of_image(iimg)
                bad = contents_match(oc, nxt)
            except (ValueError, IndexError, KeyError) as e:
                bad = f"hop {hop} ({step['op']}): output is not a well-formed plotfile: {e}"
            if not bad:
                for opts in ((True, True, False, False), (True, True, False, True)):
                    v, detail = tc.impl_taste(outp, None, opts, True)
                    if v != 'good':
                        bad = f"hop {hop} ({step['op']}): validation does not accept the intermediate result: {v} {detail}"
                        break
        if bad:
            out['violations'].append(dict(desc, kind='wrong-output', what=bad))
            break
        msx = cur_msx
        if model_ok:
            if mres is None or mres[0] != 'ok':
                out['disagreements'].append(dict(desc, kind='model-vs-impl', what=f"hop {hop}: the model refuses the operation",
                                                 correspondence='composition of Writers.* models vs the tool chain'))
                model_ok = False
            else:
                msx = mres[1]
                model_imgs.append(msx)
                d = oracle.same_image(iimg, oracle.image_from_sx(msx))
                if d:
                    out['disagreements'].append(dict(desc, kind='model-vs-impl',
                                                     what=f"hop {hop} ({step['op']}): directory differs from the composed models: " + d,
                                                     correspondence='composition of Writers.* models vs the tool chain'))
                    model_ok = False
        states.append((nxt, outp, msx))
    else:
        if not out['samples'] and len(desc_ops) >= 2:
            out['samples'].append(dict(seed=seed, ops=desc_ops, final_fields=list(states[-1][0].fields)))
    # specification side: the composed pure operations of theorem C14_full_chain on the abstract plotfile; the image of
    # their k-th state must be what the composed tool models (and the tools) wrote after hop k
    nspec = min(len(spec_ops), len(model_imgs))
    if nspec:
        goods = [pf_sx(pf0)] + [o[3][1] for o in spec_ops[:nspec] if o[0] == 1 and o[3][0] == 0]
        for gi, gsx in enumerate(goods):
            stg, gb = model.call('goodb', gsx)
            count(f"hypothesis 'good' of C14_full_chain holds={stg == 'ok' and gb == 1}")
            if not (stg == 'ok' and gb == 1):
                out['disagreements'].append(dict(seed=seed, ops=desc_ops, kind='hypothesis',
                                                 what=("the initial plotfile" if gi == 0 else "a sibling plotfile") + " does not satisfy 'good' (goodb = false)",
                                                 correspondence='Writers.GoodB.goodb'))
        st2, sp = model.call('full_chain', [pf_sx(pf0), spec_ops[:nspec]])
        sdesc = dict(seed=seed, ops=desc_ops, fields0=c01.reader_keys(pf0.fields), meta=pf0.meta)
        if st2 != 'ok':
            out['disagreements'].append(dict(sdesc, kind='spec', what='the specification entry refuses the abstract plotfile or the chain',
                                             correspondence='Entry.e_full_chain'))
        else:
            d0 = oracle.same_image(img0, oracle.image_from_sx(sp[0]))
            if d0:
                out['disagreements'].append(dict(sdesc, kind='encode', what='Abstract.pf_disk of the abstract plotfile differs from the directory on disk: ' + d0,
                                                 correspondence='Plotfile.Abstract.pf_disk vs the generator writer'))
            for kk in range(nspec):
                if kk >= len(sp[1]) or not sp[1][kk]:
                    out['disagreements'].append(dict(sdesc, kind='spec-vs-model', hop=kk,
                                                     what=f"theorem C14_full_chain instance: the pure operation of hop {kk} is undefined although the tool model succeeded",
                                                     correspondence='Writers.FullPipeline.full_pipeline'))
                    break
                dsp = oracle.same_image(oracle.image_from_sx(model_imgs[kk]), oracle.image_from_sx(sp[1][kk][0]))
                if dsp:
                    out['disagreements'].append(dict(sdesc, kind='spec-vs-model', hop=kk,
                                                     what=f"theorem C14_full_chain instance: after hop {kk} the composed tool models differ from pf_disk of the composed pure operations: " + dsp,
                                                     correspondence='Writers.FullPipeline.full_pipeline'))
                    break
            count(f"specification chain compared over {nspec} hop(s)")
    out['keys'].append(core.khash(seed, tuple(o['op'] for o in desc_ops)))
    return out


def reused_selection_case(seed):
    """a library pipeline that reuses ONE selection list for its colander steps: strain the original (one requested
    name does not exist yet), cook that field, strain the cooked plotfile with the same list object - each result
    must be what the pure operations give for the list as the caller wrote it"""
    from amr_kitchen.colander.colander import Colander
    from amr_kitchen.chef import Chef
    rng = random.Random(seed)
    out = dict(evals=0, keys=[core.khash(seed, 'reused-selection')], dist={'case=one selection list reused by the colander steps of a chain': 1},
               samples=[], violations=[], disagreements=[])
    pf0 = gen.gen_plotfile(rng, ndims=rng.choice([2, 3]) if False else 3, max_blocks=2, nfields=(2, 4), nlevels=rng.choice([1, 2]),
                           payload=rng.choice(['ints', 'random']))
    pf0.fields = [f.replace(' ', '_') for f in pf0.fields]
    keys = c01.reader_keys(pf0.fields)
    root = core.scratch_dir(f"c14r_{seed}")
    os.makedirs(root)
    p0 = os.path.join(root, 'plt00000')
    diskimg.write_image(diskimg.image_of(pf0), p0)
    new_name = 'twice'
    order = rng.sample(keys, rng.randint(1, len(keys)))
    order.insert(rng.randrange(len(order) + 1), new_name)       # the not-yet-existing name anywhere in the list
    wanted = list(order)                                         # ONE list object for every colander step
    rpath = os.path.join(root, 'recipe.py')
    with open(rpath, 'w') as f:
        f.write(c11.RECIPES[1][2].format(a=keys[0], b=keys[0], n0=new_name, n1='', n2=''))
    fn = c11.load_recipe(rpath)
    desc = dict(seed=seed, case_fn='reused_selection_case', selection=order, fields0=keys, meta=pf0.meta)
    steps = []
    limit = pf0.nlevels - 1

    def check(tag, outp, want):
        try:
            bad = contents_match(oracle.contents_of_image(oracle.read_image(outp)), want)
        except (ValueError, IndexError, KeyError) as e:
            bad = f'output is not a well-formed plotfile: {e}'
        if not bad:
            v, detail = tc.impl_taste(outp, None, (True, True, False, True), True)
            if v != 'good':
                bad = f'validation does not accept the result: {v} {detail}'
        return bad and f"{tag}: {bad}"
    # step 1: strain the original
    o1 = os.path.join(root, 's1')
    res = core.outcome(lambda: core.kept_alive(Colander(plotfile=p0, limit_level=None, output=o1, variables=wanted)).strain())
    out['evals'] += 1
    bad = ('step 1 (colander) raised: ' + res[1]) if res[0] != 'ok' else check('step 1 (colander)', o1, pure_colander(pf0, order, limit))
    # step 2: cook the new field, keeping everything
    if not bad:
        o2 = os.path.join(root, 'cooked')
        res = core.outcome(lambda: core.kept_alive(Chef(plotfile=p0, recipe=rpath, outfile=o2, kept_fields=' '.join(keys), serial=True)).cook())
        out['evals'] += 1
        cooked, _ = pure_chef(pf0, fn, [new_name], ' '.join(keys))
        bad = ('step 2 (chef) raised: ' + res[1]) if res[0] != 'ok' else check('step 2 (chef)', o2, cooked)
    # step 3: strain the cooked plotfile with the SAME list object
    if not bad:
        o3 = os.path.join(root, 's3')
        res = core.outcome(lambda: core.kept_alive(Colander(plotfile=o2, limit_level=None, output=o3, variables=wanted)).strain())
        out['evals'] += 1
        bad = ('step 3 (colander) raised: ' + res[1]) if res[0] != 'ok' else \
            check('step 3 (colander, same selection list as step 1)', o3, pure_colander(cooked, order, limit))
    if bad:
        out['violations'].append(dict(desc, kind='wrong-output', what=bad))
    return out


def builtin_chain_case(seed):
    """the pipeline the property names, with a BUILT-IN recipe: cook a thermochemical field keeping temperature and some
    mass fractions, then combine the cooked plotfile back into the original.  The cooked plotfile holds the kept
    fields bit for bit (cells without a state included) and the Cantera property; the combined one the original
    fields unchanged plus the new one; both are accepted by taste."""
    from amr_kitchen import PlotfileCooker
    from amr_kitchen.chef import Chef
    from amr_kitchen.combine import combine
    rng = random.Random(seed)
    nprng = np.random.default_rng(seed)
    out = dict(evals=0, keys=[core.khash(seed, 'builtin-chain')], dist={}, samples=[], violations=[], disagreements=[])
    pf, fields, gas, sp, covered, half = c11.thermo_plotfile(seed, rng, nprng)
    keys = list(fields)
    fidx = {k: i for i, k in enumerate(keys)}
    root = core.scratch_dir(f"c14b_{seed}")
    os.makedirs(root)
    path = os.path.join(root, 'plt00000')
    diskimg.write_image(diskimg.image_of(pf), path)
    recipe = rng.choice(['ENT', 'HRR', 'SDi'])
    species = rng.sample(sp, 2) if recipe == 'SDi' else None
    sp_idx = [sp.index(x) for x in species] if species else []
    new_names = [f"{c11.COOKBOOK[recipe][1]}({x})" for x in species] if species else [c11.COOKBOOK[recipe][1]]
    kept_names = ['temp', 'Y(O2)'] + rng.sample([k for k in keys if k not in ('temp', 'Y(O2)')], 2)
    rng.shuffle(kept_names)
    keep_ids = [fidx[x] for x in kept_names]
    pressure = rng.choice([0.5, 1.0, 4.0])
    serial = rng.random() < 0.5
    out['dist'][f'case=built-in recipe chain ({recipe})'] = 1
    out['dist'][f"cells without a state={'yes' if covered else 'no'}"] = 1
    desc = dict(seed=seed, case_fn='builtin_chain_case', chain=['chef ' + recipe, 'combine with the original'], kept_fields=kept_names,
                species=species, pressure_atm=pressure, serial=serial, fields=keys, meta=pf.meta)
    cooked = os.path.join(root, 'cooked')
    res = core.outcome(lambda: core.kept_alive(Chef(plotfile=path, recipe=recipe, outfile=cooked, species=species, mech=c11.MECH, pressure=pressure,
                                    kept_fields=' '.join(kept_names), serial=serial)).cook())
    out['evals'] += 1

    def recipe_fn(fi, box):
        return c11.builtin_expected(gas, box, keys, recipe, sp_idx, [], pressure)
    bad = None
    if res[0] != 'ok':
        bad = 'hop 0 (chef, built-in recipe) raised: ' + res[1]
    else:
        try:
            oc1 = oracle.contents_of_image(oracle.read_image(cooked))
            bad = c11.check_contents(oc1, pf, keys, keep_ids, new_names, recipe_fn, fidx, new_rtol=1e-9)
            bad = bad and 'hop 0 (chef, built-in recipe): ' + bad
        except (ValueError, IndexError, KeyError) as e:
            bad = f'hop 0 (chef, built-in recipe): output is not a well-formed plotfile: {e}'
        if not bad:
            v, detail = tc.impl_taste(cooked, None, (True, True, False, True), True)
            if v != 'good':
                bad = f'hop 0: validation does not accept the cooked plotfile: {v} {detail}'
    if bad:
        out['violations'].append(dict(desc, kind='wrong-output', what=bad))
        return out
    comb = os.path.join(root, 'combined')
    res = core.outcome(lambda: combine(PlotfileCooker(path), PlotfileCooker(cooked), pltout=comb))
    out['evals'] += 1
    nk = len(keep_ids)
    if res[0] != 'ok':
        bad = 'hop 1 (combine with the original) raised on a tool-written input: ' + res[1]
    else:
        try:
            oc2 = oracle.contents_of_image(oracle.read_image(comb))
            if oc2['fields'] != keys + new_names:
                bad = f"hop 1: fields {oc2['fields']} instead of the original fields plus {new_names}"
            for lv in range(pf.nlevels):
                if bad:
                    break
                lev, o1, o2 = pf.levels[lv], oc1['levels'][lv], oc2['levels'][lv]
                if o2['boxes'] != lev.boxes:
                    bad = f"hop 1: level {lv}: boxes differ from the original's"
                    break
                for b, ((lo, hi), data) in enumerate(zip(o2['boxes'], o2['data'])):
                    if data[..., :len(keys)].tobytes(order='F') != np.asarray(lev.data[b], dtype='<f8').tobytes(order='F'):
                        bad = f"hop 1: level {lv} box {lo}-{hi}: the original fields are not unchanged"
                        break
                    b1 = o1['boxes'].index((lo, hi))
                    if data[..., len(keys):].tobytes(order='F') != np.asarray(o1['data'][b1][..., nk:], dtype='<f8').tobytes(order='F'):
                        bad = f"hop 1: level {lv} box {lo}-{hi}: the cooked field is not the one chef wrote"
                        break
        except (ValueError, IndexError, KeyError) as e:
            bad = f'hop 1: output is not a well-formed plotfile: {e}'
        if not bad:
            v, detail = tc.impl_taste(comb, None, (True, True, False, True), True)
            if v != 'good':
                bad = f'hop 1: validation does not accept the combined plotfile: {v} {detail}'
    if bad:
        out['violations'].append(dict(desc, kind='wrong-output', what=bad))
    elif not out['samples']:
        out['samples'].append(dict(desc, final_fields=keys + new_names))
    return out


def _with_layout(rng, pf):
    """second_plotfile deep-copies levels incl. their file layout: give the pure contents one"""
    p = copy.copy(pf)
    p.levels = []
    for lev in pf.levels:
        l = gen.Level()
        l.boxes, l.data = list(lev.boxes), list(lev.data)
        l.files, _ = gen.gen_layout(rng, len(l.boxes))
        p.levels.append(l)
    p.meta = dict(pf.meta)
    return p


def two_dirs_combine(seed):
    return core.two_dirs_case(PID, 'combine', seed)


def run(tier, seed):
    rep = core.Report(PID, tier, seed)
    pg = core.proof_gate(PID, thorough=(tier == 'thorough'))
    for t in pg['theorems']:
        rep.obligation('theorem ' + t, pg['ok'])
    if not pg['ok']:
        rep.violations.append((dict(kind='proof', what='proof obligations of Props/C14.v no longer check',
                                    theorem=pg['theorems'], problems=pg['problems']), False))
    ncases = 64 if tier == 'quick' else 640
    cases = [seed * 100000 + 14000 + i for i in range(ncases)]
    for r in core.run_cases(run_case, core.with_corpus(PID, cases)):
        rep.merge(r)
    for r in core.run_cases(reused_selection_case, [seed * 100000 + 14950 + i for i in range(4 if tier == 'quick' else 40)]):
        rep.merge(r)
    for r in core.run_cases(builtin_chain_case, [seed * 100000 + 14900 + i for i in range(6 if tier == 'quick' else 60)]):
        rep.merge(r)
    for r in core.run_cases(two_dirs_combine, [seed * 100000 + 99000 + i for i in range(1 if tier == 'quick' else 5)]):
        rep.merge(r)
    rep.obligation('correspondence: the composition of the extracted writer models (colander, combine, chef), each fed the previous '
                   "model's output image, = the directory written by the tool chain after every hop",
                   not any(v[0].get('kind') == 'model-vs-impl' for v in rep.violations))
    rep.obligation("hypotheses of C14_full_chain on every case: goodb = true for the initial plotfile and every sibling (proved sound for 'good')",
                   not any(v[0].get('kind') == 'hypothesis' for v in rep.violations))
    rep.obligation('theorem instance (C14_full_chain) on every case: the images of the composed pure operations (colander_spec, combine_pure, '
                   'chef_spec) = the images written by the composed tool models after every hop, evaluated by the extracted code',
                   not any(v[0].get('kind') in ('spec-vs-model', 'spec', 'encode') for v in rep.violations))
    return rep.finish(
        level_rule=("cases = generated 3D plotfile - or, in about one case out of seven, the plotfile chk2plt writes from a generated "
                    "checkpoint (theorem C14_chain_from_checkpoint) - x operation sequence over {colander(vars, limit), chef(user recipe, kept), combine with a "
                    "fresh sibling on the current mesh, combine with an ancestor of the pipeline}: every sequence of length <= 2 over the "
                    "four kinds (enumerated through the seed), sampled sequences of length 3-4; after EVERY hop the output is parsed by "
                    "the independent reader and compared with the composed pure numpy operations (fields, boxes, values bit for bit, "
                    "min/max), validated by taste with and without box coordinates, and compared byte for byte with the composed models"),
        trusted_base=core.COMMON_TRUSTED + ["chains that start from a chk2plt conversion go on only when the directory chk2plt wrote is, digit for "
                                           "digit, the image of the abstract plotfile the conversion must give (dyadic geometries; a printed "
                                           "box bound differing in its last digit ends that attempt - the conversion itself is checked by C17)"],
        assumptions=["float(repr(x)) == x (headers re-printed by every hop are compared by value)"],
        checker_cmd=pg['checker_cmd'])


def replay(doc):
    core.worker_init(core.REPO, quiet=False)
    r = (builtin_chain_case(doc['seed']) if doc.get('case_fn') == 'builtin_chain_case' else
         reused_selection_case(doc['seed']) if doc.get('case_fn') == 'reused_selection_case' else run_case(doc['seed']))
    bad = r['violations'] + r['disagreements']
    for v in bad:
        print('REPLAY:', v.get('what'))
    return 1 if bad else 0
