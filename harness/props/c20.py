"""C20 - whatever taste accepts, the reader can read completely and consistently."""
from harness import core
from harness.props import c04

PID = 'C20'


def run_case(seed):
    return c04.run_case(seed, c20=True)


def run(tier, seed):
    rep = core.Report(PID, tier, seed)
    pg = core.proof_gate(PID, thorough=(tier == 'thorough'))
    for t in pg['theorems']:
        rep.obligation('theorem ' + t, pg['ok'])
    if not pg['ok']:
        rep.violations.append((dict(kind='proof', what='proof obligations of Props/C20.v no longer check',
                                    theorem=pg['theorems'], problems=pg['problems']), False))
    ncases = 24 if tier == 'quick' else 400
    cases = [seed * 100000 + 20000 + i for i in range(ncases)]
    for r in core.run_cases(run_case, core.with_corpus(PID, cases)):
        # C04-only violation kinds are reported by C04; keep the verdict correspondence and the C20 kinds
        r['violations'] = [v for v in r.get('violations', []) if v.get('kind', '').startswith('accepted-')]
        rep.merge(r)
    rep.obligation('correspondence: Taste.taste_good = bool(Taster) on every image (default options)',
                   not any(v[0].get('kind') == 'model-vs-impl' for v in rep.violations))
    rep.notes.append('accepted fraction: %d accepted images (%d of them damaged/edited) out of %d evaluated images' % (
        rep.extra.get('accepted_images', 0), rep.extra.get('accepted_damaged_images', 0), rep.dist.get('ncorruptions=1', 0) + rep.dist.get('ncorruptions=2', 0)))
    return rep.finish(
        level_rule=("cases = generated plotfile x 30 images (C04 corruption classes plus byte-level edits of recorded offsets, FAB header "
                    "text and level-header whitespace, singly and in pairs); for every image default validation accepts, every box of every "
                    "validated level is read through the indexing interface and compared with the FAB whose header names its index range; "
                    "non-trivial = accepted image that is damaged or edited; distinct = distinct (seed, corruption list)"),
        trusted_base=core.COMMON_TRUSTED,
        assumptions=["recorded offsets pointing at header-shaped text embedded in payload bytes are outside the generated stream (Props/C20.v states the proviso)"],
        checker_cmd=pg['checker_cmd'])
