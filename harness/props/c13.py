"""C13 - tools never touch their inputs and report failures instead of returning."""
import builtins
import contextlib
import hashlib
import io
import os
import random
import shutil
import sys
import numpy as np
from harness import core, gen, genchk, diskimg
from harness.props import c01, c06, c11

PID = 'C13'

ST = {'on': False, 'events': [], 'fault_at': None, 'count': 0, 'installed': False, 'wfault_at': None, 'wcount': 0}
WRITE_EVENTS = ('os.mkdir', 'os.rename', 'os.remove', 'os.rmdir', 'shutil.rmtree', 'os.truncate', 'os.link', 'os.symlink')


def _hook(event, args):
    if not ST['on']:
        return
    path = None
    if event == 'open' and args and isinstance(args[0], (str, bytes)):
        mode = args[1] if len(args) > 1 and isinstance(args[1], str) else None
        flags = args[2] if len(args) > 2 and isinstance(args[2], int) else 0
        writing = (mode is not None and any(c in mode for c in 'wax+')) or (flags & (os.O_WRONLY | os.O_RDWR | os.O_CREAT))
        if writing:
            path = args[0]
    elif event in WRITE_EVENTS and args:
        path = args[0]
        if event == 'os.rename' and len(args) > 1:
            ST['events'].append((event, os.path.abspath(os.fsdecode(args[1]))))
    if path is None:
        return
    path = os.path.abspath(os.fsdecode(path))
    if path.startswith('/dev/') or '/__pycache__' in path or path.endswith('.pyc'):
        return
    ST['events'].append((event, path))
    ST['count'] += 1
    if ST['fault_at'] is not None and ST['count'] == ST['fault_at']:
        raise OSError(28, 'No space left on device (injected fault)', path)


class FaultyFile:
    """write-mode file whose k-th write() raises, or whose buffered data are lost
    when it is closed (the deferred ENOSPC / EIO of a flush): close() - called
    explicitly or by a with block - then raises; a file that is never closed
    explicitly loses its data silently, as the interpreter's finalizer would
    discard the error"""

    def __init__(self, f, idx):
        object.__setattr__(self, '_f', f)
        object.__setattr__(self, '_idx', idx)
        object.__setattr__(self, '_closed', False)

    def write(self, data):
        ST['wcount'] += 1
        ST.setdefault('wlog', []).append(self._idx)
        if ST['wfault_at'] is not None and ST['wcount'] == ST['wfault_at']:
            raise OSError(5, 'Input/output error (injected fault)')
        if getattr(self, '_full', False):
            raise OSError(27, 'File too large (injected file size limit)')
        if ST.get('sfault_at') is not None and ST['wcount'] == ST['sfault_at']:
            # the file reaches a size limit in the middle of this write: half of the data is accepted.  A raw file
            # (buffering=0) reports the short count and it is the caller's business; a buffered file retries the rest
            # and gets the error
            object.__setattr__(self, '_full', True)
            n = len(data) // 2
            self._f.write(data[:n])
            if isinstance(self._f, io.RawIOBase):
                return n
            raise OSError(27, 'File too large (injected file size limit)')
        return self._f.write(data)

    def _lose(self):
        try:
            self._f.flush()
            self._f.truncate(0)
        except (OSError, ValueError):
            pass

    def close(self):
        if self._closed:
            return
        object.__setattr__(self, '_closed', True)
        if ST.get('cfault_at') == self._idx:
            self._lose()
            self._f.close()
            raise OSError(28, 'No space left on device (injected fault at close)')
        self._f.close()

    def __del__(self):
        try:
            if not self._closed and ST.get('cfault_at') == self._idx:
                self._lose()
                ST['swallowed'] = getattr(self._f, 'name', '?')
            self._f.close()
        except Exception:
            pass

    def __getattr__(self, name):
        return getattr(self._f, name)

    def __enter__(self):
        return self

    def __exit__(self, *a):
        self.close()
        return False

    def __iter__(self):
        return iter(self._f)


_real_open = builtins.open


def _open(file, mode='r', *a, **k):
    f = _real_open(file, mode, *a, **k)
    if ST['on'] and isinstance(mode, str) and any(c in mode for c in 'wax+'):
        ST['ocount'] = ST.get('ocount', 0) + 1
        return FaultyFile(f, ST['ocount'])
    return f


def observe(fn, fault_at=None, wfault_at=None, cfault_at=None, sfault_at=None):
    if not ST['installed']:
        sys.addaudithook(_hook)
        ST['installed'] = True
    ST.update(on=True, events=[], fault_at=fault_at, count=0, wfault_at=wfault_at, wcount=0, cfault_at=cfault_at, ocount=0,
              swallowed=None, sfault_at=sfault_at, wlog=[])
    builtins.open = _open
    buf = io.StringIO()
    try:
        with contextlib.redirect_stdout(buf), contextlib.redirect_stderr(buf):
            res = core.outcome(fn)
    finally:
        builtins.open = _real_open
        import gc
        gc.collect()
        ST['on'] = False
    return res, list(ST['events']), ST['count'], ST['wcount']


def snapshot(path):
    h = {}
    for root, dirs, files in os.walk(path):
        for d in dirs:
            h[os.path.join(root, d)] = 'dir'
        for fn in files:
            fp = os.path.join(root, fn)
            st = os.stat(fp)
            with _real_open(fp, 'rb') as f:
                h[fp] = (st.st_size, st.st_mtime_ns, st.st_mode, hashlib.sha256(f.read()).hexdigest())
    return h


def tree_digest(path):
    if os.path.isfile(path) and path.endswith('.npz'):     # zip members carry timestamps: compare the arrays
        try:
            with np.load(path, allow_pickle=True) as z:
                return {k: hashlib.sha256(np.ascontiguousarray(z[k]).tobytes()).hexdigest() for k in z.files}
        except Exception as e:
            return 'unreadable: ' + type(e).__name__
    if os.path.isfile(path):
        with _real_open(path, 'rb') as f:
            return hashlib.sha256(f.read()).hexdigest()
    return {k[len(path):]: (v if v == 'dir' else v[3]) for k, v in snapshot(path).items()} if os.path.isdir(path) else None


def under(root, p):
    root = os.path.realpath(root)
    p = os.path.realpath(p)
    return p == root or p.startswith(root + os.sep)


SPELLINGS = ['{rel}', './{rel}', '{rel}/', '{rel}//', '{abs}', '{abs}/', '{parent}//{name}/', '{abs}//']


def spell(rng, base, path):
    """a spelling of the (absolute) path, relative spellings being relative to base (the cwd)"""
    rel = os.path.relpath(path, base)
    form = rng.choice(SPELLINGS)
    return form.format(rel=rel, abs=path, parent=os.path.dirname(path), name=os.path.basename(path)), form


def build_inputs(rng, root):
    pf = gen.gen_plotfile(rng, ndims=3, max_blocks=2, nfields=(3, 4), nlevels=rng.choice([1, 2]), payload='random')
    pf.fields = [f.replace(' ', '_') for f in pf.fields]
    keys = c01.reader_keys(pf.fields)
    # the input's own name may look like a tool's default output (a cooked '_ck', a combined '_cb') or hold dots
    r2 = random.Random(repr(rng.getstate()[1][:8]))
    p = os.path.join(root, 'run', r2.choice(['plt_00010', 'plt_00010', 'plt_00010_ck', 'plt_t0.25', 'plt_00010_cb', 'plt_00010_ck']))
    os.makedirs(os.path.dirname(p))
    diskimg.write_image(diskimg.image_of(pf), p)
    # the second plotfile's box-to-file layout: another one (combine pairs boxes one by one) or the same (it streams whole files)
    # (the generator is used as before - the choices that follow keep their meaning for the corpus seeds -; for 'same' the
    # sibling then takes over the first plotfile's layout)
    rel = random.Random(repr(rng.getstate()[1][:8])).choice(['different', 'same', 'same'])
    sib = c06.second_plotfile(rng, pf, 'different')
    if rel == 'same':
        import copy
        for lva, lvb in zip(pf.levels, sib.levels):
            lvb.files = copy.deepcopy(lva.files)
    sib.fields = ['sib_' + f for f in sib.fields]
    p2 = os.path.join(root, 'run', 'plt2_00010')
    diskimg.write_image(diskimg.image_of(sib), p2)
    chk = genchk.gen_checkpoint(rng, nlevels=rng.choice([1, 2]))
    # the 'chk' prefix is looked for in the last component only: ancestors holding it must not matter
    chkdir = os.path.join(root, rng.choice(['run', 'chk_archive', 'old.chk']), rng.choice(['chk00005', 'chk00005', 'restart7', 'restart7']))
    rn = random.Random(repr(rng.getstate()[1][:8]) + 'chkname')
    if os.path.basename(chkdir) == 'chk00005' and rn.random() < 0.6:
        # checkpoint names that hold 'chk' elsewhere than at their start (names without 'chk' stay as they are)
        chkdir = os.path.join(os.path.dirname(chkdir), rn.choice(['flameA_chk00023', 'old.chk00024', 'case2chk7', 'chk_chk00009']))
    genchk.write_checkpoint(chk, chkdir)
    rpath = os.path.join(root, 'recipe.py')
    with _real_open(rpath, 'w') as f:
        f.write(c11.RECIPES[0][2].format(a=keys[0], b=keys[1], n0='cooked', n1='', n2=''))
    return pf, keys, p, p2, chk, chkdir, rpath


def scenarios(rng, root, base, model):
    """-> list of (name, run(), inputs, allowed output roots (absolute), must_raise)"""
    from amr_kitchen import PlotfileCooker
    pf, keys, p, p2, chk, chkdir, rpath = build_inputs(rng, root)
    sp, form = spell(rng, base, p)
    sp2, _ = spell(rng, base, p2)
    spc, _ = spell(rng, base, chkdir)
    outdir = os.path.join(root, 'out')
    os.makedirs(outdir)
    explicit = rng.random() < 0.5
    outs, outform = spell(rng, base, os.path.join(outdir, 'result'))
    outs = outs.rstrip('/') if rng.random() < 0.5 else outs

    def mpath(req):
        st, r = model.call('path', req)
        return os.path.normpath(os.path.join(base, r.decode()))
    sc = []

    def argv_run(modname, argv):
        def run():
            import importlib
            mod = importlib.import_module(modname)
            old = sys.argv
            sys.argv = argv
            try:
                mod.main()
            except SystemExit as e:
                # an exit status of zero is a normal return: what the calling shell sees as success
                if e.code not in (0, None):
                    raise
            finally:
                sys.argv = old
        return run

    from amr_kitchen.colander.colander import Colander
    from amr_kitchen.combine import combine
    from amr_kitchen.chef import Chef
    from amr_kitchen.mandoline import Mandoline
    from amr_kitchen.chk2plt import chk2plt
    sc.append(('colander', lambda: Colander(plotfile=sp, limit_level=None, output=outs, variables=[keys[0], 'nope']).strain(),
               [p], [os.path.join(outdir, 'result')], False))
    if explicit:
        sc.append(('combine', lambda: combine(PlotfileCooker(sp), PlotfileCooker(sp2), pltout=outs), [p, p2],
                   [os.path.join(outdir, 'result')], False))
        sc.append(('chef', lambda: Chef(plotfile=sp, recipe=rpath, outfile=outs, kept_fields=keys[0], serial=rng.random() < 0.5).cook(),
                   [p], [os.path.join(outdir, 'result')], False))
        sc.append(('chk2plt', lambda: chk2plt(spc, species=list(chk.species), gradp=True, species_reactions=False, pltdir=outs) and None,
                   [chkdir], [os.path.join(outdir, 'result')], False))
        sc.append(('whip', argv_run('amr_kitchen.whip.cli', ['whip', '-v', keys[0], '-y', '-o', outs.rstrip('/'), sp]), [p],
                   [os.path.join(outdir, 'result.npy')], False))
        fmt = rng.choice(['array', 'plotfile'])
        sc.append((f'mandoline {fmt}', lambda: Mandoline(sp, fields=[keys[0]], serial=True, verbose=0).slice(
            normal=0, pos=None, outfile=outs.rstrip('/'), fformat=fmt), [p],
            [os.path.join(outdir, 'result.npz' if fmt == 'array' else 'result')], False))
    else:
        sc.append(('combine (default output)', lambda: combine(PlotfileCooker(sp), PlotfileCooker(sp2)), [p, p2],
                   [mpath([2, sp.encode(), sp2.encode()])], False))
        sc.append(('chef (default output)', lambda: Chef(plotfile=sp, recipe=rpath, kept_fields=None, serial=True).cook(), [p],
                   [mpath([0, sp.encode()])], False))
        sc.append(('chk2plt (default output)', lambda: chk2plt(spc, species=list(chk.species), gradp=False) and None, [chkdir],
                   [mpath([3, spc.encode()])], False))
        sc.append(('marinate', argv_run('amr_kitchen.marinate', ['marinate', sp]), [p], [mpath([1, sp.encode()])], False))
        fmt = rng.choice(['array', 'plotfile'])
        width = pf.n0[0] * pf.dx0[0]
        posf = (pf.geo_low[0] + width / 2) / width
        # the position fraction is printed to four decimals: where the exact fraction sits on a rounding tie, the digit
        # depends on how the floating-point quotient is formed (from the header's own bounds or from cell counts) - both
        # spellings of the same documented name are accepted
        hi0, lo0 = pf.geo_high()[0], pf.geo_low[0]
        posf2 = ((hi0 + lo0) / 2) / (hi0 - lo0)
        ds = []
        for q in (posf, posf2):
            slicename = 'Sx' + f"{q:.4f}".replace('.', '') + keys[0].replace('(', '').replace(')', '')[:7]
            d = mpath([4, sp.encode(), slicename.encode()])
            d = d + '.npz' if fmt == 'array' else d
            if d not in ds:
                ds.append(d)
        sc.append((f'mandoline {fmt} (default output)', lambda: Mandoline(sp, fields=[keys[0]], serial=True, verbose=0).slice(
            normal=0, pos=None, fformat=fmt), [p], ds, False))
    # tools without outputs
    from amr_kitchen.taste.taste import Taster
    from amr_kitchen.pestle.pestle import volume_integral
    sc.append(('taste', lambda: bool(Taster(sp, nofail=True, verbose=0)), [p], [], False))
    sc.append(('pestle', lambda: volume_integral(PlotfileCooker(sp, ghost=True), keys[0]), [p], [], False))
    sc.append(('menu', argv_run('amr_kitchen.menu.cli', ['menu', '-m', sp]), [p], [], False))
    sc.append(('minuterie', argv_run('amr_kitchen.minuterie', ['minuterie', sp]), [p], [], False))
    # failures the caller must see
    sc.append(('pestle (unknown field)', lambda: volume_integral(PlotfileCooker(sp, ghost=True), 'no_such_field'), [p], [], True))
    sc.append(('whip (unknown field)', argv_run('amr_kitchen.whip.cli', ['whip', '-v', 'no_such_field', '-y', '-o',
                                                                        os.path.join(outdir, 'w'), sp]), [p], [outdir], True))
    sc.append(('mandoline (unknown field)', lambda: Mandoline(sp, fields=['no_such_field'], serial=True, verbose=0).slice(
        normal=0, fformat='return'), [p], [], True))
    sc.append(('point query (unknown field)', lambda: PlotfileCooker(sp)['no_such_field'](0.0, 0.0, 0.0), [p], [], True))
    # the command line asked to write a plotfile-format slice onto a symbolic link to a directory: the removal of the old
    # output is refused (an OSError without an error number) - a failure the calling shell must see
    linkdir = os.path.join(outdir, 'link_target')
    linkout = os.path.join(outdir, 'link_to_dir')

    def mandoline_cli_onto_link():
        os.makedirs(linkdir, exist_ok=True)
        if not os.path.islink(linkout):
            os.symlink(linkdir, linkout)
        argv_run('amr_kitchen.mandoline.cli', ['mandoline', sp, '-n', '0', '-v', keys[0], '-s', '-V', '0', '-f', 'plotfile', '-o', linkout])()
    late = [('mandoline command line (plotfile onto a link to a directory)', mandoline_cli_onto_link, [p], [outdir], True)]
    # chef asked for an output directory that already exists (made beforehand, or left by an earlier run): it is the
    # directory written to
    pre = os.path.join(outdir, 'premade')

    def chef_into_existing():
        os.makedirs(pre, exist_ok=True)
        Chef(plotfile=sp, recipe=rpath, outfile=pre, kept_fields=keys[0], serial=True).cook()
        if not os.path.exists(os.path.join(pre, 'Header')):
            raise RuntimeError('nothing was written into the requested, existing output directory')
    late.append(('chef (the output directory exists)', chef_into_existing, [p], [pre], False))
    # (appended AFTER every other scenario by run_case: the share of the scenarios a seed takes is by position)
    scenarios.late = late
    return sc, dict(input_spelling=form, output_spelling=outform, explicit=explicit, fields=keys), (pf, keys, p)


def truncated_scenarios(rng, root, base):
    """unreadable input: a binary file cut short; every tool reading it must raise"""
    from amr_kitchen import PlotfileCooker
    pf = gen.gen_plotfile(rng, ndims=3, max_blocks=2, nfields=(2, 3), nlevels=1, payload='random', layout='onefile')
    pf.fields = [f.replace(' ', '_') for f in pf.fields]
    keys = c01.reader_keys(pf.fields)
    p = os.path.join(root, 'broken', 'plt_00020')
    os.makedirs(os.path.dirname(p))
    img = diskimg.image_of(pf)
    fn = sorted(img['dirs']['Level_0']['files'])[0]
    c = img['dirs']['Level_0']['files'][fn]
    img['dirs']['Level_0']['files'][fn] = c[:len(c) - 8 * rng.randint(1, 5)]
    diskimg.write_image(img, p)
    outdir = os.path.join(root, 'out2')
    os.makedirs(outdir)
    rpath = os.path.join(root, 'recipe2.py')
    with _real_open(rpath, 'w') as f:
        f.write(c11.RECIPES[1][2].format(a=keys[0], b=keys[0], n0='cooked', n1='', n2=''))
    from amr_kitchen.colander.colander import Colander
    from amr_kitchen.chef import Chef
    from amr_kitchen.mandoline import Mandoline
    from amr_kitchen.pestle.pestle import volume_integral

    def whip():
        import importlib
        cli = importlib.import_module('amr_kitchen.whip.cli')
        old = sys.argv
        sys.argv = ['whip', '-v', keys[-1], '-y', '-o', os.path.join(outdir, 'w'), p]
        try:
            cli.main()
        finally:
            sys.argv = old
    o = os.path.join(outdir, 'r')
    return [('colander (truncated input)', lambda: Colander(plotfile=p, limit_level=None, output=o, variables=['all']).strain(), [p], [outdir], True),
            ('chef (truncated input)', lambda: Chef(plotfile=p, recipe=rpath, outfile=o + 'c', serial=True).cook(), [p], [outdir], True),
            ('mandoline (truncated input)', lambda: Mandoline(p, fields=[keys[-1]], serial=True, verbose=0).slice(normal=2, fformat='return'), [p], [], True),
            ('pestle (truncated input)', lambda: volume_integral(PlotfileCooker(p, ghost=True), keys[-1]), [p], [], True),
            ('whip (truncated input)', whip, [p], [outdir], True)]


def run_case(seed):
    rng = random.Random(seed)
    model = core.W['model']
    out = dict(evals=0, keys=[], dist={}, samples=[], violations=[], disagreements=[])
    dist = out['dist']

    def count(k, n=1):
        dist[k] = dist.get(k, 0) + n

    root = core.scratch_dir(f"c13_{seed}")
    os.makedirs(root)
    base = os.path.join(root, 'run_from')
    os.makedirs(base)
    old_cwd = os.getcwd()
    os.chdir(base)
    thorough = os.environ.get('VERIF_TIER') == 'thorough'
    try:
        scs, info, _ = scenarios(rng, root, base, model)
        scs = scs + truncated_scenarios(rng, root, base) + scenarios.late
        pick = [s for k, s in enumerate(scs) if k % 3 == seed % 3]
        for name, run, inputs, allowed, must_raise in pick:
            desc = dict(seed=seed, tool=name, **info)
            before = {i: snapshot(i) for i in inputs}
            for a in allowed:
                if os.path.exists(a) and not a.endswith('out') and not a.endswith('out2'):
                    shutil.rmtree(a, ignore_errors=True) if os.path.isdir(a) else os.remove(a)
            res, events, W, NW = observe(run)
            wlog = list(ST.get('wlog', []))
            clean_out = {a: tree_digest(a) for a in allowed}
            out['evals'] += 1
            count(f"tool={name.split(' (')[0]}")
            count(f"input_spelling={info['input_spelling']}")
            count('write_events_observed', W)

            def check_common(tag, res, events):
                for i in inputs:
                    if snapshot(i) != before[i]:
                        return f"{name}{tag}: the input {os.path.basename(i)} was modified"
                for ev, path in events:
                    if any(under(i, path) for i in inputs):
                        return f"{name}{tag}: {ev} on {path}, inside the input"
                    if not any(under(a, path) for a in allowed) and not under(os.path.dirname(sys.executable), path):
                        return f"{name}{tag}: {ev} on {path}, outside the requested / documented output {allowed}"
                return None
            bad = check_common('', res, events)
            if not bad:
                if must_raise and res[0] == 'ok':
                    bad = f"{name}: returned normally instead of reporting the failure"
                elif not must_raise and res[0] != 'ok':
                    bad = f"{name}: raised on a valid invocation: {res[1]}"
                elif not must_raise and allowed and not any(os.path.exists(a) for a in allowed):
                    bad = f"{name}: nothing was written at the expected output {allowed}"
            if bad:
                out['violations'].append(dict(desc, kind='touches-input-or-misreports', what=bad))
                continue
            if must_raise or not allowed:
                continue
            # faults at write-class operations and at write() calls
            NO = ST.get('ocount', 0)
            ks = list(range(1, W + 1))
            ws = list(range(1, NW + 1))
            cs = list(range(1, NO + 1))
            if not thorough:
                ks = sorted(set(rng.sample(ks, min(len(ks), 5)) + ks[:1] + ks[-1:]))
                ws = sorted(set(rng.sample(ws, min(len(ws), 4)) + ws[:1] + ws[-1:])) if ws else []
                cs = sorted(set(rng.sample(cs, min(len(cs), 4)) + cs[:1] + cs[-1:])) if cs else []
            # short writes (a file size limit reached in the middle of a write): at the LAST write of a file, where no
            # later write to it can report the condition
            lasts = sorted({len(wlog) - 1 - wlog[::-1].index(f) + 1 for f in set(wlog)}) if wlog else []
            ss = lasts if thorough else sorted(set(rng.sample(lasts, min(len(lasts), 4)) + lasts[-1:]))
            for kind, positions in (('event', ks), ('write', ws), ('close', cs), ('short', ss)):
                for k in positions:
                    for a in allowed:
                        if os.path.exists(a):
                            shutil.rmtree(a, ignore_errors=True) if os.path.isdir(a) else os.remove(a)
                    res2, ev2, _, _ = observe(run, fault_at=k if kind == 'event' else None, wfault_at=k if kind == 'write' else None,
                                              cfault_at=k if kind == 'close' else None, sfault_at=k if kind == 'short' else None)
                    out['evals'] += 1
                    count(f"fault={kind}")
                    bad = check_common(f" with a fault at {kind} {k}", res2, ev2)
                    if not bad and res2[0] == 'ok' and {a: tree_digest(a) for a in allowed} != clean_out:
                        # (a normal return with the complete, correct output means the library retried and recovered)
                        bad = (f"{name}: an I/O error at {kind} {k} of {dict(event=W, write=NW, close=NO, short=NW)[kind]} was swallowed: the tool returned "
                               f"normally with an incomplete or different output"
                               + (f" (the file {ST['swallowed']} was never closed explicitly)" if ST.get('swallowed') else ''))
                    if bad:
                        out['violations'].append(dict(desc, kind='fault-mishandled', fault=[kind, k], what=bad))
                        break
    finally:
        os.chdir(old_cwd)
    out['keys'].append(core.khash(seed))
    if not out['samples']:
        out['samples'].append(dict(seed=seed, **info))
    return out


def path_cases(model):
    """posixpath vs the model on spellings (join / split-based defaults / normpath)"""
    import posixpath
    bad = []
    parts = ['a', 'run/plt_00010', '/abs/run/plt1', 'plt1/', 'plt1//', '//x/y', '///x', 'x//y///z/', '/', 'chk00005', 'dir/restart7/', '']
    n = 0
    for p in parts:
        st, r = model.call('path', [7, p.encode()])
        n += 1
        if p and r.decode() != posixpath.normpath(p):
            bad.append(f"normpath({p!r}): model {r.decode()!r} vs posixpath {posixpath.normpath(p)!r}")
        for q in ['Level_0', 'Cell_D_00001', 'b/c', '']:
            st, r = model.call('path', [5, p.encode(), q.encode(), b'f'])
            n += 1
            if r.decode() != posixpath.join(posixpath.join(p, q), 'f'):
                bad.append(f"join({p!r},{q!r},'f'): model {r.decode()!r} vs {posixpath.join(posixpath.join(p, q), 'f')!r}")
    return n, bad


def run(tier, seed):
    os.environ['VERIF_TIER'] = tier
    rep = core.Report(PID, tier, seed)
    pg = core.proof_gate(PID, thorough=(tier == 'thorough'))
    for t in pg['theorems']:
        rep.obligation('theorem ' + t, pg['ok'])
    if not pg['ok']:
        rep.violations.append((dict(kind='proof', what='proof obligations of Props/C13.v no longer check',
                                    theorem=pg['theorems'], problems=pg['problems']), False))
    from harness.sx import Model
    m = Model()
    n, bad = path_cases(m)
    m.close()
    rep.evals += n
    rep.obligation('correspondence: Paths.Posix.join / normpath = posixpath on the path spellings used', not bad)
    for b in bad:
        rep.violations.append((dict(kind='model-vs-impl', what=b, correspondence='Paths.Posix vs posixpath'), False))
    ncases = 18 if tier == 'quick' else 120
    cases = [seed * 100000 + 13000 + i for i in range(ncases)]
    for r in core.run_cases(run_case, core.with_corpus(PID, cases), timeout=1500 if tier == 'quick' else 7000):
        rep.merge(r)
    return rep.finish(
        level_rule=("cases = generated plotfiles / checkpoint in a scratch tree, the process running from another directory; input and output "
                    "paths spelled relative / './' / trailing '/' / '//' / absolute / 'dir//name/'; tools: colander, combine, chef, chk2plt, "
                    "whip, mandoline (array and plotfile formats) with explicit outputs or their documented defaults (default location "
                    "computed by the extracted path model), marinate, and taste / pestle / menu / minuterie (no output at all); failing "
                    "invocations (unknown field for pestle / whip / mandoline / point query; truncated binary file for colander / chef / "
                    "mandoline / pestle / whip) must raise. Every run: content+mtime+mode snapshot of each input before and after, audit of "
                    "every open-for-write / mkdir / rename / remove / rmtree; then re-runs with an OSError injected at sampled (quick) or "
                    "all (thorough) write-class operations and at write() calls: the tool must raise, inputs must be unchanged, writes "
                    "must stay inside the output location"),
        trusted_base=core.COMMON_TRUSTED + [
            "sys.addaudithook sees every open / mkdir / rename / remove / rmtree of the process (the controlled pool runs workers in-process)",
            "paths contain no '.'/'..' components or symbolic links; the kernel's file system semantics are outside"],
        assumptions=["an injected OSError at an operation is representative of an I/O failure at that operation"],
        checker_cmd=pg['checker_cmd'])


def replay(doc):
    core.worker_init(core.REPO, quiet=False)
    r = run_case(doc['seed'])
    bad = r['violations'] + r['disagreements']
    for v in bad:
        print('REPLAY:', v.get('what'))
    return 1 if bad else 0
