"""C16 - mandoline's plotfile-format slice is a valid 2D plotfile of the plane data."""
import os
import contextlib
import io
import random
from fractions import Fraction
import numpy as np
from harness import core, gen, oracle
from harness.props import c01, c07
from harness.props import taste_common as tc

PID = 'C16'


def classify(pf, L, cn, P):
    """decidable keys of the known findings on a case"""
    near_face = False
    empty = False
    for lv in range(L + 1):
        f = 2 ** (L - lv)
        any_sel = False
        for lo, hi in pf.levels[lv].boxes:
            sel = lo[cn] * 8 * f - 4 * f < P < (hi[cn] + 1) * 8 * f + 4 * f
            if sel:
                any_sel = True
                if not ((2 * lo[cn] + 1) * 4 * f <= P <= (2 * hi[cn] + 1) * 4 * f):
                    near_face = True
        if not any_sel:
            empty = True
    return near_face, empty


def expected(pf, L, cn, P, comps, pos_f, to_float):
    """per level: list of (lo2, hi2, data (nx, ny, nfields)) for the boxes the plane meets"""
    cx, cy = [a for a in range(3) if a != cn]
    out = []
    for lv in range(L + 1):
        f = 2 ** (L - lv)
        lev = []
        for (lo, hi), d in zip(pf.levels[lv].boxes, pf.levels[lv].data):
            if not ((2 * lo[cn] + 1) * 4 * f <= P <= (2 * hi[cn] + 1) * 4 * f):
                continue
            c = (P // (4 * f) - 1) // 2
            il = c - lo[cn]
            ir = il if (2 * c + 1) * 4 * f == P else il + 1
            Lp = np.take(d[..., comps], il, axis=cn)
            Rp = np.take(d[..., comps], ir, axis=cn)
            if il == ir:
                data = Rp.copy()
            else:
                ln = to_float((2 * (lo[cn] + il) + 1) * 4 * f)
                rn = to_float((2 * (lo[cn] + ir) + 1) * 4 * f)
                data = (Lp * (rn - pos_f) + Rp * (pos_f - ln)) / (rn - ln)
            lev.append(((lo[cx], lo[cy]), (hi[cx], hi[cy]), data))
        out.append(lev)
    return out


def check_contents(oc, pf, L, cn, names, exp):
    cx, cy = [a for a in range(3) if a != cn]
    if oc['fields'] != names:
        return f"fields {oc['fields']} instead of {names}"
    if oc['ndims'] != 2 or len(oc['levels']) != L + 1:
        return f"{oc['ndims']}D with {len(oc['levels'])} levels instead of 2D with {L + 1}"
    if oc['time'] != pf.time:
        return "time differs from the input's"
    if oc['geo_low'] != [float(pf.geo_low[cx]), float(pf.geo_low[cy])] or oc['geo_high'] != [float(pf.geo_high()[cx]), float(pf.geo_high()[cy])]:
        return "in-plane domain bounds differ from the input's"
    for lv in range(L + 1):
        o = oc['levels'][lv]
        if oc['dx'][lv] != [float(pf.dx(lv)[cx]), float(pf.dx(lv)[cy])]:
            return f"level {lv}: cell sizes differ"
        want = exp[lv]
        if sorted(o['boxes']) != sorted((lo, hi) for lo, hi, _ in want):
            return (f"level {lv}: boxes {sorted(o['boxes'])} are not the in-plane footprints of the boxes the plane meets, each once: "
                    f"{sorted((lo, hi) for lo, hi, _ in want)}")
        for (lo, hi), data, bnd, mn, mx in zip(o['boxes'], o['data'], o['bounds'], o['mins'], o['maxs']):
            w = [d for l2, h2, d in want if (l2, h2) == (lo, hi)][0]
            if data.shape != w.shape or data.tobytes(order='F') != np.asarray(w, dtype='<f8').tobytes(order='F'):
                return f"level {lv} box {lo}-{hi}: values are not the level's own data interpolated linearly onto the plane"
            wb = [(pf.geo_low[a] + l * pf.dx(lv)[a], pf.geo_low[a] + (h + 1) * pf.dx(lv)[a]) for a, l, h in ((cx, lo[0], hi[0]), (cy, lo[1], hi[1]))]
            if bnd != [(float(a), float(b)) for a, b in wb]:
                return f"level {lv} box {lo}-{hi}: physical bounds differ"
            for c in range(data.shape[-1]):
                if float(mn[c]) != float('%.16e' % np.min(data[..., c])) or float(mx[c]) != float('%.16e' % np.max(data[..., c])):
                    return f"level {lv} box {lo}-{hi} component {c}: header min/max are not the extrema of the written data"
    return None


def big_plotfile(rng, cn):
    """a one-level plotfile whose slice exceeds the one-megabyte threshold of the writer"""
    pf = gen.PF()
    pf.ndims = 3
    nb, edge = rng.choice([(3, 40), (4, 32)])
    nf = 9 if nb == 3 else 8
    pf.fields = [f"f{i}" for i in range(nf)]
    pf.time = 0.25
    pf.geo_low = [0.0, 1.0, -2.0]
    pf.dx0 = [0.5, 0.25, 1.0]
    cx, cy = [a for a in range(3) if a != cn]
    n0 = [0, 0, 0]
    n0[cx], n0[cy], n0[cn] = nb * edge, nb * edge, 2
    pf.n0 = n0
    lev = gen.Level()
    for i in range(nb):
        for j in range(nb):
            lo = [0, 0, 0]
            hi = [0, 0, 0]
            lo[cx], hi[cx] = i * edge, (i + 1) * edge - 1
            lo[cy], hi[cy] = j * edge, (j + 1) * edge - 1
            lo[cn], hi[cn] = 0, 1
            lev.boxes.append((tuple(lo), tuple(hi)))
    rng.shuffle(lev.boxes)
    for lo, hi in lev.boxes:
        shape = tuple(h - l + 1 for l, h in zip(lo, hi)) + (nf,)
        lev.data.append(gen.gen_payload(rng, shape, 'random'))
    lev.files, lk = gen.gen_layout(rng, len(lev.boxes))
    pf.levels = [lev]
    pf.bf = 2
    pf.meta = dict(big=True, nboxes=[len(lev.boxes)], nfields=nf, n0=n0, layouts=[lk])
    return pf


def run_case(seed):
    from amr_kitchen.mandoline import Mandoline
    rng = random.Random(seed)
    model = core.W['model']
    out = dict(evals=0, keys=[], dist={}, samples=[], violations=[], disagreements=[], known={})
    dist = out['dist']

    def count(k):
        dist[k] = dist.get(k, 0) + 1

    cn = rng.randrange(3)
    big = (seed % 10 == 0)
    deep = (seed % 10 == 5)
    if big:
        pf = big_plotfile(rng, cn)
    elif deep:
        # six levels, one 4-cell box each around the same mid-plane: the two sampled planes of level 5 are a 32nd of a coarse
        # cell apart
        pf = gen.gen_deep_plotfile(random.Random(seed * 31 + 1), nlevels=6, ndims=3, nfields=2, box=4)
        c07.gen_payload(random.Random(seed * 31 + 2), pf, cn, random.Random(seed * 31 + 3).choice(['affine', 'affine', 'keep']))
    else:
        pf = gen.gen_plotfile(rng, ndims=3, payload=rng.choice(['ints', 'random']), max_blocks=2, nfields=(1, 4),
                              nlevels=rng.choice([1, 2, 2, 3]), geo_stream='exact', bf=rng.choice([2, 2, 4]),
                              mesh=rng.choice(['blocks', 'chunky']))
        c07.gen_payload(rng, pf, cn, rng.choice(['keep', 'keep', 'affine', 'const']))
    r2 = random.Random(seed * 739 + 11)
    if not big and not deep and r2.random() < 0.35:
        # a field whose name merely CONTAINS the selector words 'all' / 'grid_level'
        nm = r2.choice(['wall_dist', 'small_scale', 'fall_off', 'my_grid_level_2'])
        if nm not in pf.fields:
            pf.fields[r2.randrange(len(pf.fields))] = nm
    keys = c01.reader_keys(pf.fields)
    path = core.scratch_dir(f"c16_{seed}")
    gen.write_plotfile(pf, path)
    count(f"levels={pf.nlevels}")
    count(f"big={big}")
    count(f"deep (six levels)={deep}")
    cx, cy = [a for a in range(3) if a != cn]
    for k in range(1 if big else 4):
        limit_arg = rng.choice([None, None] + list(range(pf.nlevels)))
        L = pf.nlevels - 1 if limit_arg is None else limit_arg
        # positions: mostly where every met box has both of its own planes; some in the known-finding regions
        if deep:
            limit_arg = random.Random(seed * 31 + 4 + k).choice([None, None, 5, 4, 3])
            L = pf.nlevels - 1 if limit_arg is None else limit_arg
            kindp, P = 'mid-plane of the nested boxes', 16 * 2 ** L + random.Random(seed * 31 + 9 + k).choice([-3, -2, -1, 1, 2, 3])
        else:
          for _ in range(30):
            kindp, P = c07.gen_position(rng, pf, L, cn)
            if P is None or kindp == 'outside':
                continue
            nf_, emp_ = classify(pf, L, cn, P)
            if (not nf_ and not emp_) or rng.random() < 0.08:
                break
          else:
            continue
        near_face, empty = classify(pf, L, cn, P)
        u = Fraction(pf.dx(L)[cn]) / 8
        pos = float(Fraction(pf.geo_low[cn]) + P * u)
        fields = ['all'] if big else rng.choice([[rng.choice(keys)], rng.sample(keys, rng.randint(1, len(keys)))])
        if not big and len(fields) == 1 and r2.random() < 0.5:
            fields = fields[0]          # the library also takes one name as a plain string
            count("fields given as a plain string")
        names = list(keys) if fields == ['all'] else ([fields] if isinstance(fields, str) else list(fields))
        comps = [keys.index(n) for n in names]
        serial = rng.random() < 0.5
        region = 'near-face' if near_face else ('empty-level' if empty else 'regular')
        count(f"region={region}")
        count(f"position={kindp}")
        outp = os.path.join(core.scratch_dir(f"c16_{seed}_out"), 'slice2d')
        os.makedirs(os.path.dirname(outp))
        desc = dict(seed=seed, normal=cn, position_units_of_dx_over_8=P, pos=pos, fields=fields, limit_level=limit_arg,
                    serial=serial, region=region, meta=pf.meta)
        core.set_policy(rng.choice(['identity', 'reverse', 'random']), seed + k)
        verb = random.Random(seed * 4409 + k).choice([0, 0, 1, 2, 3])
        count(f"verbosity={verb}")
        desc['verbose'] = verb

        def cut():
            with contextlib.redirect_stdout(io.StringIO()):
                return Mandoline(path, fields=fields, limit_level=limit_arg, serial=serial,
                                 verbose=verb).slice(normal=cn, pos=pos, outfile=outp, fformat='plotfile')
        res = core.outcome(cut)
        core.set_policy('identity', 0)
        out['evals'] += 1
        out['keys'].append(core.khash(seed, k))

        def to_float(units):
            return float(Fraction(pf.geo_low[cn]) + int(units) * u)
        exp = expected(pf, L, cn, P, comps, pos, to_float)
        bad = None
        iimg = None
        if res[0] != 'ok':
            bad = 'saving the slice in plotfile format raised: ' + res[1]
        else:
            iimg = oracle.read_image(outp)
            try:
                oc = oracle.contents_of_image(iimg)
                bad = check_contents(oc, pf, L, cn, names, exp)
            except (ValueError, IndexError, KeyError) as e:
                bad = f'output is not a well-formed 2D plotfile: {e}'
            if not bad:
                v, detail = tc.impl_taste(outp, None, (True, True, False, True), True)
                if v != 'good':
                    bad = f'validation does not accept the 2D plotfile: {v} {detail}'
        if bad:
            if near_face:
                out['known']['plane-within-half-cell-of-box-face'] = out['known'].get('plane-within-half-cell-of-box-face', 0) + 1
            elif empty:
                out['known']['level-without-box-on-plane'] = out['known'].get('level-without-box-on-plane', 0) + 1
            else:
                out['violations'].append(dict(desc, kind='wrong-output', what=bad))
            continue
        if near_face or empty:
            continue
        # ---- the same cut a few units in the last place ABOVE a cell centre (a position typed in decimals, or computed as
        # low + (k + 0.5) * dx, lands there): to floating-point accuracy the same slice
        rn = random.Random(seed * 5003 + k)
        # (only where an eighth of a cell above is still a regular position: above the LAST cell centre of a box the
        # plane is in the region of the known finding)
        if kindp == 'centre' and classify(pf, L, cn, P + 1) == (False, False) and rn.random() < 0.7:
            pos2 = pos
            for _ in range(rn.randint(1, 3)):
                pos2 = float(np.nextafter(pos2, np.inf))
            outp2 = os.path.join(core.scratch_dir(f"c16_{seed}_out2"), 'slice2d')
            os.makedirs(os.path.dirname(outp2))

            def cut2():
                with contextlib.redirect_stdout(io.StringIO()):
                    return Mandoline(path, fields=fields, limit_level=limit_arg, serial=True,
                                     verbose=0).slice(normal=cn, pos=pos2, outfile=outp2, fformat='plotfile')
            res2 = core.outcome(cut2)
            out['evals'] += 1
            count("cut again a few ulp above a cell centre")
            bad2 = None
            if res2[0] != 'ok':
                bad2 = 'raised: ' + res2[1]
            else:
                try:
                    oc2 = oracle.contents_of_image(oracle.read_image(outp2))
                    for lv in range(L + 1):
                        a, b2 = oc['levels'][lv], oc2['levels'][lv]
                        if a['boxes'] != b2['boxes']:
                            bad2 = f"level {lv}: boxes {b2['boxes']} instead of {a['boxes']}"
                            break
                        for bx, d1, d2 in zip(a['boxes'], a['data'], b2['data']):
                            sc = max(1.0, float(np.abs(d1).max()))
                            if d1.shape != d2.shape or not np.allclose(d1, d2, rtol=1e-9, atol=1e-9 * sc, equal_nan=True):
                                bad2 = f"level {lv} box {bx}: values differ from the slice at the cell centre itself by up to {float(np.nanmax(np.abs(d1 - d2)))!r}"
                                break
                        if bad2:
                            break
                except (ValueError, IndexError, KeyError) as e:
                    bad2 = f'output is not a well-formed 2D plotfile: {e}'
            if bad2:
                out['violations'].append(dict(desc, kind='wrong-output', pos=pos2,
                                              what=f'slice at {pos2!r}, {(pos2 - pos)!r} above the cell centre {pos!r}: ' + bad2))
                continue
        # the model: boxes written per level with their two planes; distribution over files
        lsx = [[[list(lo), list(hi), [np.asarray(d[..., c], dtype='<f8').tobytes(order='F') for c in comps]]
                for (lo, hi), d in zip(pf.levels[lv].boxes, pf.levels[lv].data)] for lv in range(L + 1)]
        st, m = model.call('sliceplot', [lsx, L, cn, P, len(comps)])
        d = None
        for lv in range(L + 1):
            boxes2 = [b for b in m[lv] if b]
            if len(boxes2) != len(m[lv]):
                d = f"level {lv}: SlicePlot.slice_box2d has a one-sided box in a regular case"
                break
            cells = oracle.diskimg.parse_cellh_strict(iimg['dirs'][f'Level_{lv}']['cellh'], len(comps))
            if [(tuple(b[0]), tuple(b[1])) for b in boxes2] != [(lo, hi) for lo, hi, _, _ in cells]:
                d = f"level {lv}: boxes written {[(lo, hi) for lo, hi, _, _ in cells]} vs SlicePlot {[(tuple(b[0]), tuple(b[1])) for b in boxes2]}"
                break
            # binary content: header + interpolated data, box after box, spread over the files as the model says
            total = sum((b[1][0] - b[0][0] + 1) * (b[1][1] - b[0][1] + 1) * len(comps) * 8 for b in boxes2)
            st2, chunks = model.call('chunks', [len(boxes2), total])
            files = {}
            for fi, ch in enumerate(chunks):
                buf = bytearray()
                for bi in ch:
                    lo2, hi2, ln, rn, percomp = boxes2[bi]
                    buf += gen.fab_header(lo2, hi2, len(comps))
                    for cc in percomp:
                        Lw = np.frombuffer(b''.join(x[0] for x in cc), dtype='<f8')
                        Rw = np.frombuffer(b''.join(x[1] for x in cc), dtype='<f8')
                        if ln == rn:
                            vals = Rw
                        else:
                            vals = (Lw * (to_float(rn) - pos) + Rw * (pos - to_float(ln))) / (to_float(rn) - to_float(ln))
                        buf += np.asarray(vals, dtype='<f8').tobytes()
                files[f"Cell_D_{fi:05d}"] = bytes(buf)
            got = iimg['dirs'][f'Level_{lv}']['files']
            if sorted(got) != sorted(files) or any(got[n] != files[n] for n in files):
                d = f"level {lv}: binary files {sorted(got)} differ from the model's {sorted(files)} (names or content)"
                break
        if d:
            out['disagreements'].append(dict(desc, kind='model-vs-impl', what=d,
                                             correspondence='Mandoline.SlicePlot vs Mandoline.slice(fformat="plotfile")'))
        elif not out['samples']:
            out['samples'].append(dict(desc, boxes_per_level=[len(x) for x in exp]))
    return out


def run(tier, seed):
    rep = core.Report(PID, tier, seed)
    pg = core.proof_gate(PID, thorough=(tier == 'thorough'))
    for t in pg['theorems']:
        rep.obligation('theorem ' + t, pg['ok'])
    if not pg['ok']:
        rep.violations.append((dict(kind='proof', what='proof obligations of Props/C16.v no longer check',
                                    theorem=pg['theorems'], problems=pg['problems']), False))
    ncases = 50 if tier == 'quick' else 600
    cases = [seed * 100000 + 16000 + i for i in range(ncases)]
    for r in core.run_cases(run_case, core.with_corpus(PID, cases)):
        rep.merge(r)
    rep.obligation('correspondence: Mandoline.SlicePlot (boxes written per level with their two own planes; distribution over binary '
                   'files) reproduces the written Cell_D files byte for byte',
                   not any(v[0].get('kind') == 'model-vs-impl' for v in rep.violations))
    return rep.finish(
        level_rule=("cases = generated 3D plotfile (as for C07; plus one-level plotfiles whose slice exceeds the one-megabyte threshold with "
                    "9 and 16 boxes) x normal x lattice position x field list x limit x serial / pool; ~92% of the positions are regular "
                    "(every box within half a cell of the plane has both bracketing planes inside itself), the rest lie in the two "
                    "known-finding regions; the written directory is parsed by the independent reader: fields, 2D geometry, time, per "
                    "level the footprints of the met boxes each once, values = own-level interpolation bit for bit, min/max, taste with "
                    "box coordinates; the Cell_D files are rebuilt from the model byte for byte"),
        trusted_base=core.COMMON_TRUSTED + ["IEEE interpolation evaluated by numpy on the model's samples (as for C07)"],
        assumptions=["positions on the dx/8 lattice"],
        checker_cmd=pg['checker_cmd'], known=core.known_findings(PID))


def replay(doc):
    core.worker_init(core.REPO, quiet=False)
    r = run_case(doc['seed'])
    bad = r['violations'] + r['disagreements']
    for v in bad:
        print('REPLAY:', v.get('what'))
    return 1 if bad else 0
