"""C03 - taste accepts every well-formed plotfile under every option set."""
import itertools
import os
import random
import warnings
import numpy as np
from harness import core, gen, diskimg
from harness.props import taste_common as tc

PID = 'C03'


def reaches_data_check(opts):
    headers, shape, data, coords = opts
    return data and not (headers and shape)


def nan_aware_image(pf, fixed_point_field=None):
    """the on-disk image with min/max tables holding the extrema of the non-NaN
    values (what the binary-data check compares with np.nanmin / np.nanmax);
    the entries of [fixed_point_field] are printed in fixed-point notation
    (10 decimals: a trace quantity of order 1e-12 reads 0.0000000000, which the
    validator's tolerance accepts);
    -> (image, True when no component is entirely NaN)"""
    img = diskimg.image_of(pf)
    ok = True
    nf = len(pf.fields)
    for lv, level in enumerate(pf.levels):
        _, loc = gen.level_files(level)
        mins, maxs = [], []
        for b in range(len(level.boxes)):
            rmin, rmax = [], []
            for c in range(nf):
                col = level.data[b][..., c]
                if np.all(np.isnan(col)):
                    ok = False
                    rmin.append('nan')
                    rmax.append('nan')
                elif c == fixed_point_field:
                    rmin.append('%.10f' % np.nanmin(col))
                    rmax.append('%.10f' % np.nanmax(col))
                else:
                    rmin.append(gen.minmax_token(np.nanmin(col)))
                    rmax.append(gen.minmax_token(np.nanmax(col)))
            mins.append(rmin)
            maxs.append(rmax)
        img['dirs'][f"Level_{lv}"]['cellh'] = diskimg.tokens_of(gen.cell_h_text(pf, lv, loc, mins=mins, maxs=maxs))
    return img, ok


def spoil_tables(rng, pf, img):
    """a copy of the image with one table entry moved away from the extremum, or
    the rows of two boxes exchanged: no longer well-formed for the data check"""
    import copy
    img = copy.deepcopy(img)
    lv = rng.randrange(pf.nlevels)
    cellh = img['dirs'][f"Level_{lv}"]['cellh']
    nb = len(pf.levels[lv].boxes)
    lay = diskimg.cellh_layout(cellh)
    first = lay['fod'].stop + 2
    rows = list(range(first, first + nb)) + list(range(first + nb + 2, first + 2 * nb + 2))
    assert lay['n'] == nb and all(b','.join(cellh[r]).count(b',') >= len(pf.fields) for r in rows), (rows, cellh)
    if nb >= 2 and rng.random() < 0.4:
        tbl = rng.choice([0, nb])
        i, j = rng.sample(range(nb), 2)
        cellh[rows[tbl + i]], cellh[rows[tbl + j]] = cellh[rows[tbl + j]], cellh[rows[tbl + i]]
        how = f"rows {i},{j} of the {'min' if tbl == 0 else 'max'} table of level {lv} exchanged"
    else:
        r = rng.choice(rows)
        toks = b''.join(cellh[r]).split(b',')[:-1]
        k = rng.randrange(len(toks))
        x = float(toks[k])
        y = x * 2 + 1 if np.isfinite(x) else 0.0
        toks[k] = (gen.minmax_token(y)).encode()
        cellh[r] = [b','.join(toks) + b',']
        how = f"entry {k} of table row {rows.index(r)} of level {lv}: {x!r} -> {y!r}"
    return img, how


def run_case(seed):
    rng = random.Random(seed)
    model = core.W['model']
    out = dict(evals=0, keys=[], dist={}, samples=[], violations=[], disagreements=[])
    dist = out['dist']

    def count(k):
        dist[k] = dist.get(k, 0) + 1

    payload = rng.choice(['ints', 'random', 'special', 'smallints'])
    pf = gen.gen_plotfile(rng, max_blocks=2, payload=payload, allow_repeat=True, awkward=0.3, odd0=0.25)
    rs = random.Random(seed * 613 + 2)
    if rs.random() < 0.3:
        # a slab: the domain is one cell thick in one direction (2**lv cells at level lv)
        gen.flatten_axis(pf, rs.randrange(pf.ndims))
    count(f"slab one cell thick={'slab_axis' in pf.meta}")
    warnings.simplefilter('ignore')
    # np.nanmin / np.nanmax on SIGNALLING NaNs is platform dependent (C fmin returns a quiet NaN for a
    # signalling operand and the running extremum is lost: nanmin([1, sNaN, 2]) = 2): outside the model.
    # NaNs are kept (payload bits and sign included) but made quiet.
    for level in pf.levels:
        for b in range(len(level.data)):
            bits = level.data[b].view(np.uint64)
            bits[np.isnan(level.data[b])] |= np.uint64(0x0008000000000000)
    # comparisons against exactly 0.0 need the absolute part of the validator's tolerance: (i) a negative origin with
    # box faces on the coordinate 0 (-0.3 + 3 * 0.1), (ii) a trace field of order 1e-12 whose table is printed in
    # fixed-point notation
    variant = ['plain', 'faces-on-zero', 'trace-field', 'plain'][seed % 4]
    count(f"variant={variant}")
    fixed = None
    if variant == 'faces-on-zero':
        pf.geo_low = [-0.3] * pf.ndims
        pf.dx0 = [0.1] * pf.ndims
    elif variant == 'trace-field':
        fixed = rng.randrange(len(pf.fields))
        for level in pf.levels:
            for b in range(len(level.data)):
                col = level.data[b][..., fixed]
                level.data[b][..., fixed] = np.where(np.isfinite(col), np.tanh(col * 1e-3) * 1e-12, col)
    img, data_wf = nan_aware_image(pf, fixed)
    # where the plotfile lives: names made of the characters of 'Level_', 'Cell_D_', 'Header', 'plt' ... (a prefix or suffix
    # removed with a character SET eats into such names)
    rp = random.Random(seed * 2741 + 23)
    sub = rp.choice(['', '', 'Case_C/plt00010', 'CH4_Dilution/plt00010', 'Couette_plt00010', 'Level_set/Cell_study/plt_lev', 'tlp/plt00010ptl',
                     'Header/Hplt'])
    path = os.path.join(core.scratch_dir(f"c03_{seed}"), sub) if sub else core.scratch_dir(f"c03_{seed}")
    count(f"plotfile directory={sub or 'plain'}")
    if sub:
        os.makedirs(os.path.dirname(path))
    diskimg.write_image(img, path)
    if rs.random() < 0.35:
        # level directories / binary files that are symbolic links to differently named targets
        pf.meta['symlinks'] = gen.symlink_parts(path, core.scratch_dir(f"c03_{seed}_store"), rs)
    count(f"symbolic links inside the plotfile={'symlinks' in pf.meta}")
    # the directory as a user may spell it: trailing separators, relative to the working directory
    r2 = random.Random(seed * 151 + 9)
    spelling = r2.choice(['{p}', '{p}', '{p}/', '{p}//', '{rel}', './{rel}/'])
    spath = spelling.format(p=path, rel=os.path.relpath(path, os.getcwd()))
    img_sx = diskimg.image_sx(img)
    close = tc.close_table(img)
    count(f"path spelling={spelling}")
    count(f"ndims={pf.ndims}")
    count(f"levels={pf.nlevels}")
    count(f"geo={pf.meta['geo']}")
    count(f"payload={payload}")
    count(f"tables describe every component={data_wf}")
    for lk in pf.meta['layouts']:
        count(f"layout={lk}")
    for limit in [None] + list(range(pf.nlevels)):
        mall = tc.model_taste_all(model, img_sx, limit, close)
        for opts in itertools.product([True, False], repeat=4):
            k = (1 if opts[0] else 0) + (2 if opts[1] else 0) + (4 if opts[2] else 0)
            mgood = mall[k]
            for nofail in (True, False):
                core.set_policy(rng.choice(['identity', 'reverse', 'random']), seed)
                verb = rs.choice([0, 0, 1, 2, 3])
                verdict, detail = tc.impl_taste(spath, limit, opts, nofail, verbose=verb)
                out['evals'] += 1
                count(f"verbosity={verb}")
                count(f"verdict={verdict}")
                count(f"reaches data check={reaches_data_check(opts)}")
                desc = dict(seed=seed, limit_level=limit, options=dict(zip(tc.OPT_NAMES, opts)), nofail=nofail,
                            verbose=verb, meta=pf.meta)
                out['keys'].append(core.khash(seed, limit, opts, nofail))
                if not out['samples']:
                    out['samples'].append(dict(desc, verdict=verdict))
                # the property: well-formed => good (for the data check well-formed includes tables that
                # describe every component: a component without any non-NaN value has no extremum)
                if verdict != 'good' and (data_wf or not reaches_data_check(opts)):
                    out['violations'].append(dict(desc, kind='rejects-wellformed',
                                                  what=f'validation of a well-formed plotfile gave {verdict} {detail}',
                                                  model_says_good=mgood))
                if (verdict == 'good') != mgood:
                    out['disagreements'].append(dict(desc, kind='model-vs-impl', impl=verdict, model_good=mgood,
                                                     what='implementation verdict differs from Taste.taste_good',
                                                     correspondence='Taste.Taste.taste_good vs Taster'))
    # the rejecting side of the data check (model vs implementation only)
    bad, how = spoil_tables(rng, pf, img)
    pbad = core.scratch_dir(f"c03_{seed}_spoilt")
    diskimg.write_image(bad, pbad)
    mall = tc.model_taste_all(model, diskimg.image_sx(bad), None, tc.close_table(bad))
    for opts3 in itertools.product([True, False], repeat=3):
        opts = opts3 + (False,)
        k = (1 if opts[0] else 0) + (2 if opts[1] else 0) + (4 if opts[2] else 0)
        verdict, detail = tc.impl_taste(pbad, None, opts, True)
        out['evals'] += 1
        count(f"spoilt tables: verdict={verdict}" + (" (data check)" if reaches_data_check(opts) else ""))
        out['keys'].append(core.khash(seed, 'spoilt', opts))
        if (verdict == 'good') != mall[k]:
            out['disagreements'].append(dict(seed=seed, options=dict(zip(tc.OPT_NAMES, opts)), spoilt=how, kind='model-vs-impl',
                                             impl=verdict, model_good=mall[k],
                                             what=f'tables spoilt ({how}): implementation verdict {verdict} differs from Taste.taste_good',
                                             correspondence='Taste.Taste.check_data vs Taster.taste_binary_data'))
    core.set_policy('identity', 0)
    return out


def run(tier, seed):
    rep = core.Report(PID, tier, seed)
    known = core.known_findings(PID)
    pg = core.proof_gate(PID, thorough=(tier == 'thorough'))
    for t in pg['theorems']:
        rep.obligation('theorem ' + t, pg['ok'])
    if not pg['ok']:
        rep.violations.append((dict(kind='proof', what='proof obligations of Props/C03.v no longer check',
                                    theorem=pg['theorems'], problems=pg['problems']), False))
    ncases = 12 if tier == 'quick' else 150
    cases = [seed * 100000 + 3000 + i for i in range(ncases)]
    for r in core.run_cases(run_case, core.with_corpus(PID, cases)):
        rep.merge(r)
    rep.obligation('correspondence: Taste.taste_good = bool(Taster) on 16 option sets x limits x {fail, nofail}, and on spoilt min/max tables',
                   not any(v[0].get('kind') == 'model-vs-impl' for v in rep.violations))
    return rep.finish(
        level_rule=("cases = generated well-formed plotfile (all layout kinds incl. scattered / non-monotone; int / random / small-int / "
                    "special payloads with NaNs, infinities, signed zeros; min/max tables = extrema of the non-NaN values) x all 16 option "
                    "sets x limit in {None, 0..finest} x {fail, nofail}, pool task order varied; plus, per case, one image with a spoilt "
                    "min/max table (entry moved, or two rows exchanged) under the 8 option sets without box coordinates (model = "
                    "implementation; not part of the property); distinct = distinct (seed, limit, options, mode)"),
        trusted_base=core.COMMON_TRUSTED + [
            "np.isclose(float(table token), extremum) is an oracle of the model's binary-data check: the table of close pairs is computed by "
            "numpy in the harness (taste_common.close_table) from the level headers and a lenient scan of the binary files",
            "outside the model: min/max tables with rows of different lengths, ties between recorded offsets (np.argsort)"],
        assumptions=["box-coordinate check (np.linspace / np.isclose) is exercised on the implementation only; the Coq model covers the "
                     "structure, binary-header, binary-shape and binary-data checks",
                     "os.listdir lists exactly the files written"],
        checker_cmd=pg['checker_cmd'], known=known)


def replay(doc):
    core.worker_init(core.REPO, quiet=False)
    r = run_case(doc['seed'])
    bad = r['violations'] + r['disagreements']
    for v in bad:
        print('REPLAY:', v.get('what'))
    return 1 if bad else 0
