"""C03 - taste accepts every well-formed plotfile under every option set."""
import itertools
import random
from harness import core, gen, diskimg
from harness.props import taste_common as tc

PID = 'C03'
KNOWN_KEY = 'binary-data-branch'


def in_known_region(opts):
    headers, shape, data, coords = opts
    return data and not (headers and shape)


def run_case(seed):
    rng = random.Random(seed)
    model = core.W['model']
    out = dict(evals=0, keys=[], dist={}, samples=[], violations=[], disagreements=[], known={})
    dist = out['dist']

    def count(k):
        dist[k] = dist.get(k, 0) + 1

    pf = gen.gen_plotfile(rng, max_blocks=2, payload=rng.choice(['ints', 'random']),
                          allow_repeat=True)
    img = diskimg.image_of(pf)
    path = core.scratch_dir(f"c03_{seed}")
    diskimg.write_image(img, path)
    img_sx = diskimg.image_sx(img)
    count(f"ndims={pf.ndims}")
    count(f"levels={pf.nlevels}")
    count(f"geo={pf.meta['geo']}")
    for lk in pf.meta['layouts']:
        count(f"layout={lk}")
    finest = pf.nlevels - 1
    for limit in [None] + list(range(pf.nlevels)):
        mall = tc.model_taste_all(model, img_sx, limit)
        for opts in itertools.product([True, False], repeat=4):
            k = (1 if opts[0] else 0) + (2 if opts[1] else 0) + (4 if opts[2] else 0)
            mgood = mall[k]
            for nofail in (True, False):
                core.set_policy(rng.choice(['identity', 'reverse', 'random']), seed)
                verdict, detail = tc.impl_taste(path, limit, opts, nofail)
                out['evals'] += 1
                count(f"verdict={verdict}")
                desc = dict(seed=seed, limit_level=limit, options=dict(zip(tc.OPT_NAMES, opts)), nofail=nofail,
                            meta=pf.meta)
                out['keys'].append(core.khash(seed, limit, opts, nofail))
                if not out['samples']:
                    out['samples'].append(dict(desc, verdict=verdict))
                if verdict != 'good':
                    if in_known_region(opts):
                        out['known'][KNOWN_KEY] = out['known'].get(KNOWN_KEY, 0) + 1
                    else:
                        out['violations'].append(dict(desc, kind='rejects-wellformed',
                                                      what=f'validation of a well-formed plotfile gave {verdict} {detail}',
                                                      model_says_good=mgood))
                if (verdict == 'good') != mgood:
                    out['disagreements'].append(dict(desc, kind='model-vs-impl', impl=verdict, model_good=mgood,
                                                     what='implementation verdict differs from Taste.taste_good',
                                                     correspondence='Taste.Taste.taste_good vs Taster'))
    core.set_policy('identity', 0)
    return out


def run(tier, seed):
    rep = core.Report(PID, tier, seed)
    known = core.known_findings(PID)
    pg = core.proof_gate(PID, thorough=(tier == 'thorough'))
    for t in pg['theorems']:
        rep.obligation('theorem ' + t, pg['ok'])
    if not pg['ok']:
        rep.violations.append((dict(kind='proof', what='proof obligations of Props/C03.v no longer check',
                                    theorem=pg['theorems'], problems=pg['problems']), False))
    ncases = 12 if tier == 'quick' else 150
    cases = [seed * 100000 + 3000 + i for i in range(ncases)]
    for r in core.run_cases(run_case, core.with_corpus(PID, cases)):
        rep.merge(r)
    # violations inside the known region that are not listed stay violations
    if rep.known_hits and KNOWN_KEY not in known:
        rep.violations.append((dict(kind='rejects-wellformed', what='binary_data option sets reject well-formed plotfiles (not listed as known)'), True))
        rep.known_hits.clear()
    rep.obligation('correspondence: Taste.taste_good = bool(Taster) on 16 option sets x limits x {fail, nofail}',
                   not any(v[0].get('kind') == 'model-vs-impl' for v in rep.violations))
    return rep.finish(
        level_rule=("cases = generated well-formed plotfile (all layout kinds incl. scattered / non-monotone) x all 16 option sets x "
                    "limit in {None, 0..finest} x {fail, nofail}, pool task order varied; every case is non-trivial; distinct = distinct "
                    "(seed, limit, options, mode)"),
        trusted_base=core.COMMON_TRUSTED,
        assumptions=["box-coordinate check (np.linspace / np.isclose) is exercised on the implementation only; the Coq model covers the "
                     "structure, binary-header and binary-shape checks and the reachability of the binary-data branch",
                     "os.listdir lists exactly the files written"],
        checker_cmd=pg['checker_cmd'], known=known)
