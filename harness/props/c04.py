"""C04 - taste rejects missing, truncated, shifted or inconsistent data.
   C20 - whatever taste accepts, the reader can read consistently.
   (both run on corrupted directory images; C20 imports this module)"""
import copy
import random
import numpy as np
from harness import core, gen, diskimg
from harness.props import taste_common as tc

PID = 'C04'
DEFAULT = (True, True, False, False)
COORDS = (True, True, False, True)


def header_box_lines(pf, limit):
    """(level, box, dim, line number in Header) of every box-bound line of levels 0..limit"""
    ln = 2 + len(pf.fields) + 8 + pf.nlevels + 2
    out = []
    for lv in range(pf.nlevels):
        ln += 2
        for b in range(len(pf.levels[lv].boxes)):
            for d in range(pf.ndims):
                if lv <= limit:
                    out.append((lv, b, d, ln))
                ln += 1
        ln += 1
    return out


def op_alter_bound(img, rng, pf, limit, only_level=None):
    lv, b, d, ln = rng.choice([x for x in header_box_lines(pf, limit) if only_level is None or x[0] == only_level])
    line = img['header'][ln]
    k = rng.randrange(2)
    dx = pf.dx(lv)[d]
    new = float(line[k].decode()) + rng.choice([1, -1, 2, 0.5]) * dx
    line[k] = gen.fnum(new).encode()
    return f"alter_bound level={lv} box={b} dim={d} {'lo' if k == 0 else 'hi'} moved by a multiple of dx"


def check_image(out, model, img, pf, limit, nfields, descs, seed, tag, coords=False, use_model=True):
    """runs implementation (both modes) and model on one image; applies the C04 oracle"""
    path = core.scratch_dir(f"{tag}_{seed}")
    diskimg.write_image(img, path)
    opts = COORDS if coords else DEFAULT
    v_nofail, d1 = tc.impl_taste(path, limit, opts, True)
    v_fail, d2 = tc.impl_taste(path, limit, opts, False)
    out['evals'] += 1
    # the verdict is the same at every verbosity (the messages are not compared)
    rv = random.Random(repr((seed, tag, descs, 'verbosity')))
    verb = rv.choice([0, 1, 2, 2, 3])
    if verb:
        v_nofail_v, _ = tc.impl_taste(path, limit, opts, True, verbose=verb)
        v_fail_v, _ = tc.impl_taste(path, limit, opts, False, verbose=verb)
        out['dist'][f"also validated at verbosity={verb}"] = out['dist'].get(f"also validated at verbosity={verb}", 0) + 1
        if (v_nofail_v, v_fail_v) != (v_nofail, v_fail):
            out['violations'].append(dict(seed=seed, limit_level=limit, corruptions=descs, kind='verbosity-changes-verdict',
                                          what=f'verbose={verb}: nofail={v_nofail_v} fail={v_fail_v}; verbose=0: nofail={v_nofail} fail={v_fail}',
                                          options=dict(zip(tc.OPT_NAMES, opts)), meta=pf.meta))
    # (offsets beyond 2**32 are not handed to the list-based model: it would walk that many bytes)
    mgood = tc.model_taste(model, diskimg.image_sx(img), limit, opts) if use_model else None
    ok, why = diskimg.consistent(img, nfields, limit)
    if coords:
        ok, why = False, 'physical box bounds contradict the index ranges'
    desc = dict(seed=seed, limit_level=limit, corruptions=descs, options=dict(zip(tc.OPT_NAMES, opts)),
                impl_nofail=v_nofail, impl_fail=v_fail, model_good=mgood, oracle_consistent=ok, oracle_reason=why,
                meta=pf.meta)
    bad = None
    if not ok:
        if v_nofail == 'good' or v_fail == 'good':
            bad = ('accepts-inconsistent', f'default validation reports good although {why}')
        elif v_nofail == 'raised':
            bad = ('nofail-raises', f'non-failing mode raised on a damaged plotfile: {d1}')
        elif v_fail != 'raised':
            bad = ('fail-does-not-raise', 'failing mode returned normally on a damaged plotfile')
    else:
        # consistent image: the two modes must still tell the same story
        if (v_nofail == 'good') != (v_fail == 'good') or v_nofail == 'raised':
            bad = ('modes-disagree', f'nofail={v_nofail} fail={v_fail} on the same directory')
    if bad:
        out['violations'].append(dict(desc, kind=bad[0], what=bad[1]))
    elif not coords and use_model and (v_nofail == 'good') != mgood:
        out['disagreements'].append(dict(desc, kind='model-vs-impl',
                                         what='implementation verdict differs from Taste.taste_good on a damaged image',
                                         correspondence='Taste.Taste.taste_good vs Taster (default options)'))
    return path, v_nofail, ok


def run_case(seed, c20=False):
    rng = random.Random(seed)
    model = core.W['model']
    out = dict(evals=0, keys=[], dist={}, samples=[], violations=[], disagreements=[], extra={})
    dist = out['dist']

    def count(k):
        dist[k] = dist.get(k, 0) + 1

    pf = gen.gen_plotfile(rng, max_blocks=2, payload=rng.choice(['ints', 'random', 'special']))
    rq = random.Random(seed * 6131 + 7)
    if pf.nlevels >= 2 and rq.random() < (0.5 if pf.nlevels >= 3 else 0.3):
        # refinement ratios other than 2 (a cell of level 2 is then a sixteenth of a coarse one)
        pf.ratios = (rq.choice([[4, 4], [4, 4], [4, 4], [2, 4], [4, 2]]) + [2, 4])[:pf.nlevels - 1]
        pf.meta['ratios'] = list(pf.ratios)
    count(f"refinement ratios={pf.meta.get('ratios', 'all 2')}")
    nfields = len(pf.fields)
    base = diskimg.image_of(pf)
    finest = pf.nlevels - 1
    count(f"ndims={pf.ndims}")
    count(f"levels={pf.nlevels}")
    ops = diskimg.C04_OPS + (diskimg.C20_OPS * 3 if c20 else [])
    accepted = []
    for i in range(26 if not c20 else 30):
        limit = rng.randint(0, finest)
        n = 1 if i < 18 else 2
        img, descs = diskimg.corrupt(base, rng, limit, ops, n)
        if not descs:
            continue
        for d in descs:
            count('op=' + d.split()[0])
        count(f"ncorruptions={len(descs)}")
        path, verdict, ok = check_image(out, model, img, pf, limit, nfields, descs, seed, 'c20' if c20 else 'c04')
        count(f"verdict={verdict}")
        count(f"oracle_consistent={ok}")
        if not ok:
            out['keys'].append(core.khash(seed, i))
        if not out['samples']:
            out['samples'].append(dict(seed=seed, limit_level=limit, corruptions=descs, verdict=verdict, oracle_consistent=ok))
        if verdict == 'good':
            accepted.append((img, limit, descs, path))
            if c20:
                c20_read_back(out, img, pf, limit, descs, path, seed, count)
    # offsets moved by multiples of 2**32 (derived generator: the corruption stream above keeps its choices)
    r2 = random.Random(seed * 641 + 17)
    for i in range(4):
        limit = r2.randint(0, finest)
        img, descs = diskimg.corrupt(base, r2, limit, [diskimg.op_wrap_offset], 1)
        if not descs:
            continue
        count('op=wrap_offset')
        path, verdict, ok = check_image(out, model, img, pf, limit, nfields, descs, seed, 'c20' if c20 else 'c04', use_model=False)
        out['keys'].append(core.khash(seed, 'w', i))
        if verdict == 'good' and c20:
            c20_read_back(out, img, pf, limit, descs, path, seed, count)
    if not c20:
        # physical bounds contradicting the index ranges, with box-coordinate validation
        for i in range(4):
            limit = rng.randint(0, finest)
            img = copy.deepcopy(base)
            d = op_alter_bound(img, rng, pf, limit)
            count('op=alter_bound')
            check_image(out, model, img, pf, limit, nfields, [d], seed, 'c04', coords=True)
        if 'ratios' in pf.meta:
            # ... and at the finest level, whose cells are the smallest fraction of a coarse one
            for i in range(3):
                img = copy.deepcopy(base)
                d = op_alter_bound(img, rq, pf, finest, only_level=finest)
                count('op=alter_bound (finest level, ratios other than 2)')
                check_image(out, model, img, pf, finest, nfields, [d], seed, 'c04', coords=True)
            out['keys'].append(core.khash(seed, 'b', i))
    return out


def many_boxes_case(seed):
    """one level of 100-120 small boxes, nearly all of them in ONE binary file in a shuffled on-disk order (the
    per-file work of the binary checks is then far longer than any batch size): offsets and FAB headers of single
    boxes are damaged"""
    import numpy as np
    rng = random.Random(seed)
    model = core.W['model']
    out = dict(evals=0, keys=[], dist={}, samples=[], violations=[], disagreements=[], extra={})
    a, b = rng.choice([(10, 10), (11, 10), (12, 10), (9, 13), (7, 17)])
    pf = gen.PF()
    pf.ndims, pf.bf = 2, 2
    pf.fields = gen.gen_fields(rng, 1, 2)
    pf.time, pf.step = 0.5, 7
    pf.geo_low, pf.dx0, pf.n0 = [0.0, 0.0], [0.5, 0.5], [2 * a, 2 * b]
    lev = gen.Level()
    lev.boxes = [((2 * i, 2 * j), (2 * i + 1, 2 * j + 1)) for i in range(a) for j in range(b)]
    rng.shuffle(lev.boxes)
    n = len(lev.boxes)
    lev.data = [gen.gen_payload(rng, (2, 2, len(pf.fields)), 'ints', 16 * k) for k in range(n)]
    few = rng.sample(range(n), rng.randint(2, 5))
    main = [k for k in range(n) if k not in few]
    rng.shuffle(main)
    lev.files = [('Cell_D_00000', main), ('Cell_D_00001', few)]
    pf.levels = [lev]
    pf.meta = dict(ndims=2, nlevels=1, bf=2, nfields=len(pf.fields), payload='ints', geo='exact/zero', layouts=['random'],
                   nboxes=[n], nfiles=[2], n0=pf.n0, case='many boxes in one file')
    base = diskimg.image_of(pf)
    out['dist'][f'case=many boxes in one file ({n} boxes)'] = 1
    ops = [diskimg.op_offset_into_data, diskimg.op_offset_into_data, diskimg.op_offset_into_data, diskimg.op_bad_offset, diskimg.op_shift_fab_indices, diskimg.op_alter_shape, diskimg.op_dup_offset,
           diskimg.op_swap_offsets]
    for i in range(14):
        img, descs = diskimg.corrupt(base, rng, 0, ops, 1)
        if not descs:
            continue
        out['dist']['op=' + descs[0].split()[0]] = out['dist'].get('op=' + descs[0].split()[0], 0) + 1
        check_image(out, model, img, pf, 0, len(pf.fields), descs, seed, 'c04many')
        out['keys'].append(core.khash(seed, 'many', i))
    for v in out['violations'] + out['disagreements']:
        v['case_fn'] = 'many_boxes_case'
    return out


def c20_read_back(out, img, pf, limit, descs, path, seed, count):
    """every box of every validated level of an accepted image must read back"""
    from amr_kitchen import PlotfileCooker
    nfields = len(pf.fields)
    out['extra']['accepted_images'] = out['extra'].get('accepted_images', 0) + 1
    try:
        pck = PlotfileCooker(path, limit_level=limit)
    except Exception as e:
        out['violations'].append(dict(seed=seed, kind='accepted-not-openable', corruptions=descs,
                                      what=f'validation accepted the directory but the reader cannot open it: {e}'))
        return
    damaged = False
    for lv in range(limit + 1):
        d = img['dirs'][f"Level_{lv}"]
        fabs = {}
        for fn, content in d['files'].items():
            for lo, hi, nc, data in tc.lenient_fabs(content):
                fabs.setdefault((fn, lo, hi), []).append((nc, data))
        for b, (idx, fpath) in enumerate(zip(pck.cells[lv]['indexes'], pck.cells[lv]['files'])):
            lo = tuple(int(x) for x in idx[0])
            hi = tuple(int(x) for x in idx[1])
            shape = [h - l + 1 for l, h in zip(lo, hi)] + [nfields]
            res = core.outcome(lambda: gen.arr_canon(pck[:][lv][b]))
            out['evals'] += 1
            fn = fpath.split('/')[-1]
            cands = fabs.get((fn, lo, hi), [])
            bad = None
            if res[0] != 'ok':
                bad = f'reading box {b} of level {lv} raised: {res[1]}'
            elif res[1][0] != shape:
                bad = f'box {b} of level {lv} has shape {res[1][0]}, level header declares {shape}'
            elif not any(nc == nfields and data == res[1][1] for nc, data in cands):
                bad = f'box {b} of level {lv}: values are not those of the FAB whose header names {lo}-{hi}'
            if bad:
                out['violations'].append(dict(seed=seed, kind='accepted-not-readable', corruptions=descs, limit_level=limit,
                                              what='validation reports good but ' + bad, meta=pf.meta))
                return
    ok, _ = diskimg.consistent(img, nfields, limit)
    if not ok or any(d.startswith(('nudge', 'edit', 'header_ws')) for d in descs):
        out['extra']['accepted_damaged_images'] = out['extra'].get('accepted_damaged_images', 0) + 1
        out['keys'].append(core.khash(seed, 'acc', tuple(descs)))


def two_dirs_taste(seed):
    return core.two_dirs_case(PID, 'taste', seed)


def run(tier, seed):
    rep = core.Report(PID, tier, seed)
    pg = core.proof_gate(PID, thorough=(tier == 'thorough'))
    for t in pg['theorems']:
        rep.obligation('theorem ' + t, pg['ok'])
    if not pg['ok']:
        rep.violations.append((dict(kind='proof', what='proof obligations of Props/C04.v no longer check',
                                    theorem=pg['theorems'], problems=pg['problems']), False))
    ncases = 24 if tier == 'quick' else 400
    cases = [seed * 100000 + 4000 + i for i in range(ncases)]
    for r in core.run_cases(run_case, core.with_corpus(PID, cases)):
        rep.merge(r)
    for r in core.run_cases(many_boxes_case, [seed * 100000 + 4900 + i for i in range(3 if tier == 'quick' else 30)]):
        rep.merge(r)
    for r in core.run_cases(two_dirs_taste, [seed * 100000 + 99000 + i for i in range(1 if tier == 'quick' else 5)]):
        rep.merge(r)
    rep.obligation('correspondence: Taste.taste_good = bool(Taster) on every corrupted image (default options)',
                   not any(v[0].get('kind') == 'model-vs-impl' for v in rep.violations))
    return rep.finish(
        level_rule=("cases = generated plotfile x 26 corrupted images (18 single, 8 double corruptions drawn from: delete_file, truncate "
                    "(any byte / FAB boundary / inside header / last byte), extend, insert, remove, alter_shape, alter_ncomp, shifted FAB or "
                    "level-header index range, dropped index / FabOnDisk line, garbled token, wrong file name, wrong offset, wrong component "
                    "count, swapped offsets) + 4 box-bound corruptions under box-coordinate validation; each run in failing and non-failing "
                    "mode; non-trivial = the independent oracle finds the image inconsistent; distinct = distinct (seed, image index)"),
        trusted_base=core.COMMON_TRUSTED,
        assumptions=["the malformed stream is ASCII-token structured: arbitrary binary garbage inside text headers is outside the line/token model",
                     "box-bound corruptions move a bound by at least half a cell, far outside np.isclose's band"],
        checker_cmd=pg['checker_cmd'])
