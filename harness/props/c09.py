"""C09 - pestle integrates every point of the domain exactly once."""
import json
import io
import random
import re
import sys
import contextlib
from fractions import Fraction
import numpy as np
from harness import core, gen
from harness.props import c01

PID = 'C09'


def uncovered_sums(pf, L, comp, vcomp):
    """independent oracle: per level lv <= L the exact integer sum over the
    cells of lv not covered by a box of level lv+1 (all cells for lv = L) of
    value (* volfrac)"""
    sums = []
    for lv in range(L + 1):
        lev = pf.levels[lv]
        if lv < L:
            occ = np.zeros(pf.grid_size(lv + 1), dtype=bool)
            for lo, hi in pf.levels[lv + 1].boxes:
                occ[tuple(slice(l, h + 1) for l, h in zip(lo, hi))] = True
        s = 0
        for (lo, hi), data in zip(lev.boxes, lev.data):
            vals = data[..., comp]
            if vcomp is not None:
                vals = vals * data[..., vcomp]
            if lv < L:
                sl = tuple(slice(2 * l, 2 * (h + 1), 2) for l, h in zip(lo, hi))   # the fine cell (2i,2j,2k) of each coarse cell
                keep = ~occ[sl]
                s += int(round(float(vals[keep].sum())))
            else:
                s += int(round(float(vals.sum())))
        sums.append(s)
    return sums


def exact_total(pf, sums):
    tot = Fraction(0)
    for lv, s in enumerate(sums):
        dV = Fraction(1)
        for d in pf.dx(lv):
            dV *= Fraction(d)
        tot += dV * s
    return tot


def lvls_sx(pf):
    out = []
    for lev in pf.levels:
        boxes = []
        for (lo, hi), data in zip(lev.boxes, lev.data):
            comps = [[int(v) for v in data[..., c].ravel(order='F')] for c in range(data.shape[-1])]
            boxes.append([list(lo), list(hi), comps])
        out.append(boxes)
    return out


def many_boxes_plotfile(rng):
    """two levels; the refined level holds 300 of the 320 possible boxes of 2 x 2 x 2 cells (more boxes than a byte counts)"""
    pf = gen.PF()
    pf.ndims, pf.bf = 3, 2
    pf.fields = ['temp', 'volFrac']
    pf.time, pf.step = 0.25, 7
    pf.geo_low, pf.dx0, pf.n0 = [0.0, 0.0, 0.0], [0.5, 0.25, 1.0], [10, 8, 4]
    l0 = gen.Level()
    l0.boxes = [((0, 0, 0), (3, 7, 3)), ((4, 0, 0), (9, 7, 3))]          # (corners on an even blocking factor, as the property requires)
    l1 = gen.Level()
    cand = [((2 * i, 2 * j, 2 * k), (2 * i + 1, 2 * j + 1, 2 * k + 1)) for i in range(10) for j in range(8) for k in range(4)]
    rng.shuffle(cand)
    l1.boxes = cand[:300]
    layouts = []
    for lev in (l0, l1):
        lev.data = [gen.gen_payload(rng, tuple(h - l + 1 for l, h in zip(lo, hi)) + (2,), 'smallints') for lo, hi in lev.boxes]
        lev.files, lk = gen.gen_layout(rng, len(lev.boxes), rng.choice(['random', 'reversed']))
        layouts.append(lk)
    pf.levels = [l0, l1]
    pf.meta = dict(ndims=3, nlevels=2, bf=2, nfields=2, payload='smallints', geo='exact/aniso', layouts=layouts,
                   nboxes=[2, 300], nfiles=[len(l0.files), len(l1.files)], n0=pf.n0, case='300 boxes on the refined level')
    return pf


def many_boxes_case(seed):
    return run_case(seed, many=True)


def run_case(seed, many=False):
    from amr_kitchen import PlotfileCooker
    from amr_kitchen.pestle.pestle import volume_integral
    rng = random.Random(seed)
    model = core.W['model']
    out = dict(evals=0, keys=[], dist={}, samples=[], violations=[], disagreements=[], known={})
    dist = out['dist']

    def count(k):
        dist[k] = dist.get(k, 0) + 1

    geo_stream = 'exact' if rng.random() < 0.8 else 'decimal'
    nlv, bf, mesh = rng.choice([1, 2, 2, 3, 3]), rng.choice([2, 2, 4]), rng.choice(['blocks', 'chunky', 'chunky'])
    if random.Random(seed * 389 + 1).random() < 0.2:
        # boxes of 16 and 24 cells: the occupancy map of the next level is 8 fine cells wide (4 coarse cells per entry)
        nlv, bf, mesh = 2, 8, 'chunky'
    pf = gen.gen_plotfile(rng, ndims=3, payload='smallints', max_blocks=2, nfields=(1, 4),
                          nlevels=nlv, geo_stream=geo_stream, bf=bf, mesh=mesh)
    if many:
        pf = many_boxes_plotfile(rng)
    if rng.random() < 0.6 and 'volFrac' not in pf.fields:
        pf.fields[rng.randrange(len(pf.fields))] = 'volFrac'
    keys = c01.reader_keys(pf.fields)
    path = core.scratch_dir(f"c09_{seed}")
    # level-0 cells UNDER level 1 that hold no usable number (a writer that does not average down leaves NaN / inf /
    # a huge marker there): they are not part of the integral as soon as level 1 is selected
    rp = random.Random(seed * 1543 + 11)
    poisoned = pf.nlevels >= 2 and not many and rp.random() < 0.25
    lsx = lvls_sx(pf)
    if poisoned:
        import copy
        pfm = copy.deepcopy(pf)               # what the model is given: an integer marker in the same cells
        occ = np.zeros(pf.grid_size(1), dtype=bool)
        for lo, hi in pf.levels[1].boxes:
            occ[tuple(slice(l, h + 1) for l, h in zip(lo, hi))] = True
        for b, (lo, hi) in enumerate(pf.levels[0].boxes):
            cov = occ[tuple(slice(2 * l, 2 * (h + 1), 2) for l, h in zip(lo, hi))]
            for c in range(len(pf.fields)):
                marks = rp.choice([[np.nan], [np.inf, -np.inf], [np.nan, np.inf, 1e300], [-1e300, np.nan]])
                col = pf.levels[0].data[b][..., c]
                col[cov] = np.resize(np.array(marks), int(cov.sum()))
                pfm.levels[0].data[b][..., c][cov] = 7919
        lsx = lvls_sx(pfm)
    count(f"covered level-0 cells hold NaN / inf / 1e300={poisoned}")
    # a field that is zero everywhere, or a whole number of tens everywhere on a unit-volume grid: integrals 0 and n0 (n x 10)
    rz = random.Random(seed * 2287 + 37)
    flat = None
    if not poisoned and rz.random() < 0.2:
        flat = rz.randrange(len(pf.fields))
        if pf.fields[flat] == 'volFrac':
            flat = None
        else:
            val = rz.choice([0.0, 0.0, 10.0, 250.0])
            for lev in pf.levels:
                for d in lev.data:
                    d[..., flat] = val
            if val:
                pf.geo_low, pf.dx0 = [0.0] * 3, [1.0] * 3
                pf.meta['geo'] = 'exact/unit'
            lsx = lvls_sx(pf)
    count(f"a field that is the same whole number everywhere={flat is not None}")
    gen.write_plotfile(pf, path)
    sizes = sorted({h - l + 1 for lev in pf.levels for lo, hi in lev.boxes for l, h in zip(lo, hi)})
    count(f"levels={pf.nlevels}")
    count(f"smallest box edge={sizes[0]}")
    count(f"geo={pf.meta['geo']}")
    count(f"box_edges={'mixed' if len(sizes) > 1 else 'uniform'}")
    count(f"min_edge_divides_all_corners={all(c % sizes[0] == 0 for lev in pf.levels for lo, hi in lev.boxes for c in list(lo) + [h + 1 for h in hi])}")
    shared = {}
    for k in range(3):
        field = rng.choice(keys)
        if flat is not None and k == 0:
            field = keys[flat]
        comp = keys.index(field)
        limit_arg = rng.choice([None, None] + list(range(pf.nlevels)) + [pf.nlevels])
        if poisoned and limit_arg == 0:
            limit_arg = rp.choice([None] + list(range(1, pf.nlevels + 1)))
        L = pf.nlevels - 1 if limit_arg is None else min(limit_arg, pf.nlevels - 1)
        use_vol = rng.random() < 0.5
        vcomp = keys.index('volFrac') if (use_vol and 'volFrac' in keys) else None
        via_cli = rng.random() < 0.25 or (flat is not None and k == 0)
        count(f"limit={'none' if limit_arg is None else ('finest+' if limit_arg >= pf.nlevels - 1 else 'coarser')}")
        count(f"volfrac={'on' if vcomp is not None else ('asked-absent' if use_vol else 'off')}")
        count(f"via={'cli' if via_cli else 'api'}")
        desc = dict(seed=seed, field=field, limit_level=limit_arg, volfrac=use_vol, via='cli' if via_cli else 'api',
                    meta=pf.meta, field_names=keys, box_edges=sizes)
        core.set_policy(rng.choice(['identity', 'reverse', 'random']), seed + k, capture=True)

        def call():
            buf = io.StringIO()
            if via_cli:
                import importlib
                cli = importlib.import_module('amr_kitchen.pestle.cli')
                argv = ['pestle', '-v', field] + (['-l', str(limit_arg)] if limit_arg is not None else []) + \
                       (['--volfrac'] if use_vol else []) + [path]
                old = sys.argv
                sys.argv = argv
                try:
                    with contextlib.redirect_stdout(buf):
                        cli.main()
                finally:
                    sys.argv = old
                m = re.search(r"Volume integral of .* in plotfile: (\S+)", buf.getvalue())
                return ('printed', m.group(1) if m else None)
            with contextlib.redirect_stdout(buf):
                # one reader serves the successive integrals of a case (a limit given to one call must not leak into the next)
                if 'reader' not in shared:
                    shared['reader'] = PlotfileCooker(path, ghost=True)
                return ('value', volume_integral(shared['reader'], field, limit_level=limit_arg, use_volfrac=use_vol))
        res = core.outcome(call)
        log = list(core.CPool.log)
        core.set_policy('identity', 0)
        out['evals'] += 1
        out['keys'].append(core.khash(seed, k))
        sums = uncovered_sums(pf, L, comp, vcomp)
        want = exact_total(pf, sums)
        exact = pf.meta['geo'].startswith('exact')
        bad = None
        if res[0] != 'ok':
            bad = 'the integration raised / exited: ' + res[1]
        else:
            kind, v = res[1]
            if kind == 'printed':
                if v is None:
                    bad = 'no integral was printed'
                elif v != f"{float(want):.15f}" and abs(float(v) - float(want)) > 1e-12 * max(1.0, abs(float(want))) + 1e-15:
                    bad = f"printed integral {v} instead of {float(want):.15f}"
            else:
                got = float(v)
                if (exact and got != float(want)) or (not exact and abs(got - float(want)) > 1e-12 * max(1.0, abs(float(want)))):
                    bad = (f"integral {got!r} instead of {float(want)!r} = sum over levels 0..{L} of dV x (cells not covered by the "
                           f"next level{' x volFrac' if vcomp is not None else ''}); per-level exact sums {sums}")
        if bad:
            out['violations'].append(dict(desc, kind='wrong-integral', what=bad))
            continue
        # model: per-level per-box sums vs oracle and vs the per-box values the workers returned
        st, m = model.call('pestle', [lsx, L, comp, [] if vcomp is None else [vcomp]])
        d = None
        if st != 'ok':
            d = 'the model refuses the case'
        elif [sum(x) for x in m] != sums:
            d = f"Pestle.volume_integral per-level sums {[sum(x) for x in m]} differ from the implementation's {sums}"
        elif exact:
            calls = [c for c in log if c['fun'] in ('increment_sum', 'increment_sum_masked')]
            if len(calls) != L + 1 or any(c['kind'] != 'imap' for c in calls):
                d = f"pool calls {[(c['fun'], c['kind']) for c in log]} are not one ordered imap per level"
            else:
                for lv, c in enumerate(calls):
                    dV = Fraction(1)
                    for x in pf.dx(lv):
                        dV *= Fraction(x)
                    wantb = [float(dV * s) for s in m[lv]]
                    if [float(r) for r in c['results']] != wantb:
                        d = f"level {lv}: per-box worker results {c['results']} differ from dV x Pestle.box_sum {wantb}"
                        break
        if d:
            out['disagreements'].append(dict(desc, kind='model-vs-impl', what=d,
                                             correspondence='Pestle.Pestle.volume_integral vs pestle.volume_integral'))
        elif not out['samples']:
            out['samples'].append(dict(desc, per_level_sums=sums, integral=float(want)))
    return out


def run(tier, seed):
    rep = core.Report(PID, tier, seed)
    pg = core.proof_gate(PID, thorough=(tier == 'thorough'))
    for t in pg['theorems']:
        rep.obligation('theorem ' + t, pg['ok'])
    if not pg['ok']:
        rep.violations.append((dict(kind='proof', what='proof obligations of Props/C09.v no longer check',
                                    theorem=pg['theorems'], problems=pg['problems']), False))
    ncases = 60 if tier == 'quick' else 800
    cases = [seed * 100000 + 9000 + i for i in range(ncases)]
    for r in core.run_cases(run_case, core.with_corpus(PID, cases)):
        rep.merge(r)
    for r in core.run_cases(many_boxes_case, [seed * 100000 + 9900 + i for i in range(1 if tier == 'quick' else 6)]):
        rep.merge(r)
    rep.obligation('correspondence: Pestle.Pestle.volume_integral (per level, per box exact sums) = per-box worker results and total of '
                   'pestle.volume_integral', not any(v[0].get('kind') == 'model-vs-impl' for v in rep.violations))
    return rep.finish(
        level_rule=("cases = generated 3D plotfile (1-4 levels, blocking factor 2 or 4, boxes of 1-3 blocks per direction so edges are mixed "
                    "(e.g. 4 and 6, 8 and 12), partially refined, all layouts, small-integer payloads, 80% dyadic geometry) x 3 (field, "
                    "limit none / 0..finest / above, volfrac on/off with and without a volFrac field, API or CLI); exact comparison on "
                    "dyadic geometry (every float operation exact), 1e-12 relative otherwise"),
        trusted_base=core.COMMON_TRUSTED + [
            "IEEE rounding of np.sum / dV products is outside the model: values are small integers and cell volumes dyadic on the exact stream, so every float operation is exact and compared bit for bit with the model's integer sums scaled by the exact cell volume",
            "the read prefix of increment_sum* is the single-field read proved in C01; here boxes are given as per-component value lists"],
        assumptions=["np.sum over exactly representable partial sums is exact (no rounding occurs below 2^53)"],
        checker_cmd=pg['checker_cmd'])


def replay(doc):
    core.worker_init(core.REPO, quiet=False)
    r = run_case(doc['seed'], many=('300 boxes' in json.dumps(doc)))
    bad = r['violations'] + r['disagreements']
    for v in bad:
        print('REPLAY:', v.get('what'))
    return 1 if bad else 0
