"""C08 - mandoline 2D flattening equals the finest-level covering grid exactly."""
import contextlib
import io
import random
import numpy as np
from harness import core, gen
from harness.props import c01

PID = 'C08'


def covering(pf, L, comp):
    """independent oracle: covering grid of component comp (None = level index)
    at level L, shape (nx, ny)"""
    n = pf.grid_size(L)
    out = np.full(n, np.nan)
    for lv in range(L + 1):
        f = 2 ** (L - lv)
        for (lo, hi), data in zip(pf.levels[lv].boxes, pf.levels[lv].data):
            a = np.full(data.shape[:-1], float(lv)) if comp is None else data[..., comp]
            for d in range(pf.ndims):
                a = np.repeat(a, f, axis=d)
            sl = tuple(slice(l * f, (h + 1) * f) for l, h in zip(lo, hi))
            out[sl] = a
    return out


def gen_fields_arg(rng, keys):
    kind = rng.choice(['one', 'some', 'some', 'all', 'grid_only', 'with_grid', 'string', 'perm', 'repeat', 'unknown'])
    if kind == 'one':
        return kind, [rng.choice(keys)]
    if kind == 'string':
        return kind, rng.choice(keys)
    if kind == 'some':
        return kind, sorted(rng.sample(keys, rng.randint(1, len(keys))), key=keys.index)
    if kind == 'perm':
        return kind, rng.sample(keys, rng.randint(1, len(keys)))
    if kind == 'repeat':
        k = rng.choice(keys)
        return kind, [k, rng.choice(keys), k]
    if kind == 'all':
        return kind, ['all']
    if kind == 'grid_only':
        return kind, ['grid_level']
    if kind == 'with_grid':
        l = rng.sample(keys, rng.randint(1, len(keys)))
        l.insert(rng.randint(0, len(l)), 'grid_level')
        return kind, l
    return kind, [rng.choice(keys), 'no_such_field']


def expected_names(keys, fields):
    """-> (list of (output name, component), do_grid) as the property reads:
    every requested field under its own name, the level index for grid_level"""
    if isinstance(fields, str):
        fields = [fields]
    if 'all' in fields:
        return [(k, i) for i, k in enumerate(keys)], True
    names = [(f, keys.index(f)) for f in fields if f != 'grid_level']
    return names, ('grid_level' in fields)


def run_case(seed):
    from amr_kitchen.mandoline import Mandoline
    rng = random.Random(seed)
    model = core.W['model']
    out = dict(evals=0, keys=[], dist={}, samples=[], violations=[], disagreements=[])
    dist = out['dist']

    def count(k):
        dist[k] = dist.get(k, 0) + 1

    pf = gen.gen_plotfile(rng, ndims=2, payload=rng.choice(['ints', 'random', 'special']),
                          max_blocks=3, nfields=(1, 6), odd0=0.35)
    rt = random.Random(seed * 3301 + 29)
    twin = None
    if len(pf.fields) >= 2 and rt.random() < 0.2:
        # a bracketed name and, later in the Header, the name mandoline's file-name sanitising would turn it into: two fields
        a, b = sorted(rt.sample(range(len(pf.fields)), 2))
        br = rt.choice(['Y(H2)', 'Y(OH)', 'I_R(H2)', 'D(N2)'])
        tw = br.replace('(', '_').replace(')', '')
        if br not in pf.fields and tw not in pf.fields:
            pf.fields[a], pf.fields[b] = br, tw
            twin = tw
    count(f"a field named like the sanitised form of an earlier one={twin is not None}")
    keys = c01.reader_keys(pf.fields)
    path = core.scratch_dir(f"c08_{seed}")
    gen.write_plotfile(pf, path)
    lv_sx = [gen.level_to_sx(pf, lv) for lv in range(pf.nlevels)]
    count(f"levels={pf.nlevels}")
    count(f"geo={pf.meta['geo']}")
    for lk in pf.meta['layouts']:
        count(f"layout={lk}")
    for k in range(3):
        fkind, fields = gen_fields_arg(rng, keys)
        if twin and k == 0:
            fkind, fields = 'the sanitised twin', rt.choice([[twin], [twin, keys[0]], ['grid_level', twin]])
        limit_arg = rng.choice([None] + list(range(pf.nlevels)))
        L = pf.nlevels - 1 if limit_arg is None else limit_arg
        serial = rng.random() < 0.4
        order = rng.choice(['identity', 'reverse', 'random'])
        count(f"fields={fkind}")
        count(f"serial={serial}")
        count(f"limit={'finest' if L == pf.nlevels - 1 else 'coarser'}")
        desc = dict(seed=seed, fields=fields, limit_level=limit_arg, serial=serial, pool_order=order, meta=pf.meta,
                    field_names=keys)
        core.set_policy(order, seed + k)
        verb = random.Random(seed * 4409 + k).choice([0, 0, 1, 2, 3])
        count(f"verbosity={verb}")
        desc['verbose'] = verb

        def cut():
            with contextlib.redirect_stdout(io.StringIO()):
                return Mandoline(path, fields=fields, limit_level=limit_arg, serial=serial, verbose=verb).slice(fformat='return')
        res = core.outcome(cut)
        core.set_policy('identity', 0)
        out['evals'] += 1
        out['keys'].append(core.khash(seed, k))
        if fkind == 'unknown':
            if res[0] == 'ok':
                out['violations'].append(dict(desc, kind='unknown-field-answered',
                                              what='a field that is not in the plotfile was sliced without an error'))
            continue
        names, do_grid = expected_names(keys, fields)
        nx, ny = pf.grid_size(L)
        bad = None
        if res[0] != 'ok':
            bad = 'flattening a well-formed 2D plotfile raised: ' + res[1]
        else:
            o = res[1]
            for name, comp in names:
                want = covering(pf, L, comp).T
                got = o.get(name)
                if got is None or np.asarray(got).shape != want.shape or \
                        np.asarray(got, dtype='<f8').tobytes() != np.asarray(want, dtype='<f8').tobytes():
                    bad = f"output[{name!r}] is not the covering grid of that field at level {L} (shape (ny, nx), bit for bit)"
                    break
            if not bad and do_grid:
                want = covering(pf, L, None).T
                got = o.get('grid_level')
                if got is None or np.asarray(got).shape != want.shape or not np.array_equal(np.asarray(got), want):
                    bad = "output['grid_level'] is not the index of the finest selected level covering each pixel"
            if not bad:
                extra = set(o) - {n for n, _ in names} - {'x', 'y', 'time', 'dx', 'slice_normal', 'slice_pos', 'grid_level'}
                if extra or ('grid_level' in o and not do_grid):
                    bad = f"unrequested entries in the output: {sorted(extra)}"
            if not bad:
                dx = pf.dx(L)
                for axis, key, n in ((0, 'x', nx), (1, 'y', ny)):
                    want = np.array([pf.geo_low[axis] + (i + 0.5) * dx[axis] for i in range(n)])
                    got = np.asarray(o[key])
                    tol = 0 if pf.meta['geo'].startswith('exact') else 1e-12 * max(1.0, np.abs(want).max())
                    if got.shape != want.shape or np.abs(got - want).max() > tol:
                        bad = f"output[{key!r}] are not the cell-centre coordinates of the level-{L} grid"
        if bad:
            out['violations'].append(dict(desc, kind='wrong-output', what=bad))
            continue
        # model vs implementation
        fidxs = [c for _, c in names]
        st, m = model.call('plate', [lv_sx, L, fidxs, nx, ny])
        d = None
        if st != 'ok':
            d = 'the model refuses the case'
        else:
            marr, mgrid = m
            for (name, comp), ma in zip(names, marr):
                if not ma or ma[0] != np.ascontiguousarray(res[1][name], dtype='<f8').tobytes():
                    d = f"Mandoline.Plate.plate differs from the implementation on field {name!r}" + \
                        (' (model leaves pixels unwritten)' if not ma else '')
                    break
            if not d and do_grid:
                if not mgrid or mgrid[0] != [int(v) for v in np.asarray(res[1]['grid_level']).ravel()]:
                    d = "Mandoline.Plate.plate differs from the implementation on grid_level"
        if d:
            out['disagreements'].append(dict(desc, kind='model-vs-impl', what=d,
                                             correspondence='Mandoline.Plate.plate vs Mandoline.plate'))
        elif not out['samples']:
            out['samples'].append(dict(desc, output_names=[n for n, _ in names], shape=[ny, nx]))
    return out


def run(tier, seed):
    rep = core.Report(PID, tier, seed)
    pg = core.proof_gate(PID, thorough=(tier == 'thorough'))
    for t in pg['theorems']:
        rep.obligation('theorem ' + t, pg['ok'])
    if not pg['ok']:
        rep.violations.append((dict(kind='proof', what='proof obligations of Props/C08.v no longer check',
                                    theorem=pg['theorems'], problems=pg['problems']), False))
    ncases = 60 if tier == 'quick' else 800
    cases = [seed * 100000 + 8000 + i for i in range(ncases)]
    for r in core.run_cases(run_case, core.with_corpus(PID, cases)):
        rep.merge(r)
    rep.obligation('correspondence: Mandoline.Plate.plate (extracted) = Mandoline(...).slice(fformat="return") on 2D plotfiles, '
                   'bit for bit per field and for grid_level',
                   not any(v[0].get('kind') == 'model-vs-impl' for v in rep.violations))
    return rep.finish(
        level_rule=("cases = generated 2D plotfile (1-4 levels, rectangular domains, non-square mixed-size boxes, zero / non-zero / "
                    "anisotropic geometry, all layout kinds, int / random / special payloads incl. NaN payloads) x 3 (field list, level "
                    "limit, serial or controlled pool with identity / reverse / random task order); field lists: one, several, permuted, "
                    "repeated, 'all', grid_level alone / mixed in, plain string, unknown name; every case non-trivial; distinct = "
                    "distinct (seed, index)"),
        trusted_base=core.COMMON_TRUSTED + [
            "numpy basic-slice assignment a[xa:xo, ya:yo] = b writes b[i-xa, j-ya] at (i, j) (modelled by Array.Paint.paint); np.repeat / reshape as in Mandoline.Plate.expand_array",
            "x / y coordinates (np.linspace) are compared numerically with geo_low + (i + 1/2) dx (exact on dyadic geometry, 1e-12 relative otherwise), not proved"],
        assumptions=["boxes lie inside the level's grid (well-formed plotfile), so numpy slice clipping never occurs"],
        checker_cmd=pg['checker_cmd'])


def replay(doc):
    r = run_case(doc['seed']) if False else None
    core.worker_init(core.REPO, quiet=False)
    r = run_case(doc['seed'])
    bad = r['violations'] + r['disagreements']
    for v in bad:
        print('REPLAY:', v.get('what'))
    return 1 if bad else 0
