"""C18 - header-only tools report what the full reader holds."""
import contextlib
import io
import os
import pickle
import random
import re
import struct
import sys
import numpy as np
from harness import core, gen
from harness.sx import opt

PID = 'C18'

# the field database of the menu (class key -> pattern), transcribed once: a change of classification is a disagreement
DB = [("avg_pressure", r"^avg_pressure$"), ("density", r"^density$"), ("diffcoeff", r"^D_+."), ("DistributionMap", r"^DistributionMap$"),
      ("divu", r"^divu$"), ("enstrophy", r"^enstrophy$"), ("FunctCall", r"^FunctCall$"), ("gradp", r"^gradp+\w$"),
      ("HeatRelease", r"^HeatRelease$"), ("I_R", r"^I_R\(.+\)$"), ("kinetic_energy", r"^kinetic_energy$"), ("lambda", r"^lambda$"),
      ("mag_vort", r"^mag_vort$"), ("mass_fractions", r"^mass_fractions$"), ("mixture_fraction", r"^mixture_fraction$"),
      ("mole_fraction", r"^mole_fraction$"), ("progress_variable", r"^progress_variable$"), ("Qcrit", r"^Qcrit$"), ("rhoh", r"^rhoh$"),
      ("RhoRT", r"^RhoRT$"), ("temp", r"^temp$"), ("velocity", r"^\w+_velocity$"), ("viscosity", r"^viscosity$"), ("volFrac", r"^volFrac$"),
      ("vorticity", r"^vorticity$"), ("X", r"^X\(.+\)$"), ("Y", r"^Y\(.+\)$")]

NAMES = ['temp', 'density', 'x_velocity', 'y_velocity', 'volFrac', 'Y(H2)', 'Y(O2)', 'Y(OH)', 'Y(N2)', 'X(H2)', 'I_R(H2)', 'I_R(O2)',
         'mag_vort', 'HeatRelease', 'rhoh', 'RhoRT', 'avg_pressure', 'mixture_fraction', 'gradpx', 'gradpy', 'D_H2', 'divu',
         'pressure', 'a', 'alpha', 'data_a', 'b_c', 'ab_cd', 'Ya', 'temp2', 'mytemp', 'Y(H2)x', 'user.field', 'w+z', 'viscosity']


def classify(name):
    for key, pat in DB:
        if re.search(pat, name):
            return key
    return None


def run_entry(modname, argv):
    import importlib
    mod = importlib.import_module(modname)
    buf = io.StringIO()
    old = sys.argv
    sys.argv = argv
    try:
        with contextlib.redirect_stdout(buf):
            mod.main()
    finally:
        sys.argv = old
    return buf.getvalue()


def block(text, title):
    """lines between the two caps following a title line"""
    lines = text.split('\n')
    for i, l in enumerate(lines):
        if title in l:
            caps = [j for j in range(i + 1, len(lines)) if re.fullmatch(r'\+-*\+', lines[j])]
            if len(caps) >= 2:
                return lines[caps[0] + 1:caps[1]]
    return None


def parse_minmax(text):
    lines = text.split('\n')
    title = [i for i, l in enumerate(lines) if "Fields' Mins and Maxs" in l]
    if not title:
        return None
    caps = [j for j in range(title[0] + 1, len(lines)) if lines[j].startswith('+-')]
    if len(caps) < 3:
        return None
    rows = []
    for l in lines[caps[1] + 1:caps[2]]:
        cells = []
        for half in l.split('\t'):
            if ' : ' not in half:
                cells.append(None)
                continue
            name, rest = half.split(' : ', 1)
            toks = rest.split()
            cells.append((name.rstrip(), toks[0], toks[1]) if len(toks) >= 2 and name.strip() else ('', '', ''))
        rows.append(cells)
    return rows


def fmt3(x):
    s = "{:.3}".format(np.float64(x))
    return s if s.startswith('-') else ' ' + s


def word(x):
    return struct.pack('<d', float(x))


def unword(b):
    return struct.unpack('<d', b)[0]


def run_case(seed):
    from amr_kitchen import PlotfileCooker
    rng = random.Random(seed)
    model = core.W['model']
    out = dict(evals=0, keys=[], dist={}, samples=[], violations=[], disagreements=[])
    dist = out['dist']

    def count(k):
        dist[k] = dist.get(k, 0) + 1

    ndims = rng.choice([2, 3, 3])
    pf = gen.gen_plotfile(rng, ndims=ndims, max_blocks=2, nlevels=rng.choice([1, 2, 3]), payload=rng.choice(['ints', 'random']),
                          nfields=(1, 1))
    n = rng.randint(1, 9)
    with_species = rng.random() < 0.7
    pool = [x for x in NAMES if with_species or not re.search(r'^Y\(.+\)$', x)]
    pf.fields = rng.sample(pool, min(n, len(pool)))
    if with_species and not any(re.search(r'^Y\(.+\)$', f) for f in pf.fields):
        pf.fields[0] = 'Y(H2)'
    ry = random.Random(seed * 3907 + 31)
    if with_species and ry.random() < 0.3:
        # species whose own name begins like the wrapper: yttrium oxides, a bracketed group
        for nm in ry.sample(['Y(YO)', 'Y(Y2O3)', 'Y((CH2)2O)', 'Y(Y)', 'Y(YY(2))'], ry.randint(1, 2)):
            if nm not in pf.fields:
                pf.fields[ry.randrange(len(pf.fields))] = nm
        count("species names beginning with Y or a bracket")
    pf.time = rng.choice([0.0, 0.49947225144556617, -1.5, 12.0, float('inf'), 1.5e-300])
    for lev in pf.levels:
        lev.data = []
        for lo, hi in lev.boxes:
            shape = tuple(h - l + 1 for l, h in zip(lo, hi)) + (len(pf.fields),)
            d = gen.gen_payload(rng, shape, pf.meta['payload'])
            if rng.random() < 0.15:
                d[(0,) * len(shape)] = rng.choice([np.inf, -np.inf, 1e300, -1e-300])
            lev.data.append(d)
    has_nan = False
    if rng.random() < 0.2:
        lv_nan = rng.randrange(pf.nlevels)
        b_nan = rng.randrange(len(pf.levels[lv_nan].boxes))
        pf.levels[lv_nan].data[b_nan][(0,) * (ndims + 1)] = np.nan
        has_nan = True
    root = core.scratch_dir(f"c18_{seed}")
    os.makedirs(root)
    # (a directory name with dots in it: a time-stamped series plt_t0.25, plt_t0.50 ...)
    path = os.path.join(root, random.Random(seed * 211 + 1).choice(['plt00010', 'plt00010', 'plt_t0.25', 'plt00010.old']))
    gen.write_plotfile(pf, path)
    keys = list(pf.fields)
    count(f"ndims={ndims}")
    count(f"nfields={'odd' if len(keys) % 2 else 'even'}")
    count(f"species={'yes' if any(classify(k) == 'Y' for k in keys) else 'no'}")
    count(f"unknown_fields={sum(1 for k in keys if classify(k) is None)}")
    count(f"nan_in_tables={has_nan}")
    desc = dict(seed=seed, fields=keys, time=repr(pf.time), meta=pf.meta)
    # expected tables from the generator's data (the per-box header tables hold '%.16e' of the extrema)
    mins = [[[float(gen.minmax_token(np.min(d[..., c]))) for d in lev.data] for lev in pf.levels] for c in range(len(keys))]
    maxs = [[[float(gen.minmax_token(np.max(d[..., c]))) for d in lev.data] for lev in pf.levels] for c in range(len(keys))]

    def viol(kind, what):
        out['violations'].append(dict(desc, kind=kind, what=what))

    def dis(what):
        out['disagreements'].append(dict(desc, kind='model-vs-impl', what=what, correspondence='Menu.Menu vs menu / minuterie'))

    # ---- minuterie
    out['evals'] += 1
    res = core.outcome(lambda: run_entry('amr_kitchen.minuterie', ['minuterie', path]))
    if res[0] != 'ok':
        viol('minuterie-raised', 'minuterie raised: ' + res[1])
    else:
        m = re.search(r"Plotfile time = (\S+)", res[1])
        if not m or float(m.group(1)) != pf.time:
            viol('wrong-time', f"minuterie printed {res[1].strip()!r}, the header time is {pf.time!r}")
        from harness import diskimg
        st, mt = model.call('minuterie', diskimg.tokens_of(gen.header_text(pf)))
        if st != 'ok' or float(mt) != pf.time:
            dis(f"Menu.minuterie gives {mt!r} for header time {pf.time!r}")
    # ---- default listing
    out['evals'] += 1
    res = core.outcome(lambda: run_entry('amr_kitchen.menu.cli', ['menu', path]))
    want_list = sorted({classify(k) or k for k in keys}, key=str.lower)
    want_species = sorted(re.sub(r"\)$", '', re.sub(r"^Y\(", '', k)) for k in keys if classify(k) == 'Y')
    listing = species = None
    if res[0] != 'ok':
        viol('listing-raised', 'menu (default listing) raised: ' + res[1])
    else:
        b = block(res[1], 'Fields found in file')
        listing = [t for l in (b or []) for t in l.split()]
        bs_ = block(res[1], 'Species found in file')
        species = [t for l in (bs_ or []) for t in l.split()]
        if sorted(listing) != sorted(want_list) or len(listing) != len(set(listing)):
            viol('wrong-listing', f"menu lists {listing}; every header field exactly once means {want_list}")
        elif species != want_species:
            viol('wrong-species', f"menu lists species {species} instead of {want_species}")
    # ---- min/max tables
    tables = {}
    for flag, finest in (('-m', False), ('-f', True)):
        out['evals'] += 1
        res = core.outcome(lambda: run_entry('amr_kitchen.menu.cli', ['menu', flag, path]))
        if res[0] != 'ok':
            viol('minmax-raised', f"menu {flag} raised: " + res[1])
            continue
        rows = parse_minmax(res[1])
        if rows is None:
            viol('minmax-unparsable', f"menu {flag}: no min/max table in the output")
            continue
        cells = [c for r in rows for c in r if c and c[0] != '']
        shown = [c[0] for c in cells]
        if sorted(shown) != sorted(keys):
            viol('field-not-shown', f"menu {flag}: the table shows {shown}; every field exactly once means {keys}")
            continue
        bad = None
        for name, mn, mx in cells:
            c = keys.index(name)
            vals_min = mins[c][-1] if finest else [v for lv in mins[c] for v in lv]
            vals_max = maxs[c][-1] if finest else [v for lv in maxs[c] for v in lv]
            wmn, wmx = fmt3(np.min(vals_min)).strip(), fmt3(np.max(vals_max)).strip()      # NaN propagates
            if (mn, mx) != (wmn, wmx):
                bad = f"menu {flag}: field {name!r} shows ({mn}, {mx}) instead of ({wmn}, {wmx}) = extrema of the per-box tables of " + \
                      ('the finest level' if finest else 'all levels') + ' to three significant digits'
                break
        if bad:
            viol('wrong-extrema', bad)
            continue
        tables[finest] = rows
    # ---- marinate
    out['evals'] += 1
    res = core.outcome(lambda: run_entry('amr_kitchen.marinate', ['marinate', path]))
    if res[0] != 'ok':
        viol('marinate-raised', 'marinate raised: ' + res[1])
    else:
        try:
            with open(path + '.pkl', 'rb') as f:
                pk = pickle.load(f)
            ref = PlotfileCooker(path, maxmins=True)
            bad = None
            for attr in ('fields', 'ndims', 'time', 'limit_level', 'geo_low', 'geo_high', 'nfields'):
                if getattr(pk, attr) != getattr(ref, attr):
                    bad = f"attribute {attr} differs after unpickling"
            if not bad and (not np.array_equal(np.array(pk.dx), np.array(ref.dx)) or
                            any(not np.array_equal(a, b) for a, b in zip(pk.grid_sizes, ref.grid_sizes))):
                bad = "dx / grid_sizes differ after unpickling"
            for lv in range(pf.nlevels):
                if bad:
                    break
                for key in ('indexes', 'files', 'offsets'):
                    if not np.array_equal(np.array(pk.cells[lv][key]), np.array(ref.cells[lv][key])):
                        bad = f"cells[{lv}][{key}] differs after unpickling"
                for b, d in enumerate(pf.levels[lv].data):
                    got = pk[0:len(keys)][lv][b]
                    if not bad and np.asarray(got).tobytes() != np.asarray(d, dtype='<f8').tobytes(order='C') and \
                            np.asarray(got).tobytes(order='F') != np.asarray(d, dtype='<f8').tobytes(order='F'):
                        bad = f"box {b} of level {lv} read through the unpickled reader differs from the stored data"
            if bad:
                viol('marinate-differs', 'marinated reader: ' + bad)
        except Exception as e:
            viol('marinate-unusable', f"the pickle cannot be used: {type(e).__name__}: {e}")
    # ---- marinate, the plotfile named through a symbolic link to a directory followed by '..' (the operating system
    # follows the link before going up: <elsewhere>/post/../plt is <root>/plt when post links to <root>/post; a plotfile
    # of the same name but another time sits where a purely textual reading of the path would look)
    rl = random.Random(seed * 1291 + 5)
    if rl.random() < 0.35 and not out['violations']:
        import copy
        out['evals'] += 1
        name = os.path.basename(path)
        os.makedirs(os.path.join(root, 'post'))
        os.makedirs(os.path.join(root, 'elsewhere'))
        os.symlink(os.path.join(root, 'post'), os.path.join(root, 'elsewhere', 'post'))
        decoy = copy.deepcopy(pf)
        decoy.time = 77.5
        gen.write_plotfile(decoy, os.path.join(root, 'elsewhere', name))
        spelled = os.path.join(root, 'elsewhere', 'post', '..', name)
        count("marinate through link/..=yes")
        res = core.outcome(lambda: run_entry('amr_kitchen.marinate', ['marinate', spelled]))
        if res[0] != 'ok':
            viol('marinate-raised', f'marinate {spelled} raised: ' + res[1])
        else:
            cands = [os.path.normpath(spelled) + '.pkl', os.path.realpath(spelled) + '.pkl']
            found = [c for c in cands if os.path.exists(c)]
            try:
                # the first marinate left <path>.pkl: the newest candidate is the one just written
                newest = max(found, key=lambda c: os.stat(c).st_mtime_ns)
                with open(newest, 'rb') as f:
                    pk = pickle.load(f)
                if pk.time != pf.time:
                    viol('marinate-differs', f"marinated reader of {spelled}: time {pk.time!r}, the Header of that plotfile says {pf.time!r}")
                else:
                    got = pk[0:len(keys)][0][0]
                    d = pf.levels[0].data[0]
                    if np.asarray(got).tobytes(order='F') != np.asarray(d, dtype='<f8').tobytes(order='F') and \
                            np.asarray(got).tobytes() != np.asarray(d, dtype='<f8').tobytes(order='C'):
                        viol('marinate-differs', f"marinated reader of {spelled}: box 0 of level 0 differs from the stored data")
            except Exception as e:
                viol('marinate-unusable', f"marinate {spelled}: the pickle cannot be used: {type(e).__name__}: {e}")
    # ---- the model (value order on bit patterns: no NaN)
    if has_nan:
        out['keys'].append(core.khash(seed))
        return out
    classes = [opt(classify(k).encode() if classify(k) else None) for k in keys]
    for finest in (False, True):
        st, m = model.call('menu', [[k.encode() for k in keys], classes, 1 if finest else 0,
                                    [[[word(v) for v in lv] for lv in mins[c]] for c in range(len(keys))],
                                    [[[word(v) for v in lv] for lv in maxs[c]] for c in range(len(keys))]])
        mlist, mspecies, mmm, mrows = m
        if listing is not None and sorted(x.decode() for x in mlist) != sorted(listing):
            dis(f"Menu.variables_finder gives {[x.decode() for x in mlist]}, the tool lists {listing}")
            break
        if species is not None and sorted(x.decode() for x in mspecies) != species:
            dis(f"Menu.species_finder gives {[x.decode() for x in mspecies]}, the tool lists {species}")
            break
        rows = tables.get(finest)
        if rows is not None:
            padded = keys + ([''] if len(keys) % 2 else [])
            want_rows = [[padded[i], padded[j]] for i, j in mrows]
            got_rows = [[c[0] if c else None for c in r] for r in rows]
            if got_rows != want_rows:
                dis(f"Menu.table_rows pairs {want_rows}, the tool prints {got_rows}")
                break
            for r in rows:
                for cell in r:
                    if cell and cell[0]:
                        c = keys.index(cell[0])
                        if (fmt3(unword(mmm[c][0])).strip(), fmt3(unword(mmm[c][1])).strip()) != (cell[1], cell[2]):
                            dis(f"Menu.field_min / field_max of {cell[0]!r} formatted to 3 digits differ from the printed ({cell[1]}, {cell[2]})")
    out['keys'].append(core.khash(seed))
    if not out['samples'] and not out['violations']:
        out['samples'].append(dict(desc, listing=listing, species=species))
    return out


def huge_offset_case():
    """a binary file larger than 2 GiB (sparse): the marinated reader must keep the 64-bit offsets"""
    from amr_kitchen import PlotfileCooker
    out = dict(evals=1, keys=['huge'], dist={'huge_offset_case': 1}, samples=[], violations=[], disagreements=[])
    root = core.scratch_dir('c18_huge')
    os.makedirs(root)
    path = os.path.join(root, 'plt_big')
    pf = gen.PF()
    pf.ndims, pf.fields, pf.time, pf.geo_low, pf.dx0, pf.n0 = 3, ['temp'], 0.5, [0.0, 0.0, 0.0], [1.0, 1.0, 1.0], [65536 + 4, 64, 64]
    lev = gen.Level()
    lev.boxes = [((0, 0, 0), (65535, 63, 63)), ((65536, 0, 0), (65539, 63, 63))]
    small = np.asfortranarray(np.arange(4 * 64 * 64, dtype='float64').reshape((4, 64, 64, 1), order='F'))
    pf.levels = [lev]
    os.makedirs(os.path.join(path, 'Level_0'))
    h0 = gen.fab_header(*lev.boxes[0], 1)
    off1 = len(h0) + 8 * 65536 * 64 * 64
    with open(os.path.join(path, 'Level_0', 'Cell_D_00000'), 'wb') as f:
        f.write(h0)
        f.seek(off1)
        f.write(gen.fab_bytes(*lev.boxes[1], small))
    lev.data = [np.zeros((1, 1, 1, 1)), small]
    with open(os.path.join(path, 'Header'), 'w') as f:
        f.write(gen.header_text(pf))
    zero = gen.minmax_token(0.0)
    with open(os.path.join(path, 'Level_0', 'Cell_H'), 'w') as f:
        f.write(gen.cell_h_text(pf, 0, [('Cell_D_00000', 0), ('Cell_D_00000', off1)],
                                mins=[[zero], [gen.minmax_token(0.0)]], maxs=[[zero], [gen.minmax_token(float(small.max()))]]))
    res = core.outcome(lambda: run_entry('amr_kitchen.marinate', ['marinate', path]))
    desc = dict(case='binary file of 2 GiB + (sparse), second box at offset %d' % off1)
    if res[0] != 'ok':
        out['violations'].append(dict(desc, kind='marinate-raised', what='marinate raised: ' + res[1]))
        return out
    with open(path + '.pkl', 'rb') as f:
        pk = pickle.load(f)
    if [int(o) for o in pk.cells[0]['offsets']] != [0, off1]:
        out['violations'].append(dict(desc, kind='marinate-differs',
                                      what=f"marinated reader: offsets {list(pk.cells[0]['offsets'])} instead of {[0, off1]}"))
        return out
    got = core.outcome(lambda: np.asarray(pk['temp'][0][1]))
    if got[0] != 'ok' or got[1].tobytes(order='F') != small[..., 0].tobytes(order='F'):
        out['violations'].append(dict(desc, kind='marinate-differs',
                                      what='marinated reader: box 1 (behind 2 GiB) does not read back: ' + str(got[1])[:120]))
    return out


def many_fields_case():
    """a header whose field-name section is far longer than any I/O buffer (hundreds of fields): the header-only
    listing must still show every field"""
    out = dict(evals=1, keys=[core.khash('many-fields')], dist={'case=460 fields': 1}, samples=[], violations=[], disagreements=[])
    rng = random.Random(4242)
    pf = gen.gen_deep_plotfile(rng, nlevels=1, ndims=3, nfields=1)
    pf.fields = [f"Y(S{i:03d})" for i in range(300)] + [f"passive_scalar_number_{i:03d}" for i in range(160)]
    for lev in pf.levels:
        lev.data = [gen.gen_payload(rng, (2, 2, 2, len(pf.fields)), 'ints')]
    path = os.path.join(core.scratch_dir('c18_many'), 'plt00020')
    os.makedirs(os.path.dirname(path))
    gen.write_plotfile(pf, path)
    res = core.outcome(lambda: run_entry('amr_kitchen.menu.cli', ['menu', path]))
    desc = dict(case='460 fields (300 species, 160 names unknown to the database)')
    if res[0] != 'ok':
        out['violations'].append(dict(desc, kind='listing-raised', what='menu (default listing) raised: ' + res[1]))
        return out
    listing = [t for l in (block(res[1], 'Fields found in file') or []) for t in l.split()]
    species = [t for l in (block(res[1], 'Species found in file') or []) for t in l.split()]
    want_list = sorted({classify(k) or k for k in pf.fields}, key=str.lower)
    want_species = sorted(re.sub(r"\)$", '', re.sub(r"^Y\(", '', k)) for k in pf.fields if classify(k) == 'Y')
    if sorted(listing) != sorted(want_list) or len(listing) != len(set(listing)):
        out['violations'].append(dict(desc, kind='wrong-listing',
                                      what=f"menu lists {len(listing)} entries; every header field exactly once means {len(want_list)} "
                                           f"(missing e.g. {sorted(set(want_list) - set(listing))[:3]})"))
    elif species != want_species:
        out['violations'].append(dict(desc, kind='wrong-species', what=f"menu lists {len(species)} species instead of {len(want_species)}"))
    return out


def repeated_names_case(seed):
    """a header that repeats field names (AMReX writes such headers for derived quantities): the default listing
    still shows what the header holds - every name once, nothing that is not in the header"""
    rng = random.Random(seed)
    out = dict(evals=1, keys=[core.khash('repeat', seed)], dist={'case=repeated header names': 1}, samples=[], violations=[], disagreements=[])
    ndims = rng.choice([2, 3])
    pf = gen.gen_deep_plotfile(rng, nlevels=rng.choice([1, 2]), ndims=ndims, nfields=1)
    unknown = [x for x in NAMES if classify(x) is None] or ['tracer_a', 'tracer_b']
    base = rng.sample(unknown, min(2, len(unknown))) + rng.sample([x for x in NAMES if classify(x) not in (None,)], 2)
    fields = list(base)
    rep = rng.choice(fields)
    fields.insert(rng.randrange(1, len(fields) + 1), rep)
    if rng.random() < 0.5:
        fields.insert(rng.randrange(1, len(fields) + 1), rng.choice(fields))
    if rng.random() < 0.5:
        fields += ['Y(H2)', 'Y(O2)', 'Y(H2)']
    pf.fields = fields
    for lev in pf.levels:
        lev.data = [gen.gen_payload(rng, tuple([2] * ndims) + (len(fields),), 'ints')]
    path = os.path.join(core.scratch_dir(f'c18_rep_{seed}'), 'plt00030')
    os.makedirs(os.path.dirname(path))
    gen.write_plotfile(pf, path)
    desc = dict(case='repeated header names', seed=seed, fields=fields)
    res = core.outcome(lambda: run_entry('amr_kitchen.menu.cli', ['menu', path]))
    if res[0] != 'ok':
        out['violations'].append(dict(desc, kind='listing-raised', what='menu (default listing) raised: ' + res[1]))
        return out
    listing = [t for l in (block(res[1], 'Fields found in file') or []) for t in l.split()]
    want_list = sorted({classify(k) or k for k in fields}, key=str.lower)
    if sorted(listing) != sorted(want_list):
        out['violations'].append(dict(desc, kind='wrong-listing',
                                      what=f"menu lists {listing}; the header fields {fields} are, every one once, {want_list}"))
    return out


def blank_names_case(seed):
    """field names holding blanks (AMReX allows them: 'mag vort', 'x velocity'): minuterie still prints the header time"""
    rng = random.Random(seed)
    out = dict(evals=1, keys=[core.khash('blank-names', seed)], dist={'case=field names with blanks (minuterie)': 1},
               samples=[], violations=[], disagreements=[])
    ndims = rng.choice([2, 3])
    pf = gen.gen_deep_plotfile(rng, nlevels=rng.choice([1, 2]), ndims=ndims, nfields=1)
    pf.fields = rng.sample(['mag vort', 'x velocity', 'a b c d', 'temp', 'Y(H2)', 'heat release rate', 'density'], rng.randint(2, 5))
    pf.time = rng.choice([0.0, 0.49947225144556617, -1.5, 12.0, 3.0, 2.0, 1.5e-300, 7e5])
    for lev in pf.levels:
        lev.data = [gen.gen_payload(rng, tuple([2] * ndims) + (len(pf.fields),), 'ints')]
    path = os.path.join(core.scratch_dir(f'c18_blank_{seed}'), 'plt00040')
    os.makedirs(os.path.dirname(path))
    gen.write_plotfile(pf, path)
    desc = dict(case='blank names', case_fn='blank_names_case', seed=seed, fields=pf.fields, time=repr(pf.time))
    res = core.outcome(lambda: run_entry('amr_kitchen.minuterie', ['minuterie', path]))
    if res[0] != 'ok':
        out['violations'].append(dict(desc, kind='minuterie-raised', what='minuterie raised: ' + res[1]))
    else:
        m = re.search(r"Plotfile time = (\S+)", res[1])
        if not m or float(m.group(1)) != pf.time:
            out['violations'].append(dict(desc, kind='wrong-time', what=f"minuterie printed {res[1].strip()!r}, the header time is {pf.time!r}"))
    return out


def lambda_many(_):
    return many_fields_case()


def lambda_huge(_):
    return huge_offset_case()


def run(tier, seed):
    rep = core.Report(PID, tier, seed)
    pg = core.proof_gate(PID, thorough=(tier == 'thorough'))
    for t in pg['theorems']:
        rep.obligation('theorem ' + t, pg['ok'])
    if not pg['ok']:
        rep.violations.append((dict(kind='proof', what='proof obligations of Props/C18.v no longer check',
                                    theorem=pg['theorems'], problems=pg['problems']), False))
    ncases = 60 if tier == 'quick' else 800
    cases = [seed * 100000 + 18000 + i for i in range(ncases)]
    for r in core.run_cases(run_case, core.with_corpus(PID, cases)):
        rep.merge(r)
    for r in core.run_cases(lambda_huge, [0]):
        rep.merge(r)
    for r in core.run_cases(lambda_many, [0]):
        rep.merge(r)
    for r in core.run_cases(blank_names_case, [seed * 100000 + 18950 + i for i in range(6 if tier == 'quick' else 60)]):
        rep.merge(r)
    for r in core.run_cases(repeated_names_case, [seed * 100000 + 18900 + i for i in range(6 if tier == 'quick' else 60)]):
        rep.merge(r)
    rep.obligation('correspondence: Menu.Menu (listing, species, extrema, table rows, minuterie) = parsed standard output of the entry points',
                   not any(v[0].get('kind') == 'model-vs-impl' for v in rep.violations))
    return rep.finish(
        level_rule=("cases = generated 2D/3D plotfile (1-9 fields drawn from database-known names, species, unknown names incl. names "
                    "contained in one another and names with regex metacharacters; with and without Y(...) fields; odd and even counts; "
                    "times 0 / negative / infinite / denormal-small; +-inf and huge extrema) x entry points run in-process with sys.argv: "
                    "minuterie, menu (default listing), menu -m, menu -f, marinate; standard output parsed back into names / (field, min, "
                    "max) cells; the pickle is loaded, its metadata compared attribute by attribute with a fresh reader and every box read "
                    "through it"),
        trusted_base=core.COMMON_TRUSTED + [
            "Python's '{:.3}' formatting and pickle are runtime: the harness formats the expected extrema with the same format spec",
            "the regular-expression classification is a parameter of the model; the harness supplies it from its own transcription of the database"],
        assumptions=["extrema are finite or infinite (no NaN): the order on bit patterns is the numeric order"],
        checker_cmd=pg['checker_cmd'])


def replay(doc):
    core.worker_init(core.REPO, quiet=False)
    r = (repeated_names_case(doc['seed']) if doc.get('case') == 'repeated header names' else
         blank_names_case(doc['seed']) if doc.get('case') == 'blank names' else run_case(doc['seed']))
    bad = r['violations'] + r['disagreements']
    for v in bad:
        print('REPLAY:', v.get('what'))
    return 1 if bad else 0
