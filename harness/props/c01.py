"""C01 - box data read through the indexing interface is what is on disk."""
import random
import numpy as np
from harness import core, gen
from harness.sx import opt

PID = 'C01'


def reader_keys(fields):
    """the reader's dictionary keys (repeated names get _2, _3 ...)"""
    keys = []
    for f in fields:
        if f not in keys:
            keys.append(f)
        else:
            k = 2
            while f"{f}_{k}" in keys:
                k += 1
            keys.append(f"{f}_{k}")
    return keys


# ---- selector generation: python object, sx encoding, description

def gen_slice(rng, n):
    def bound():
        r = rng.random()
        if r < 0.3:
            return None
        if r < 0.8:
            return rng.randint(0, n + 1)
        return rng.randint(-n - 2, -1)
    step = rng.choice([None, None, None, 1, 2, 3]) if rng.random() < 0.9 else rng.choice([-1, -2, 0])
    return slice(bound(), bound(), step)


def gen_fsel(rng, keys):
    n = len(keys)
    kind = rng.choice(['name', 'names', 'int', 'int', 'list_asc', 'list_asc', 'list_any', 'slice', 'slice', 'slice',
                       'bad_name', 'bad_int', 'neg_int', 'bad_list', 'empty_list'])
    r2 = random.Random(repr(rng.getstate()[1][:6]) + 'negtail')
    if kind == 'list_any' and r2.random() < 0.5:
        # consecutive negative indices up to the last field: [-k, ..., -1]
        return 'list_neg_tail', list(range(-r2.randint(1, n), 0))
    if kind == 'name':
        return kind, rng.choice(keys)
    if kind == 'names':
        return kind, [rng.choice(keys) for _ in range(rng.randint(1, min(n, 4)))]
    if kind == 'int':
        return kind, rng.randrange(n)
    if kind == 'neg_int':
        return kind, rng.randint(-n, -1)
    if kind == 'bad_int':
        return kind, rng.choice([n, n + 1, -n - 1, -n - 2])
    if kind == 'list_asc':
        k = rng.randint(1, n)
        return kind, sorted(rng.sample(range(n), k))
    if kind == 'list_any':
        return kind, [rng.randint(-n, n - 1) for _ in range(rng.randint(1, 4))]
    if kind == 'bad_list':
        l = [rng.randrange(n) for _ in range(rng.randint(0, 2))] + [rng.choice([n, -n - 1])]
        rng.shuffle(l)
        return kind, l
    if kind == 'empty_list':
        return kind, []
    if kind == 'bad_name':
        return kind, 'no_such_field'
    return kind, gen_slice(rng, n)


def enc_slice(s):
    return [opt(s.start), opt(s.stop), opt(s.step)]


def enc_fsel(f):
    if isinstance(f, str):
        return [0, f.encode()]
    if isinstance(f, int):
        return [2, f]
    if isinstance(f, slice):
        return [3] + enc_slice(f)
    if isinstance(f, list) and f and isinstance(f[0], str):
        return [1, [x.encode() for x in f]]
    return [4, list(f)]


def gen_bsel(rng, n):
    kind = rng.choice(['int', 'int', 'neg_int', 'bad_int', 'slice', 'slice', 'list', 'list_rep', 'mask', 'mask_all',
                       'mask_none', 'empty_list', 'bad_list', 'bad_mask'])
    if kind == 'int':
        return kind, rng.randrange(n)
    if kind == 'neg_int':
        return kind, rng.randint(-n, -1)
    if kind == 'bad_int':
        return kind, rng.choice([n, -n - 1, n + 3])
    if kind == 'slice':
        return kind, gen_slice(rng, n)
    if kind == 'list':
        return kind, rng.sample(range(n), rng.randint(1, n))
    if kind == 'list_rep':
        return kind, [rng.randint(-n, n - 1) for _ in range(rng.randint(1, 5))]
    if kind == 'bad_list':
        return kind, [rng.randrange(n), rng.choice([n, -n - 1])]
    if kind == 'empty_list':
        return kind, []
    if kind == 'mask':
        m = [rng.random() < 0.5 for _ in range(n)]
        return kind, m
    if kind == 'mask_all':
        return kind, [True] * n
    if kind == 'mask_none':
        return kind, [False] * n
    return kind, [True] * (n + 1)


def enc_bsel(b):
    if isinstance(b, bool):
        raise TypeError
    if isinstance(b, int):
        return [0, b]
    if isinstance(b, slice):
        return [1] + enc_slice(b)
    if isinstance(b, list) and b and isinstance(b[0], bool):
        return [3, [1 if x else 0 for x in b]]
    return [2, list(b)]


def show(x):
    return repr(x)


# ---- the property oracle (independent of the Coq model)

def oracle(pf, keys, fsel, key, bsel, limit):
    """-> ('must', expected list) when the property demands success,
          ('may', expected list | None) when raising is acceptable
       expected: list of (shape, bytes) or None when the selection is invalid"""
    nf = len(keys)
    must = True
    # fields
    if isinstance(fsel, str):
        comps = keys.index(fsel) if fsel in keys else None
        must &= comps is not None
    elif isinstance(fsel, list) and fsel and isinstance(fsel[0], str):
        comps = [keys.index(f) for f in fsel] if all(f in keys for f in fsel) else None
        must &= comps is not None and comps == sorted(comps)
    elif isinstance(fsel, int):
        comps = fsel % nf if -nf <= fsel < nf else None
        must &= 0 <= fsel < nf
    elif isinstance(fsel, slice):
        if fsel.step == 0:
            comps = None
        else:
            comps = list(range(nf))[fsel]
        must &= fsel.step is None or fsel.step > 0
        must &= bool(comps)
    else:
        if len(fsel) and all(-nf <= f < nf for f in fsel):
            comps = [f % nf for f in fsel]
        else:
            comps = None
        must &= comps is not None and all(f >= 0 for f in fsel) and list(fsel) == sorted(fsel)
    # level
    if not (0 <= key <= limit):
        must = False
    if key > limit or key < -(limit + 1):
        lv = None
    else:
        lv = key % (limit + 1)
    # boxes
    boxes = None
    if lv is not None:
        n = len(pf.levels[lv].boxes)
        try:
            if isinstance(bsel, list) and len(bsel) == 0:
                boxes = []
            else:
                boxes = list(np.atleast_1d(np.arange(n)[bsel if not isinstance(bsel, list) else np.array(bsel)]))
        except (IndexError, ValueError):
            boxes = None
        if isinstance(bsel, int) and not (0 <= bsel < n):
            must = False
        if isinstance(bsel, list) and bsel and not isinstance(bsel[0], bool) and not all(0 <= b < n for b in bsel):
            must = False
    if comps is None or lv is None or boxes is None:
        return ('may', None)
    exp = [gen.arr_canon(pf.levels[lv].data[int(b)][..., comps]) for b in boxes]
    return ('must' if must else 'may', exp)


def canon_result(r, bsel):
    if isinstance(bsel, int) and isinstance(r, (list, tuple)) and len(r) == 1:
        r = r[0]            # a numpy scalar box index may be answered like a one-element index list
    if isinstance(bsel, int):
        return [gen.arr_canon(r)]
    return [gen.arr_canon(a) for a in r]


def short(res):
    if res is None:
        return None
    return [[s, d.hex()[:48] + ('..' if len(d) > 24 else '')] if isinstance(d, (bytes, bytearray)) else [s, d] for s, d in res]


def run_case(seed):
    from amr_kitchen import PlotfileCooker
    rng = random.Random(seed)
    model = core.W['model']
    out = dict(evals=0, keys=[], dist={}, samples=[], violations=[], disagreements=[])
    dist = out['dist']

    def count(k):
        dist[k] = dist.get(k, 0) + 1

    if seed % 10 == 3:
        # more than ten levels: level directories no longer sort like their numbers
        pf = gen.gen_deep_plotfile(rng, nlevels=rng.choice([11, 12, 13]), ndims=rng.choice([2, 3]), nfields=rng.randint(1, 3))
    else:
        pf = gen.gen_plotfile(rng, allow_repeat=True, max_blocks=rng.choice([2, 3]), odd_names=0.25, unicode_names=0.2)
    rsh = random.Random(seed * 7919 + 5)
    if rsh.random() < 0.3:
        # an index space that does not start at zero (AMReX allows any integer box; the reader only has to hand back
        # what the FAB holds): boxes with negative corners. The domain keeps a positive high corner: the reader derives
        # its grid sizes from it alone (hi + 1) and refuses a domain that lies wholly below zero
        gen.shift_index_space(pf, [-pf.bf * rsh.randint(0, max(0, pf.n0[d] // pf.bf - 1)) for d in range(pf.ndims)])
        count(f"index space shifted below zero={any(pf.dom_lo0)}")
    # the number of workers the pool stand-in assumes (multiprocessing.Pool.map sends ceil(n / (4 * workers)) tasks per
    # pickle: with few workers several tasks of one selection share their argument objects)
    core.CPool.policy['processes'] = rsh.choice([None, None, 1, 1, 2])
    count(f"workers assumed by the pool stand-in={core.CPool.policy['processes'] or 'all CPUs'}")
    keys = reader_keys(pf.fields)
    path = core.scratch_dir(f"c01_{seed}")
    gen.write_plotfile(pf, path)
    count(f"ndims={pf.ndims}")
    count(f"non-ASCII field names={'names:unicode' in pf.meta['geo']}")
    count(f"levels={pf.nlevels}")
    count(f"payload={pf.meta['payload']}")
    for lk in pf.meta['layouts']:
        count(f"layout={lk}")
    # tie between the model's encode and the bytes the implementation reads
    lvs_sx = [gen.level_to_sx(pf, lv) for lv in range(pf.nlevels)]
    for lv in range(pf.nlevels):
        files, loc = gen.level_files(pf.levels[lv])
        st, r = model.call('level_disk', lvs_sx[lv])
        mdisk = {n.decode(): c for n, c in r[0]} if st == 'ok' else None
        mloc = [(n.decode(), o) for n, o in r[1]] if st == 'ok' else None
        if mdisk != files or mloc != loc:
            out['disagreements'].append(dict(kind='encode', what='model encode_file / lv_cells differs from the independent writer',
                                             seed=seed, level=lv, correspondence='Level.lv_disk/lv_cells vs harness.gen.level_files'))
            return out
    finest = pf.nlevels - 1
    limit_arg = rng.choice([None] + list(range(pf.nlevels)))
    limit = finest if limit_arg is None else limit_arg
    pck = PlotfileCooker(path, limit_level=limit_arg)
    for k in range(14):
        fkind, fsel = gen_fsel(rng, keys)
        key = rng.choice(list(range(limit + 1)) * 3 + [limit + 1, -1, -limit - 1, -limit - 2])
        lvn = key % (limit + 1) if -(limit + 1) <= key <= limit else 0
        bkind, bsel = gen_bsel(rng, len(pf.levels[lvn].boxes))
        count(f"fsel={fkind}")
        count(f"bsel={bkind}")
        reuse = rng.random() < 0.5
        count(f"stream object reused={reuse}")
        # numpy-typed forms of the same selectors (indices coming out of np.argmax / np.flatnonzero ...): a derived
        # generator, so that the other choices of the seed stay what they were
        r2 = random.Random(seed * 131 + k)
        fsel_i, bsel_i, typed_scalar = fsel, bsel, False
        if r2.random() < 0.3:
            ity = r2.choice([np.int64, np.int32, np.int16])
            if isinstance(fsel, int):
                fsel_i, typed_scalar = ity(fsel), True
            elif isinstance(fsel, list) and fsel and isinstance(fsel[0], int):
                fsel_i = np.array(fsel, dtype=ity)
            if isinstance(bsel, int) and r2.random() < 0.5:
                bsel_i, typed_scalar = np.int64(bsel), True
            elif isinstance(bsel, list) and bsel and not isinstance(bsel[0], bool) and r2.random() < 0.5:
                bsel_i = np.array(bsel, dtype=r2.choice([np.int64, np.int32]))
            count(f"numpy-typed selector={type(fsel_i).__name__}/{getattr(fsel_i, 'dtype', '')}")

        def read():
            if not reuse:
                return canon_result(pck[fsel_i][key][bsel_i], bsel)
            # the same stream object serves two reads: a first one (one box), then the measured one
            stream = pck[fsel_i][key]
            try:
                stream[rng.randrange(len(pf.levels[lvn].boxes))]
            except Exception:
                pass
            return canon_result(stream[bsel_i], bsel)
        impl = core.outcome(read)
        st, mres = model.call('getitem', [[x.encode() for x in keys], lvs_sx[:limit + 1], enc_fsel(fsel), limit, key, enc_bsel(bsel)])
        mres = [[s, d] for s, d in mres] if st == 'ok' else None
        ires = impl[1] if impl[0] == 'ok' else None
        out['evals'] += 1
        desc = dict(seed=seed, fsel=show(fsel_i), level=key, bsel=show(bsel_i), limit_level=limit_arg, meta=pf.meta,
                    fields=keys)
        must, exp = oracle(pf, keys, fsel, key, bsel, limit)
        if typed_scalar:
            must = 'may'          # a numpy scalar where an int is meant may be refused; answered, it is that index
        nontrivial = exp is not None and len(exp) > 0
        if nontrivial:
            out['keys'].append(core.khash(seed, k))
        count('outcome=' + ('value' if ires is not None else 'raises'))
        if len(out['samples']) < 1 and nontrivial and ires is not None:
            out['samples'].append(dict(desc, result=short(ires)))
        # property oracle on the implementation
        bad = None
        if ires is not None and ires != exp:
            bad = 'returned data that is not the stored data of the selection'
        elif ires is None and must == 'must':
            bad = 'a selection the property requires to be honoured raised: ' + impl[1]
        if bad:
            out['violations'].append(dict(desc, kind='wrong-data' if ires is not None else 'refused-valid', what=bad,
                                          impl=short(ires), expected=short(exp), model=short(mres),
                                          replay='harness.props.c01.replay'))
        elif ires != mres and not (typed_scalar and ires is None):
            out['disagreements'].append(dict(desc, kind='model-vs-impl',
                                             what='implementation and Coq model (Entry.e_getitem) disagree; the property oracle holds on this input',
                                             correspondence='Reader.Level.stream_getitem / Select.norm_farg vs PlotfileCooker.__getitem__',
                                             impl=short(ires) if ires is not None else impl[1], model=short(mres)))
    return out


def run(tier, seed):
    rep = core.Report(PID, tier, seed)
    pg = core.proof_gate(PID, thorough=(tier == 'thorough'))
    for t in pg['theorems']:
        rep.obligation('theorem ' + t, pg['ok'])
    if not pg['ok']:
        rep.violations.append((dict(kind='proof', what='proof obligations of Props/C01.v no longer check',
                                    theorem=pg['theorems'], problems=pg['problems']), False))
    ncases = 40 if tier == 'quick' else 600
    cases = [seed * 100000 + i for i in range(ncases)]
    for r in core.run_cases(run_case, core.with_corpus(PID, cases)):
        rep.merge(r)
    rep.obligation('correspondence: model encode = bytes on disk (every level of every case)', not any(v[0].get('kind') == 'encode' for v in rep.violations))
    rep.obligation('correspondence: Entry.e_getitem = PlotfileCooker.__getitem__ on every generated selection',
                   not any(v[0].get('kind') == 'model-vs-impl' for v in rep.violations))
    return rep.finish(
        level_rule=("cases = generated well-formed plotfile (2D/3D, 1-4 levels, mixed box sizes, random box->file layouts and on-disk orders, "
                    "int/random/special payloads) x 14 (field selector, level, box selector) triples drawn from the proof's case split; "
                    "non-trivial = selection valid and non-empty; distinct = distinct (case seed, selector index)"),
        trusted_base=core.COMMON_TRUSTED,
        assumptions=["np.fromfile / reshape / fancy indexing behave as modelled in Bytes/BinFile.v and Reader/BoxRead.v",
                     "multiprocessing.Pool.map returns results in submission order"],
        checker_cmd=pg['checker_cmd'])
