"""C17 - chk2plt carries the checkpoint's interior state into a valid plotfile."""
import hashlib
import os
import shutil
import random
import numpy as np
from harness import core, gen, genchk, diskimg, oracle
from harness.props import taste_common as tc

PID = 'C17'


def tree_hash(path):
    h = hashlib.sha256()
    for root, dirs, files in sorted(os.walk(path)):
        dirs.sort()
        h.update(root[len(path):].encode())
        for fn in sorted(files):
            fp = os.path.join(root, fn)
            st = os.stat(fp)
            h.update(fn.encode() + str(st.st_size).encode() + str(st.st_mtime_ns).encode())
            with open(fp, 'rb') as f:
                h.update(f.read())
    return h.hexdigest()


def check_contents(oc, c, gradp, reactions, floor):
    names = genchk.expected_fields(c, gradp, reactions)
    if oc['fields'] != names:
        return f"fields {oc['fields']} instead of {names}"
    if oc['ndims'] != 3 or len(oc['levels']) != c.nlevels:
        return f"{len(oc['levels'])} levels / {oc['ndims']} dimensions instead of {c.nlevels} / 3"
    if oc['time'] != c.time:
        return f"time {oc['time']!r} instead of the checkpoint's {c.time!r}"
    if oc['geo_low'] != [float(x) for x in c.geo_low] or oc['geo_high'] != [float(x) for x in c.geo_high()]:
        return "domain bounds differ from the checkpoint's"
    exact = c.meta['geo'].startswith('exact')
    for lv in range(c.nlevels):
        lev, o = c.levels[lv], oc['levels'][lv]
        want_dx = [float(x) for x in c.dx(lv)]
        if (exact and oc['dx'][lv] != want_dx) or (not exact and not np.allclose(oc['dx'][lv], want_dx, rtol=1e-12, atol=0)):
            return f"level {lv}: cell sizes {oc['dx'][lv]} instead of {want_dx}"
        if list(oc['grid'][lv]) != [s - 1 for s in c.grid_size(lv)]:
            return f"level {lv}: grid size differs"
        if o['boxes'] != lev['boxes']:
            return f"level {lv}: boxes differ from the checkpoint's"
        for b, ((lo, hi), data, bnd, mn, mx) in enumerate(zip(o['boxes'], o['data'], o['bounds'], o['mins'], o['maxs'])):
            want = genchk.expected_box(c, lv, b, gradp, reactions, floor)
            if data.shape != want.shape:
                return f"level {lv} box {lo}-{hi}: shape {data.shape} instead of {want.shape}"
            if data.tobytes(order='F') != np.asarray(want, dtype='<f8').tobytes(order='F'):
                k = int(np.argmax([(data[..., q] != want[..., q]).any() for q in range(want.shape[-1])]))
                return (f"level {lv} box {lo}-{hi}: component {k} ({names[k]}) is not the checkpoint's interior data"
                        f"{' rescaled to unit sum' if floor else ''}")
            wb = [(c.geo_low[d] + lo[d] * c.dx(lv)[d], c.geo_low[d] + (hi[d] + 1) * c.dx(lv)[d]) for d in range(3)]
            for (a, z), (wa, wz) in zip(bnd, wb):
                tol = 0 if exact else 1e-9 * max(1.0, abs(wa), abs(wz))
                if abs(a - wa) > tol or abs(z - wz) > tol:
                    return f"level {lv} box {lo}-{hi}: physical bounds {bnd} instead of {wb}"
            for k in range(data.shape[-1]):
                if float(mn[k]) != float('%.16e' % np.min(data[..., k])) or float(mx[k]) != float('%.16e' % np.max(data[..., k])):
                    return f"level {lv} box {lo}-{hi} component {k}: header min/max are not the extrema of the written data"
    return None


def run_big(seed):
    return run_case(seed, big=True)


def run_case(seed, big=False):
    from amr_kitchen.chk2plt import chk2plt
    rng = random.Random(seed)
    model = core.W['model']
    out = dict(evals=0, keys=[], dist={}, samples=[], violations=[], disagreements=[])
    dist = out['dist']

    def count(k):
        dist[k] = dist.get(k, 0) + 1

    c = genchk.gen_checkpoint(rng, big=big)
    if big:
        count('case=state FAB above 4 MiB (32x32x24 cells, 3 ghost cells, 9 species)')
    root = core.scratch_dir(f"c17_{seed}")
    os.makedirs(root)
    chkdir = os.path.join(root, 'chk00005')
    genchk.write_checkpoint(c, chkdir)
    count(f"levels={c.nlevels}")
    count(f"nghost={c.nghost}")
    count(f"geo={c.meta['geo']}")
    count(f"int_line={c.int_line}")
    count(f"nspecies={len(c.species)}")
    count(f"boxes with negative mass-fraction undershoots={c.meta.get('undershoot_boxes', 0) > 0}")
    count(f"time spelled without a decimal point={'.' not in repr(float(c.time))}")
    count(f"time is a whole number={float(c.time) % 1 == 0}")
    d = checkpoint_header_compare(model, chkdir)
    if d:
        out['disagreements'].append(dict(seed=seed, meta=c.meta, kind='model-vs-impl-chk-header', what=d,
                                         correspondence='Writers.ChkHeader.p_chk vs CheckpointReader.__init__'))
    # a reference plotfile that only provides the species names
    refdir = None
    for k in range(2):
        gradp = rng.random() < 0.6
        reactions = rng.random() < 0.5
        floor = rng.random() < 0.5 or (big and k == 0)
        src = rng.choice(['list', 'reference'])
        count(f"gradp={gradp}")
        count(f"reactions={reactions}")
        count(f"floor={floor}")
        count(f"species_from={src}")
        if src == 'reference' and refdir is None:
            pf = gen.gen_plotfile(rng, ndims=3, nlevels=1, max_blocks=1, payload='ints')
            # the species names come from the Y(...) fields or, without any, from the I_R(...) fields
            pre = rng.choice(['Y', 'Y', 'I_R'])
            count(f"reference species fields={pre}")
            pf.fields = ['density'] + [f'{pre}({s})' for s in c.species] + ['temp']
            for lev in pf.levels:
                lev.data = [gen.gen_payload(rng, tuple(h - l + 1 for l, h in zip(lo, hi)) + (len(pf.fields),), 'ints')
                            for lo, hi in lev.boxes]
            refdir = os.path.join(root, 'plt_ref')
            gen.write_plotfile(pf, refdir)
        outp = os.path.join(root, f'converted{k}')
        # the default output (beside the checkpoint, 'chk' -> 'plt' in its name), the checkpoint spelled with trailing separators
        r2 = random.Random(seed * 173 + k)
        default_out = r2.random() < 0.3
        chk_arg = chkdir + (r2.choice(['', '/', '//']) if default_out else '')
        if default_out:
            outp = os.path.join(root, 'plt00005')
            shutil.rmtree(outp, ignore_errors=True)
            count(f"default output, checkpoint spelled with {len(chk_arg) - len(chkdir)} trailing separator(s)")
        before = tree_hash(chkdir)
        desc = dict(seed=seed, gradp=gradp, species_reactions=reactions, floor_massfracs=floor, species_from=src,
                    species=c.species, meta=c.meta)
        core.set_policy(rng.choice(['identity', 'reverse', 'random']), seed + k)
        res = core.outcome(lambda: chk2plt(chk_arg, target_plotfile=refdir if src == 'reference' else None,
                                           species=list(c.species) if src == 'list' else [],
                                           gradp=gradp, species_reactions=reactions, floor_massfracs=floor,
                                           pltdir=None if default_out else outp) and None)
        core.set_policy('identity', 0)
        out['evals'] += 1
        out['keys'].append(core.khash(seed, k))
        bad = None
        iimg = None
        if tree_hash(chkdir) != before:
            bad = 'the conversion modified the checkpoint directory'
        elif res[0] == 'ok' and default_out and not os.path.isdir(outp):
            bad = f"nothing was written at the default output {outp} (checkpoint given as {chk_arg!r})"
        elif res[0] != 'ok':
            bad = 'converting a well-formed checkpoint raised: ' + res[1]
        else:
            iimg = oracle.read_image(outp)
            try:
                oc = oracle.contents_of_image(iimg)
                bad = check_contents(oc, c, gradp, reactions, floor)
            except (ValueError, IndexError, KeyError) as e:
                bad = f'output is not a well-formed plotfile: {e}'
            if not bad:
                v, detail = tc.impl_taste(outp, None, (True, True, False, True), True)
                if v != 'good':
                    bad = f'validation (with box coordinates) does not accept the output: {v} {detail}'
        if bad:
            out['violations'].append(dict(desc, kind='wrong-output', what=bad))
            continue
        if not out['samples']:
            out['samples'].append(dict(desc, output_fields=genchk.expected_fields(c, gradp, reactions)))
        d = None if big else model_compare(model, c, gradp, reactions, floor, iimg, chkdir)
        count(f"whole conversion compared with Chk2pltTool.chk2plt_tool in one call={TOOL_CALLS[0] > 0}")
        count(f"specification side (pf_disk (conv_pf c), goodb) compared={SPEC_CALLS[0] > 0}")
        if d:
            out['disagreements'].append(dict(desc, kind='model-vs-impl', what=d,
                                             correspondence='Writers.Chk2plt.convert_level vs chk2plt.convert'))
        d = written_header_compare(model, c, chkdir, gradp, reactions, iimg)
        if d:
            out['disagreements'].append(dict(desc, kind='model-vs-impl-header', what=d,
                                             correspondence='Writers.ChkHeader.write_global_header vs Chk2plt.write_global_header'))
    return out


def _float_or_none(t):
    try:
        return float(t)
    except ValueError:
        return None


def float_tables(tokens):
    """the floating-point parameters of the header model, as tables computed by Python: the tokens whose value is whole,
    (token, int(value)) and (token, printed value)"""
    wholes, toints, frepr = [], [], []
    for t in sorted({t for line in tokens for t in line}):
        v = _float_or_none(t.decode('latin1'))
        if v is None:
            continue
        frepr.append([t, repr(v).encode()])
        if v == v and abs(v) != float('inf') and v % 1 == 0:
            wholes.append(t)
            toints.append([t, int(v)])
    return wholes, toints, frepr


def checkpoint_header_compare(model, chkdir):
    """Writers.ChkHeader.p_chk (as repaired) against CheckpointReader on the checkpoint's Header"""
    from amr_kitchen.chk2plt.checkpoint_reader import CheckpointReader
    toks = oracle.read_tokens(os.path.join(chkdir, 'Header'))
    wholes, toints, _ = float_tables(toks)
    st, m = model.call('chk_header', [toks, wholes, toints, 0])
    impl = core.outcome(lambda: CheckpointReader(chkdir))
    if (st == 'ok') != (impl[0] == 'ok'):
        return f"the model {'reads' if st == 'ok' else 'refuses'} the checkpoint Header, CheckpointReader {'reads it' if impl[0] == 'ok' else 'raises ' + str(impl[1])}"
    if st != 'ok':
        return None
    ver, maxlv, step, il, tm, dt1, dt2, lo, hi, boxes, tail = m
    cr = impl[1]
    mine = dict(max_level=maxlv, step=step, time=float(tm), lo=[float(x) for x in lo], hi=[float(x) for x in hi],
                boxes=[[[list(a), list(b)] for a, b in lev] for lev in boxes], pressure=float(tail[0]),
                typvals=[float(x) for x in tail[2]])
    theirs = dict(max_level=int(cr.max_level), step=int(cr.step_number), time=float(cr.time), lo=[float(x) for x in cr.geo_lo],
                  hi=[float(x) for x in cr.geo_hi],
                  boxes=[[[[int(x) for x in b[0]], [int(x) for x in b[1]]] for b in lev['indices']] for lev in cr.boxes],
                  pressure=float(cr.pressure), typvals=[float(x) for x in cr.typvals])
    for k in mine:
        if mine[k] != theirs[k]:
            return f"checkpoint Header, {k}: model {str(mine[k])[:120]} vs CheckpointReader {str(theirs[k])[:120]}"
    return None


def written_header_compare(model, c, chkdir, gradp, reactions, iimg):
    """Writers.ChkHeader.write_global_header (on the parsed checkpoint header, with the printed floats of an independent
    calculation: cell size = extent / cells, box bounds = low + index x cell size) against the Header chk2plt wrote:
    every token equal, floating-point tokens equal up to rounding"""
    toks = oracle.read_tokens(os.path.join(chkdir, 'Header'))
    wholes, toints, frepr = float_tables(toks)
    ns = len(c.species)
    lo, hi, dxrows, bnds = header_oracles(c, toks)
    st, m = model.call('chk_written', [toks, wholes, toints, [s_.encode() for s_ in c.species], 1 if gradp else 0, 1 if reactions else 0,
                                       [4 + ns + 3, 3, ns], frepr, dxrows, bnds])
    if st != 'ok':
        return 'the model of the written Header refuses the checkpoint header'
    return header_diff(m, iimg['header'], lo, hi)


def header_oracles(c, toks):
    """printed floats of an independent calculation: cell size = extent / cells, box bounds = low + index x cell size"""
    k = 3 + (1 if c.int_line else 0)
    lo = np.array([float(t) for t in toks[k + 3]])
    hi = np.array([float(t) for t in toks[k + 4]])
    g0 = np.max(np.array([b[1] for b in c.levels[0]['boxes']]), axis=0) + 1
    dxrows, bnds = [], []
    for lv in range(c.nlevels):
        dx = (hi - lo) / (g0 * 2 ** lv)
        dxrows.append([repr(float(x)).encode() for x in dx])
        bnds.append([[[repr(float(lo[d] + b0[d] * dx[d])).encode(), repr(float(lo[d] + (b1[d] + 1) * dx[d])).encode()] for d in range(3)]
                     for b0, b1 in c.levels[lv]['boxes']])
    return lo, hi, dxrows, bnds


def header_diff(m, got, lo, hi):
    if len(m) != len(got):
        return f"written Header: {len(got)} lines, the model writes {len(m)}"
    scale = float(np.max(np.abs(np.concatenate([lo, hi])))) or 1.0
    for ln, (a, b) in enumerate(zip(m, got)):
        if len(a) != len(b):
            return f"written Header line {ln}: {b} vs model {a}"
        for x, y in zip(a, b):
            if x == y:
                continue
            fx, fy = _float_or_none(x.decode('latin1')), _float_or_none(y.decode('latin1'))
            if fx is None or fy is None or b'.' not in y and b'e' not in y or abs(fx - fy) > 1e-12 * scale:
                return f"written Header line {ln}: {b} vs model {a}"
    return None


def spec_compare(model, c, chkdir, gradp, reactions, floor, tool_result):
    """theorem C17_tool / C17_tool_output_good on this case: the abstract checkpoint (header record, ghosted state levels with
    their layout, per box the components the ORACLE says the converted box holds) -> its directory must be the checkpoint on
    disk, pf_disk (conv_pf c) must be the tool model's output, and conv_pf c must be good"""
    toks = oracle.read_tokens(os.path.join(chkdir, 'Header'))
    wholes, toints, frepr = float_tables(toks)
    lo, hi, dxrows, bnds = header_oracles(c, toks)
    levels = []
    disk = []
    for lv in range(c.nlevels):
        lev = c.levels[lv]
        fabs = []
        for b, (blo, bhi) in enumerate(lev['boxes']):
            flo, fhi = genchk.fab_index_range(c, 'state', blo, bhi)
            arr = lev['data']['state'][b]
            fabs.append([list(flo), list(fhi), arr.shape[-1], np.asarray(arr, dtype='<f8').tobytes(order='F')])
        files = [[name.encode(), list(members)] for name, members in lev['files']['state']]
        subs = {}
        for sub in ('state', 'gradp', 'I_R'):
            f_, loc = genchk.level_subset_files(c, lv, sub)
            subs[sub] = ([[n.encode(), content] for n, content in f_.items()], [[n.encode(), off] for n, off in loc])
        comps = []
        for b in range(len(lev['boxes'])):
            want = genchk.expected_box(c, lv, b, gradp, reactions, floor)
            comps.append([np.asarray(want[..., k], dtype='<f8').tobytes(order='F') for k in range(want.shape[-1])])
        levels.append([[fabs, files], subs['gradp'][0], subs['gradp'][1], subs['I_R'][0], subs['I_R'][1], comps])
        disk.append(subs['state'])
    st, m = model.call('chk2plt_spec', [toks, wholes, toints, frepr, dxrows, bnds, [s_.encode() for s_ in c.species],
                                        1 if gradp else 0, 1 if reactions else 0, levels])
    if st != 'ok':
        return 'the specification entry refuses the abstract checkpoint'
    printed, sdisk, spec_pd, good = m
    if [list(l) for l in printed] != [list(l) for l in toks]:
        return 'print_chk of the parsed checkpoint header is not the Header on disk'
    for lv, ((sfiles, scells), (gfiles, gcells)) in enumerate(zip(sdisk, disk)):
        if sorted((bytes(n), bytes(x)) for n, x in sfiles) != sorted((bytes(n), bytes(x)) for n, x in gfiles) or \
                [(bytes(n), o) for n, o in scells] != [(bytes(n), o) for n, o in gcells]:
            return f'level {lv}: the directory of the abstract state level (Level.lv_disk / lv_cells) is not the state subset on disk'
    if spec_pd != tool_result:
        sh, sd = spec_pd
        th, td = tool_result
        where = 'Header' if sh != th else next((n for (n, _, _), (n2, a2, b2) in zip(sd, td) if True), '?')
        for (n, ch, fl), (n2, ch2, fl2) in zip(sd, td):
            if (n, ch, fl) != (n2, ch2, fl2):
                where = n.decode() + (' level header' if ch != ch2 else ' binary files')
                break
        return f'theorem C17_tool instance: pf_disk (conv_pf c) differs from chk2plt_tool (achk_disk c) in {where}'
    if good != 1:
        return 'conv_pf c is not good (goodb = false): the instance of C17_tool_output_good is not covered'
    return None


TOOL_CALLS = [0]
SPEC_CALLS = [0]


def model_compare(model, c, gradp, reactions, floor, iimg, chkdir=None):
    """binary files and (file, offset) tables of every level against the model"""
    if not MODEL:
        return None
    ns = len(c.species)
    reqs = []
    for lv in range(c.nlevels):
        lev = c.levels[lv]
        subs = {}
        for sub in ('state', 'gradp', 'I_R'):
            files, loc = genchk.level_subset_files(c, lv, sub)
            subs[sub] = ([[n.encode(), content] for n, content in files.items()],
                         [[n.encode(), off] for n, off in loc])
        floored = []
        if floor:
            for b in range(len(lev['boxes'])):
                want = genchk.expected_box(c, lv, b, False, False, True)
                floored.append([np.asarray(want[..., 4 + s], dtype='<f8').tobytes(order='F') for s in range(ns)])
        boxes = [[list(lo), list(hi)] for lo, hi in lev['boxes']]
        small = sum(len(c) for _, c in subs['state'][0]) <= 250000
        reqs.append((subs, floored, boxes, small))
    if chkdir is not None and all(r[3] for r in reqs):
        # every level is small enough for the list-based model: the WHOLE conversion in one call (theorem C17_tool)
        toks = oracle.read_tokens(os.path.join(chkdir, 'Header'))
        wholes, toints, frepr = float_tables(toks)
        lo, hi, dxrows, bnds = header_oracles(c, toks)
        st, m = model.call('chk2plt_tool', [toks, wholes, toints, frepr, dxrows, bnds, [s_.encode() for s_ in c.species],
                                            1 if gradp else 0, 1 if reactions else 0,
                                            [([fl] if floor else []) for _, fl, _, _ in reqs], 4, ns, [4 + ns + 3, 3, ns],
                                            [[subs['state'][0], subs['state'][1], subs['gradp'][0], subs['gradp'][1], subs['I_R'][0], subs['I_R'][1]]
                                             for subs, _, _, _ in reqs]])
        if st != 'ok':
            return 'the model of the whole conversion (Chk2pltTool.chk2plt_tool) refuses the checkpoint'
        mheader, mdirs = m
        d = header_diff(mheader[0], iimg['header'], lo, hi) if mheader else 'the model writes no Header'
        if d:
            return d
        if [n.decode() for n, _, _ in mdirs] != [f'Level_{lv}' for lv in range(c.nlevels)] or sorted(iimg['dirs']) != sorted(f'Level_{lv}' for lv in range(c.nlevels)):
            return f"level directories {sorted(iimg['dirs'])} vs model {[n.decode() for n, _, _ in mdirs]}"
        results = [(lv, mdirs[lv][1], mdirs[lv][2]) for lv in range(c.nlevels)]
        TOOL_CALLS[0] += 1
        d = spec_compare(model, c, chkdir, gradp, reactions, floor, m)
        SPEC_CALLS[0] += 1
        if d:
            return d
    else:
        results = []
        for lv, (subs, floored, boxes, small) in enumerate(reqs):
            if not small:
                continue      # the list-based model is quadratic in the file size: large levels are checked by the oracle only
            nout = len(genchk.expected_fields(c, gradp, reactions))
            st, m = model.call('chk2plt_level_dir', [nout, boxes, subs['state'][0], subs['state'][1], subs['gradp'][0], subs['gradp'][1],
                                                 subs['I_R'][0], subs['I_R'][1], 1 if gradp else 0, 1 if reactions else 0,
                                                 [floored] if floor else [], 4, ns])
            if st != 'ok':
                return f'level {lv}: the model refuses the case'
            results.append((lv, m[0], m[1]))
    for lv, mcellh, mfiles in results:
        d = iimg['dirs'][f'Level_{lv}']
        # the level header chk2plt wrote, token for token (floats by value: '%.16e' prints against the model's stand-ins)
        if not mcellh or oracle.canon_tokens(d['cellh']) != oracle.canon_tokens(mcellh[0]):
            mt = oracle.canon_tokens(mcellh[0]) if mcellh else []
            it = oracle.canon_tokens(d['cellh'])
            k = next((i for i, (a, b) in enumerate(zip(it, mt)) if a != b), min(len(it), len(mt)))
            return (f"level {lv}: the level header differs from the model's (Writers.Chk2plt.convert_level_dir) at line {k}: "
                    f"{it[k] if k < len(it) else None} vs {mt[k] if k < len(mt) else None}")
        got_files = {k: v for k, v in d['files'].items()}
        want_files = {n.decode(): content for n, content in mfiles}
        if sorted(got_files) != sorted(want_files):
            return f"level {lv}: binary files {sorted(got_files)} vs model {sorted(want_files)}"
        for n in got_files:
            if got_files[n] != want_files[n]:
                return f"level {lv}: {n} differs from the model ({len(got_files[n])} vs {len(want_files[n])} bytes)"
    return None


MODEL = True


def two_dirs_chk2plt(seed):
    return core.two_dirs_case(PID, 'chk2plt', seed)


def run(tier, seed):
    rep = core.Report(PID, tier, seed)
    pg = core.proof_gate(PID, thorough=(tier == 'thorough'))
    for t in pg['theorems']:
        rep.obligation('theorem ' + t, pg['ok'])
    if not pg['ok']:
        rep.violations.append((dict(kind='proof', what='proof obligations of Props/C17.v no longer check',
                                    theorem=pg['theorems'], problems=pg['problems']), False))
    ncases = 40 if tier == 'quick' else 500
    cases = [seed * 100000 + 17000 + i for i in range(ncases)]
    for r in core.run_cases(run_case, core.with_corpus(PID, cases)):
        rep.merge(r)
    for r in core.run_cases(run_big, [seed * 100000 + 17900 + i for i in range(1 if tier == 'quick' else 4)]):
        rep.merge(r)
    for r in core.run_cases(two_dirs_chk2plt, [seed * 100000 + 99000 + i for i in range(1 if tier == 'quick' else 5)]):
        rep.merge(r)
    rep.obligation('correspondence: Writers.Chk2plt.convert_level (binary files byte for byte, (file, offset) table) = output of chk2plt',
                   not any(v[0].get('kind') == 'model-vs-impl' for v in rep.violations))
    rep.obligation('correspondence: Writers.ChkHeader.p_chk = CheckpointReader.__init__ on the checkpoint Header (levels, step, time, geometry, '
                   'boxes, pressure, typical values; with and without the integer line; whole-number times included)',
                   not any(v[0].get('kind') == 'model-vs-impl-chk-header' for v in rep.violations))
    rep.obligation('correspondence: Chk2pltTool.chk2plt_tool (the whole conversion in one call: Header + every level directory) = the directory chk2plt '
                   'wrote, on every checkpoint whose levels are small enough for the list-based model',
                   not any(v[0].get('kind') in ('model-vs-impl', 'model-vs-impl-header') for v in rep.violations))
    rep.obligation("theorem instances C17_tool / C17_tool_output_good: pf_disk (conv_pf c) = chk2plt_tool (achk_disk c), achk_disk c = the checkpoint "
                   "on disk, goodb (conv_pf c) = true, with the oracle's expected boxes as the components of the converted boxes",
                   not any(v[0].get('kind') == 'model-vs-impl' and 'C17_tool' in str(v[0].get('what')) or 'abstract' in str(v[0].get('what'))
                           for v in rep.violations))
    rep.obligation('correspondence: Writers.ChkHeader.write_global_header = the Header chk2plt writes (every token; floating-point tokens up to rounding)',
                   not any(v[0].get('kind') == 'model-vs-impl-header' for v in rep.violations))
    return rep.finish(
        level_rule=("cases = synthetic checkpoint (1-3 levels, mixed boxes, 1-4 species, 1-3 ghost cells, anisotropic / shifted dyadic and "
                    "decimal domains, optional integer line in the header, times with and without a decimal point and whole-number "
                    "times, boxes with negative mass-fraction undershoots, independent random file layouts for each of the five data "
                    "subsets) x 2 (gradp, species_reactions, floor_massfracs flags; species from a list or a reference plotfile); output "
                    "parsed by the independent reader: fields, levels, boxes, time, geometry, interior values bit for bit (rescaled mass "
                    "fractions computed by the same numpy expression), min/max, taste with box coordinates; checkpoint tree hashed "
                    "before and after"),
        trusted_base=core.COMMON_TRUSTED + [
            "floating-point division of the flooring step is numpy's; the model takes the rescaled species components as a table",
            "header model (Writers/ChkHeader.v): floating point enters as parameters - whole (float(t) % 1 == 0, used for the optional "
            "coordinate-system line), to_int, frepr (Python's printing of a parsed float), the printed cell sizes and box bounds; the "
            "correspondence instantiates them with tables computed by Python / numpy (cell size = extent / cells, bounds = low + index x "
            "cell size) and compares floating-point tokens of the written Header up to 1e-12 of the domain scale",
            "lines are token lists: a Header line starting with blanks is not distinguished from one that does not",
            "when the coordinate-system line is absent the first typical value must not be a whole number (the reader tells the two "
            "layouts apart by value % 1 == 0 there: hypothesis wf_tail of C17_checkpoint_header)"],
        assumptions=["float(repr(x)) == x"],
        checker_cmd=pg['checker_cmd'])


def replay(doc):
    core.worker_init(core.REPO, quiet=False)
    r = run_case(doc['seed'], big='big' in str(doc.get('meta', {}).get('case', '')))
    bad = r['violations'] + r['disagreements']
    for v in bad:
        print('REPLAY:', v.get('what'))
    return 1 if bad else 0
