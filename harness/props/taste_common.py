"""Shared by C03 / C04 / C20: running the implementation's validator and the
model's on a directory image."""
import re
import numpy as np
from harness import core, diskimg

OPT_NAMES = ('binary_headers', 'binary_shape', 'binary_data', 'boxes_coordinates')


def impl_taste(path, limit, opts, nofail, verbose=0):
    """-> ('good' | 'bad' | 'raised', detail)"""
    from amr_kitchen.taste.taste import Taster
    import contextlib
    import io
    kw = dict(zip(OPT_NAMES, opts))
    try:
        with contextlib.redirect_stdout(io.StringIO()):
            t = Taster(path, limit_level=limit, nofail=nofail, verbose=verbose, **kw)
        return ('good' if bool(t) else 'bad', '')
    except BaseException as e:
        if isinstance(e, KeyboardInterrupt):
            raise
        return ('raised', type(e).__name__ + ': ' + str(e)[:160])


def model_taste(model, img_sx, limit, opts):
    from harness.sx import opt
    st, r = model.call('taste', [[1 if o else 0 for o in opts], opt(limit), img_sx])
    assert st == 'ok'
    return bool(r)


def model_taste_all(model, img_sx, limit, close=()):
    """verdicts indexed by k = headers + 2*shape + 4*data; [close] = the
    (token, word) pairs np.isclose accepts (oracle of the binary-data check)"""
    from harness.sx import opt
    st, r = model.call('taste_all', [opt(limit), img_sx, [[t, w] for t, w in close]])
    assert st == 'ok'
    return [bool(x) for x in r]


def close_table(img):
    """Oracle of the model's binary-data check: every pair (table token, word)
    with np.isclose(float(token), value of word), for the tokens of each level
    header's min/max tables and the NaN-ignoring extrema of every component of
    every FAB (lenient scan) of the same level.  Computed by numpy, per level."""
    import struct
    import warnings
    pairs = set()
    for name, d in img['dirs'].items():
        if d['cellh'] is None:
            continue
        toks = set()
        seen_fod = False
        for line in d['cellh']:
            if line and line[0] == b'FabOnDisk:':
                seen_fod = True
                continue
            if seen_fod:
                for t in b' '.join(line).split(b','):
                    t = t.strip()
                    if t:
                        toks.add(t)
        vals = {}
        for t in toks:
            try:
                vals[t] = float(t)
            except ValueError:
                pass
        words = set()
        for content in d['files'].values():
            for lo, hi, nc, data in lenient_fabs(content):
                cells = int(np.prod([h - l + 1 for l, h in zip(lo, hi)]))
                if cells <= 0 or len(data) < 8 * cells * nc:
                    continue
                a = np.frombuffer(data, dtype='<f8', count=cells * nc).reshape((cells, nc), order='F')
                with warnings.catch_warnings():
                    warnings.simplefilter('ignore')
                    for c in range(nc):
                        col = a[:, c]
                        if np.all(np.isnan(col)):
                            continue
                        for v in (np.nanmin(col), np.nanmax(col)):
                            words.add(struct.pack('<d', float(v)))
                            if v == 0:
                                words.add(struct.pack('<d', 0.0))
                                words.add(struct.pack('<d', -0.0))
        for t, x in vals.items():
            for w in words:
                with warnings.catch_warnings():
                    warnings.simplefilter('ignore')
                    if bool(np.isclose(x, struct.unpack('<d', w)[0])):
                        pairs.add((t, w))
    return sorted(pairs)


LENIENT = re.compile(rb'\(\((-?\d+(?:,-?\d+)*)\)\s+\((-?\d+(?:,-?\d+)*)\)\s+\((-?\d+(?:,-?\d+)*)\)\)\s+(\d+)\s*\n$')


def lenient_fabs(content):
    """sequential walk accepting any header line whose tail names an index
    range and a component count: list of (lo, hi, nc, data bytes)"""
    pos = 0
    out = []
    while pos < len(content):
        e = content.find(b'\n', pos)
        if e < 0:
            break
        m = LENIENT.search(content[pos:e + 1])
        if not m:
            break
        lo = tuple(int(x) for x in m.group(1).split(b','))
        hi = tuple(int(x) for x in m.group(2).split(b','))
        nc = int(m.group(4))
        if len(lo) != len(hi):
            break
        size = 8 * nc * int(np.prod([h - l + 1 for l, h in zip(lo, hi)]))
        if size < 0:
            break
        out.append((lo, hi, nc, content[e + 1:e + 1 + size]))
        pos = e + 1 + size
    return out
