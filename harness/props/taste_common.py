"""Shared by C03 / C04 / C20: running the implementation's validator and the
model's on a directory image."""
import re
import numpy as np
from harness import core, diskimg

OPT_NAMES = ('binary_headers', 'binary_shape', 'binary_data', 'boxes_coordinates')


def impl_taste(path, limit, opts, nofail):
    """-> ('good' | 'bad' | 'raised', detail)"""
    from amr_kitchen.taste.taste import Taster
    kw = dict(zip(OPT_NAMES, opts))
    try:
        t = Taster(path, limit_level=limit, nofail=nofail, verbose=0, **kw)
        return ('good' if bool(t) else 'bad', '')
    except BaseException as e:
        if isinstance(e, KeyboardInterrupt):
            raise
        return ('raised', type(e).__name__ + ': ' + str(e)[:160])


def model_taste(model, img_sx, limit, opts):
    from harness.sx import opt
    st, r = model.call('taste', [[1 if o else 0 for o in opts], opt(limit), img_sx])
    assert st == 'ok'
    return bool(r)


def model_taste_all(model, img_sx, limit):
    """verdicts indexed by k = headers + 2*shape + 4*data"""
    from harness.sx import opt
    st, r = model.call('taste_all', [opt(limit), img_sx])
    assert st == 'ok'
    return [bool(x) for x in r]


LENIENT = re.compile(rb'\(\((-?\d+(?:,-?\d+)*)\)\s+\((-?\d+(?:,-?\d+)*)\)\s+\((-?\d+(?:,-?\d+)*)\)\)\s+(\d+)\s*\n$')


def lenient_fabs(content):
    """sequential walk accepting any header line whose tail names an index
    range and a component count: list of (lo, hi, nc, data bytes)"""
    pos = 0
    out = []
    while pos < len(content):
        e = content.find(b'\n', pos)
        if e < 0:
            break
        m = LENIENT.search(content[pos:e + 1])
        if not m:
            break
        lo = tuple(int(x) for x in m.group(1).split(b','))
        hi = tuple(int(x) for x in m.group(2).split(b','))
        nc = int(m.group(4))
        if len(lo) != len(hi):
            break
        size = 8 * nc * int(np.prod([h - l + 1 for l, h in zip(lo, hi)]))
        if size < 0:
            break
        out.append((lo, hi, nc, content[e + 1:e + 1 + size]))
        pos = e + 1 + size
    return out
