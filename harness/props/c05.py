"""C05 - colander output holds exactly the kept fields and levels, bit for bit."""
import random
import numpy as np
from harness import core, gen, diskimg, oracle
from harness.sx import opt
from harness.props import c01, c02
from harness.props import taste_common as tc

PID = 'C05'


def gen_vars(rng, keys):
    kind = rng.choice(['all', 'subset', 'subset', 'perm', 'repeat', 'unknown_mixed', 'single', 'only_unknown'])
    if kind == 'all':
        return kind, ['all']
    if kind == 'single':
        return kind, [rng.choice(keys)]
    if kind == 'subset':
        k = rng.randint(1, len(keys))
        return kind, sorted(rng.sample(keys, k), key=keys.index)
    if kind == 'perm':
        k = rng.randint(1, len(keys))
        return kind, rng.sample(keys, k)
    if kind == 'repeat':
        v = [rng.choice(keys) for _ in range(rng.randint(2, 4))]
        return kind, v
    if kind == 'unknown_mixed':
        v = rng.sample(keys, rng.randint(1, len(keys))) + ['nope', 'all'][:rng.randint(1, 2)]
        rng.shuffle(v)
        return kind, v
    return kind, ['nope']


def glob_like_unknowns(r2, keys, variables):
    """replaces the unknown name 'nope' by names that are NOT fields but look like shell patterns of fields
    (a name is a field or it is not: 'Y(OH*)', 'te?p', '*' select nothing)"""
    out = []
    for v in variables:
        if v == 'nope' and r2.random() < 0.6:
            k = r2.choice(keys)
            i = r2.randrange(len(k))
            cand = r2.choice([k[:i] + '*', k[:i] + '?' + k[i + 1:], k[:i] + '[' + k[i] + ']' + k[i + 1:], '*', '?' * len(k),
                              k[:max(1, len(k) // 2)] + '*'])
            v = cand if cand not in keys and cand != 'all' else 'nope'
        out.append(v)
    return out


def expected_contents(pf, keys, variables, limit):
    if variables == ['all']:
        kept = list(range(len(keys)))
        names = list(keys)
    else:
        kept = [keys.index(v) for v in variables if v in keys]
        names = [v for v in variables if v in keys]
    return kept, names


def check_contents(out_c, pf, keys, kept, names, limit):
    """property oracle on the parsed output; -> None or what is wrong"""
    if out_c['fields'] != names:
        return f"fields {out_c['fields']} instead of {names}"
    if len(out_c['levels']) != limit + 1:
        return f"{len(out_c['levels'])} levels instead of {limit + 1}"
    if out_c['ndims'] != pf.ndims or out_c['time'] != pf.time or out_c['geo_low'] != [float(x) for x in pf.geo_low] \
            or out_c['geo_high'] != [float(x) for x in pf.geo_high()]:
        return "time / dimensionality / domain bounds differ from the input"
    for lv in range(limit + 1):
        lev = pf.levels[lv]
        o = out_c['levels'][lv]
        if out_c['dx'][lv] != [float(x) for x in pf.dx(lv)] or list(out_c['grid'][lv]) != [s - 1 for s in pf.grid_size(lv)]:
            return f"level {lv}: cell sizes / grid sizes differ"
        if sorted(o['boxes']) != sorted(lev.boxes):
            return f"level {lv}: boxes differ from the input's"
        for (lo, hi), data, bnd, mn, mx in zip(o['boxes'], o['data'], o['bounds'], o['mins'], o['maxs']):
            b = lev.boxes.index((lo, hi))
            want = lev.data[b][..., kept]
            if data.shape != want.shape or data.tobytes(order='F') != np.asarray(want, dtype='<f8').tobytes(order='F'):
                return f"level {lv} box {lo}-{hi}: kept field values are not bit-identical to the input box"
            if bnd != [(float(a), float(c)) for a, c in gen.box_bounds(pf, lv, lo, hi)]:
                return f"level {lv} box {lo}-{hi}: physical bounds differ"
            wmin = [gen.minmax_token(np.min(lev.data[b][..., c])).encode() for c in kept]
            wmax = [gen.minmax_token(np.max(lev.data[b][..., c])).encode() for c in kept]
            if mn != wmin or mx != wmax:
                return f"level {lv} box {lo}-{hi}: min/max rows are not the input rows restricted to the kept fields"
    return None


def run_case(seed):
    from amr_kitchen.colander.colander import Colander
    rng = random.Random(seed)
    model = core.W['model']
    out = dict(evals=0, keys=[], dist={}, samples=[], violations=[], disagreements=[])
    dist = out['dist']

    def count(k):
        dist[k] = dist.get(k, 0) + 1

    pf = gen.gen_plotfile(rng, max_blocks=2, payload=rng.choice(['ints', 'random', 'special']), unicode_names=0.2,
                          nfields=rng.choice([(1, 9), (1, 9), (10, 13)]))   # 10+ fields: the count changes its number of digits
    r3 = random.Random(seed * 523 + 7)
    if r3.random() < 0.3:
        # a field name with a blank or a comma in it (one argv word on the command line)
        nm = r3.choice(['mixture fraction', 'D(H2,N2)', 'progress variable', 'a, b'])
        if nm not in pf.fields:
            pf.fields[r3.randrange(len(pf.fields))] = nm
    rq = random.Random(seed * 6131 + 7)
    if pf.nlevels >= 2 and rq.random() < 0.2:
        # refinement ratios other than 2 / differing between levels (colander copies the mesh)
        pf.ratios = (rq.choice([[4], [2, 4], [4, 2], [4, 4]]) + [2, 4])[:pf.nlevels - 1]
        pf.meta['ratios'] = list(pf.ratios)
    count(f"refinement ratios={pf.meta.get('ratios', 'all 2')}")
    keys = c01.reader_keys(pf.fields)
    img = diskimg.image_of(pf)
    path = core.scratch_dir(f"c05_{seed}")
    diskimg.write_image(img, path)
    rl = random.Random(seed * 389 + 1)
    if rl.random() < 0.25:
        # level directories / binary files of the input that are symbolic links to differently named targets
        pf.meta['symlinks'] = gen.symlink_parts(path, core.scratch_dir(f"c05_{seed}_store"), rl)
    count(f"symbolic links inside the input={'symlinks' in pf.meta}")
    img_sx = diskimg.image_sx(img)
    # the abstract plotfile of the theorems (C05_tool quantifies over these)
    pf_sx = [c02.gheader_sx(pf),
             [[c02.lvboxes_sx(pf, lv), gen.level_to_sx(pf, lv), c02.cellh_sx(pf, lv)[3], c02.cellh_sx(pf, lv)[4]]
              for lv in range(pf.nlevels)]]
    count(f"ndims={pf.ndims}")
    count(f"non-ASCII field names={'names:unicode' in pf.meta['geo']}")
    count(f"levels={pf.nlevels}")
    for lk in pf.meta['layouts']:
        count(f"layout={lk}")
    # the hypothesis of theorem C05_tool on the plotfile, evaluated by the extracted goodb (GoodB.goodb_sound)
    stg, gb = model.call('goodb', pf_sx)
    count(f"hypothesis 'good' of the tool theorem holds={stg == 'ok' and gb == 1}")
    if not (stg == 'ok' and gb == 1):
        out['disagreements'].append(dict(seed=seed, kind='hypothesis', what="the generated plotfile does not satisfy 'good' (goodb = false): the instance "
                                         "of theorem C05_tool compared below is not covered by the theorem", meta=pf.meta,
                                         correspondence='Writers.GoodB.goodb'))
    finest = pf.nlevels - 1
    for k in range(4):
        vkind, variables = gen_vars(rng, keys)
        # (strings as they come from a command line or a file: equal to, but not the same objects as, the literals of the source)
        variables = [(v + ' ')[:-1] for v in variables]
        variables = glob_like_unknowns(random.Random(seed * 271 + k), keys, variables)
        if any(v not in keys and v not in ('all', 'nope') for v in variables):
            count("unknown name looking like a shell pattern of a field")
        limit_arg = rng.choice([None] + list(range(pf.nlevels)))
        limit = finest if limit_arg is None else limit_arg
        count(f"vars={vkind}")
        outp = core.scratch_dir(f"c05_{seed}_out{k}")
        core.set_policy(rng.choice(['identity', 'reverse', 'random']), seed + k)
        via_cli = r3.random() < 0.4
        count(f"entry point={'command line' if via_cli else 'library'}")
        if via_cli:
            argv = ['colander', path, '-o', outp, '-v'] + list(variables) + (['-l', str(limit_arg)] if limit_arg is not None else [])

            def run_cli():
                import contextlib, io, sys
                from amr_kitchen.colander import cli
                old_argv = sys.argv
                sys.argv = argv
                try:
                    with contextlib.redirect_stdout(io.StringIO()):
                        cli.main()
                finally:
                    sys.argv = old_argv
            res = core.outcome(run_cli)
        else:
            res = core.outcome(lambda: core.kept_alive(Colander(plotfile=path, limit_level=limit_arg, output=outp, variables=list(variables))).strain())
        core.set_policy('identity', 0)
        out['evals'] += 1
        desc = dict(seed=seed, variables=variables, limit_level=limit_arg, meta=pf.meta, fields=keys)
        st, m = model.call('colander', [[v.encode() for v in variables], opt(limit_arg), img_sx])
        mimg = oracle.image_from_sx(m) if st == 'ok' else None
        # specification side: pf_disk pf must be the bytes on disk, and pf_disk (colander_spec ...) the model's
        # (hence the implementation's) output - the instance of theorem C05_tool for this case
        st2, sp = model.call('colander_spec', pf_sx + [[v.encode() for v in variables], opt(limit_arg)])
        if st2 != 'ok':
            out['disagreements'].append(dict(desc, kind='spec', what='the specification entry refuses the abstract plotfile',
                                             correspondence='Plotfile.Abstract.pf_disk'))
        else:
            if k == 0:
                d0 = oracle.same_image(img, oracle.image_from_sx(sp[0]))
                if d0:
                    out['disagreements'].append(dict(desc, kind='encode', what='Abstract.pf_disk of the abstract plotfile differs from the directory on disk: ' + d0,
                                                     correspondence='Plotfile.Abstract.pf_disk vs the generator writer'))
            spec_img = oracle.image_from_sx(sp[1][1]) if sp[1][0] == 0 else None     # (1) when the pure operation is undefined
            count(f"pure operation defined={spec_img is not None}")
            if spec_img is not None:
                dspec = 'the tool model refuses' if mimg is None else oracle.same_image(mimg, spec_img)
                if dspec:
                    out['disagreements'].append(dict(desc, kind='spec-vs-model',
                                                     what='theorem C05_tool instance: colander(pf_disk pf) differs from pf_disk(colander_spec pf): ' + dspec,
                                                     correspondence='Writers.ColanderToolProofs.colander_refines'))
        kept, names = expected_contents(pf, keys, variables, limit)
        out['keys'].append(core.khash(seed, k))
        bad = None
        iimg = None
        if res[0] != 'ok':
            bad = 'straining raised: ' + res[1]
        else:
            iimg = oracle.read_image(outp)
            try:
                oc = oracle.contents_of_image(iimg)
                bad = check_contents(oc, pf, keys, kept, names, limit)
            except (ValueError, IndexError, KeyError) as e:
                bad = f'output is not a well-formed plotfile: {e}'
            if not bad:
                v, detail = tc.impl_taste(outp, None, (True, True, False, True), True)
                if v != 'good':
                    bad = f'validation does not accept the output: {v} {detail}'
        if not out['samples'] and not bad:
            out['samples'].append(dict(desc, output_fields=names, output_levels=limit + 1))
        if bad:
            out['violations'].append(dict(desc, kind='wrong-output', what=bad))
        else:
            d = 'model refuses' if mimg is None else oracle.same_image(iimg, mimg)
            if d:
                out['disagreements'].append(dict(desc, kind='model-vs-impl',
                                                 what='output directory differs from Writers.Colander.colander: ' + d,
                                                 correspondence='Writers.Colander.colander vs Colander.strain'))
            elif not tc.model_taste(model, m, None, (True, True, False, False)):
                out['disagreements'].append(dict(desc, kind='model-taste', what='Taste.taste_good rejects the model output',
                                                 correspondence='Taste.taste_good on Colander.colander output'))
        # ---- a second strain INTO THE SAME, now existing, output directory: as many fields, other ones (or another order),
        # same level limit - every file of the first run is replaced, nothing of it may survive
        rr = random.Random(seed * 1013 + k)
        if not bad and len(kept) >= 1 and len(keys) >= 2 and rr.random() < 0.4:
            again = rr.sample(keys, min(len(kept), len(keys)))
            if again != list(names):
                out['evals'] += 1
                count("second strain into the existing output directory")
                res2 = core.outcome(lambda: core.kept_alive(Colander(plotfile=path, limit_level=limit_arg, output=outp, variables=list(again))).strain())
                kept2, names2 = expected_contents(pf, keys, again, limit)
                desc2 = dict(desc, variables=again, earlier_run_into_the_same_output=variables)
                bad2 = None
                if res2[0] != 'ok':
                    bad2 = 'straining into an existing output directory raised: ' + res2[1]
                else:
                    try:
                        bad2 = check_contents(oracle.contents_of_image(oracle.read_image(outp)), pf, keys, kept2, names2, limit)
                    except (ValueError, IndexError, KeyError) as e:
                        bad2 = f'output is not a well-formed plotfile: {e}'
                if bad2:
                    out['violations'].append(dict(desc2, kind='wrong-output', what='second run into the same output directory: ' + bad2))
    return out


def big_box_case(seed):
    """a box above 8 MiB (64^3 cells, five fields) strained to two and to all of its fields: oracle only (the list-based
    model does not take megabytes)"""
    from amr_kitchen.colander.colander import Colander
    out = dict(evals=0, keys=[core.khash('big-box', seed)], dist={'case=one box of 10 MiB': 1}, samples=[], violations=[], disagreements=[])
    r = random.Random(seed)
    pf = gen.PF()
    pf.ndims, pf.fields, pf.time, pf.step = 3, ['density', 'temp', 'Y(OH)', 'mag_vort', 'pressure'], 0.5, 3
    pf.geo_low, pf.dx0, pf.n0, pf.bf = [0.0, -1.0, 2.0], [0.125, 0.25, 0.125], [64, 64, 64], 2
    lev = gen.Level()
    lev.boxes = [((0, 0, 0), (63, 63, 63))]
    lev.data = [np.asfortranarray(np.random.default_rng(r.getrandbits(32)).uniform(-100.0, 100.0, (64, 64, 64, 5)))]
    lev.files = [('Cell_D_00000', [0])]
    pf.levels = [lev]
    pf.meta = dict(case='big box', geo='exact/aniso', layouts=['onefile'])
    keys = list(pf.fields)
    path = core.scratch_dir(f"c05_big_{seed}")
    gen.write_plotfile(pf, path)
    for variables in (r.sample(keys, 2), ['all'], sorted(r.sample(keys, 3), key=keys.index)):
        outp = core.scratch_dir(f"c05_big_{seed}_out")
        out['evals'] += 1
        desc = dict(seed=seed, case_fn='big_box_case', variables=variables, meta=pf.meta, fields=keys)
        res = core.outcome(lambda: Colander(plotfile=path, limit_level=None, output=outp, variables=list(variables)).strain())
        kept, names = expected_contents(pf, keys, variables, 0)
        if res[0] != 'ok':
            bad = 'straining raised: ' + res[1]
        else:
            try:
                bad = check_contents(oracle.contents_of_image(oracle.read_image(outp)), pf, keys, kept, names, 0)
            except (ValueError, IndexError, KeyError) as e:
                bad = f'output is not a well-formed plotfile: {e}'
        if bad:
            out['violations'].append(dict(desc, kind='wrong-output', what=bad))
            break
    return out


def two_dirs_colander(seed):
    return core.two_dirs_case(PID, 'colander', seed)


def run(tier, seed):
    rep = core.Report(PID, tier, seed)
    pg = core.proof_gate(PID, thorough=(tier == 'thorough'))
    for t in pg['theorems']:
        rep.obligation('theorem ' + t, pg['ok'])
    if not pg['ok']:
        rep.violations.append((dict(kind='proof', what='proof obligations of Props/C05.v no longer check',
                                    theorem=pg['theorems'], problems=pg['problems']), False))
    ncases = 40 if tier == 'quick' else 500
    cases = [seed * 100000 + 5000 + i for i in range(ncases)]
    for r in core.run_cases(run_case, core.with_corpus(PID, cases)):
        rep.merge(r)
    rep.obligation('correspondence: Writers.Colander.colander = output directory of Colander.strain (binary files byte for byte, '
                   'level headers token for token, global header with floats by value)',
                   not any(v[0].get('kind') in ('model-vs-impl', 'model-taste') for v in rep.violations))
    for r in core.run_cases(big_box_case, [seed * 100000 + 5900]):
        rep.merge(r)
    for r in core.run_cases(two_dirs_colander, [seed * 100000 + 99000 + i for i in range(1 if tier == 'quick' else 5)]):
        rep.merge(r)
    rep.obligation('correspondence: Abstract.pf_disk of the abstract plotfile = the directory on disk the implementation reads',
                   not any(v[0].get('kind') in ('encode', 'spec') for v in rep.violations))
    rep.obligation("hypotheses of C05_tool on every generated plotfile: goodb = true (proved sound for 'good')",
                   not any(v[0].get('kind') == 'hypothesis' for v in rep.violations))
    rep.obligation('theorem instance (C05_tool) on every case: colander (pf_disk pf) = pf_disk (colander_spec pf), evaluated by the extracted code',
                   not any(v[0].get('kind') == 'spec-vs-model' for v in rep.violations))
    return rep.finish(
        level_rule=("cases = generated plotfile (2D/3D, 1-4 levels, all layout kinds, int/random/special payloads) x 4 (variable list, limit) "
                    "pairs; variable lists: all / subsets / permutations / repeats / unknown names mixed in / only unknown; output parsed by "
                    "the independent reader, compared with the input contents, validated with box coordinates; the abstract plotfile of the "
                    "theorems is handed to the extracted specification (pf_disk, colander_spec) and its images compared with the directory on "
                    "disk, the tool model's output and the implementation's output; every case non-trivial; distinct = distinct (seed, index)"),
        trusted_base=core.COMMON_TRUSTED,
        assumptions=["float(repr(x)) == x: float tokens the tool re-prints are compared by value"],
        checker_cmd=pg['checker_cmd'])
