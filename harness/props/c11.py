"""C11 - chef writes recipe(box) under the right names with true min/max."""
import importlib.util
import os
import random
import numpy as np
from harness import core, gen, diskimg, oracle
from harness.props import c01, c02
from harness.props import taste_common as tc

PID = 'C11'

RECIPES = [
    # (kind, number of components, source template)
    ('sum', 1, 'def recipe(field_indexes, box_array):\n    """{n0}"""\n    return box_array[..., field_indexes[{a!r}]] + box_array[..., field_indexes[{b!r}]]\n'),
    ('scale', 1, 'def recipe(field_indexes, box_array):\n    """{n0}"""\n    return 2.0 * box_array[..., field_indexes[{a!r}]] - 0.5\n'),
    ('copy', 1, 'def recipe(field_indexes, box_array):\n    """{n0}"""\n    return box_array[..., field_indexes[{a!r}]].copy()\n'),
    ('two', 2, 'import numpy as np\ndef recipe(field_indexes, box_array):\n    """{n0} {n1}"""\n    a = box_array[..., field_indexes[{a!r}]]\n    b = box_array[..., field_indexes[{b!r}]]\n    return np.stack([a * b, a - b], axis=3)\n'),
    ('three', 3, 'import numpy as np\ndef recipe(field_indexes, box_array):\n    """{n0} {n1} {n2}"""\n    a = box_array[..., field_indexes[{a!r}]]\n    return np.stack([a, -a, a * a], axis=3)\n'),
    ('position', 1, 'import numpy as np\ndef recipe(field_indexes, box_array):\n    """{n0}"""\n    s = box_array.shape\n    return box_array[..., field_indexes[{a!r}]] * 0 + np.arange(s[0]).reshape(-1, 1, 1) + 100 * np.arange(s[2]).reshape(1, 1, -1)\n'),
]


# recipes whose result is not a float64 array (a mask, single precision, integers): what is stored is that value as a
# 64-bit float; chosen by a derived generator so that the RECIPES choices of a seed stay what they were
TYPED_RECIPES = [
    ('mask', 1, 'def recipe(field_indexes, box_array):\n    """{n0}"""\n    return box_array[..., field_indexes[{a!r}]] > box_array[..., field_indexes[{b!r}]]\n'),
    ('single', 1, 'import numpy as np\ndef recipe(field_indexes, box_array):\n    """{n0}"""\n    return np.nan_to_num(box_array[..., field_indexes[{a!r}]]).clip(-1e30, 1e30).astype(np.float32)\n'),
    ('integer', 1, 'import numpy as np\ndef recipe(field_indexes, box_array):\n    """{n0}"""\n    return np.floor(np.nan_to_num(box_array[..., field_indexes[{a!r}]]).clip(-1e6, 1e6)).astype(np.int64)\n'),
    ('masks', 2, 'import numpy as np\ndef recipe(field_indexes, box_array):\n    """{n0} {n1}"""\n    a = box_array[..., field_indexes[{a!r}]]\n    b = box_array[..., field_indexes[{b!r}]]\n    return np.stack([a > b, a <= 0], axis=3)\n'),
]


def pick_recipe(rng, seed, k):
    r = rng.choice(RECIPES)
    r2 = random.Random(seed * 613 + k)
    return r2.choice(TYPED_RECIPES) if r2.random() < 0.25 else r


def zeros_of_both_signs(arr):
    """some component holds +0.0 and -0.0: which of the two np.min / np.max return is numpy's reduction order (the
    model keeps the first in storage order) - the byte-level comparison of the min/max rows is then not meaningful"""
    arr = np.asarray(arr)
    for c in range(arr.shape[-1]):
        z = arr[..., c][arr[..., c] == 0]
        if z.size and np.signbit(z).any() and not np.signbit(z).all():
            return True
    return False


def load_recipe(path):
    spec = importlib.util.spec_from_file_location('oracle_recipe', path)
    mod = importlib.util.module_from_spec(spec)
    spec.loader.exec_module(mod)
    return mod.recipe


def gen_kept(rng, keys):
    kind = rng.choice(['none', 'none', 'some', 'some', 'perm', 'with_unknown', 'all', 'repeat'])
    if kind == 'none':
        return kind, None
    if kind == 'all':
        return kind, ' '.join(keys)
    k = rng.randint(1, len(keys))
    sel = sorted(rng.sample(keys, k), key=keys.index)
    if kind == 'perm':
        rng.shuffle(sel)
    if kind == 'repeat':
        sel = sel + [sel[0]]
    if kind == 'with_unknown':
        sel.insert(rng.randint(0, len(sel)), 'no_such_field')
    return kind, ' '.join(sel)


def fnum_eq(tok, value):
    try:
        x = float(tok)
    except ValueError:
        return False
    return x == value or (np.isnan(x) and np.isnan(value))


def check_contents(oc, pf, keys, keep_ids, new_names, recipe_fn, fidx, new_rtol=None):
    names = [keys[i] for i in keep_ids] + new_names
    if oc['fields'] != names:
        return f"fields {oc['fields']} instead of {names} (kept fields, then the recipe's fields)"
    if len(oc['levels']) != pf.nlevels:
        return f"{len(oc['levels'])} levels instead of {pf.nlevels}"
    if oc['time'] != pf.time or oc['geo_low'] != [float(x) for x in pf.geo_low] or oc['geo_high'] != [float(x) for x in pf.geo_high()]:
        return "time / domain bounds differ from the input"
    for lv in range(pf.nlevels):
        lev, o = pf.levels[lv], oc['levels'][lv]
        if o['boxes'] != lev.boxes:
            return f"level {lv}: boxes differ from the input's"
        if oc['dx'][lv] != [float(x) for x in pf.dx(lv)]:
            return f"level {lv}: cell sizes differ"
        for (lo, hi), data, bnd, mn, mx in zip(o['boxes'], o['data'], o['bounds'], o['mins'], o['maxs']):
            b = lev.boxes.index((lo, hi))
            src = np.array(lev.data[b], order='F')
            new = np.asarray(recipe_fn(fidx, src.copy(order='F')))
            if new.ndim < 4:
                new = new[..., np.newaxis]
            want = np.concatenate([src[..., keep_ids], new], axis=3) if keep_ids else new
            if data.shape != want.shape:
                return f"level {lv} box {lo}-{hi}: {data.shape[-1]} components instead of {want.shape[-1]}"
            nk = len(keep_ids)
            if nk and data[..., :nk].tobytes(order='F') != np.asarray(want[..., :nk], dtype='<f8').tobytes(order='F'):
                return f"level {lv} box {lo}-{hi}: kept fields are not bit-identical to the input box"
            got_new, want_new = data[..., nk:], np.asarray(want[..., nk:], dtype='<f8')
            if new_rtol is None:
                same = got_new.tobytes(order='F') == want_new.tobytes(order='F')
            else:
                # Cantera values: equal up to rounding (the order of floating-point operations is not part of the property)
                same = bool(np.array_equal(np.isnan(got_new), np.isnan(want_new))
                            and np.allclose(got_new, want_new, rtol=new_rtol, atol=0.0, equal_nan=True))
            if not same:
                return f"level {lv} box {lo}-{hi}: new fields are not the recipe evaluated on the box's input data"
            if bnd != [(float(a), float(c)) for a, c in gen.box_bounds(pf, lv, lo, hi)]:
                return f"level {lv} box {lo}-{hi}: physical bounds differ"
            for c in range(data.shape[-1]):
                if not fnum_eq(mn[c], float(np.min(data[..., c]))) or not fnum_eq(mx[c], float(np.max(data[..., c]))):
                    return (f"level {lv} box {lo}-{hi} component {c}: header min/max {mn[c].decode()}/{mx[c].decode()} are not the "
                            f"extrema {np.min(data[..., c])!r}/{np.max(data[..., c])!r} of the written data")
    return None


def run_case(seed):
    from amr_kitchen.chef import Chef
    rng = random.Random(seed)
    model = core.W['model']
    out = dict(evals=0, keys=[], dist={}, samples=[], violations=[], disagreements=[])
    dist = out['dist']

    def count(k):
        dist[k] = dist.get(k, 0) + 1

    pf = gen.gen_plotfile(rng, ndims=3, max_blocks=2, nfields=(2, 5), nlevels=rng.choice([1, 2, 2, 3]),
                          payload=rng.choice(['ints', 'random', 'smallints']))
    pf.fields = [f.replace(' ', '_') for f in pf.fields]
    rm = random.Random(seed * 3571 + 19)
    if rm.random() < 0.25:
        gen.mixed_digit_files(pf, rm)
    count(f"binary file numbers={pf.meta.get('file_numbers', 'five digits')}")
    if rm.random() < 0.2:
        # a slab: every box is one cell thick at level 0 (2 at level 1 ...) in one direction
        gen.flatten_axis(pf, rm.randrange(3))
    count(f"slab one cell thick={'slab_axis' in pf.meta}")
    if pf.nlevels >= 2 and rm.random() < 0.25:
        # refinement ratios other than 2 / differing between levels (the boxes keep their index ranges: they sit in the low
        # part of the larger index space; chef copies the mesh, it does not interpret it)
        pf.ratios = rm.choice([[4], [2, 4], [4, 2], [4, 4]])[:pf.nlevels - 1] if pf.nlevels <= 3 else [2, 4, 2][:pf.nlevels - 1]
        if len(pf.ratios) < pf.nlevels - 1:
            pf.ratios = (pf.ratios + [2, 4, 2])[:pf.nlevels - 1]
        pf.meta['ratios'] = list(pf.ratios)
    count(f"refinement ratios={pf.meta.get('ratios', 'all 2')}")
    keys = c01.reader_keys(pf.fields)
    fidx = {k: i for i, k in enumerate(keys)}
    img = diskimg.image_of(pf)
    path = core.scratch_dir(f"c11_{seed}")
    diskimg.write_image(img, path)
    img_sx = diskimg.image_sx(img)
    # the abstract plotfile of the theorems (C11_tool quantifies over these)
    pf_sx = [c02.gheader_sx(pf), [[c02.lvboxes_sx(pf, lv), gen.level_to_sx(pf, lv), c02.cellh_sx(pf, lv)[3], c02.cellh_sx(pf, lv)[4]]
                                  for lv in range(pf.nlevels)]]
    count(f"levels={pf.nlevels}")
    for lk in pf.meta['layouts']:
        count(f"layout={lk}")
    stg, gb = model.call('goodb', pf_sx)
    count(f"hypothesis 'good' of the tool theorem holds={stg == 'ok' and gb == 1}")
    if not (stg == 'ok' and gb == 1):
        out['disagreements'].append(dict(seed=seed, kind='hypothesis', what="the generated plotfile does not satisfy 'good' (goodb = false)",
                                         meta=pf.meta, correspondence='Writers.GoodB.goodb'))
    for k in range(2):
        rkind, ncomp, tmpl = pick_recipe(rng, seed, k)
        a, b = rng.choice(keys), rng.choice(keys)
        new_names = [f"cooked_{rkind}_{i}" for i in range(ncomp)]
        src = tmpl.format(a=a, b=b, n0=new_names[0], n1=new_names[-1] if ncomp > 1 else '', n2=new_names[-1])
        if ncomp == 3:
            src = tmpl.format(a=a, b=b, n0=new_names[0], n1=new_names[1], n2=new_names[2])
        rdir = core.scratch_dir(f"c11_{seed}_recipe")
        os.makedirs(rdir)
        rpath = os.path.join(rdir, f"recipe_{rkind}.py")
        with open(rpath, 'w') as f:
            f.write(src)
        kkind, kept = gen_kept(rng, keys)
        keep_ids = [fidx[x] for x in kept.split() if x in fidx] if kept else []
        serial = rng.random() < 0.5
        count(f"recipe={rkind}")
        count(f"kept={kkind}")
        count(f"serial={serial}")
        outp = os.path.join(core.scratch_dir(f"c11_{seed}_out"), 'cooked')
        os.makedirs(os.path.dirname(outp))
        desc = dict(seed=seed, recipe=rkind, recipe_source=src, kept_fields=kept, serial=serial, fields=keys, meta=pf.meta)
        core.set_policy(rng.choice(['identity', 'reverse', 'random']), seed + k)
        via_cli = random.Random(seed * 331 + k).random() < 0.35
        count(f"entry point={'command line' if via_cli else 'library'}")
        if via_cli:
            # the command-line entry point: -k takes the kept fields as ONE argument, names separated by blanks
            argv = ['chef', path, '-o', outp, '-r', rpath] + (['-k', kept] if kept is not None else [])

            def run_cli():
                import contextlib, io, sys
                from amr_kitchen.chef import cli
                old_argv = sys.argv
                sys.argv = argv
                try:
                    with contextlib.redirect_stdout(io.StringIO()):
                        cli.main()
                finally:
                    sys.argv = old_argv
            res = core.outcome(run_cli)
        else:
            res = core.outcome(lambda: core.kept_alive(Chef(plotfile=path, recipe=rpath, outfile=outp, kept_fields=kept, serial=serial)).cook())
        core.set_policy('identity', 0)
        out['evals'] += 1
        out['keys'].append(core.khash(seed, k))
        recipe_fn = load_recipe(rpath)
        bad = None
        iimg = None
        if res[0] != 'ok':
            bad = 'cooking a well-formed plotfile raised: ' + res[1]
        else:
            iimg = oracle.read_image(outp)
            try:
                oc = oracle.contents_of_image(iimg)
                bad = check_contents(oc, pf, keys, keep_ids, new_names, recipe_fn, fidx)
            except (ValueError, IndexError, KeyError) as e:
                bad = f'output is not a well-formed plotfile: {e}'
            if not bad:
                v, detail = tc.impl_taste(outp, None, (True, True, False, True), True)
                if v != 'good':
                    bad = f'validation does not accept the output: {v} {detail}'
        if bad:
            out['violations'].append(dict(desc, kind='wrong-output', what=bad))
            continue
        if not out['samples']:
            out['samples'].append(dict(desc, output_fields=[keys[i] for i in keep_ids] + new_names))
        # the model, with the recipe given as the table of what it returns per box
        table = []
        for lvi, lev in enumerate(pf.levels):
            for (lo, hi), data in zip(lev.boxes, lev.data):
                new = np.asarray(recipe_fn(fidx, np.array(data, order='F')))
                if new.ndim < 4:
                    new = new[..., np.newaxis]
                table.append([lvi, list(lo), list(hi), [np.asarray(new[..., c], dtype='<f8').tobytes(order='F') for c in range(new.shape[-1])]])
        if any(zeros_of_both_signs(data) for o in oc['levels'] for data in o['data']):
            count('model comparison skipped: zeros of both signs in a component')
            continue
        outnames = [keys[i] for i in keep_ids] + new_names
        st, m = model.call('chef', [keep_ids, [x.encode() for x in outnames], table, img_sx])
        mimg = oracle.image_from_sx(m) if st == 'ok' else None
        d = 'model refuses' if mimg is None else oracle.same_image(iimg, mimg)
        if d:
            out['disagreements'].append(dict(desc, kind='model-vs-impl', what='output directory differs from Writers.Chef.chef: ' + d,
                                             correspondence='Writers.Chef.chef vs Chef.cook'))
        # specification side: the abstract plotfile of theorem C11_tool; its image must be the directory on disk, the
        # hypotheses on the recipe must hold (recipe_fitsb, proved sound) and the image of chef_spec must be the output of
        # the tool model - the instance of the theorem for this case
        st2, sp = model.call('chef_spec', [pf_sx, keep_ids, [x.encode() for x in outnames], table])
        if st2 != 'ok':
            out['disagreements'].append(dict(desc, kind='spec', what='the specification entry refuses the abstract plotfile',
                                             correspondence='Plotfile.Abstract.pf_disk'))
        else:
            if k == 0:
                d0 = oracle.same_image(img, oracle.image_from_sx(sp[0]))
                if d0:
                    out['disagreements'].append(dict(desc, kind='encode', what='Abstract.pf_disk of the abstract plotfile differs from the directory on disk: ' + d0,
                                                     correspondence='Plotfile.Abstract.pf_disk vs the generator writer'))
            count(f"hypotheses of C11_tool hold={sp[2] == 1}")
            if sp[2] == 1:
                dspec = 'the tool model refuses' if mimg is None else oracle.same_image(mimg, oracle.image_from_sx(sp[1]))
                if dspec:
                    out['disagreements'].append(dict(desc, kind='spec-vs-model',
                                                     what='theorem C11_tool instance: chef(pf_disk pf) differs from pf_disk(chef_spec pf): ' + dspec,
                                                     correspondence='Writers.ChefToolProofs.chef_refines'))
    return out


# ------------------------------------------------------------------ built-in thermochemical recipes
COOKBOOK = {'HRR': ('heat_release_rate', 'HeatRelease'), 'ENT': ('enthalpy_mass', 'Enthalpy'),
            'SRi': ('net_production_rates', 'IRm'), 'SDi': ('mix_diff_coeffs_mass', 'DI'), 'RRi': ('net_rates_of_progress', 'R')}
MECH = 'h2o2.yaml'          # bundled with Cantera: 10 species, 29 reactions


def builtin_expected(gas, data, fields, recipe, sp_idx, rx_idx, pressure):
    """the built-in recipe on one box, evaluated independently with Cantera: a fresh SolutionArray at the box's
    temperature, the given pressure and the box's mass fractions (cells without a thermodynamic state - zero
    temperature, no species - are given T = 1 and pure O2, as the tool documents)"""
    import cantera as ct
    names = [sp.name for sp in gas.species()]
    y0 = fields.index(f"Y({names[0]})")
    T = np.array(data[..., fields.index('temp')], dtype='float64', order='F')
    Y = np.array(data[..., y0:y0 + len(names)], dtype='float64', order='F')
    T[np.isclose(T, 0)] = 1
    Y[np.isclose(np.sum(Y, axis=3), 0), gas.species_index('O2')] = 1.0
    sa = ct.SolutionArray(gas, T.shape)
    sa.TPY = T, pressure * ct.one_atm * np.ones(T.shape), Y
    val = getattr(sa, COOKBOOK[recipe][0])
    if recipe in ('HRR', 'ENT'):
        return np.asarray(val)[..., np.newaxis]
    if recipe == 'RRi':
        return np.asarray(val)[..., rx_idx]
    return np.asarray(val)[..., sp_idx]


def thermo_plotfile(seed, rng, nprng):
    """a 3D plotfile carrying the h2o2 mechanism's mass fractions and a temperature (plus a few other fields), with cells
    without a state (T = 0 and Y = 0) and cells where only one of the two is zero -> (pf, fields, gas, sp, covered, half)"""
    import cantera as ct
    gas = ct.Solution(MECH)
    sp = [s.name for s in gas.species()]
    before = rng.sample(['density', 'x_velocity'], rng.randint(0, 2))
    after = rng.sample(['pressure', 'mag_vort'], rng.randint(0, 2)) + ['temp']
    rng.shuffle(after)
    if rng.random() < 0.3:
        before, after = after, before
    fields = before + [f"Y({s})" for s in sp] + after
    pf = gen.gen_plotfile(rng, ndims=3, max_blocks=2, nfields=(len(fields), len(fields)), nlevels=rng.choice([1, 2]), payload='random', bf=2)
    pf.fields = fields
    y0, it = fields.index(f"Y({sp[0]})"), fields.index('temp')
    covered = half = 0
    for lev in pf.levels:
        for d in lev.data:
            shp = d.shape[:3]
            Y = nprng.random(shp + (len(sp),))
            Y /= Y.sum(axis=3, keepdims=True)
            Y *= 1.0 + 1e-6 * nprng.uniform(-1, 1, shp + (1,))      # sums close to, not exactly, one
            d[..., y0:y0 + len(sp)] = Y
            d[..., it] = nprng.uniform(300, 2500, shp)
            if rng.random() < 0.5:                                   # cells without a state (embedded boundary)
                for _ in range(rng.randint(1, 3)):
                    c = tuple(rng.randrange(n) for n in shp)
                    d[c + (it,)] = 0.0
                    d[c + (slice(y0, y0 + len(sp)),)] = 0.0
                    covered += 1
            # cells where only ONE of the two cleaning rules applies: no temperature but a mixture, a temperature but no mixture
            r2 = random.Random(seed * 977 + 5 + int(d.size))
            if r2.random() < 0.5:
                for _ in range(r2.randint(1, 2)):
                    c = tuple(r2.randrange(n) for n in shp)
                    if r2.random() < 0.5:
                        d[c + (it,)] = 0.0
                    else:
                        d[c + (slice(y0, y0 + len(sp)),)] = 0.0
                    half += 1
    return pf, fields, gas, sp, covered, half


def run_builtin_case(seed):
    import cantera as ct
    from amr_kitchen.chef import Chef
    rng = random.Random(seed)
    nprng = np.random.default_rng(seed)
    model = core.W['model']
    out = dict(evals=0, keys=[], dist={}, samples=[], violations=[], disagreements=[])
    dist = out['dist']

    def count(k):
        dist[k] = dist.get(k, 0) + 1

    pf, fields, gas, sp, covered, half = thermo_plotfile(seed, rng, nprng)
    keys = list(fields)
    fidx = {k: i for i, k in enumerate(keys)}
    img = diskimg.image_of(pf)
    path = core.scratch_dir(f"c11b_{seed}")
    diskimg.write_image(img, path)
    img_sx = diskimg.image_sx(img)
    count(f"levels={pf.nlevels}")
    count(f"cells without a state={'yes' if covered else 'no'}")
    count(f"cells with only a temperature or only a mixture={'yes' if half else 'no'}")
    for k in range(2):
        recipe = rng.choice(['HRR', 'ENT', 'SRi', 'SDi', 'RRi'])
        species = reactions = None
        sp_idx = rx_idx = []
        if recipe in ('SRi', 'SDi'):
            form = rng.choice(['list', 'list', 'all', 'all-in-list'])
            if form == 'list':
                species = rng.sample(sp, rng.randint(1, 4))
                sp_idx = [sp.index(x) for x in species]
            else:
                species = 'all' if form == 'all' else ['all']
                sp_idx = list(range(len(sp)))
            new_names = [f"{COOKBOOK[recipe][1]}({sp[i]})" for i in sp_idx]
        elif recipe == 'RRi':
            reactions = rng.sample(range(gas.n_reactions), rng.randint(1, 4))
            rx_idx = list(reactions)
            new_names = [f"{COOKBOOK[recipe][1]}{i}" for i in rx_idx]
        else:
            new_names = [COOKBOOK[recipe][1]]
        kkind = rng.choice(['none', 'temp+Y', 'some', 'perm'])
        if kkind == 'none':
            kept = None
        elif kkind == 'temp+Y':
            kept = ' '.join(['temp'] + [f"Y({x})" for x in rng.sample(sp, 2)])
        else:
            sel = sorted(rng.sample(keys, rng.randint(1, 4)), key=keys.index)
            if kkind == 'perm':
                rng.shuffle(sel)
            kept = ' '.join(sel)
        keep_ids = [fidx[x] for x in kept.split()] if kept else []
        pressure = rng.choice([0.5, 1.0, 4.0])
        serial = rng.random() < 0.5
        count(f"recipe={recipe}")
        count(f"kept={kkind}")
        outp = os.path.join(core.scratch_dir(f"c11b_{seed}_out"), 'cooked')
        os.makedirs(os.path.dirname(outp))
        desc = dict(seed=seed, builtin_recipe=recipe, species=species, reactions=reactions, kept_fields=kept, pressure_atm=pressure,
                    serial=serial, fields=keys, mechanism=MECH, meta=pf.meta)
        core.set_policy(rng.choice(['identity', 'reverse', 'random']), seed + k)
        res = core.outcome(lambda: core.kept_alive(Chef(plotfile=path, recipe=recipe, outfile=outp, species=species, reactions=reactions, mech=MECH,
                                        pressure=pressure, kept_fields=kept, serial=serial)).cook())
        core.set_policy('identity', 0)
        out['evals'] += 1
        out['keys'].append(core.khash(seed, 'builtin', k))

        def recipe_fn(fi, box):
            return builtin_expected(gas, box, keys, recipe, sp_idx, rx_idx, pressure)
        bad = None
        iimg = None
        if res[0] != 'ok':
            bad = 'cooking a well-formed plotfile raised: ' + res[1]
        else:
            iimg = oracle.read_image(outp)
            try:
                oc = oracle.contents_of_image(iimg)
                bad = check_contents(oc, pf, keys, keep_ids, new_names, recipe_fn, fidx, new_rtol=1e-9)
            except (ValueError, IndexError, KeyError) as e:
                bad = f'output is not a well-formed plotfile: {e}'
            if not bad:
                v, detail = tc.impl_taste(outp, None, (True, True, False, True), True)
                if v != 'good':
                    bad = f'validation does not accept the output: {v} {detail}'
        if bad:
            out['violations'].append(dict(desc, kind='wrong-output', what=bad))
            continue
        if not out['samples']:
            out['samples'].append(dict(desc, output_fields=[keys[i] for i in keep_ids] + new_names))
        # the model's recipe table: the values just checked against Cantera (the implementation's own bits, so that
        # rounding-level differences in the evaluation order do not disturb the byte-level comparison of the skeleton)
        table = []
        has_nan = False
        nk = len(keep_ids)
        for lvi, o in enumerate(oc['levels']):
            for (lo, hi), data in zip(o['boxes'], o['data']):
                new = data[..., nk:]
                has_nan = has_nan or bool(np.isnan(new).any())
                has_nan = has_nan or zeros_of_both_signs(data)
                table.append([lvi, list(lo), list(hi), [np.asarray(new[..., c], dtype='<f8').tobytes(order='F') for c in range(new.shape[-1])]])
        count(f"recipe values contain NaN or zeros of both signs={has_nan}")
        if has_nan:
            # the model's min/max order is on non-NaN bit patterns (np.min propagates NaN): the directory comparison is
            # skipped, the property oracle above (which reads NaN extrema as NaN) has decided the case
            continue
        outnames = [keys[i] for i in keep_ids] + new_names
        st, m = model.call('chef', [keep_ids, [x.encode() for x in outnames], table, img_sx])
        mimg = oracle.image_from_sx(m) if st == 'ok' else None
        d = 'model refuses' if mimg is None else oracle.same_image(iimg, mimg)
        if d:
            out['disagreements'].append(dict(desc, kind='model-vs-impl', what='output directory differs from Writers.Chef.chef: ' + d,
                                             correspondence='Writers.Chef.chef vs Chef.cook (built-in recipe)'))
    return out



def two_dirs_chef(seed):
    return core.two_dirs_case(PID, 'chef', seed)


def run(tier, seed):
    rep = core.Report(PID, tier, seed)
    pg = core.proof_gate(PID, thorough=(tier == 'thorough'))
    for t in pg['theorems']:
        rep.obligation('theorem ' + t, pg['ok'])
    if not pg['ok']:
        rep.violations.append((dict(kind='proof', what='proof obligations of Props/C11.v no longer check',
                                    theorem=pg['theorems'], problems=pg['problems']), False))
    ncases = 50 if tier == 'quick' else 600
    cases = [seed * 100000 + 11000 + i for i in range(ncases)]
    for r in core.run_cases(run_case, core.with_corpus(PID, cases)):
        rep.merge(r)
    nb = 12 if tier == 'quick' else 150
    for r in core.run_cases(run_builtin_case, [seed * 100000 + 11500 + i for i in range(nb)]):
        rep.merge(r)
    for r in core.run_cases(two_dirs_chef, [seed * 100000 + 99000 + i for i in range(1 if tier == 'quick' else 4)]):
        rep.merge(r)
    rep.obligation('correspondence: Writers.Chef.chef (recipe = table of the Python recipe\'s per-box results) = output directory of '
                   'Chef.cook (binary files byte for byte, level headers token for token with min/max by value)',
                   not any(v[0].get('kind') == 'model-vs-impl' for v in rep.violations))
    rep.obligation('correspondence: Abstract.pf_disk of the abstract plotfile handed to the specification = the directory on disk',
                   not any(v[0].get('kind') in ('encode', 'spec') for v in rep.violations))
    rep.obligation("hypotheses of C11_tool on every generated plotfile: goodb = true (proved sound for 'good'; the theorem needs its "
                   "wf_plotfile and std_dirs parts) and recipe_fitsb = true",
                   not any(v[0].get('kind') == 'hypothesis' for v in rep.violations))
    rep.obligation('theorem instance (C11_tool) on every user-recipe case: hypotheses evaluated (recipe_fitsb), chef (pf_disk pf) = '
                   'pf_disk (chef_spec pf) evaluated by the extracted code',
                   not any(v[0].get('kind') == 'spec-vs-model' for v in rep.violations))
    return rep.finish(
        level_rule=("cases = generated 3D plotfile (1-3 levels, mixed boxes, all layout kinds, int / random payloads) x 2 (user recipe written "
                    "to a .py file: sum, scale, copy, position-dependent, 2- and 3-component; kept-field string: none / subset / permuted / "
                    "repeated / with unknown names / all; serial or controlled pool); output parsed by the independent reader: names, "
                    "kept bit-identical, new = recipe(box) bit for bit, min/max = extrema of the written data, taste with box coordinates; "
                    "plus the built-in thermochemical recipes HRR / ENT / SRi / SDi / RRi (Cantera h2o2 mechanism: species lists, 'all', "
                    "reaction lists; kept temp / Y fields; mass fractions summing to one only up to 1e-6; cells without a state; pressures "
                    "0.5 / 1 / 4 atm varying between the cases one worker process runs): new fields against an independent Cantera "
                    "evaluation per box (1e-9 relative), the skeleton byte for byte against the model"),
        trusted_base=core.COMMON_TRUSTED + [
            "the recipe is a parameter of the model; in the correspondence it is the table of what the Python recipe returned for each box (evaluated by the harness on the generated box data)",
            "float ordering for min/max is modelled on IEEE bit patterns (NaN excluded: payloads are finite); str(np.float64) tokens are compared by value",
            "Cantera-backed recipes (HRR/ENT/SRi/SDi/RRi) share the scan/concatenate/min-max skeleton with the modelled user knife; their values are Cantera's: checked against an independent SolutionArray evaluation within 1e-9 relative, not modelled; the directory comparison is skipped when a recipe value is NaN (np.min propagates NaN, the model's order is on non-NaN bit patterns)"],
        assumptions=["float(repr(x)) == x"],
        checker_cmd=pg['checker_cmd'])


def replay(doc):
    core.worker_init(core.REPO, quiet=False)
    r = run_builtin_case(doc['seed']) if 'builtin_recipe' in doc else run_case(doc['seed'])
    bad = r['violations'] + r['disagreements']
    for v in bad:
        print('REPLAY:', v.get('what'))
    return 1 if bad else 0
