"""C02 - opening a plotfile exposes exactly the metadata its headers state."""
import os
import random
import shutil
import numpy as np
from harness import core, gen
from harness.sx import opt
from harness.props import c01

PID = 'C02'


# ---- records for the model (TextHeader.v) built from the abstract plotfile

def tok(x):
    return gen.fnum(x).encode()


def gheader_sx(pf, extra_ratio=0):
    nl = pf.nlevels
    return [[getattr(pf, 'version', 'HyperCLaw-V1.1').encode()], [f.encode() for f in pf.fields], pf.ndims, tok(pf.time), nl - 1,
            [tok(x) for x in pf.geo_low], [tok(x) for x in pf.geo_high()],
            pf.ratio_list() + [2] * extra_ratio,
            [[s - 1 for s in pf.grid_size(lv)] for lv in range(nl)],
            [pf.step] * nl,
            [[tok(x) for x in pf.dx(lv)] for lv in range(nl)],
            [b"0"]]


def lvboxes_sx(pf, lv):
    level = pf.levels[lv]
    boxes = [[[tok(a), tok(b)] for a, b in gen.box_bounds(pf, lv, lo, hi)] for lo, hi in level.boxes]
    return [len(level.boxes), [str(pf.step).encode()], boxes, f"Level_{lv}".encode(), tok(pf.time)]


def cellh_sx(pf, lv):
    level = pf.levels[lv]
    _, loc = gen.level_files(level)
    nf = len(pf.fields)
    mins = [[gen.minmax_token(np.min(d[..., c])).encode() for c in range(nf)] for d in level.data]
    maxs = [[gen.minmax_token(np.max(d[..., c])).encode() for c in range(nf)] for d in level.data]
    return [[[list(lo), list(hi)] for lo, hi in level.boxes], [n.encode() for n, _ in loc], [o for _, o in loc], mins, maxs]


def render(text, rng=None):
    out = []
    for line in text:
        s = b' '.join(line)
        if rng is not None and len(line) >= 2 and rng.random() < 0.3:
            s += b' '
        out.append(s + b'\n')
    return b''.join(out)


def same_text(model_text, text_str):
    """model token lines vs generator text, line by line, ignoring trailing blanks"""
    lines = text_str.split('\n')
    assert lines[-1] == ''
    return [b' '.join(l) for l in model_text] == [l.rstrip(' ').encode() for l in lines[:-1]]


def write_from_model(pf, path, model, rng, extra_ratio):
    """writes the plotfile with the text headers printed by the Coq model;
    returns (header text, [cellh text per level]) as token lists"""
    st, htext = model.call('print_header', [gheader_sx(pf, extra_ratio), [lvboxes_sx(pf, lv) for lv in range(pf.nlevels)]])
    assert st == 'ok'
    os.makedirs(path)
    with open(os.path.join(path, 'Header'), 'wb') as f:
        f.write(render(htext, rng))
    ctexts = []
    for lv, level in enumerate(pf.levels):
        d = os.path.join(path, f"Level_{lv}")
        os.makedirs(d)
        files, _ = gen.level_files(level)
        for name, content in files.items():
            with open(os.path.join(d, name), 'wb') as f:
                f.write(content)
        st, ctext = model.call('print_cellh', [len(pf.fields), cellh_sx(pf, lv)])
        assert st == 'ok'
        with open(os.path.join(d, 'Cell_H'), 'wb') as f:
            f.write(render(ctext, rng))
        ctexts.append(ctext)
    return htext, ctexts


# ---- what the implementation exposes, canonically

def fhex(x):
    return float(x).hex()


def impl_view(pck, header_only, maxmins):
    v = dict(
        version=str(pck.version).strip(),
        fields=list(pck.fields.keys()), field_idx=[int(i) for i in pck.fields.values()],
        ndims=int(pck.ndims), time=fhex(pck.time), max_level=int(pck.max_level), limit=int(pck.limit_level),
        geo_low=[fhex(x) for x in pck.geo_low], geo_high=[fhex(x) for x in pck.geo_high],
        factors=[int(x) for x in pck.factors],
        grid_sizes=[[int(s) for s in g] for g in pck.grid_sizes],
        steps=[int(s) for s in pck.step_numbers],
        dx=[[fhex(x) for x in row] for row in pck.dx],
        boxes=[[[[fhex(a), fhex(b)] for a, b in box] for box in lvb] for lvb in pck.boxes],
        cell_paths=list(pck.cell_paths), npoints=[int(n) for n in pck.npoints],
        ngrids=len(pck.grids),
    )
    if not header_only:
        cells = []
        for c in pck.cells:
            e = dict(indexes=[[[int(x) for x in lo], [int(x) for x in hi]] for lo, hi in c['indexes']],
                     files=list(c['files']), offsets=[int(o) for o in c['offsets']])
            if maxmins:
                e['mins'] = {k: [fhex(x) for x in v_] for k, v_ in c['mins'].items()}
                e['maxs'] = {k: [fhex(x) for x in v_] for k, v_ in c['maxs'].items()}
            cells.append(e)
        v['cells'] = cells
    return v


def ftok(t):
    return float(t.decode()).hex()


def model_view(opened, cellhs, path, header_only, maxmins):
    g, keys, limit, lvs = opened
    ver, names, ndims, time, maxlv, lo, hi, factors, grid, steps, dx, sys_ = g
    v = dict(
        version=b' '.join(ver).decode(),
        fields=[k.decode() for k in keys], field_idx=list(range(len(keys))),
        ndims=ndims, time=ftok(time), max_level=maxlv, limit=limit,
        geo_low=[ftok(x) for x in lo], geo_high=[ftok(x) for x in hi], factors=factors,
        grid_sizes=[[s + 1 for s in g_] for g_ in grid], steps=steps,
        dx=[[ftok(x) for x in row] for row in dx],
        boxes=[[[[ftok(a), ftok(b)] for a, b in box] for box in lb[2]] for lb in lvs],
        cell_paths=[lb[3].decode() for lb in lvs], npoints=[lb[0] for lb in lvs],
        ngrids=limit + 1,
    )
    if not header_only:
        cells = []
        for lb, c in zip(lvs, cellhs):
            idx, files, offs, mins, maxs = c
            e = dict(indexes=[[lo_, hi_] for lo_, hi_ in idx],
                     files=[os.path.join(path, lb[3].decode(), f.decode()) for f in files], offsets=offs)
            if maxmins:
                e['mins'] = {k: [ftok(r[i]) for r in mins] for i, k in enumerate(v['fields'])}
                e['maxs'] = {k: [ftok(r[i]) for r in maxs] for i, k in enumerate(v['fields'])}
            cells.append(e)
        v['cells'] = cells
    return v


def oracle_view(pf, path, limit, header_only, maxmins, extra_ratio):
    """what the headers state, computed from the abstract plotfile only"""
    keys = c01.reader_keys(pf.fields)
    nl = pf.nlevels
    v = dict(
        version=getattr(pf, 'version', 'HyperCLaw-V1.1'),
        fields=keys, field_idx=list(range(len(keys))), ndims=pf.ndims, time=fhex(pf.time), max_level=nl - 1,
        limit=limit, geo_low=[fhex(x) for x in pf.geo_low], geo_high=[fhex(x) for x in pf.geo_high()],
        factors=pf.ratio_list() + [2] * extra_ratio, grid_sizes=[pf.grid_size(lv) for lv in range(nl)],
        steps=[pf.step] * nl, dx=[[fhex(x) for x in pf.dx(lv)] for lv in range(nl)],
        boxes=[[[[fhex(a), fhex(b)] for a, b in gen.box_bounds(pf, lv, lo, hi)] for lo, hi in pf.levels[lv].boxes]
               for lv in range(limit + 1)],
        cell_paths=[f"Level_{lv}" for lv in range(limit + 1)],
        npoints=[len(pf.levels[lv].boxes) for lv in range(limit + 1)], ngrids=limit + 1,
    )
    if not header_only:
        cells = []
        for lv in range(limit + 1):
            level = pf.levels[lv]
            _, loc = gen.level_files(level)
            e = dict(indexes=[[list(lo), list(hi)] for lo, hi in level.boxes],
                     files=[os.path.join(path, f"Level_{lv}", n) for n, _ in loc], offsets=[o for _, o in loc])
            if maxmins:
                e['mins'] = {k: [float(gen.minmax_token(np.min(d[..., i]))).hex() for d in level.data] for i, k in enumerate(keys)}
                e['maxs'] = {k: [float(gen.minmax_token(np.max(d[..., i]))).hex() for d in level.data] for i, k in enumerate(keys)}
            cells.append(e)
        v['cells'] = cells
    return v


def first_diff(a, b, path=''):
    if type(a) != type(b):
        return f"{path}: {a!r} vs {b!r}"[:300]
    if isinstance(a, dict):
        for k in sorted(set(a) | set(b)):
            if k not in a or k not in b:
                return f"{path}/{k}: missing on one side"
            d = first_diff(a[k], b[k], path + '/' + str(k))
            if d:
                return d
        return None
    if isinstance(a, list):
        if len(a) != len(b):
            return f"{path}: length {len(a)} vs {len(b)}"
        for i, (x, y) in enumerate(zip(a, b)):
            d = first_diff(x, y, f"{path}[{i}]")
            if d:
                return d
        return None
    return None if a == b else f"{path}: {a!r} vs {b!r}"[:300]


def run_case(seed):
    from amr_kitchen import PlotfileCooker
    rng = random.Random(seed)
    model = core.W['model']
    out = dict(evals=0, keys=[], dist={}, samples=[], violations=[], disagreements=[])
    dist = out['dist']

    def count(k):
        dist[k] = dist.get(k, 0) + 1

    pf = gen.gen_plotfile(rng, allow_repeat=True, max_blocks=2, payload=rng.choice(['ints', 'random']), awkward=0.3, odd0=0.25, odd_names=0.25, domain_first=0.2, unicode_names=0.2)
    extra_ratio = rng.choice([0, 0, 1, 2])
    rq = random.Random(seed * 6131 + 7)
    if pf.nlevels >= 2 and rq.random() < 0.2:
        # refinement ratios other than 2 / differing between levels
        pf.ratios = (rq.choice([[4], [2, 4], [4, 2], [4, 4]]) + [2, 4])[:pf.nlevels - 1]
        pf.meta['ratios'] = list(pf.ratios)
    count(f"refinement ratios={pf.meta.get('ratios', 'all 2')}")
    rv = random.Random(seed * 4721 + 3)
    if rv.random() < 0.25:
        # the first Header line is the writing application's version name: any word
        pf.version = rv.choice(['NavierStokes-V1.1', 'CartGrid-V2.0', 'HyperCLaw-V1.2', 'MyApp-V1.1', 'plt'])
    count(f"version line={getattr(pf, 'version', 'HyperCLaw-V1.1')}")
    path = core.scratch_dir(f"c02_{seed}")
    htext, ctexts = write_from_model(pf, path, model, rng, extra_ratio)
    count(f"ndims={pf.ndims}")
    count(f"levels={pf.nlevels}")
    count(f"geo={pf.meta['geo']}")
    count(f"extra_ratio={extra_ratio}")
    count(f"repeated_names={len(set(pf.fields)) != len(pf.fields)}")
    # tie: the model's printer and the independent generator agree token for token
    if not same_text(htext, gen.header_text(pf, extra_ratio)) or \
            any(not same_text(ctexts[lv], gen.cell_h_text(pf, lv)) for lv in range(pf.nlevels)):
        out['disagreements'].append(dict(kind='printer', seed=seed, what='TextHeader.print_header/print_cellh differ from the generator writer',
                                         correspondence='TextHeader.print_* vs harness.gen.header_text/cell_h_text'))
        return out
    hdr_only_path = core.scratch_dir(f"c02_{seed}_h")
    os.makedirs(hdr_only_path)
    shutil.copy(os.path.join(path, 'Header'), hdr_only_path)
    finest = pf.nlevels - 1
    for limit_arg in [None] + list(range(pf.nlevels)) + [finest + 1, finest + 3]:
        for header_only, maxmins in ((False, False), (False, True), (True, False)):
            p = hdr_only_path if header_only else path
            impl = core.outcome(lambda: impl_view(PlotfileCooker(p, limit_level=limit_arg, header_only=header_only,
                                                                 maxmins=maxmins), header_only, maxmins))
            out['evals'] += 1
            count(f"mode={'header_only' if header_only else 'maxmins' if maxmins else 'plain'}")
            st, opened = model.call('open_header', [htext, opt(limit_arg)])
            mview = None
            if st == 'ok':
                cellhs = []
                ok = True
                if not header_only:
                    for lv in range(opened[2] + 1):
                        st2, c = model.call('parse_cellh', [ctexts[lv], len(opened[1]), maxmins])
                        ok &= st2 == 'ok'
                        cellhs.append(c)
                if ok:
                    mview = model_view(opened, cellhs, p, header_only, maxmins)
            iview = impl[1] if impl[0] == 'ok' else None
            desc = dict(seed=seed, limit_level=limit_arg, header_only=header_only, maxmins=maxmins, meta=pf.meta,
                        fields=pf.fields)
            valid = limit_arg is None or limit_arg <= finest
            count('outcome=' + ('opened' if iview is not None else 'refused'))
            bad = None
            if valid:
                lim = finest if limit_arg is None else limit_arg
                exp = oracle_view(pf, p, lim, header_only, maxmins, extra_ratio)
                out['keys'].append(core.khash(seed, limit_arg, header_only, maxmins))
                if iview is None:
                    bad = 'opening a well-formed plotfile raised: ' + impl[1]
                else:
                    d = first_diff(iview, exp)
                    if d:
                        bad = 'exposed metadata differs from what the headers state: ' + d
                    else:
                        # cell-centre grids (float arithmetic: tolerance)
                        pck = PlotfileCooker(p, limit_level=limit_arg, header_only=True)
                        for lv in range(lim + 1):
                            for d_ in range(pf.ndims):
                                want = pf.geo_low[d_] + (np.arange(pf.grid_size(lv)[d_]) + 0.5) * pf.dx(lv)[d_]
                                if len(pck.grids[lv][d_]) != len(want) or not np.allclose(pck.grids[lv][d_], want, rtol=1e-12, atol=1e-14):
                                    bad = f'grids[{lv}][{d_}] are not the cell centres'
                if not out['samples'] and iview is not None:
                    out['samples'].append(dict(desc, exposed={k: iview[k] for k in ('fields', 'ndims', 'time', 'limit', 'grid_sizes', 'npoints')}))
            else:
                if iview is not None:
                    bad = 'a level limit above the finest level was accepted'
            if bad:
                out['violations'].append(dict(desc, kind='metadata' if valid else 'limit-not-refused', what=bad))
            elif iview != mview:
                out['disagreements'].append(dict(desc, kind='model-vs-impl',
                                                 what='implementation and Coq model (TextHeader.open_header / p_cellh) disagree: ' +
                                                      str(first_diff(iview, mview) if iview and mview else (impl[1] if iview is None else 'model refuses')),
                                                 correspondence='Plotfile.TextHeader.open_header/p_cellh vs PlotfileCooker.__init__'))
    return out


def huge_offset_case(_):
    """a binary file above 2 GiB (sparse): the offsets the reader exposes are the ones the level header states"""
    from amr_kitchen import PlotfileCooker
    out = dict(evals=1, keys=[core.khash('huge-offset')], dist={'case=binary file above 2 GiB': 1}, samples=[], violations=[], disagreements=[])
    path = os.path.join(core.scratch_dir('c02_huge'), 'plt_big')
    os.makedirs(os.path.dirname(path))
    pf, off1, small = gen.write_huge_offset_plotfile(path)
    desc = dict(case='binary file of 2 GiB + (sparse), second box at offset %d' % off1, case_fn='huge_offset_case', seed=0)
    for maxmins in (False, True):
        res = core.outcome(lambda: PlotfileCooker(path, maxmins=maxmins))
        if res[0] != 'ok':
            out['violations'].append(dict(desc, kind='open-raised', what='opening a well-formed plotfile raised: ' + res[1]))
            return out
        pck = res[1]
        got = ([int(o) for o in pck.cells[0]['offsets']], [os.path.basename(str(f)) for f in pck.cells[0]['files']],
               [[list(map(int, lo)), list(map(int, hi))] for lo, hi in pck.cells[0]['indexes']])
        want = ([0, off1], ['Cell_D_00000', 'Cell_D_00000'], [[list(lo), list(hi)] for lo, hi in pf.levels[0].boxes])
        if got != want:
            out['violations'].append(dict(desc, kind='wrong-metadata',
                                          what=f"exposed metadata differs from what the headers state: offsets / files / index ranges {got} instead of {want}"))
            return out
    return out


def run(tier, seed):
    rep = core.Report(PID, tier, seed)
    pg = core.proof_gate(PID, thorough=(tier == 'thorough'))
    for t in pg['theorems']:
        rep.obligation('theorem ' + t, pg['ok'])
    if not pg['ok']:
        rep.violations.append((dict(kind='proof', what='proof obligations of Props/C02.v no longer check',
                                    theorem=pg['theorems'], problems=pg['problems']), False))
    ncases = 40 if tier == 'quick' else 500
    cases = [seed * 100000 + 2000 + i for i in range(ncases)]
    for r in core.run_cases(run_case, core.with_corpus(PID, cases)):
        rep.merge(r)
    for r in core.run_cases(huge_offset_case, [0]):
        rep.merge(r)
    rep.obligation('correspondence: TextHeader.print_* = generator writer (token for token)',
                   not any(v[0].get('kind') == 'printer' for v in rep.violations))
    rep.obligation('correspondence: TextHeader.open_header / p_cellh = PlotfileCooker.__init__ attributes',
                   not any(v[0].get('kind') == 'model-vs-impl' for v in rep.violations))
    return rep.finish(
        level_rule=("cases = generated plotfile (2D/3D, 1-4 levels, zero/non-zero origin, isotropic/anisotropic cells, repeated field names, "
                    "refinement-ratio line 0-2 entries longer than needed, trailing blanks) x limit_level in {None, 0..finest, finest+1, finest+3} "
                    "x {plain, maxmins, header_only with level directories absent}; non-trivial = valid limit; distinct = distinct (seed, limit, mode)"),
        trusted_base=core.COMMON_TRUSTED,
        assumptions=["Python float()/int()/str.split on the rendered tokens behave as TextHeader.float_ok / Text.py_int / line-token model",
                     "float(repr(x)) == x", "np.linspace cell centres compared with the closed form within rtol 1e-12 (IEEE rounding not modelled)"],
        checker_cmd=pg['checker_cmd'])
