"""C06 - combine merges fields box by box, independent of either input's file layout."""
import copy
import os
import random
import numpy as np
from harness import core, gen, diskimg, oracle
from harness.sx import opt
from harness.props import c01, c02
from harness.props import taste_common as tc

PID = 'C06'


def second_plotfile(rng, pf1, relation):
    """a plotfile on pf1's mesh with its own fields, data and binary layout"""
    pf2 = copy.deepcopy(pf1)
    pool = [f for f in gen.FIELD_POOL if ' ' not in f]
    n = rng.randint(1, 4)
    names = rng.sample(pool, n)
    if rng.random() < 0.4:      # share a name with the first plotfile
        names[rng.randrange(n)] = rng.choice(pf1.fields)
        names = list(dict.fromkeys(names))
    pf2.fields = names
    pf2.time = rng.choice([pf1.time, 3.25])
    base = 100000
    for lv, lev in enumerate(pf2.levels):
        lev.data = []
        for lo, hi in lev.boxes:
            shape = tuple(h - l + 1 for l, h in zip(lo, hi)) + (len(names),)
            lev.data.append(gen.gen_payload(rng, shape, pf1.meta['payload'], base))
            base += int(np.prod(shape))
        if relation == 'mixed':
            rel = rng.choice(['same', 'same_files_permuted', 'different'])
        elif relation == 'escalating':
            # the mode needed grows with the level: plain, then same files in another order, then other files
            n = len(pf2.levels)
            rel = 'different' if lv == n - 1 and n > 1 else ('same_files_permuted' if lv >= n - 2 or n <= 2 else 'same')
        else:
            rel = relation
        if rel == 'same':
            pass
        elif rel == 'same_files_permuted':
            files = []
            for name, members in lev.files:
                m = list(members)
                rng.shuffle(m)
                files.append((name, m))
            lev.files = files
        else:
            lev.files, _ = gen.gen_layout(rng, len(lev.boxes))
    return pf2


def mismatch(rng, pf2):
    """breaks the common mesh; -> description"""
    kind = rng.choice(['drop_level', 'move_box', 'drop_box', 'shift_all'])
    if kind == 'drop_level' and pf2.nlevels > 1:
        pf2.levels.pop()
        return 'second plotfile has one level less'
    lv = rng.randrange(pf2.nlevels)
    lev = pf2.levels[lv]
    if kind == 'drop_box' and len(lev.boxes) > 1 and lv > 0:
        b = rng.randrange(len(lev.boxes))
        lev.boxes.pop(b)
        lev.data.pop(b)
        lev.files = [(n, [m - (m > b) for m in mem if m != b]) for n, mem in lev.files]
        lev.files = [(n, mem) for n, mem in lev.files if mem]
        return f'second plotfile lacks box {b} of level {lv}'
    b = rng.randrange(len(lev.boxes))
    lo, hi = lev.boxes[b]
    d = rng.randrange(3)
    s = pf2.bf
    lo2 = list(lo); hi2 = list(hi)
    lo2[d] += s; hi2[d] += s
    lev.boxes[b] = (tuple(lo2), tuple(hi2))
    return f'box {b} of level {lv} of the second plotfile is shifted by {s} cells along axis {d}'


def mismatch2(rng, pf2):
    """the same boxes listed in another order ('PERMUTED: ...': the box SET is
    the same, so either a refusal or an output paired by index range is right),
    or boxes with the same per-axis coordinate multisets that are other boxes.
    -> description or None when the mesh has no two boxes to do it with"""
    cands = [lv for lv in range(pf2.nlevels) if len(pf2.levels[lv].boxes) > 1]
    if not cands:
        return None
    lv = rng.choice(cands)
    lev = pf2.levels[lv]
    if rng.random() < 0.35:
        # the second plotfile's level is the first one's with its LAST box missing (every box it lists matches)
        b = len(lev.boxes) - 1
        lev.boxes.pop(b)
        lev.data.pop(b)
        lev.files = [(n, [m for m in mem if m != b]) for n, mem in lev.files]
        lev.files = [(n, mem) for n, mem in lev.files if mem]
        return f'second plotfile lacks the last box of level {lv} (its boxes are a prefix of the first one\'s)'
    shape = lambda b: tuple(h - l + 1 for l, h in zip(*b))
    pairs = [(a, b) for a in range(len(lev.boxes)) for b in range(a + 1, len(lev.boxes)) if shape(lev.boxes[a]) == shape(lev.boxes[b])]
    if not pairs:
        return None
    a, b = rng.choice(pairs)
    if rng.random() < 0.5:
        lev.boxes[a], lev.boxes[b] = lev.boxes[b], lev.boxes[a]
        return f'PERMUTED: boxes {a} and {b} of level {lv} of the second plotfile are listed in the other order'
    (lo1, hi1), (lo2, hi2) = lev.boxes[a], lev.boxes[b]
    axes = [d for d in range(3) if lo1[d] != lo2[d]]
    if len(axes) < 2:
        return None
    d = rng.choice(axes)
    n1 = (tuple(lo2[k] if k == d else lo1[k] for k in range(3)), tuple(hi2[k] if k == d else hi1[k] for k in range(3)))
    n2 = (tuple(lo1[k] if k == d else lo2[k] for k in range(3)), tuple(hi1[k] if k == d else hi2[k] for k in range(3)))
    if n1 in lev.boxes or n2 in lev.boxes:
        return None
    lev.boxes[a], lev.boxes[b] = n1, n2
    return f'boxes {a} and {b} of level {lv} of the second plotfile exchange their axis-{d} ranges (same per-axis coordinates, other boxes)'


def gen_sel(rng, keys, side):
    kind = rng.choice(['none', 'none', 'list', 'list', 'string', 'with_unknown', 'perm'])
    if kind == 'none':
        return kind, None
    k = rng.randint(1, len(keys))
    sel = sorted(rng.sample(keys, k), key=keys.index)
    if kind == 'perm':
        rng.shuffle(sel)
    if kind == 'with_unknown':
        sel.insert(rng.randint(0, len(sel)), 'no_such_field')
    if kind == 'string':
        if any(' ' in s for s in sel):
            return 'list', sel
        return kind, ' '.join(sel)
    return kind, sel


def resolve(keys1, keys2, v1, v2):
    """the property's reading of the selections -> (names1, names2) or None when nothing is left"""
    def lst(v, keys):
        if v is None:
            return list(keys)
        if isinstance(v, str):
            v = v.split()
        return [x for x in v if x in keys]
    n1 = lst(v1, keys1)
    n2 = [x for x in lst(v2, keys2) if x not in n1]
    return n1, n2


def check_contents(oc, pf1, pf2, keys1, keys2, n1, n2):
    names = n1 + n2
    if oc['fields'] != names:
        return f"fields {oc['fields']} instead of {names}"
    if len(oc['levels']) != pf1.nlevels:
        return f"{len(oc['levels'])} levels instead of {pf1.nlevels}"
    if oc['ndims'] != 3 or oc['time'] != pf1.time or oc['geo_low'] != [float(x) for x in pf1.geo_low] \
            or oc['geo_high'] != [float(x) for x in pf1.geo_high()]:
        return "time / dimensionality / domain bounds differ from the first input"
    i1 = [keys1.index(n) for n in n1]
    i2 = [keys2.index(n) for n in n2]
    for lv in range(pf1.nlevels):
        l1, l2, o = pf1.levels[lv], pf2.levels[lv], oc['levels'][lv]
        if oc['dx'][lv] != [float(x) for x in pf1.dx(lv)] or list(oc['grid'][lv]) != [s - 1 for s in pf1.grid_size(lv)]:
            return f"level {lv}: cell sizes / grid sizes differ"
        if o['boxes'] != l1.boxes:
            return f"level {lv}: boxes differ from the inputs' (order included)"
        for (lo, hi), data, bnd, mn, mx in zip(o['boxes'], o['data'], o['bounds'], o['mins'], o['maxs']):
            b1 = l1.boxes.index((lo, hi))
            b2 = l2.boxes.index((lo, hi))
            want = np.concatenate([l1.data[b1][..., i1], l2.data[b2][..., i2]], axis=-1)
            if data.shape != want.shape or data.tobytes(order='F') != np.asarray(want, dtype='<f8').tobytes(order='F'):
                return f"level {lv} box {lo}-{hi}: values are not bit-identical to the two source boxes with the same index range"
            if bnd != [(float(a), float(c)) for a, c in gen.box_bounds(pf1, lv, lo, hi)]:
                return f"level {lv} box {lo}-{hi}: physical bounds differ"
            wmin = [gen.minmax_token(np.min(l1.data[b1][..., c])).encode() for c in i1] + \
                   [gen.minmax_token(np.min(l2.data[b2][..., c])).encode() for c in i2]
            wmax = [gen.minmax_token(np.max(l1.data[b1][..., c])).encode() for c in i1] + \
                   [gen.minmax_token(np.max(l2.data[b2][..., c])).encode() for c in i2]
            if mn != wmin or mx != wmax:
                return f"level {lv} box {lo}-{hi}: min/max rows are not assembled from the two sources"
    return None


def run_case(seed):
    from amr_kitchen import PlotfileCooker
    from amr_kitchen.combine import combine
    rng = random.Random(seed)
    model = core.W['model']
    out = dict(evals=0, keys=[], dist={}, samples=[], violations=[], disagreements=[])
    dist = out['dist']

    def count(k):
        dist[k] = dist.get(k, 0) + 1

    pf1 = gen.gen_plotfile(rng, ndims=3, max_blocks=2, nfields=(1, 4), nlevels=rng.choice([1, 2, 2, 3]),
                           payload=rng.choice(['ints', 'random', 'special']))
    pf1.fields = [f.replace(' ', '_') for f in pf1.fields]
    ra = random.Random(seed * 977 + 4)
    if ra.random() < 0.15 and len(pf1.fields) >= 2 and 'all' not in pf1.fields:
        # a field that is called like the 'all' keyword of other tools: for combine it is a name like any other
        pf1.fields[ra.randrange(len(pf1.fields))] = 'all'
    relation = rng.choice(['same', 'same_files_permuted', 'same_files_permuted', 'different', 'different', 'mixed', 'mixed', 'mixed',
                           'escalating', 'escalating'])
    # geometry scales on which a comparison of PHYSICAL box bounds with a tolerance cannot tell two meshes apart
    # (a domain far from the origin with small cells; a nanometre-scale domain): index ranges must be compared
    scale = rng.choice(['unit', 'unit', 'far-origin', 'nano'])
    if scale == 'far-origin':
        pf1.geo_low = [1024.0 * rng.choice([1, -2, 3]) for _ in pf1.geo_low]
        pf1.dx0 = [2.0 ** -10] * 3
    elif scale == 'nano':
        pf1.geo_low = [x * 2.0 ** -30 for x in pf1.geo_low]
        pf1.dx0 = [x * 2.0 ** -30 for x in pf1.dx0]
    pf2 = second_plotfile(rng, pf1, relation)
    bad_mesh = None
    if rng.random() < 0.25:
        r2 = random.Random(seed * 7919 + 13)
        if r2.random() < 0.45:
            bad_mesh = mismatch2(r2, pf2)
        if not bad_mesh:
            bad_mesh = mismatch(rng, pf2)
    keys1 = c01.reader_keys(pf1.fields)
    keys2 = c01.reader_keys(pf2.fields)
    p1 = core.scratch_dir(f"c06a_{seed}")
    p2 = core.scratch_dir(f"c06b_{seed}")
    img1, img2 = diskimg.image_of(pf1), diskimg.image_of(pf2)
    diskimg.write_image(img1, p1)
    diskimg.write_image(img2, p2)
    rl = random.Random(seed * 389 + 1)
    if rl.random() < 0.25:
        # level directories / binary files of the inputs that are symbolic links to differently named targets
        pf1.meta['symlinks'] = gen.symlink_parts(p1, core.scratch_dir(f"c06a_{seed}_store"), rl)
        if rl.random() < 0.5:
            pf2.meta['symlinks'] = gen.symlink_parts(p2, core.scratch_dir(f"c06b_{seed}_store"), rl)
    count(f"symbolic links inside the inputs={'symlinks' in pf1.meta}")
    count(f"layouts={relation}")
    count(f"levels={pf1.nlevels}")
    count(f"first_monotone={all(k == 'monotone' for k in pf1.meta['layouts'])}")
    count(f"mesh={'mismatch' if bad_mesh else 'common'}")
    count(f"geometry scale={scale}")
    for k in range(2 if not bad_mesh else 1):
        k1, v1 = gen_sel(rng, keys1, 1)
        k2, v2 = gen_sel(rng, keys2, 2)
        if k == 0 and 'all' in keys1:
            k1, v1 = 'the field named all, alone', ra.choice([['all'], 'all'])
        if k == 0 and 'all' in keys2 and ra.random() < 0.5:
            k2, v2 = 'the field named all, alone', ra.choice([['all'], 'all'])
        count(f"vars1={k1}")
        count(f"vars2={k2}")
        outp = os.path.join(core.scratch_dir(f"c06_{seed}_out"), 'combined')
        os.makedirs(os.path.dirname(outp))
        desc = dict(seed=seed, layouts=relation, vars1=v1, vars2=v2, fields1=keys1, fields2=keys2, meta1=pf1.meta,
                    layouts2=[[list(m) for _, m in lev.files] for lev in pf2.levels], mesh_mismatch=bad_mesh)
        core.set_policy(rng.choice(['identity', 'reverse', 'random']), seed + k)
        res = core.outcome(lambda: combine(PlotfileCooker(p1), PlotfileCooker(p2), pltout=outp,
                                           vars1=copy.copy(v1), vars2=copy.copy(v2)))
        core.set_policy('identity', 0)
        out['evals'] += 1
        out['keys'].append(core.khash(seed, k))
        n1, n2 = resolve(keys1, keys2, v1, v2)
        if bad_mesh:
            written = os.path.exists(outp) and any(True for _ in os.scandir(outp))
            if bad_mesh.startswith('PERMUTED') and res[0] == 'ok':
                # same box set in another order: accepted -> the boxes must be paired by index range
                try:
                    bad = check_contents(oracle.contents_of_image(oracle.read_image(outp)), pf1, pf2, keys1, keys2, n1, n2)
                except (ValueError, IndexError, KeyError) as e:
                    bad = f'output is not a well-formed plotfile: {e}'
                if bad:
                    out['violations'].append(dict(desc, kind='wrong-output', what=bad + ' (' + bad_mesh + ')'))
                continue
            if res[0] == 'ok':
                out['violations'].append(dict(desc, kind='mismatch-accepted', what='inputs on different meshes were combined: ' + bad_mesh))
            elif written:
                out['violations'].append(dict(desc, kind='mismatch-wrote', what='the refusal came after something was written to the output: ' + bad_mesh))
            continue
        if not n1 or not n2:
            # nothing to take from one side: the tool refuses (by design)
            if res[0] == 'ok':
                out['disagreements'].append(dict(desc, kind='model-vs-impl', what='an empty selection was combined',
                                                 correspondence='Writers.Combine.combine vs combine'))
            continue
        bad = None
        iimg = None
        if res[0] != 'ok':
            bad = 'combining two plotfiles on a common mesh raised: ' + res[1]
        else:
            iimg = oracle.read_image(outp)
            try:
                oc = oracle.contents_of_image(iimg)
                bad = check_contents(oc, pf1, pf2, keys1, keys2, n1, n2)
            except (ValueError, IndexError, KeyError) as e:
                bad = f'output is not a well-formed plotfile: {e}'
            if not bad:
                v, detail = tc.impl_taste(outp, None, (True, True, False, True), True)
                if v != 'good':
                    bad = f'validation does not accept the output: {v} {detail}'
        if bad:
            out['violations'].append(dict(desc, kind='wrong-output', what=bad))
            continue
        if not out['samples']:
            out['samples'].append(dict(desc, output_fields=n1 + n2))
        if MODEL:
            st, m = model.call('combine', [[x.encode() for x in n1], [x.encode() for x in n2],
                                           diskimg.image_sx(img1), diskimg.image_sx(img2)])
            mimg = oracle.image_from_sx(m) if st == 'ok' else None
            d = 'model refuses' if mimg is None else oracle.same_image(iimg, mimg)
            if d:
                out['disagreements'].append(dict(desc, kind='model-vs-impl',
                                                 what='output directory differs from Writers.Combine.combine: ' + d,
                                                 correspondence='Writers.Combine.combine vs combine'))
            # specification side: the abstract plotfiles of theorem C06_tool; their images must be the two
            # directories on disk, the image of combine_spec the output of the tool model (and of the tool)
            def pf_sx(pf):
                return [c02.gheader_sx(pf), [[c02.lvboxes_sx(pf, lv), gen.level_to_sx(pf, lv), c02.cellh_sx(pf, lv)[3],
                                              c02.cellh_sx(pf, lv)[4]] for lv in range(pf.nlevels)]]
            if k == 0:
                for which, pfx in (('first', pf1), ('second', pf2)):
                    stg, gb = model.call('goodb', pf_sx(pfx))
                    count(f"hypothesis 'good' of the tool theorem holds={stg == 'ok' and gb == 1}")
                    if not (stg == 'ok' and gb == 1):
                        out['disagreements'].append(dict(desc, kind='hypothesis', what=f"the {which} generated plotfile does not satisfy 'good' "
                                                         "(goodb = false): the instance of theorem C06_tool is not covered by the theorem",
                                                         correspondence='Writers.GoodB.goodb'))
            st2, sp = model.call('combine_spec', [pf_sx(pf1), pf_sx(pf2), [x.encode() for x in n1], [x.encode() for x in n2]])
            if st2 != 'ok':
                out['disagreements'].append(dict(desc, kind='spec', what='the specification entry refuses the abstract plotfiles',
                                                 correspondence='Plotfile.Abstract.pf_disk'))
            else:
                if k == 0:
                    for which, im, sxi in (('first', img1, sp[0]), ('second', img2, sp[1])):
                        d0 = oracle.same_image(im, oracle.image_from_sx(sxi))
                        if d0:
                            out['disagreements'].append(dict(desc, kind='encode',
                                                             what=f'Abstract.pf_disk of the {which} abstract plotfile differs from the directory on disk: ' + d0,
                                                             correspondence='Plotfile.Abstract.pf_disk vs the generator writer'))
                spec_img = oracle.image_from_sx(sp[2][1]) if sp[2][0] == 0 else None
                count(f"pure operation defined={spec_img is not None}")
                if spec_img is None:
                    out['disagreements'].append(dict(desc, kind='spec-vs-model', what='combine_pure is undefined on a pair the tool combined',
                                                     correspondence='Writers.CombineSpec.combine_pure'))
                else:
                    dspec = 'the tool model refuses' if mimg is None else oracle.same_image(mimg, spec_img)
                    if dspec:
                        out['disagreements'].append(dict(desc, kind='spec-vs-model',
                                                         what='theorem C06_tool instance: combine_tool(pf_disk pf1, pf_disk pf2) differs from pf_disk(combine_spec): ' + dspec,
                                                         correspondence='Writers.CombineToolProofs.combine_refines'))
    return out


MODEL = True


def two_dirs_combine(seed):
    return core.two_dirs_case(PID, 'combine', seed)


def run(tier, seed):
    rep = core.Report(PID, tier, seed)
    pg = core.proof_gate(PID, thorough=(tier == 'thorough'))
    for t in pg['theorems']:
        rep.obligation('theorem ' + t, pg['ok'])
    if not pg['ok']:
        rep.violations.append((dict(kind='proof', what='proof obligations of Props/C06.v no longer check',
                                    theorem=pg['theorems'], problems=pg['problems']), False))
    ncases = 60 if tier == 'quick' else 800
    cases = [seed * 100000 + 6000 + i for i in range(ncases)]
    for r in core.run_cases(run_case, core.with_corpus(PID, cases)):
        rep.merge(r)
    for r in core.run_cases(two_dirs_combine, [seed * 100000 + 99000 + i for i in range(1 if tier == 'quick' else 5)]):
        rep.merge(r)
    rep.obligation('correspondence: Writers.Combine.combine = output directory of combine (binary files byte for byte, level headers '
                   'token for token, global header with floats by value)',
                   not any(v[0].get('kind') == 'model-vs-impl' for v in rep.violations))
    rep.obligation('correspondence: Abstract.pf_disk of both abstract plotfiles = the directories on disk the implementation reads',
                   not any(v[0].get('kind') in ('encode', 'spec') for v in rep.violations))
    rep.obligation("hypotheses of C06_tool on every combined pair: goodb = true for both plotfiles (proved sound for 'good')",
                   not any(v[0].get('kind') == 'hypothesis' for v in rep.violations))
    rep.obligation('theorem instance (C06_tool) on every combined pair: combine_tool (pf_disk pf1) (pf_disk pf2) = pf_disk (combine_spec ...), '
                   'evaluated by the extracted code', not any(v[0].get('kind') == 'spec-vs-model' for v in rep.violations))
    return rep.finish(
        level_rule=("cases = pair of generated 3D plotfiles on a common mesh (1-3 levels, mixed boxes, int / random / special payloads) with "
                    "independently chosen binary layouts: identical / same files with permuted in-file order / unrelated files; x 2 "
                    "(selection for each side: None, name list, permuted list, space-separated string, with unknown names; shared field "
                    "names); 20% of the pairs on different meshes (level dropped, box moved, box missing) must be refused before any write; "
                    "output parsed by the independent reader and validated with box coordinates"),
        trusted_base=core.COMMON_TRUSTED + [
            "PlotfileCooker.__eq__ uses np.allclose on index ranges: exact for indices below 1e5 (generated sizes are far below)"],
        assumptions=["float(repr(x)) == x: float tokens the tool re-prints are compared by value"],
        checker_cmd=pg['checker_cmd'])


def replay(doc):
    core.worker_init(core.REPO, quiet=False)
    r = run_case(doc['seed'])
    bad = r['violations'] + r['disagreements']
    for v in bad:
        print('REPLAY:', v.get('what'))
    return 1 if bad else 0
