"""sx wire format and client for the extracted Coq model (coq/extract/driver).

sx text:  INT | #HEX | ( sx* ).   Python side: int <-> INT, bytes <-> #HEX,
list/tuple <-> ( ... ).  bool is sent as 0/1, None as ()."""
import os
import subprocess

HERE = os.path.dirname(os.path.abspath(__file__))
DRIVER = os.environ.get('VERIF_DRIVER') or os.path.join(HERE, '..', 'coq', 'extract', 'driver')


def dumps(x, out=None):
    top = out is None
    if top:
        out = []
    if isinstance(x, bool):
        out.append('1' if x else '0')
    elif isinstance(x, int):
        out.append(str(x))
    elif isinstance(x, (bytes, bytearray)):
        out.append('#' + bytes(x).hex())
    elif isinstance(x, str):
        out.append('#' + x.encode('ascii').hex())
    elif x is None:
        out.append('()')
    elif isinstance(x, (list, tuple)):
        out.append('(')
        for y in x:
            dumps(y, out)
        out.append(')')
    else:
        try:
            import numpy as np
            if isinstance(x, np.integer):
                out.append(str(int(x)))
                return
        except ImportError:
            pass
        raise TypeError(f"cannot encode {type(x)}")
    if top:
        return ' '.join(out)


def loads(s):
    pos = 0
    n = len(s)
    stack = [[]]
    while pos < n:
        c = s[pos]
        if c == ' ':
            pos += 1
        elif c == '(':
            stack.append([])
            pos += 1
        elif c == ')':
            l = stack.pop()
            stack[-1].append(l)
            pos += 1
        else:
            j = pos
            while j < n and s[j] not in ' ()':
                j += 1
            tok = s[pos:j]
            if tok[0] == '#':
                stack[-1].append(bytes.fromhex(tok[1:]))
            else:
                stack[-1].append(int(tok))
            pos = j
    assert len(stack) == 1 and len(stack[0]) == 1, "bad sx"
    return stack[0][0]


def opt(x):
    """Python None / value -> sx option"""
    return [] if x is None else [x]


class ModelError(Exception):
    pass


class Model:
    """One driver subprocess; call(name, arg) -> decoded result.
    Results follow Sx.v: (0 v) -> ('ok', v); (1) -> ('err', None);
    (2) = request did not decode -> raises ModelError (harness bug)."""

    def __init__(self):
        if not os.path.exists(DRIVER):
            raise ModelError("model driver not built; run ./setup.sh")
        self.p = subprocess.Popen(
            ['bash', '-c', 'ulimit -s unlimited 2>/dev/null; exec "$0"', DRIVER],
            stdin=subprocess.PIPE, stdout=subprocess.PIPE, text=True, bufsize=1 << 20)
        self.calls = 0

    def raw(self, name, arg):
        self.calls += 1
        self.p.stdin.write(name + ' ' + dumps(arg) + '\n')
        self.p.stdin.flush()
        line = self.p.stdout.readline()
        if not line:
            raise ModelError(f"model driver died on {name}")
        line = line.rstrip('\n')
        if line.startswith('!'):
            raise ModelError(f"{name}: {line}")
        return loads(line)

    def call(self, name, arg):
        r = self.raw(name, arg)
        if r[0] == 0:
            return ('ok', r[1])
        if r[0] == 1:
            return ('err', None)
        raise ModelError(f"{name}: request rejected by the model decoder")

    def close(self):
        try:
            self.p.stdin.close()
            self.p.wait(timeout=5)
        except Exception:
            self.p.kill()
