#!/bin/bash
# Builds the Coq development (full .vo build) and the extracted model driver.
set -e
cd "$(dirname "$0")/coq"
coq_makefile -f _CoqProject -o Makefile >/dev/null
timeout 3000 make -j12
./extract/build.sh
echo setup-ok
