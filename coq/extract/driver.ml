(* Hand-written, trusted: reads "name sx" lines, prints one sx line.
   sx text:  INT | #HEX | ( sx* )     (INT decimal, converted by the extracted
   Coq functions z_of_string / string_of_z) *)
open Model

let explode s = List.init (String.length s) (String.get s)
let implode l = let b = Buffer.create 16 in List.iter (Buffer.add_char b) l; Buffer.contents b

let hexval c = match c with
  | '0'..'9' -> Char.code c - 48
  | 'a'..'f' -> Char.code c - 87
  | _ -> failwith "hex"

let parse (s : string) (start : int) : sx * int =
  let n = String.length s in
  let rec skip i = if i < n && s.[i] = ' ' then skip (i+1) else i in
  let rec item i =
    let i = skip i in
    if i >= n then failwith "eof" else
    match s.[i] with
    | '(' -> let (l, j) = items (i+1) [] in (SL l, j)
    | '#' ->
        let j = ref (i+1) in
        while !j < n && s.[!j] <> ' ' && s.[!j] <> ')' && s.[!j] <> '(' do incr j done;
        let len = (!j - i - 1) / 2 in
        let rec build k acc = if k < 0 then acc else
          build (k-1) (Char.chr (16 * hexval s.[i+1+2*k] + hexval s.[i+2+2*k]) :: acc) in
        (SB (build (len-1) []), !j)
    | _ ->
        let j = ref i in
        while !j < n && s.[!j] <> ' ' && s.[!j] <> ')' && s.[!j] <> '(' do incr j done;
        (match z_of_string (explode (String.sub s i (!j - i))) with
         | Some z -> (SZ z, !j)
         | None -> failwith "int")
  and items i acc =
    let i = skip i in
    if i >= n then failwith "eof in list" else
    if s.[i] = ')' then (List.rev acc, i+1)
    else let (x, j) = item i in items j (x :: acc)
  in item start

let rec print b (x : sx) = match x with
  | SZ z -> List.iter (Buffer.add_char b) (string_of_z z)
  | SB l -> Buffer.add_char b '#';
            List.iter (fun c -> Buffer.add_string b (Printf.sprintf "%02x" (Char.code c))) l
  | SL l -> Buffer.add_char b '(';
            List.iteri (fun i y -> if i > 0 then Buffer.add_char b ' '; print b y) l;
            Buffer.add_char b ')'

let () =
  try
    while true do
      let line = input_line stdin in
      let sp = try String.index line ' ' with Not_found -> String.length line in
      let name = String.sub line 0 sp in
      let out = Buffer.create 1024 in
      (try
         let (arg, _) = parse line sp in
         print out (dispatch (explode name) arg)
       with Failure m -> Buffer.add_string out ("!driver-error " ^ m)
          | Stack_overflow -> Buffer.add_string out "!driver-error stack-overflow");
      print_string (Buffer.contents out); print_newline (); flush stdout
    done
  with End_of_file -> ()
