(* Extraction of the model's entry points to OCaml.
   Directives in force (all from the two standard plugins below, none of ours):
     ExtrOcamlBasic : Extract Inductive bool, option, unit, list, prod, sumbool,
                      sumor (to the OCaml built-ins), Extract Inlined Constant
                      andb, orb, negb-free basics
     ExtrOcamlString: Extract Inductive ascii => char, string => char list,
                      Extract (Inlined) Constant zero, one, shift, ascii_dec /
                      Ascii.eqb, Ascii.compare helpers
   Z, N, positive and nat stay the Coq inductive types. *)
From Coq Require Extraction ExtrOcamlBasic ExtrOcamlString.
From AK Require Import Entry.
Extraction Language OCaml.
Extraction "model.ml" dispatch z_of_string string_of_z.
