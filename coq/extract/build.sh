#!/bin/sh
# builds the extracted model executable (run from anywhere)
set -e
cd "$(dirname "$0")"
timeout 600 coqc -Q ../theories AK Extract.v
rm -f model.mli
timeout 600 ocamlfind ocamlopt -O3 -w -a -package str model.ml driver.ml -o driver 2>/dev/null || \
timeout 600 ocamlfind ocamlopt -w -a model.ml driver.ml -o driver
