(* Process pools: what the parent sees and what the file system holds do not
   depend on the order in which tasks execute and complete.

   A pool call is a list of tasks executed in some order sigma (every order
   of start and completion at task granularity is a permutation of the task
   indices).  map / imap hand the results back by task index; workers touch
   the file system. *)
From AK Require Import Base.Prelude.
From Coq Require Import Permutation.

(* ------------------------------------------------------------------ *)
(** * ordered delivery: results are paired with tasks by index *)
Section Ordered.
Context {T R : Type}.
Variable f : T -> R.                     (* a worker whose result depends on its task only *)

Definition set_res (tbl : nat -> option R) (i : nat) (r : R) : nat -> option R :=
  fun k => if (k =? i)%nat then Some r else tbl k.

(* the result table after the tasks ran in order sigma *)
Definition run_order (tasks : list T) (sigma : list nat) : nat -> option R :=
  fold_left (fun tbl i => match nth_error tasks i with
                          | Some t => set_res tbl i (f t)
                          | None => tbl
                          end) sigma (fun _ => None).

(* map / imap: the parent reads the table in task order *)
Definition deliver_ordered (tasks : list T) (sigma : list nat) : list (option R) :=
  map (run_order tasks sigma) (seq 0 (length tasks)).

Lemma run_order_spec : forall tasks sigma k,
  run_order tasks sigma k = if existsb (Nat.eqb k) sigma then option_map f (nth_error tasks k) else None.
Proof.
  intros tasks sigma k. unfold run_order.
  assert (G : forall tbl, (nth_error tasks k = None -> tbl k = None) ->
              fold_left (fun tbl i => match nth_error tasks i with
                          | Some t => set_res tbl i (f t) | None => tbl end) sigma tbl k
              = if existsb (Nat.eqb k) sigma then option_map f (nth_error tasks k) else tbl k).
  { induction sigma as [|i sigma IH]; intros tbl Htbl; cbn [fold_left existsb]; [reflexivity|].
    rewrite IH.
    - destruct (existsb (Nat.eqb k) sigma) eqn:E.
      + rewrite orb_true_r. reflexivity.
      + rewrite orb_false_r. destruct (Nat.eqb_spec k i) as [->|Hne].
        * destruct (nth_error tasks i) eqn:En; [unfold set_res; rewrite Nat.eqb_refl; reflexivity|].
          cbn [option_map]. apply Htbl. reflexivity.
        * destruct (nth_error tasks i); [unfold set_res|reflexivity].
          destruct (Nat.eqb_spec k i); [congruence | reflexivity].
    - intros Hk. destruct (nth_error tasks i) eqn:En; [|apply Htbl; exact Hk].
      unfold set_res. destruct (Nat.eqb_spec k i) as [->|]; [congruence | apply Htbl; exact Hk]. }
  rewrite G by reflexivity. destruct (existsb (Nat.eqb k) sigma); reflexivity.
Qed.

(* Whatever the execution order - any sequence that runs every task at least
   once - map / imap deliver map f tasks. *)
Theorem ordered_pairing : forall tasks sigma,
  (forall i, (i < length tasks)%nat -> In i sigma) ->
  deliver_ordered tasks sigma = map (fun t => Some (f t)) tasks.
Proof.
  intros tasks sigma Hall. unfold deliver_ordered.
  apply (nth_ext _ _ None None).
  - rewrite !map_length, seq_length. reflexivity.
  - intros k Hk. rewrite map_length, seq_length in Hk.
    rewrite (nth_indep _ None (run_order tasks sigma 0%nat)) by (rewrite map_length, seq_length; exact Hk).
    rewrite (map_nth (run_order tasks sigma) (seq 0 (length tasks)) 0%nat k).
    rewrite seq_nth by exact Hk. cbn [Nat.add].
    rewrite run_order_spec.
    assert (E : existsb (Nat.eqb k) sigma = true).
    { apply existsb_exists. exists k. split; [apply Hall; exact Hk | apply Nat.eqb_refl]. }
    rewrite E.
    destruct (nth_error tasks k) as [t|] eqn:En; [|apply nth_error_None in En; lia].
    cbn [option_map].
    rewrite (nth_indep _ None (Some (f t))) by (rewrite map_length; exact Hk).
    rewrite (map_nth (fun t0 => Some (f t0)) tasks t k).
    rewrite (nth_error_nth _ _ t En). reflexivity.
Qed.

Corollary ordered_schedule_free : forall tasks sigma sigma',
  (forall i, (i < length tasks)%nat -> In i sigma) ->
  (forall i, (i < length tasks)%nat -> In i sigma') ->
  deliver_ordered tasks sigma = deliver_ordered tasks sigma'.
Proof. intros tasks s s' H H'. rewrite (ordered_pairing tasks s H), (ordered_pairing tasks s' H'). reflexivity. Qed.

(* imap_unordered: results arrive in completion order.  An assembly that
   pairs the k-th ARRIVAL with the k-th TASK depends on the schedule as soon
   as two tasks differ in their result: keys must travel with the results. *)
Definition deliver_unordered (tasks : list T) (sigma : list nat) : list (option R) :=
  map (fun i => option_map f (nth_error tasks i)) sigma.

Theorem unordered_needs_keys : forall (t1 t2 : T), f t1 <> f t2 ->
  deliver_unordered [t1; t2] [0%nat; 1%nat] <> deliver_unordered [t1; t2] [1%nat; 0%nat].
Proof. intros t1 t2 Hne H. cbn in H. injection H as H _. apply Hne. exact H. Qed.
End Ordered.

(* ------------------------------------------------------------------ *)
(** * workers on a shared file system *)
Section FS.
Variable path content R : Type.
Variable path_eqb : path -> path -> bool.
Hypothesis path_eqb_spec : forall a b, path_eqb a b = true <-> a = b.

Definition fs := path -> option content.

Record task := {
  t_reads : list path;
  t_writes : list path;
  t_run : fs -> list (path * content) * R     (* the files it (re)writes, and what it returns *)
}.

(* frame conditions of a worker: it depends on the files it reads only, and
   writes its declared files only *)
Definition frame (t : task) : Prop :=
  (forall a b : fs, (forall p, In p (t_reads t) -> a p = b p) -> t_run t a = t_run t b) /\
  (forall a p c, In (p, c) (fst (t_run t a)) -> In p (t_writes t)).

Fixpoint assoc (p : path) (ws : list (path * content)) : option content :=
  match ws with
  | [] => None
  | (q, c) :: ws' => if path_eqb q p then Some c else assoc p ws'
  end.

Definition commit (a : fs) (ws : list (path * content)) : fs :=
  fun p => match assoc p ws with Some c => Some c | None => a p end.

Variable tasks : nat -> task.

(* executing the tasks in order sigma *)
Fixpoint exec (sigma : list nat) (a : fs) : fs * list (nat * R) :=
  match sigma with
  | [] => (a, [])
  | i :: sigma' =>
      let '(ws, r) := t_run (tasks i) a in
      let '(a', rs) := exec sigma' (commit a ws) in
      (a', (i, r) :: rs)
  end.

(* no task writes a file another task reads or writes *)
Definition independent (i j : nat) : Prop :=
  forall p, In p (t_writes (tasks i)) -> ~ In p (t_reads (tasks j)) /\ ~ In p (t_writes (tasks j)).

Lemma assoc_in p ws c : assoc p ws = Some c -> In (p, c) ws.
Proof.
  induction ws as [|[q c'] ws IH]; cbn [assoc]; [discriminate|].
  destruct (path_eqb q p) eqn:E.
  - intros H. injection H as ->. apply path_eqb_spec in E. subst q. left. reflexivity.
  - intros H. right. apply IH. exact H.
Qed.

Lemma commit_outside (t : task) a b p :
  frame t -> ~ In p (t_writes t) -> commit a (fst (t_run t b)) p = a p.
Proof.
  intros [_ Hw] Hp. unfold commit. destruct (assoc p (fst (t_run t b))) as [c|] eqn:E; [|reflexivity].
  exfalso. apply Hp. apply (Hw b p c). apply assoc_in. exact E.
Qed.

(* what task i writes and returns when run on the initial file system *)
Definition ws0 (a0 : fs) (i : nat) := fst (t_run (tasks i) a0).
Definition r0 (a0 : fs) (i : nat) := snd (t_run (tasks i) a0).

(* the closed form of the final file system: the initial one overlaid with
   the writes every task performs on the INITIAL file system *)
Fixpoint overlay (sigma : list nat) (a0 : fs) : fs :=
  match sigma with
  | [] => a0
  | i :: sigma' => fun p => match assoc p (ws0 a0 i) with
                            | Some c => Some c
                            | None => overlay sigma' a0 p
                            end
  end.

Lemma exec_spec : forall sigma a0 a,
  NoDup sigma ->
  (forall i, In i sigma -> frame (tasks i)) ->
  (forall i j, In i sigma -> In j sigma -> i <> j -> independent i j) ->
  (* the current state agrees with the initial one on what the remaining tasks read and write *)
  (forall i p, In i sigma -> In p (t_reads (tasks i)) \/ In p (t_writes (tasks i)) -> a p = a0 p) ->
  snd (exec sigma a) = map (fun i => (i, r0 a0 i)) sigma /\
  forall p, fst (exec sigma a) p = match find (fun i => match assoc p (ws0 a0 i) with Some _ => true | None => false end) sigma with
                                   | Some i => assoc p (ws0 a0 i)
                                   | None => a p
                                   end.
Proof.
  induction sigma as [|i sigma IH]; intros a0 a Hnd Hfr Hind Hagree.
  - cbn. split; [reflexivity | intros; reflexivity].
  - inversion Hnd as [|? ? Hni Hnd']; subst.
    assert (Hrun : t_run (tasks i) a = t_run (tasks i) a0).
    { destruct (Hfr i (or_introl eq_refl)) as [Hdep _]. apply Hdep.
      intros p Hp. apply (Hagree i p (or_introl eq_refl)). left. exact Hp. }
    cbn [exec]. rewrite Hrun.
    destruct (t_run (tasks i) a0) as [ws r] eqn:Er.
    destruct (exec sigma (commit a ws)) as [a' rs] eqn:Ee.
    destruct (IH a0 (commit a ws) Hnd') as [IH1 IH2].
    + intros j Hj. apply Hfr. right. exact Hj.
    + intros j k Hj Hk. apply Hind; right; assumption.
    + intros j p Hj Hp.
      assert (Hij : i <> j) by (intros ->; contradiction).
      assert (Hnw : ~ In p (t_writes (tasks i))).
      { intros Hw. destruct (Hind i j (or_introl eq_refl) (or_intror Hj) Hij p Hw) as [H1 H2].
        destruct Hp; contradiction. }
      replace ws with (fst (t_run (tasks i) a0)) by (rewrite Er; reflexivity).
      rewrite (commit_outside (tasks i) a a0 p (Hfr i (or_introl eq_refl)) Hnw).
      apply (Hagree j p (or_intror Hj) Hp).
    + rewrite Ee in IH1, IH2. cbn [fst snd] in *. split.
      * cbn [map]. unfold r0 at 1. rewrite Er. cbn [snd]. f_equal. exact IH1.
      * assert (Hws : ws0 a0 i = ws) by (unfold ws0; rewrite Er; reflexivity).
        intros p. rewrite IH2. cbn [find]. rewrite Hws.
        destruct (assoc p ws) as [c|] eqn:Ea.
        -- (* written by task i: no later task writes it (disjoint write sets) *)
           assert (Hpw : In p (t_writes (tasks i))).
           { destruct (Hfr i (or_introl eq_refl)) as [_ Hw]. apply (Hw a0 p c). rewrite Er. apply assoc_in. exact Ea. }
           assert (Hnone : find (fun j => match assoc p (ws0 a0 j) with Some _ => true | None => false end) sigma = None).
           { destruct (find (fun j => match assoc p (ws0 a0 j) with Some _ => true | None => false end) sigma) as [j|] eqn:Ef; [|reflexivity].
             apply find_some in Ef. destruct Ef as [Hj Wj].
             destruct (assoc p (ws0 a0 j)) as [c'|] eqn:Ej; [|discriminate].
             exfalso. assert (Hij : i <> j) by (intros ->; contradiction).
             destruct (Hind i j (or_introl eq_refl) (or_intror Hj) Hij p Hpw) as [_ H2]. apply H2.
             destruct (Hfr j (or_intror Hj)) as [_ Hw]. apply (Hw a0 p c'). apply assoc_in. exact Ej. }
           rewrite Hnone. unfold commit. rewrite Ea. cbn beta iota. rewrite ?Hws, ?Ea. reflexivity.
        -- destruct (find _ sigma); [reflexivity|]. unfold commit. rewrite Ea. reflexivity.
Qed.

(* any two execution orders of the same independent tasks leave the same file
   system and give every task the same result *)
Theorem fs_confluence : forall sigma sigma' a0,
  Permutation sigma sigma' -> NoDup sigma ->
  (forall i, In i sigma -> frame (tasks i)) ->
  (forall i j, In i sigma -> In j sigma -> i <> j -> independent i j) ->
  (forall p, fst (exec sigma a0) p = fst (exec sigma' a0) p) /\
  (forall i r, In (i, r) (snd (exec sigma a0)) <-> In (i, r) (snd (exec sigma' a0))).
Proof.
  intros sigma sigma' a0 Hperm Hnd Hfr Hind.
  assert (Hnd' : NoDup sigma') by (apply (Permutation_NoDup Hperm Hnd)).
  assert (Hin : forall i, In i sigma' -> In i sigma) by (intros i H; apply (Permutation_in _ (Permutation_sym Hperm) H)).
  destruct (exec_spec sigma a0 a0 Hnd Hfr Hind (fun _ _ _ _ => eq_refl)) as [R1 F1].
  destruct (exec_spec sigma' a0 a0 Hnd') as [R2 F2].
  { intros i Hi. apply Hfr, Hin, Hi. }
  { intros i j Hi Hj. apply Hind; apply Hin; assumption. }
  { intros; reflexivity. }
  split.
  - intros p. rewrite F1, F2.
    (* the task that writes p, if any, is the same in both orders *)
    set (W := fun i => match assoc p (ws0 a0 i) with Some _ => true | None => false end).
    assert (Huniq : forall i j, In i sigma -> In j sigma -> W i = true -> W j = true -> i = j).
    { intros i j Hi Hj Wi Wj. destruct (Nat.eq_dec i j) as [|Hne]; [assumption|]. exfalso.
      unfold W in Wi, Wj.
      destruct (assoc p (ws0 a0 i)) as [c|] eqn:Ei; [|discriminate].
      destruct (assoc p (ws0 a0 j)) as [c'|] eqn:Ej; [|discriminate].
      destruct (Hfr i Hi) as [_ Hwi]. destruct (Hfr j Hj) as [_ Hwj].
      destruct (Hind i j Hi Hj Hne p (Hwi a0 p c (assoc_in _ _ _ Ei))) as [_ H2].
      apply H2. apply (Hwj a0 p c'). apply assoc_in. exact Ej. }
    destruct (find W sigma) as [i|] eqn:E1; destruct (find W sigma') as [j|] eqn:E2.
    + apply find_some in E1, E2. destruct E1 as [Hi Wi], E2 as [Hj Wj].
      rewrite (Huniq i j Hi (Hin j Hj) Wi Wj). reflexivity.
    + apply find_some in E1. destruct E1 as [Hi Wi].
      rewrite (find_none _ _ E2 i (Permutation_in _ Hperm Hi)) in Wi. discriminate.
    + apply find_some in E2. destruct E2 as [Hj Wj].
      rewrite (find_none _ _ E1 j (Hin j Hj)) in Wj. discriminate.
    + reflexivity.
  - intros i r. rewrite R1, R2, !in_map_iff. split; intros (k & Hk & Hin').
    + exists k. split; [exact Hk | apply (Permutation_in _ Hperm Hin')].
    + exists k. split; [exact Hk | apply Hin, Hin'].
Qed.
End FS.
