(* One refinement level of a plotfile as the reader sees it: the boxes (each
   with its FAB), their distribution over binary files in any on-disk order,
   the (file, offset) table of the level header, and the indexing interface
   LevelDataStream.__getitem__ / iter over it. *)
From AK Require Import Base.Prelude Bytes.Text Bytes.FabHeader Bytes.BinFile
  Reader.Select Reader.BoxRead.

Definition dummy_fab : fab := {| fab_lo := []; fab_hi := []; fab_nc := 0; fab_data := [] |}.

Record level := {
  lv_fabs : list fab;                 (* box i (header order) -> its FAB *)
  lv_files : list (bytes * list nat)  (* file name, box ids in on-disk order *)
}.

Definition file_fabs (lv : level) (ids : list nat) : list fab :=
  map (fun i => nth i (lv_fabs lv) dummy_fab) ids.

(* the binary files of the level *)
Definition lv_disk (lv : level) : list (bytes * bytes) :=
  map (fun nf => (fst nf, encode_file (file_fabs lv (snd nf)))) (lv_files lv).

Fixpoint pos_in (b : nat) (ids : list nat) (k : nat) : option nat :=
  match ids with
  | [] => None
  | i :: ids' => if (i =? b)%nat then Some k else pos_in b ids' (S k)
  end.

Fixpoint locate (lv : level) (files : list (bytes * list nat)) (b : nat) : option (bytes * Z) :=
  match files with
  | [] => None
  | (name, ids) :: files' =>
      match pos_in b ids 0 with
      | Some k => Some (name, fab_offset (file_fabs lv ids) k)
      | None => locate lv files' b
      end
  end.

(* the FabOnDisk table of the level header: box -> (file, byte offset) *)
Definition lv_cells (lv : level) : option (list (bytes * Z)) :=
  omap_all (locate lv (lv_files lv)) (seq 0 (length (lv_fabs lv))).

Fixpoint lookup (name : bytes) (disk : list (bytes * bytes)) : option bytes :=
  match disk with
  | [] => None
  | (n, f) :: disk' => if bytes_eqb n name then Some f else lookup name disk'
  end.

(* LevelDataStream.__getitem__ for every selector form: the arrays of the
   selected boxes in the order requested (an int selects one box; the
   harness unwraps the singleton). *)
Definition stream_read_one (disk : list (bytes * bytes)) (cells : list (bytes * Z))
           (a : farg) (i : Z) : option arr :=
  do c <- znth i cells;
  do f <- lookup (fst c) disk;
  read_box f (snd c) a.

Definition stream_getitem (disk : list (bytes * bytes)) (cells : list (bytes * Z))
           (a : farg) (s : bsel) : option (list arr) :=
  do idxs <- select_boxes (blen cells) s;
  omap_all (stream_read_one disk cells a) idxs.

(* np.unique(files): sorted distinct file names *)
Fixpoint bytes_ltb (a b : bytes) : bool :=
  match a, b with
  | [], [] => false
  | [], _ :: _ => true
  | _ :: _, [] => false
  | x :: a', y :: b' =>
      if (N_of_ascii x <? N_of_ascii y)%N then true
      else if (N_of_ascii y <? N_of_ascii x)%N then false
      else bytes_ltb a' b'
  end.

Fixpoint insert_uniq (x : bytes) (l : list bytes) : list bytes :=
  match l with
  | [] => [x]
  | y :: l' => if bytes_ltb x y then x :: l
               else if bytes_eqb x y then l
               else y :: insert_uniq x l'
  end.

Definition np_unique (l : list bytes) : list bytes := fold_right insert_uniq [] l.

(* LevelDataStream.__iter__: ordered imap over np.unique(files) of the
   sequential file scans, chained.  The chained iterator stops (StopIteration
   from the pool iterator) only after the last file; an empty per-file result
   is skipped over by the next __next__ call... except that __next__ tries
   the following file only once. *)
Fixpoint chain_iter (per_file : list (list arr)) : list arr :=
  match per_file with
  | [] => []
  | l :: rest =>
      l ++ match rest with
           | [] => []
           | [] :: _ => []          (* next file yields nothing: StopIteration escapes *)
           | _ => chain_iter rest
           end
  end.

Definition stream_iter_all (disk : list (bytes * bytes)) (cells : list (bytes * Z))
           (a : farg) : option (list arr) :=
  let names := np_unique (map fst cells) in
  do files <- omap_all (fun n => lookup n disk) names;
  match map (fun f => read_bfile f a) files with
  | [] => None                       (* StopIteration inside __init__ *)
  | per_file => Some (chain_iter per_file)
  end.
