(* Composition: the indexing interface on a well-formed level returns the
   specified data of the selected boxes, in the order requested. *)
From AK Require Import Base.Prelude Bytes.Text Bytes.FabHeader Bytes.FabHeaderProofs
  Bytes.BinFile Reader.Select Reader.BoxRead Reader.Level Reader.ReadSpec
  Reader.ReadProofs Reader.LayoutProofs.

Lemma omap_all_ext {A B} (f g : A -> option B) l :
  (forall a, In a l -> f a = g a) -> omap_all f l = omap_all g l.
Proof.
  induction l as [|x l IH]; intros H; cbn [omap_all]; [reflexivity|].
  rewrite (H x) by (left; reflexivity).
  rewrite IH by (intros; apply H; right; assumption). reflexivity.
Qed.

Lemma znth_nth_error {A} (l : list A) i :
  znth i l = if (0 <=? i) && (i <? blen l) then nth_error l (Z.to_nat i) else None.
Proof.
  unfold znth, blen.
  destruct (i <? 0) eqn:E1.
  - replace (0 <=? i) with false by lia. reflexivity.
  - replace (0 <=? i) with true by lia. cbn [andb].
    destruct (i <? Z.of_nat (length l)) eqn:E2; [reflexivity|].
    apply nth_error_None. lia.
Qed.

Lemma nth_error_nth' {A} (l : list A) n d :
  (n < length l)%nat -> nth_error l n = Some (nth n l d).
Proof.
  revert n; induction l as [|x l IH]; intros [|n] H; cbn in *; try lia; [reflexivity|].
  apply IH. lia.
Qed.

(* one box: the model read at the recorded (file, offset) is the specified read *)
Theorem stream_read_one_spec : forall lv cells a i,
  wf_level lv = true -> lv_cells lv = Some cells ->
  (forall fb, In fb (lv_fabs lv) -> exists r, spec_read fb a = Some r) ->
  stream_read_one (lv_disk lv) cells a i = spec_level_read lv a i.
Proof.
  intros lv cells a i Hwf Hcells Hvalid.
  destruct (lv_cells_spec lv Hwf) as (cells' & Hc' & Hlen & Hnth).
  rewrite Hcells in Hc'. injection Hc' as <-.
  unfold stream_read_one, spec_level_read.
  rewrite !znth_nth_error.
  assert (Hbl : blen cells = blen (lv_fabs lv)) by (unfold blen; rewrite Hlen; reflexivity).
  rewrite Hbl.
  destruct ((0 <=? i) && (i <? blen (lv_fabs lv))) eqn:Er; [|reflexivity].
  assert (Hb : (Z.to_nat i < length (lv_fabs lv))%nat) by (unfold blen in Er; lia).
  rewrite (Hnth _ Hb).
  destruct (locate_total lv _ Hwf Hb) as (c & Hloc).
  rewrite Hloc. cbn [obind].
  destruct (locate_spec lv _ c Hwf Hb Hloc) as (pre & post & Hlook & Hoff).
  rewrite Hlook. cbn [obind].
  rewrite (nth_error_nth' _ _ dummy_fab Hb). cbn [obind].
  set (fb := nth (Z.to_nat i) (lv_fabs lv) dummy_fab).
  assert (Hin : In fb (lv_fabs lv)) by (apply nth_In; exact Hb).
  destruct (Hvalid fb Hin) as (r & Hr).
  rewrite Hr. rewrite <- Hoff.
  apply read_box_spec; [|exact Hr].
  unfold wf_level in Hwf.
  rewrite !andb_true_iff in Hwf. destruct Hwf as ((((Hok & _) & _) & _) & _).
  rewrite forallb_forall in Hok. apply Hok. exact Hin.
Qed.

Theorem stream_getitem_spec : forall lv cells a s,
  wf_level lv = true -> lv_cells lv = Some cells ->
  (forall fb, In fb (lv_fabs lv) -> exists r, spec_read fb a = Some r) ->
  stream_getitem (lv_disk lv) cells a s = spec_getitem lv a s.
Proof.
  intros lv cells a s Hwf Hcells Hvalid.
  unfold stream_getitem, spec_getitem.
  destruct (lv_cells_spec lv Hwf) as (cells' & Hc' & Hlen & _).
  rewrite Hcells in Hc'. injection Hc' as <-.
  assert (Hbl : blen cells = blen (lv_fabs lv)) by (unfold blen; rewrite Hlen; reflexivity).
  rewrite Hbl.
  destruct (select_boxes (blen (lv_fabs lv)) s) as [idxs|]; [|reflexivity].
  cbn [obind]. apply omap_all_ext. intros i _.
  apply stream_read_one_spec; assumption.
Qed.

(* every selection the selector accepts is valid on every box of a level
   whose FABs all hold one component per header field *)
Theorem norm_farg_valid_level : forall fields u a lv,
  norm_farg fields u = Some a -> wf_level lv = true ->
  (forall fb, In fb (lv_fabs lv) -> fab_nc fb = blen fields) ->
  forall fb, In fb (lv_fabs lv) -> exists r, spec_read fb a = Some r.
Proof.
  intros fields u a lv Hn Hwf Hnc fb Hin.
  eapply norm_farg_valid; [exact Hn| |apply Hnc; exact Hin].
  unfold wf_level in Hwf.
  rewrite !andb_true_iff in Hwf. destruct Hwf as ((((Hok & _) & _) & _) & _).
  rewrite forallb_forall in Hok. apply Hok. exact Hin.
Qed.

(* the selected boxes, in the order requested *)
Theorem spec_getitem_order : forall lv a s idxs rs,
  select_boxes (blen (lv_fabs lv)) s = Some idxs ->
  spec_getitem lv a s = Some rs ->
  length rs = length idxs /\
  forall k i, nth_error idxs k = Some i ->
              exists r, nth_error rs k = Some r /\ spec_level_read lv a i = Some r.
Proof.
  intros lv a s idxs rs Hs Hg.
  unfold spec_getitem in Hg. rewrite Hs in Hg. cbn [obind] in Hg.
  split; [eapply omap_all_length; exact Hg|].
  clear Hs. revert rs Hg. induction idxs as [|j idxs IH]; intros rs Hg k i Hk.
  - destruct k; discriminate.
  - cbn [omap_all] in Hg.
    destruct (spec_level_read lv a j) as [r|] eqn:Ej; cbn [obind] in Hg; [|discriminate].
    destruct (omap_all (spec_level_read lv a) idxs) as [rs'|] eqn:Er; cbn [obind] in Hg; [|discriminate].
    injection Hg as <-.
    destruct k as [|k]; cbn [nth_error] in *.
    + injection Hk as <-. exists r. split; [reflexivity|exact Ej].
    + eapply IH; [reflexivity|exact Hk].
Qed.

(* ---- refused selections ---- *)
Theorem norm_farg_bad_int : forall fields i,
  (blen fields <= i \/ i < - blen fields) -> norm_farg fields (UInt i) = None.
Proof.
  intros fields i H. cbn [norm_farg]. unfold norm_index.
  destruct ((0 <=? i) && (i <? blen fields)) eqn:E1; [lia|].
  destruct ((- blen fields <=? i) && (i <? 0)) eqn:E2; [lia|]. reflexivity.
Qed.

Lemma index_of_none : forall s l k, ~ In s l -> index_of bytes_eqb s l k = None.
Proof.
  intros s l; induction l as [|x l IH]; intros k H; cbn [index_of]; [reflexivity|].
  destruct (bytes_eqb x s) eqn:E.
  - exfalso. apply H. left. apply bytes_eqb_true. exact E.
  - apply IH. intro Hin. apply H. right. exact Hin.
Qed.

Theorem norm_farg_bad_name : forall fields s,
  ~ In s fields -> norm_farg fields (UName s) = None.
Proof.
  intros fields s H. cbn [norm_farg]. unfold field_index.
  rewrite index_of_none by exact H. reflexivity.
Qed.

Theorem norm_farg_backward_slice : forall fields a b st,
  st <= 0 -> norm_farg fields (USlice a b (Some st)) = None.
Proof.
  intros fields a b st H. cbn [norm_farg].
  destruct (st <=? 0) eqn:E; [reflexivity|lia].
Qed.

Theorem norm_level_above_limit : forall limit key, limit < key -> norm_level limit key = None.
Proof.
  intros limit key H. unfold norm_level.
  destruct (limit <? key) eqn:E; [reflexivity|lia].
Qed.

Theorem norm_level_in_range : forall limit key, 0 <= key <= limit -> norm_level limit key = Some key.
Proof.
  intros limit key H. unfold norm_level, norm_index.
  destruct (limit <? key) eqn:E; [lia|].
  destruct ((0 <=? key) && (key <? limit + 1)) eqn:E2; [reflexivity|lia].
Qed.
