(* Layout of a level on disk: the (file, offset) table computed by [locate]
   points at the FAB of each box inside the file built by [lv_disk], the
   table is total on well-formed levels, and the files partition the boxes. *)
From AK Require Import Base.Prelude Bytes.Text Bytes.FabHeader Bytes.BinFile Reader.Select Reader.BoxRead Reader.Level Reader.ReadSpec.
From Coq Require Import Permutation.

(* ------------------------------------------------------------------ *)
(* (1) splitting the image of a file at the k-th FAB                   *)
(* ------------------------------------------------------------------ *)

Lemma encode_file_nil : encode_file [] = [].
Proof. reflexivity. Qed.

Lemma encode_file_cons f fs : encode_file (f :: fs) = encode_fab f ++ encode_file fs.
Proof. reflexivity. Qed.

Lemma encode_file_app a b : encode_file (a ++ b) = encode_file a ++ encode_file b.
Proof. unfold encode_file. rewrite map_app, concat_app. reflexivity. Qed.

Lemma blen_encode_file l : blen (encode_file l) = zsum (map fab_size l).
Proof.
  induction l as [|f l IH].
  - reflexivity.
  - rewrite encode_file_cons, blen_app, IH.
    unfold zsum. cbn [map fold_right]. unfold fab_size. reflexivity.
Qed.

Lemma skipn_nth_cons {A} (d : A) : forall (k : nat) (l : list A),
  (k < length l)%nat -> skipn k l = nth k l d :: skipn (S k) l.
Proof.
  induction k as [|k IH]; intros l H.
  - destruct l as [|x l]; cbn [length] in H; [lia|]. reflexivity.
  - destruct l as [|x l]; cbn [length] in H; [lia|].
    change (skipn (S k) (x :: l)) with (skipn k l).
    change (nth (S k) (x :: l) d) with (nth k l d).
    change (skipn (S (S k)) (x :: l)) with (skipn (S k) l).
    apply IH. lia.
Qed.

Theorem encode_file_split : forall (fs : list fab) (k : nat), (k < length fs)%nat ->
  encode_file fs = encode_file (firstn k fs) ++ encode_fab (nth k fs dummy_fab) ++ encode_file (skipn (S k) fs)
  /\ blen (encode_file (firstn k fs)) = fab_offset fs k.
Proof.
  intros fs k H. split.
  - rewrite <- (firstn_skipn k fs) at 1.
    rewrite encode_file_app.
    rewrite (skipn_nth_cons dummy_fab k fs H).
    rewrite encode_file_cons. reflexivity.
  - rewrite blen_encode_file. reflexivity.
Qed.

(* ------------------------------------------------------------------ *)
(* (2) byte-string equality                                            *)
(* ------------------------------------------------------------------ *)

Theorem bytes_eqb_refl : forall a, bytes_eqb a a = true.
Proof.
  induction a as [|x a IH]; cbn [bytes_eqb]; [reflexivity|].
  rewrite Ascii.eqb_refl, IH. reflexivity.
Qed.

Theorem bytes_eqb_true : forall a b, bytes_eqb a b = true -> a = b.
Proof.
  induction a as [|x a IH]; intros [|y b] H; cbn [bytes_eqb] in H;
    try discriminate; [reflexivity|].
  apply andb_true_iff in H. destruct H as [H1 H2].
  apply Ascii.eqb_eq in H1. apply IH in H2. subst. reflexivity.
Qed.

(* ------------------------------------------------------------------ *)
(* pos_in                                                              *)
(* ------------------------------------------------------------------ *)

Lemma pos_in_gen b : forall ids k0 k,
  pos_in b ids k0 = Some k ->
  (k0 <= k)%nat /\ nth (k - k0) ids 0%nat = b /\ (k - k0 < length ids)%nat.
Proof.
  induction ids as [|i ids IH]; intros k0 k H; cbn [pos_in] in H; [discriminate|].
  destruct (Nat.eqb_spec i b) as [E|E].
  - inversion H; subst. rewrite Nat.sub_diag. cbn [nth length]. repeat split; lia.
  - apply IH in H. destruct H as (H1 & H2 & H3).
    replace (k - k0)%nat with (S (k - S k0)) by lia.
    cbn [nth length]. repeat split; [lia|exact H2|lia].
Qed.

Lemma pos_in_spec b ids k :
  pos_in b ids 0 = Some k -> nth k ids 0%nat = b /\ (k < length ids)%nat.
Proof.
  intros H. apply pos_in_gen in H. rewrite Nat.sub_0_r in H. tauto.
Qed.

Lemma pos_in_complete b : forall ids k0,
  In b ids -> exists k, pos_in b ids k0 = Some k.
Proof.
  induction ids as [|i ids IH]; intros k0 H; [destruct H|].
  cbn [pos_in]. destruct (Nat.eqb_spec i b) as [E|E]; [eauto|].
  destruct H as [H|H]; [contradiction|]. apply IH. exact H.
Qed.

(* ------------------------------------------------------------------ *)
(* lookup in a disk built from files with distinct names               *)
(* ------------------------------------------------------------------ *)

Definition disk_of (lv : level) (files : list (bytes * list nat)) : list (bytes * bytes) :=
  map (fun nf => (fst nf, encode_file (file_fabs lv (snd nf)))) files.

Lemma existsb_bytes_eqb_in x l : In x l -> existsb (bytes_eqb x) l = true.
Proof.
  intros H. apply existsb_exists. exists x. split; [exact H|apply bytes_eqb_refl].
Qed.

Lemma lookup_disk_of lv : forall files name ids,
  distinct_names (map fst files) = true ->
  In (name, ids) files ->
  lookup name (disk_of lv files) = Some (encode_file (file_fabs lv ids)).
Proof.
  induction files as [|[n i] files IH]; intros name ids Hd Hin; [destruct Hin|].
  cbn [map fst distinct_names] in Hd.
  apply andb_true_iff in Hd. destruct Hd as [Hn Hd].
  apply negb_true_iff in Hn.
  cbn [disk_of map lookup fst snd].
  destruct Hin as [Hin|Hin].
  - inversion Hin; subst. rewrite bytes_eqb_refl. reflexivity.
  - destruct (bytes_eqb n name) eqn:E.
    + apply bytes_eqb_true in E. subst n.
      rewrite existsb_bytes_eqb_in in Hn; [discriminate|].
      apply (in_map fst) in Hin. exact Hin.
    + apply IH; assumption.
Qed.

(* ------------------------------------------------------------------ *)
(* locate                                                              *)
(* ------------------------------------------------------------------ *)

Lemma locate_in lv b : forall files c,
  locate lv files b = Some c ->
  exists ids k, In (fst c, ids) files /\ pos_in b ids 0 = Some k
                /\ snd c = fab_offset (file_fabs lv ids) k.
Proof.
  induction files as [|[n ids] files IH]; intros c H; cbn [locate] in H; [discriminate|].
  destruct (pos_in b ids 0) as [k|] eqn:E.
  - inversion H; subst. exists ids, k. cbn [fst snd]. repeat split; auto. left; reflexivity.
  - apply IH in H. destruct H as (ids' & k & H1 & H2 & H3).
    exists ids', k. repeat split; auto. right; exact H1.
Qed.

Lemma locate_complete lv b : forall files,
  In b (concat (map snd files)) -> exists c, locate lv files b = Some c.
Proof.
  induction files as [|[n ids] files IH]; intros H; [destruct H|].
  cbn [map snd concat] in H. cbn [locate].
  destruct (pos_in b ids 0) as [k|] eqn:E; [eauto|].
  apply in_app_or in H. destruct H as [H|H].
  - destruct (pos_in_complete b ids 0%nat H) as [k Hk]. congruence.
  - apply IH. exact H.
Qed.

Lemma nth_file_fabs lv ids k :
  (k < length ids)%nat ->
  nth k (file_fabs lv ids) dummy_fab = nth (nth k ids 0%nat) (lv_fabs lv) dummy_fab.
Proof.
  intros H. unfold file_fabs.
  rewrite (nth_indep _ dummy_fab (nth 0%nat (lv_fabs lv) dummy_fab)) by (rewrite map_length; exact H).
  apply (map_nth (fun i => nth i (lv_fabs lv) dummy_fab)).
Qed.

(* ------------------------------------------------------------------ *)
(* wf_level components                                                 *)
(* ------------------------------------------------------------------ *)

Lemma wf_level_parts lv : wf_level lv = true ->
  distinct_names (map fst (lv_files lv)) = true
  /\ (forall i, In i (concat (map snd (lv_files lv))) -> (i < length (lv_fabs lv))%nat)
  /\ (forall b, (b < length (lv_fabs lv))%nat ->
                count_nat b (concat (map snd (lv_files lv))) = 1%nat).
Proof.
  unfold wf_level. intros H.
  apply andb_true_iff in H. destruct H as [H H5].
  apply andb_true_iff in H. destruct H as [H H4].
  apply andb_true_iff in H. destruct H as [H H3].
  apply andb_true_iff in H. destruct H as [H1 H2].
  split; [exact H2|]. split.
  - intros i Hi. rewrite forallb_forall in H4. apply H4 in Hi.
    apply Nat.ltb_lt in Hi. exact Hi.
  - intros b Hb. rewrite forallb_forall in H5.
    assert (Hin : In b (seq 0 (length (lv_fabs lv)))) by (apply in_seq; lia).
    apply H5 in Hin. apply Nat.eqb_eq in Hin. exact Hin.
Qed.

Lemma count_nat_pos x : forall l, count_nat x l <> 0%nat -> In x l.
Proof.
  induction l as [|y l IH]; cbn [count_nat]; intros H; [congruence|].
  destruct (Nat.eqb_spec x y) as [E|E].
  - left. symmetry. exact E.
  - right. apply IH. exact H.
Qed.

Lemma count_nat_in x : forall l, In x l -> (1 <= count_nat x l)%nat.
Proof.
  induction l as [|y l IH]; intros H; [destruct H|].
  cbn [count_nat]. destruct (Nat.eqb_spec x y) as [E|E]; [lia|].
  destruct H as [H|H]; [congruence|]. apply IH in H. lia.
Qed.

Lemma wf_in_files lv b : wf_level lv = true -> (b < length (lv_fabs lv))%nat ->
  In b (concat (map snd (lv_files lv))).
Proof.
  intros Hwf Hb. destruct (wf_level_parts lv Hwf) as (_ & _ & Hc).
  apply count_nat_pos. rewrite (Hc b Hb). discriminate.
Qed.

(* ------------------------------------------------------------------ *)
(* (6b) lookup_lv_disk, (3) locate_spec, (4) locate_total              *)
(* ------------------------------------------------------------------ *)

Theorem lookup_lv_disk : forall lv name ids, wf_level lv = true -> In (name, ids) (lv_files lv) ->
  lookup name (lv_disk lv) = Some (encode_file (file_fabs lv ids)).
Proof.
  intros lv name ids Hwf Hin.
  destruct (wf_level_parts lv Hwf) as (Hd & _ & _).
  apply (lookup_disk_of lv (lv_files lv) name ids Hd Hin).
Qed.

Theorem locate_spec : forall lv b c,
  wf_level lv = true -> (b < length (lv_fabs lv))%nat ->
  locate lv (lv_files lv) b = Some c ->
  exists pre post,
    lookup (fst c) (lv_disk lv) = Some (pre ++ encode_fab (nth b (lv_fabs lv) dummy_fab) ++ post)
    /\ blen pre = snd c.
Proof.
  intros lv b c Hwf Hb Hloc.
  apply locate_in in Hloc. destruct Hloc as (ids & k & Hin & Hpos & Hoff).
  apply pos_in_spec in Hpos. destruct Hpos as [Hnth Hk].
  assert (Hk' : (k < length (file_fabs lv ids))%nat)
    by (unfold file_fabs; rewrite map_length; exact Hk).
  destruct (encode_file_split (file_fabs lv ids) k Hk') as [Hsplit Hlen].
  exists (encode_file (firstn k (file_fabs lv ids))),
         (encode_file (skipn (S k) (file_fabs lv ids))).
  split.
  - rewrite (lookup_lv_disk lv (fst c) ids Hwf Hin). f_equal.
    rewrite Hsplit at 1. rewrite (nth_file_fabs lv ids k Hk), Hnth. reflexivity.
  - rewrite Hlen. symmetry. exact Hoff.
Qed.

Theorem locate_total : forall lv b, wf_level lv = true -> (b < length (lv_fabs lv))%nat ->
  exists c, locate lv (lv_files lv) b = Some c.
Proof.
  intros lv b Hwf Hb. apply locate_complete. apply wf_in_files; assumption.
Qed.

(* ------------------------------------------------------------------ *)
(* (5) the table of all boxes                                          *)
(* ------------------------------------------------------------------ *)

Lemma omap_all_total {A B} (f : A -> option B) (d : A) : forall l,
  (forall x, In x l -> exists y, f x = Some y) ->
  exists r, omap_all f l = Some r /\ length r = length l /\
    forall i, (i < length l)%nat -> nth_error r i = f (nth i l d).
Proof.
  induction l as [|a l IH]; intros H.
  - exists []. cbn [omap_all length]. repeat split. intros i Hi. lia.
  - destruct (H a (or_introl eq_refl)) as [y Hy].
    destruct IH as (r & Hr & Hlen & Hnth).
    { intros x Hx. apply H. right. exact Hx. }
    exists (y :: r). cbn [omap_all]. rewrite Hy. cbn [obind]. rewrite Hr. cbn [obind].
    split; [reflexivity|]. split; [cbn [length]; rewrite Hlen; reflexivity|].
    intros [|i] Hi; cbn [nth_error nth].
    + symmetry. exact Hy.
    + apply Hnth. cbn [length] in Hi. lia.
Qed.

Theorem lv_cells_spec : forall lv, wf_level lv = true ->
  exists cells, lv_cells lv = Some cells /\ length cells = length (lv_fabs lv) /\
    forall b, (b < length (lv_fabs lv))%nat -> nth_error cells b = locate lv (lv_files lv) b.
Proof.
  intros lv Hwf. unfold lv_cells.
  destruct (omap_all_total (locate lv (lv_files lv)) 0%nat (seq 0 (length (lv_fabs lv))))
    as (r & Hr & Hlen & Hnth).
  { intros x Hx. apply in_seq in Hx. apply locate_total; [exact Hwf|lia]. }
  rewrite seq_length in Hlen, Hnth.
  exists r. split; [exact Hr|]. split; [exact Hlen|].
  intros b Hb. rewrite (Hnth b Hb). rewrite seq_nth by exact Hb. reflexivity.
Qed.

(* ------------------------------------------------------------------ *)
(* (6) the files partition the boxes                                   *)
(* ------------------------------------------------------------------ *)

Lemma count_le1_NoDup : forall l, (forall x, (count_nat x l <= 1)%nat) -> NoDup l.
Proof.
  induction l as [|a l IH]; intros H; constructor.
  - intros Hin. apply count_nat_in in Hin.
    specialize (H a). cbn [count_nat] in H. rewrite Nat.eqb_refl in H. lia.
  - apply IH. intros x. specialize (H x). cbn [count_nat] in H. lia.
Qed.

Lemma concat_file_fabs lv : forall files : list (bytes * list nat),
  concat (map (fun nf => file_fabs lv (snd nf)) files)
  = map (fun i => nth i (lv_fabs lv) dummy_fab) (concat (map snd files)).
Proof.
  induction files as [|[n ids] files IH]; [reflexivity|].
  cbn [map concat snd]. rewrite map_app, IH. reflexivity.
Qed.

Lemma map_nth_seq {A} (d : A) : forall l,
  map (fun i => nth i l d) (seq 0 (length l)) = l.
Proof.
  induction l as [|a l IH]; [reflexivity|].
  cbn [length seq map nth]. f_equal.
  rewrite <- seq_shift, map_map. cbn [nth]. exact IH.
Qed.

Lemma wf_ids_perm lv : wf_level lv = true ->
  Permutation (concat (map snd (lv_files lv))) (seq 0 (length (lv_fabs lv))).
Proof.
  intros Hwf. destruct (wf_level_parts lv Hwf) as (_ & Hlt & Hc).
  apply NoDup_Permutation.
  - apply count_le1_NoDup. intros x.
    destruct (Nat.eq_dec (count_nat x (concat (map snd (lv_files lv)))) 0) as [E|E]; [lia|].
    apply count_nat_pos in E. apply Hlt in E. rewrite (Hc x E). lia.
  - apply seq_NoDup.
  - intros x. split; intros H.
    + apply in_seq. apply Hlt in H. lia.
    + apply in_seq in H. apply count_nat_pos. rewrite Hc by lia. discriminate.
Qed.

Theorem files_partition : forall lv, wf_level lv = true ->
  Permutation (concat (map (fun nf => file_fabs lv (snd nf)) (lv_files lv))) (lv_fabs lv).
Proof.
  intros lv Hwf. rewrite concat_file_fabs.
  pose proof (Permutation_map (fun i => nth i (lv_fabs lv) dummy_fab)
                (wf_ids_perm lv Hwf)) as P.
  rewrite map_nth_seq in P. exact P.
Qed.

Print Assumptions locate_spec.
Print Assumptions files_partition.
Print Assumptions lv_cells_spec.
