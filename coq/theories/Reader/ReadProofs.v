(* Correctness of the box reader (BoxRead.v) against its specification
   (ReadSpec.v): reading a selection of a well-formed FAB embedded anywhere in
   a file returns exactly the specified array and leaves the file position
   where the sequential scan expects it; plus the facts about selectors
   (slice.indices, range, field names) the statement relies on.
   Standard library only, no axioms. *)
From AK Require Import Base.Prelude Bytes.Text Bytes.FabHeader Bytes.FabHeaderProofs Bytes.BinFile Reader.Select Reader.BoxRead Reader.Level Reader.ReadSpec.

(* ------------------------------------------------------------------ *)
(** * Byte-list arithmetic *)

Lemma zfirstn_app_le {A} (a b : list A) n :
  n <= blen a -> zfirstn n (a ++ b) = zfirstn n a.
Proof.
  unfold zfirstn, blen. intros H. rewrite firstn_app.
  replace (Z.to_nat n - length a)%nat with 0%nat by lia.
  cbn [firstn]. apply app_nil_r.
Qed.

Lemma zskipn_app_le {A} (a b : list A) n :
  n <= blen a -> zskipn n (a ++ b) = zskipn n a ++ b.
Proof.
  unfold zskipn, blen. intros H. rewrite skipn_app.
  replace (Z.to_nat n - length a)%nat with 0%nat by lia. reflexivity.
Qed.

Lemma blen_map {A B} (f : A -> B) (l : list A) : blen (map f l) = blen l.
Proof. unfold blen. rewrite map_length. reflexivity. Qed.

Lemma blen_sub (s len : Z) (x : bytes) :
  0 <= s -> 0 <= len -> s + len <= blen x -> blen (sub s len x) = len.
Proof.
  intros Hs Hl Hle. unfold sub.
  rewrite blen_zfirstn; [reflexivity|].
  rewrite blen_zskipn by lia. lia.
Qed.

(* a block of a block is a block *)
Lemma sub_sub (a len b len2 : Z) (x : bytes) :
  0 <= a -> 0 <= len -> a + len <= len2 -> 0 <= b ->
  sub a len (sub b len2 x) = sub (a + b) len x.
Proof.
  intros Ha Hl Hle Hb. unfold sub.
  rewrite <- (zskipn_zskipn x a b Ha Hb).
  unfold zfirstn, zskipn.
  rewrite skipn_firstn_comm, firstn_firstn.
  f_equal. lia.
Qed.

(* np.fromfile inside a payload surrounded by arbitrary bytes: exactly the
   items asked for, none of the bytes that follow *)
Lemma fromfile_at (pre hd data post : bytes) (a b : Z) :
  0 <= a -> 0 <= b -> 8 * a + 8 * b <= blen data ->
  fromfile (pre ++ hd ++ data ++ post) (blen pre + blen hd + a * 8) b
  = sub (8 * a) (8 * b) data.
Proof.
  intros Ha Hb Hle. unfold fromfile, rest. cbv zeta.
  pose proof (blen_nonneg hd) as Hhd. pose proof (blen_nonneg post) as Hpost.
  rewrite zskipn_app_ge by lia.
  rewrite zskipn_app_ge by lia.
  replace (blen pre + blen hd + a * 8 - blen pre - blen hd) with (8 * a) by lia.
  rewrite zskipn_app_le by lia.
  assert (Hlen : blen (zskipn (8 * a) data) = blen data - 8 * a)
    by (apply blen_zskipn; lia).
  rewrite blen_app, Hlen.
  destruct (b <? 0) eqn:E; [lia|].
  replace (Z.min b ((blen data - 8 * a + blen post) / 8)) with b by lia.
  unfold sub. apply zfirstn_app_le. lia.
Qed.

(* ------------------------------------------------------------------ *)
(** * Shapes *)

Lemma zprod_app1 (l : list Z) (n : Z) : zprod (l ++ [n]) = zprod l * n.
Proof.
  unfold zprod. induction l as [|a l IH]; cbn [app fold_right].
  - lia.
  - rewrite IH. ring.
Qed.

Lemma zprod_ge1 (l : list Z) :
  forallb (fun d => 1 <=? d) l = true -> 1 <= zprod l.
Proof.
  unfold zprod. induction l as [|a l IH]; cbn [forallb fold_right]; intros H.
  - lia.
  - apply andb_true_iff in H. destruct H as [Ha Hl]. specialize (IH Hl).
    assert (1 <= a) by lia.
    set (p := fold_right Z.mul 1 l) in *.
    change (1 * 1 <= a * p).
    apply Z.mul_le_mono_nonneg; lia.
Qed.

Lemma forallb_app1 (p : Z -> bool) (l : list Z) (n : Z) :
  forallb p l = true -> p n = true -> forallb p (l ++ [n]) = true.
Proof.
  intros Hl Hn. rewrite forallb_app. cbn [forallb]. rewrite Hl, Hn. reflexivity.
Qed.

Lemma reshape_ok_true (data : bytes) (shape : list Z) :
  forallb (fun d => 0 <=? d) shape = true ->
  blen data = 8 * zprod shape ->
  reshape_ok data shape = true.
Proof.
  intros Hs Hd. unfold reshape_ok. rewrite Hs, Hd. cbn [andb]. apply Z.eqb_refl.
Qed.

(* ------------------------------------------------------------------ *)
(** * Well-formed FABs *)

Lemma fab_ok_inv (fb : fab) :
  fab_ok fb = true ->
  fab_lo fb <> [] /\ fab_hi fb <> [] /\
  length (fab_lo fb) = length (fab_hi fb) /\
  forallb (fun d => 1 <=? d) (fab_shape fb) = true /\
  0 <= fab_nc fb /\
  blen (fab_data fb) = 8 * fab_cells fb * fab_nc fb.
Proof.
  unfold fab_ok. intros H.
  apply andb_true_iff in H. destruct H as [H H5].
  apply andb_true_iff in H. destruct H as [H H4].
  apply andb_true_iff in H. destruct H as [H H3].
  apply andb_true_iff in H. destruct H as [H1 H2].
  apply Nat.eqb_eq in H2.
  assert (Hlo : fab_lo fb <> []).
  { intros E. rewrite E in H1. cbn in H1. discriminate. }
  assert (Hhi : fab_hi fb <> []).
  { intros E. rewrite E in H2. destruct (fab_lo fb); [congruence|]. cbn in H2. discriminate. }
  repeat split; try assumption; lia.
Qed.

Lemma fab_cells_pos (fb : fab) : fab_ok fb = true -> 1 <= fab_cells fb.
Proof.
  intros H. apply fab_ok_inv in H. destruct H as (_ & _ & _ & Hd & _).
  unfold fab_cells. apply zprod_ge1. exact Hd.
Qed.

Lemma fab_shape_nonneg (fb : fab) :
  fab_ok fb = true -> forallb (fun d => 0 <=? d) (fab_shape fb) = true.
Proof.
  intros H. apply fab_ok_inv in H. destruct H as (_ & _ & _ & Hd & _).
  revert Hd. apply forallb_imp. intros c Hc. lia.
Qed.

Lemma blen_encode_fab (fb : fab) :
  fab_ok fb = true ->
  blen (encode_fab fb) = blen (fab_hdr fb) + 8 * fab_cells fb * fab_nc fb.
Proof.
  intros H. apply fab_ok_inv in H. destruct H as (_ & _ & _ & _ & _ & Hd).
  unfold encode_fab. rewrite blen_app, Hd. reflexivity.
Qed.

(* ------------------------------------------------------------------ *)
(** * (1) The header *)

Theorem read_header_at : forall pre fb post,
  fab_ok fb = true ->
  read_header (pre ++ encode_fab fb ++ post) (blen pre) =
    Some ({| h_lo := fab_lo fb; h_hi := fab_hi fb; h_nc := fab_nc fb |},
          fab_shape fb, blen pre + blen (fab_hdr fb)).
Proof.
  intros pre fb post Hok.
  destruct (fab_ok_inv fb Hok) as (Hlo & Hhi & Hlen & _).
  unfold read_header, readline, rest. cbv zeta.
  rewrite zskipn_app_exact.
  unfold encode_fab. rewrite <- app_assoc.
  unfold fab_hdr. rewrite take_line_print_hdr.
  rewrite (parse_print_hdr _ _ _ Hlo Hhi). cbn [obind].
  unfold hdr_shape, np_binop. cbn [h_hi h_lo].
  rewrite <- Hlen, Nat.eqb_refl. cbn [obind].
  reflexivity.
Qed.

(* ------------------------------------------------------------------ *)
(** * (2) The payload *)

(* seek over [first] components, read [n] components *)
Lemma read_block_at (pre : bytes) (fb : fab) (post : bytes) (first n : Z) :
  fab_ok fb = true -> 0 <= first -> 0 <= n -> first + n <= fab_nc fb ->
  read_block (pre ++ encode_fab fb ++ post) (blen pre + blen (fab_hdr fb))
             (fab_shape fb) first n
  = Some (sub (8 * fab_cells fb * first) (8 * fab_cells fb * n) (fab_data fb),
          blen pre + blen (fab_hdr fb) + 8 * fab_cells fb * (first + n))
  /\ blen (sub (8 * fab_cells fb * first) (8 * fab_cells fb * n) (fab_data fb))
     = 8 * fab_cells fb * n.
Proof.
  intros Hok Hf Hn Hle.
  pose proof (fab_cells_pos fb Hok) as Hc.
  destruct (fab_ok_inv fb Hok) as (_ & _ & _ & _ & Hnc & Hdata).
  assert (Hcf : 0 <= fab_cells fb * first) by (apply Z.mul_nonneg_nonneg; lia).
  assert (Hcn : 0 <= fab_cells fb * n) by (apply Z.mul_nonneg_nonneg; lia).
  assert (Hfit : fab_cells fb * first + fab_cells fb * n <= fab_cells fb * fab_nc fb).
  { rewrite <- Z.mul_add_distr_l. apply Z.mul_le_mono_nonneg_l; lia. }
  assert (Hbl : blen (sub (8 * fab_cells fb * first) (8 * fab_cells fb * n) (fab_data fb))
                = 8 * fab_cells fb * n).
  { apply blen_sub; lia. }
  split; [|exact Hbl].
  unfold read_block. cbv zeta.
  change (zprod (fab_shape fb)) with (fab_cells fb).
  pose proof (blen_nonneg pre). pose proof (blen_nonneg (fab_hdr fb)).
  destruct (0 <=? blen pre + blen (fab_hdr fb) + fab_cells fb * first * 8) eqn:E; [|lia].
  unfold encode_fab. rewrite <- app_assoc.
  rewrite fromfile_at by lia.
  replace (8 * (fab_cells fb * first)) with (8 * fab_cells fb * first) by ring.
  replace (8 * (fab_cells fb * n)) with (8 * fab_cells fb * n) by ring.
  rewrite Hbl. f_equal. f_equal. ring.
Qed.

(* components of a contiguous block of components *)
Lemma take_comps_sub (chunk first n : Z) (data : bytes) (l : list Z) :
  0 <= chunk -> 0 <= first ->
  (forall i, In i l -> 0 <= i < n) ->
  take_comps chunk l (sub (chunk * first) (chunk * n) data)
  = concat (map (fun i => sub (chunk * (first + i)) chunk data) l).
Proof.
  intros Hc Hf Hl. unfold take_comps. f_equal. apply map_ext_in. intros i Hi.
  specialize (Hl i Hi).
  assert (0 <= chunk * i) by (apply Z.mul_nonneg_nonneg; lia).
  assert (0 <= chunk * first) by (apply Z.mul_nonneg_nonneg; lia).
  assert (chunk * (i + 1) <= chunk * n) by (apply Z.mul_le_mono_nonneg_l; lia).
  rewrite sub_sub by lia.
  f_equal. ring.
Qed.

Lemma zmin_list_le (l : list Z) (d i : Z) : In i l -> zmin_list l d <= i.
Proof.
  unfold zmin_list. induction l as [|a l IH]; cbn [In fold_right]; intros H.
  - contradiction.
  - destruct H as [->|H]; [lia|]. specialize (IH H). lia.
Qed.

Lemma zmax_list_ge (l : list Z) (d i : Z) : In i l -> i <= zmax_list l d.
Proof.
  unfold zmax_list. induction l as [|a l IH]; cbn [In fold_right]; intros H.
  - contradiction.
  - destruct H as [->|H]; [lia|]. specialize (IH H). lia.
Qed.

Lemma zmin_list_range (l : list Z) (d lo hi : Z) :
  (forall i, In i l -> lo <= i < hi) -> lo <= d < hi -> lo <= zmin_list l d < hi.
Proof.
  unfold zmin_list. induction l as [|a l IH]; cbn [fold_right]; intros Hl Hd.
  - exact Hd.
  - assert (lo <= a < hi) by (apply Hl; left; reflexivity).
    assert (lo <= fold_right Z.min d l < hi)
      by (apply IH; [intros i Hi; apply Hl; right; exact Hi|exact Hd]).
    lia.
Qed.

Lemma zmax_list_range (l : list Z) (d lo hi : Z) :
  (forall i, In i l -> lo <= i < hi) -> lo <= d < hi -> lo <= zmax_list l d < hi.
Proof.
  unfold zmax_list. induction l as [|a l IH]; cbn [fold_right]; intros Hl Hd.
  - exact Hd.
  - assert (lo <= a < hi) by (apply Hl; left; reflexivity).
    assert (lo <= fold_right Z.max d l < hi)
      by (apply IH; [intros i Hi; apply Hl; right; exact Hi|exact Hd]).
    lia.
Qed.

(* ------------------------------------------------------------------ *)
(** * (4), (5) slice.indices and range *)

Theorem slice_indices_bounds : forall s e st n start stop step,
  slice_indices s e st n = Some (start, stop, step) -> 0 < step ->
  0 <= start <= n /\ 0 <= stop <= n.
Proof.
  intros s e st n start stop step H Hstep.
  unfold slice_indices in H.
  destruct (0 <=? n) eqn:En; [|discriminate].
  cbv zeta in H.
  destruct (negb (match st with Some s0 => s0 | None => 1 end =? 0)); [|discriminate].
  injection H as H1 H2 H3.
  rewrite H3 in H1, H2.
  destruct (step <? 0) eqn:Eneg; [lia|].
  clear H3.
  destruct s as [v|], e as [w|]; subst start stop;
    repeat match goal with
           | |- context [if ?b then _ else _] => destruct b eqn:?
           end; lia.
Qed.

Lemma range_len_shift (start stop step : Z) :
  0 < step ->
  range_len 0 (Z.max (stop - start) 0) step = range_len start stop step.
Proof.
  intros Hs. unfold range_len.
  destruct (0 <? step) eqn:E; [|lia].
  destruct (start <? stop) eqn:E1; destruct (0 <? Z.max (stop - start) 0) eqn:E2; try lia.
  replace (Z.max (stop - start) 0 - 0 - 1) with (stop - start - 1) by lia.
  reflexivity.
Qed.

Theorem range_list_shift : forall start stop step, 0 < step ->
  map (fun i => start + i) (range_list 0 (Z.max (stop - start) 0) step)
  = range_list start stop step.
Proof.
  intros start stop step Hs. unfold range_list.
  rewrite (range_len_shift start stop step Hs), map_map.
  apply map_ext. intros i. ring.
Qed.

Theorem range_list_bounds : forall start stop step x, 0 < step ->
  In x (range_list start stop step) -> start <= x < stop.
Proof.
  intros start stop step x Hs H. unfold range_list in H.
  apply in_map_iff in H. destruct H as (i & <- & Hi).
  apply in_seq in Hi. unfold range_len in Hi.
  destruct (0 <? step) eqn:E; [|lia].
  destruct (start <? stop) eqn:E1; [|cbn in Hi; lia].
  assert (Hq : 0 <= (stop - start - 1) / step) by (apply Z.div_pos; lia).
  assert (Hi' : Z.of_nat i <= (stop - start - 1) / step) by lia.
  assert (Hm : step * ((stop - start - 1) / step) <= stop - start - 1)
    by (apply Z.mul_div_le; lia).
  assert (Hle : Z.of_nat i * step <= ((stop - start - 1) / step) * step)
    by (apply Z.mul_le_mono_nonneg_r; lia).
  assert (0 <= Z.of_nat i * step) by (apply Z.mul_nonneg_nonneg; lia).
  lia.
Qed.

(* ------------------------------------------------------------------ *)
(** * (2) continued: the selection *)

Theorem read_selected_at : forall pre fb post a r,
  fab_ok fb = true ->
  spec_read fb a = Some r ->
  exists skip,
    read_selected (pre ++ encode_fab fb ++ post)
                  {| h_lo := fab_lo fb; h_hi := fab_hi fb; h_nc := fab_nc fb |}
                  (fab_shape fb) (blen pre + blen (fab_hdr fb)) a
    = Some (r, blen pre + blen (fab_hdr fb) + 8 * fab_cells fb * (fab_nc fb - skip), skip)
    /\ 0 <= skip <= fab_nc fb.
Proof.
  intros pre fb post a r Hok Hs.
  destruct (fab_ok_inv fb Hok) as (_ & _ & _ & _ & Hnc & Hdata).
  pose proof (fab_cells_pos fb Hok) as Hc.
  pose proof (fab_shape_nonneg fb Hok) as Hsh.
  unfold spec_read in Hs.
  destruct (farg_comps (fab_nc fb) a) as [comps|] eqn:Ec; cbn [obind] in Hs; [|discriminate].
  injection Hs as <-.
  destruct a as [i | s e st | l]; cbn [farg_comps] in Ec.
  - (* FInt *)
    destruct (in_range (fab_nc fb) i) eqn:Er; [|discriminate]. injection Ec as <-.
    unfold in_range in Er.
    exists (fab_nc fb - i - 1). split; [|lia].
    destruct (read_block_at pre fb post i 1 Hok) as [Hrb Hbl]; try lia.
    cbn [read_selected h_nc]. rewrite Hrb. cbn [obind].
    rewrite reshape_ok_true; [|exact Hsh|rewrite Hbl; unfold fab_cells; ring].
    cbn [map concat]. rewrite app_nil_r. unfold fab_comp.
    replace (8 * fab_cells fb * 1) with (8 * fab_cells fb) by ring.
    f_equal. f_equal. f_equal. f_equal. ring.
  - (* FSlice *)
    destruct (slice_indices s e st (fab_nc fb)) as [[[start stop] step]|] eqn:Esl;
      cbn [obind] in Ec; [|discriminate].
    destruct (0 <? step) eqn:Estep; [|discriminate]. injection Ec as <-.
    assert (Hstep : 0 < step) by lia.
    destruct (slice_indices_bounds _ _ _ _ _ _ _ Esl Hstep) as [Hstart Hstop].
    set (size := Z.max (stop - start) 0).
    exists (fab_nc fb - size - start). split; [|lia].
    destruct (read_block_at pre fb post start size Hok) as [Hrb Hbl]; try lia.
    cbn [read_selected h_nc]. rewrite Esl. cbn [obind]. rewrite Estep.
    fold size. rewrite Hrb. cbn [obind].
    rewrite reshape_ok_true;
      [|apply forallb_app1; [exact Hsh|lia]
       |rewrite Hbl, zprod_app1; unfold fab_cells; ring].
    change (zprod (fab_shape fb)) with (fab_cells fb).
    rewrite take_comps_sub; [|lia|lia|].
    2:{ intros i Hi. apply range_list_bounds in Hi; lia. }
    rewrite <- (range_list_shift start stop step Hstep). fold size.
    rewrite blen_map, map_map. unfold fab_comp.
    f_equal. f_equal. f_equal. ring.
  - (* FList *)
    destruct l as [|x l']; [cbn in Ec; discriminate|].
    cbn [length Nat.eqb negb] in Ec.
    destruct (forallb (in_range (fab_nc fb)) (x :: l')) eqn:Efa; [|discriminate].
    injection Ec as <-.
    assert (Hin : forall i, In i (x :: l') -> 0 <= i < fab_nc fb).
    { intros i Hi. rewrite forallb_forall in Efa. specialize (Efa i Hi).
      unfold in_range in Efa. lia. }
    unfold read_selected. cbv beta iota zeta. cbn [h_nc].
    set (l := x :: l') in *.
    assert (Hx : 0 <= x < fab_nc fb) by (apply Hin; left; reflexivity).
    pose proof (zmin_list_range l x 0 (fab_nc fb) Hin Hx) as Hmin.
    pose proof (zmax_list_range l x 0 (fab_nc fb) Hin Hx) as Hmax.
    assert (Hmm : zmin_list l x <= x <= zmax_list l x).
    { split; [apply zmin_list_le|apply zmax_list_ge]; left; reflexivity. }
    exists (fab_nc fb - zmax_list l x - 1). split; [|lia].
    destruct (read_block_at pre fb post (zmin_list l x) (zmax_list l x - zmin_list l x + 1) Hok)
      as [Hrb Hbl]; try lia.
    rewrite Hrb. cbn [obind].
    rewrite reshape_ok_true;
      [|apply forallb_app1; [exact Hsh|lia]
       |rewrite Hbl, zprod_app1; unfold fab_cells; ring].
    change (zprod (fab_shape fb)) with (fab_cells fb).
    rewrite take_comps_sub; [|lia|lia|].
    2:{ intros j Hj. apply in_map_iff in Hj. destruct Hj as (i & <- & Hi).
        pose proof (zmin_list_le l x i Hi). pose proof (zmax_list_ge l x i Hi). lia. }
    rewrite map_map.
    f_equal. f_equal. f_equal.
    + f_equal. f_equal. apply map_ext. intros i. unfold fab_comp. f_equal. ring.
    + ring.
Qed.

(* ------------------------------------------------------------------ *)
(** * (3) One box at a recorded offset *)

Theorem read_box_spec : forall pre fb post a r,
  fab_ok fb = true ->
  spec_read fb a = Some r ->
  read_box (pre ++ encode_fab fb ++ post) (blen pre) a = Some r.
Proof.
  intros pre fb post a r Hok Hs.
  unfold read_box.
  pose proof (blen_nonneg pre) as Hp.
  destruct (0 <=? blen pre) eqn:E; [|lia].
  rewrite (read_header_at pre fb post Hok). cbn [obind].
  destruct (read_selected_at pre fb post a r Hok Hs) as (skip & Hr & _).
  rewrite Hr. cbn [obind]. reflexivity.
Qed.

(* ------------------------------------------------------------------ *)
(** * (7) Field names *)

Theorem bytes_eqb_eq : forall a b, bytes_eqb a b = true <-> a = b.
Proof.
  induction a as [|x a IH]; intros [|y b]; cbn [bytes_eqb].
  - split; reflexivity.
  - split; discriminate.
  - split; discriminate.
  - rewrite andb_true_iff, Ascii.eqb_eq, IH. split.
    + intros [-> ->]. reflexivity.
    + intros H. injection H as -> ->. split; reflexivity.
Qed.

Lemma znth_0 {A} (x : A) (l : list A) : znth 0 (x :: l) = Some x.
Proof. reflexivity. Qed.

Lemma znth_cons {A} (x : A) (l : list A) (n : Z) :
  0 < n -> znth n (x :: l) = znth (n - 1) l.
Proof.
  intros Hn. unfold znth.
  destruct (n <? 0) eqn:E1; [lia|]. destruct (n - 1 <? 0) eqn:E2; [lia|].
  replace (Z.to_nat n) with (S (Z.to_nat (n - 1))) by lia. reflexivity.
Qed.

Lemma index_of_spec (s : bytes) (l : list bytes) (k i : Z) :
  index_of bytes_eqb s l k = Some i ->
  k <= i < k + blen l /\
  exists s', znth (i - k) l = Some s' /\ bytes_eqb s' s = true.
Proof.
  revert k. induction l as [|x l IH]; intros k H; cbn [index_of] in H.
  - discriminate.
  - rewrite blen_cons. pose proof (blen_nonneg l) as Hl.
    destruct (bytes_eqb x s) eqn:E.
    + injection H as <-. split; [lia|].
      exists x. rewrite Z.sub_diag. split; [apply znth_0|exact E].
    + apply IH in H. destruct H as [Hr (s' & Hz & He)].
      split; [lia|]. exists s'. split; [|exact He].
      rewrite znth_cons by lia. rewrite <- Hz. f_equal. lia.
Qed.

Theorem field_index_spec : forall fields s i, field_index fields s = Some i ->
  0 <= i < blen fields /\ exists s', znth i fields = Some s' /\ bytes_eqb s' s = true.
Proof.
  intros fields s i H. unfold field_index in H.
  apply index_of_spec in H. rewrite Z.sub_0_r in H. exact H.
Qed.

(* ------------------------------------------------------------------ *)
(** * (6) Accepted selections are honoured *)

Lemma norm_index_range (n i j : Z) : norm_index n i = Some j -> 0 <= j < n.
Proof.
  unfold norm_index. intros H.
  destruct ((0 <=? i) && (i <? n)) eqn:E1.
  - injection H as <-. lia.
  - destruct ((- n <=? i) && (i <? 0)) eqn:E2; [|discriminate].
    injection H as <-. lia.
Qed.

Lemma omap_all_forall {A B} (f : A -> option B) (P : B -> Prop) (l : list A) (r : list B) :
  (forall a b, f a = Some b -> P b) ->
  omap_all f l = Some r -> forall b, In b r -> P b.
Proof.
  intros Hf. revert r. induction l as [|a l IH]; cbn [omap_all]; intros r H b Hb.
  - injection H as <-. contradiction.
  - destruct (f a) as [b0|] eqn:Ea; cbn [obind] in H; [|discriminate].
    destruct (omap_all f l) as [bs|] eqn:El; cbn [obind] in H; [|discriminate].
    injection H as <-. destruct Hb as [<-|Hb].
    + exact (Hf a b0 Ea).
    + exact (IH bs eq_refl b Hb).
Qed.

Lemma spec_read_some (fb : fab) (a : farg) (comps : list Z) :
  farg_comps (fab_nc fb) a = Some comps -> exists r, spec_read fb a = Some r.
Proof.
  intros H. unfold spec_read. rewrite H. cbn [obind]. eexists. reflexivity.
Qed.

Lemma farg_comps_list (nc : Z) (l : list Z) :
  l <> [] -> (forall i, In i l -> 0 <= i < nc) -> farg_comps nc (FList l) = Some l.
Proof.
  intros Hne Hin. cbn [farg_comps].
  destruct l as [|x l]; [congruence|]. cbn [length Nat.eqb negb].
  assert (E : forallb (in_range nc) (x :: l) = true).
  { apply forallb_forall. intros i Hi. specialize (Hin i Hi). unfold in_range. lia. }
  rewrite E. reflexivity.
Qed.

Lemma omap_all_nonnil {A B} (f : A -> option B) (l : list A) (r : list B) :
  l <> [] -> omap_all f l = Some r -> r <> [].
Proof.
  intros Hne H E. apply omap_all_length in H. rewrite E in H.
  destruct l; [congruence|]. cbn in H. discriminate.
Qed.

Lemma farg_comps_slice (nc : Z) (a b c : option Z) :
  0 <= nc ->
  match c with Some st => 0 < st | None => True end ->
  exists comps, farg_comps nc (FSlice a b c) = Some comps.
Proof.
  intros Hnc Hc. cbn [farg_comps]. unfold slice_indices.
  destruct (0 <=? nc) eqn:E; [|lia]. cbv zeta.
  set (st := match c with Some s => s | None => 1 end).
  assert (Hst : 0 < st) by (destruct c; subst st; lia).
  destruct (negb (st =? 0)) eqn:E0; [|lia].
  cbn [obind].
  destruct (0 <? st) eqn:E1; [|lia].
  eexists. reflexivity.
Qed.

Theorem norm_farg_valid : forall fields u a fb,
  norm_farg fields u = Some a -> fab_ok fb = true -> fab_nc fb = blen fields ->
  exists r, spec_read fb a = Some r.
Proof.
  intros fields u a fb H Hok Hnc.
  destruct u as [s | l | i | s e st | l]; cbn [norm_farg] in H.
  - (* UName *)
    destruct (field_index fields s) as [i|] eqn:E; cbn [obind] in H; [|discriminate].
    injection H as <-. apply field_index_spec in E. destruct E as [Hi _].
    apply (spec_read_some fb (FInt i) [i]). cbn [farg_comps].
    unfold in_range. rewrite Hnc.
    destruct ((0 <=? i) && (i <? blen fields)) eqn:E; [reflexivity|lia].
  - (* UNames *)
    destruct l as [|x l]; [discriminate|].
    destruct (omap_all (field_index fields) (x :: l)) as [is|] eqn:E;
      cbn [obind] in H; [|discriminate].
    injection H as <-.
    apply (spec_read_some fb (FList is) is). apply farg_comps_list.
    + eapply omap_all_nonnil; [|exact E]. discriminate.
    + rewrite Hnc. apply (omap_all_forall (field_index fields) _ (x :: l) is); [|exact E].
      intros a b Hab. apply field_index_spec in Hab. apply Hab.
  - (* UInt *)
    destruct (norm_index (blen fields) i) as [j|] eqn:E; cbn [obind] in H; [|discriminate].
    injection H as <-. apply norm_index_range in E.
    apply (spec_read_some fb (FInt j) [j]). cbn [farg_comps].
    unfold in_range. rewrite Hnc.
    destruct ((0 <=? j) && (j <? blen fields)) eqn:E'; [reflexivity|lia].
  - (* USlice *)
    assert (Hst : match st with Some x => 0 < x | None => True end /\ a = FSlice s e st).
    { destruct st as [x|].
      - destruct (x <=? 0) eqn:E; [discriminate|]. injection H as <-. split; [lia|reflexivity].
      - injection H as <-. split; [exact I|reflexivity]. }
    destruct Hst as [Hst ->].
    destruct (farg_comps_slice (fab_nc fb) s e st) as [comps Hc].
    + rewrite Hnc. apply blen_nonneg.
    + exact Hst.
    + exact (spec_read_some fb _ comps Hc).
  - (* UList *)
    destruct l as [|x l]; [discriminate|].
    destruct (omap_all (norm_index (blen fields)) (x :: l)) as [is|] eqn:E;
      cbn [obind] in H; [|discriminate].
    injection H as <-.
    apply (spec_read_some fb (FList is) is). apply farg_comps_list.
    + eapply omap_all_nonnil; [|exact E]. discriminate.
    + rewrite Hnc. apply (omap_all_forall (norm_index (blen fields)) _ (x :: l) is); [|exact E].
      intros a b Hab. apply norm_index_range in Hab. exact Hab.
Qed.

Print Assumptions read_box_spec.
Print Assumptions read_selected_at.
Print Assumptions norm_farg_valid.
