(* The box reading functions of amr_kitchen/plotfile_cooker.py:
     mp_read_box_single_field / _slice_field / _index_field   (one box at a
        recorded byte offset)
     mp_read_bfile_single_field / _slice_field / _index_field  (sequential scan
        of a whole binary file)
   as functions of the file content. *)
From AK Require Import Base.Prelude Bytes.Text Bytes.FabHeader Bytes.BinFile Reader.Select.

(* components [idxs] (each a block of [chunk] bytes) of a block-structured
   payload, concatenated: data[..., idxs] in Fortran order *)
Definition take_comps (chunk : Z) (idxs : list Z) (data : bytes) : bytes :=
  concat (map (fun i => sub (chunk * i) chunk data) idxs).

(* reads the header line at [pos]; returns the parsed header, the shape of
   one component and the position after the line *)
Definition read_header (f : bytes) (pos : Z) : option (hdr * list Z * Z) :=
  let line := readline f pos in
  do h <- parse_hdr line;
  do shp <- hdr_shape h;
  Some (h, shp, pos + blen line).

(* After the header: relative seek by [first] components, read [ncomp]
   components, return them together with the position after the read. *)
Definition read_block (f : bytes) (pos : Z) (shp : list Z) (first ncomp : Z)
  : option (bytes * Z) :=
  let cells := zprod shp in
  let pos2 := pos + cells * first * 8 in
  guard (0 <=? pos2);
  let data := fromfile f pos2 (cells * ncomp) in
  Some (data, pos2 + blen data).

Definition zmin_list (l : list Z) (d : Z) : Z := fold_right Z.min d l.
Definition zmax_list (l : list Z) (d : Z) : Z := fold_right Z.max d l.

(* the part common to the box and file variants: what is selected from the
   FAB whose header was just read; returns the array and the byte position
   after the contiguous read *)
Definition read_selected (f : bytes) (h : hdr) (shp : list Z) (pos : Z) (a : farg)
  : option (arr * Z * Z) :=   (* array, position after read, components left to skip *)
  let cells := zprod shp in
  match a with
  | FInt i =>
      do (data, p) <- read_block f pos shp i 1;
      guard reshape_ok data shp;
      Some ({| a_shape := shp; a_data := data |}, p, h_nc h - i - 1)
  | FSlice s e st =>
      do (start, stop, step) <- slice_indices s e st (h_nc h);
      guard (0 <? step);
      let size := Z.max (stop - start) 0 in
      do (data, p) <- read_block f pos shp start size;
      guard reshape_ok data (shp ++ [size]);
      let idxs := range_list 0 size step in
      Some ({| a_shape := shp ++ [blen idxs];
               a_data := take_comps (8 * cells) idxs data |}, p, h_nc h - size - start)
  | FList l =>
      match l with
      | [] => None
      | x :: _ =>
          let first := zmin_list l x in
          let last := zmax_list l x in
          let diff := last - first + 1 in
          do (data, p) <- read_block f pos shp first diff;
          guard reshape_ok data (shp ++ [diff]);
          Some ({| a_shape := shp ++ [blen l];
                   a_data := take_comps (8 * cells) (map (fun i => i - first) l) data |},
                p, h_nc h - last - 1)
      end
  end.

(* mp_read_box_*_field((file, offset, farg)) *)
Definition read_box (f : bytes) (off : Z) (a : farg) : option arr :=
  guard (0 <=? off);
  do (h, shp, pos) <- read_header f off;
  do (r, _, _) <- read_selected f h shp pos a;
  Some r.

(* mp_read_bfile_*_field((file, farg)): scan until a header fails to parse
   (the bare except); any failure inside an iteration ends the scan and
   keeps what was read so far.  Fuel bounds the number of iterations; each
   iteration consumes at least one byte, so the file length + 1 suffices. *)
Fixpoint scan_file (fuel : nat) (f : bytes) (pos : Z) (a : farg) : list arr :=
  match fuel with
  | O => []
  | S fuel' =>
      match read_header f pos with
      | None => []
      | Some (h, shp, p1) =>
          match read_selected f h shp p1 a with
          | None => []
          | Some (r, p2, skip) =>
              let p3 := p2 + zprod shp * skip * 8 in
              if p3 <? 0 then [] else r :: scan_file fuel' f p3 a
          end
      end
  end.

Definition read_bfile (f : bytes) (a : farg) : list arr :=
  scan_file (S (length f)) f 0 a.
