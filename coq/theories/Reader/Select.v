(* Selector normalisation: Python's slice.indices, range, numpy integer / mask
   indexing, and LevelDataSelector.__init__ / LevelDataStream.__getitem__. *)
From AK Require Import Base.Prelude.

(* slice.indices(len) *)
Definition slice_indices (start stop step : option Z) (len : Z) : option (Z * Z * Z) :=
  guard (0 <=? len);
  let st := match step with Some s => s | None => 1 end in
  guard negb (st =? 0);
  let neg := st <? 0 in
  let lower := if neg then -1 else 0 in
  let upper := if neg then len - 1 else len in
  let adj (x : option Z) (dflt : Z) :=
    match x with
    | None => dflt
    | Some v => if v <? 0 then Z.max (v + len) lower else Z.min v upper
    end in
  Some (adj start (if neg then upper else lower),
        adj stop (if neg then lower else upper), st).

(* list(range(start, stop, step)) *)
Definition range_len (start stop step : Z) : Z :=
  if 0 <? step then (if start <? stop then (stop - start - 1) / step + 1 else 0)
  else if step <? 0 then (if stop <? start then (start - stop - 1) / (- step) + 1 else 0)
  else 0.

Definition range_list (start stop step : Z) : list Z :=
  map (fun i => start + Z.of_nat i * step) (seq 0 (Z.to_nat (range_len start stop step))).

(* numpy integer indexing along an axis of length n: negative wraps once *)
Definition norm_index (n i : Z) : option Z :=
  if (0 <=? i) && (i <? n) then Some i
  else if (- n <=? i) && (i <? 0) then Some (i + n)
  else None.

Fixpoint mask_indices (m : list bool) (k : Z) : list Z :=
  match m with
  | [] => []
  | b :: m' => if b then k :: mask_indices m' (k + 1) else mask_indices m' (k + 1)
  end.

(* ---- field selection: LevelDataSelector.__init__ ---- *)

Inductive ufarg :=
| UName (s : bytes)
| UNames (l : list bytes)
| UInt (i : Z)
| USlice (start stop step : option Z)
| UList (l : list Z).

(* the normalised selection handed to the reading functions *)
Inductive farg :=
| FInt (i : Z)
| FSlice (start stop step : option Z)
| FList (l : list Z).

Fixpoint index_of (eqb : bytes -> bytes -> bool) (s : bytes) (l : list bytes) (k : Z) : option Z :=
  match l with
  | [] => None
  | x :: l' => if eqb x s then Some k else index_of eqb s l' (k + 1)
  end.

Fixpoint bytes_eqb (a b : bytes) : bool :=
  match a, b with
  | [], [] => true
  | x :: a', y :: b' => Ascii.eqb x y && bytes_eqb a' b'
  | _, _ => false
  end.

Definition field_index (fields : list bytes) (s : bytes) : option Z :=
  index_of bytes_eqb s fields 0.

(* [fields] are the (distinct) dictionary keys in header order *)
Definition norm_farg (fields : list bytes) (u : ufarg) : option farg :=
  let n := blen fields in
  match u with
  | UName s => do i <- field_index fields s; Some (FInt i)
  | UNames [] => None                     (* field_arg[0] raises IndexError *)
  | UNames l => do is <- omap_all (field_index fields) l; Some (FList is)
  | UInt i => do j <- norm_index n i; Some (FInt j)
  | USlice a b c =>
      match c with
      | Some st => if st <=? 0 then None else Some (FSlice a b c)  (* 0: numpy probe raises; <0: refused *)
      | None => Some (FSlice a b c)
      end
  | UList [] => None
  | UList l => do is <- omap_all (norm_index n) l; Some (FList is)
  end.

(* ---- level selection: LevelDataSelector.__getitem__ ---- *)
(* key > limit raises; a negative key indexes the Python list of levels
   actually read (levels 0..limit) from the end. *)
Definition norm_level (limit key : Z) : option Z :=
  if limit <? key then None else norm_index (limit + 1) key.

(* ---- box selection: LevelDataStream.__getitem__ / iter ---- *)
Inductive bsel :=
| BInt (i : Z)
| BSlice (start stop step : option Z)
| BList (l : list Z)
| BMask (m : list bool).

(* indices of the selected boxes, in the order requested *)
Definition select_boxes (n : Z) (s : bsel) : option (list Z) :=
  match s with
  | BInt i => do j <- norm_index n i; Some [j]
  | BSlice a b c =>
      do (st, sp, stp) <- slice_indices a b c n; Some (range_list st sp stp)
  | BList l => omap_all (norm_index n) l
  | BMask m => guard (blen m =? n); Some (mask_indices m 0)
  end.
