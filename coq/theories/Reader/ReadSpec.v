(* Specification side of the reader: what a selection denotes on the abstract
   contents (a FAB = index range + payload), independent of files, offsets
   and seeks; and boolean well-formedness of a level layout. *)
From AK Require Import Base.Prelude Bytes.Text Bytes.FabHeader Bytes.BinFile
  Reader.Select Reader.BoxRead Reader.Level.

Definition in_range (n i : Z) : bool := (0 <=? i) && (i <? n).

(* the components a normalised field selection denotes on [nc] components *)
Definition farg_comps (nc : Z) (a : farg) : option (list Z) :=
  match a with
  | FInt i => guard in_range nc i; Some [i]
  | FSlice s e st =>
      do (start, stop, step) <- slice_indices s e st nc;
      guard (0 <? step);
      Some (range_list start stop step)
  | FList l =>
      guard negb (length l =? 0)%nat;
      guard forallb (in_range nc) l;
      Some l
  end.

(* what reading selection [a] of FAB [fb] must return: the stored bytes of
   the selected components, component after component, x fastest inside a
   component; a single index drops the component axis *)
Definition spec_read (fb : fab) (a : farg) : option arr :=
  do comps <- farg_comps (fab_nc fb) a;
  Some {| a_shape := match a with
                     | FInt _ => fab_shape fb
                     | _ => fab_shape fb ++ [blen comps]
                     end;
          a_data := concat (map (fab_comp fb) comps) |}.

(* ---- level layout well-formedness (boolean, so that the harness can
   evaluate it on every generated case) ---- *)

Fixpoint count_nat (x : nat) (l : list nat) : nat :=
  match l with
  | [] => 0
  | y :: l' => (if (x =? y)%nat then 1 else 0) + count_nat x l'
  end.

Fixpoint distinct_names (l : list bytes) : bool :=
  match l with
  | [] => true
  | x :: l' => negb (existsb (bytes_eqb x) l') && distinct_names l'
  end.

Definition wf_level (lv : level) : bool :=
  forallb fab_ok (lv_fabs lv) &&
  distinct_names (map fst (lv_files lv)) &&
  forallb (fun ids => negb (length ids =? 0)%nat) (map snd (lv_files lv)) &&
  forallb (fun i => (i <? length (lv_fabs lv))%nat) (concat (map snd (lv_files lv))) &&
  forallb (fun b => (count_nat b (concat (map snd (lv_files lv))) =? 1)%nat)
          (seq 0 (length (lv_fabs lv))).

(* the boxes of a level as a reading of [a] must return them *)
Definition spec_level_read (lv : level) (a : farg) (i : Z) : option arr :=
  do fb <- znth i (lv_fabs lv); spec_read fb a.

Definition spec_getitem (lv : level) (a : farg) (s : bsel) : option (list arr) :=
  do idxs <- select_boxes (blen (lv_fabs lv)) s;
  omap_all (spec_level_read lv a) idxs.
