(* Iteration over a level (LevelDataStream.__iter__): the sequential scan of a
   binary file returns the specified read of every FAB of the file and stops
   at end of file; np.unique yields the sorted distinct names; chaining
   non-empty per-file results is concatenation; and iterating a well-formed
   level yields every box exactly once with its specified data.
   Standard library only, no axioms. *)
From AK Require Import Base.Prelude Bytes.Text Bytes.FabHeader Bytes.FabHeaderProofs Bytes.BinFile Reader.Select Reader.BoxRead Reader.Level Reader.ReadSpec Reader.ReadProofs Reader.LayoutProofs.
From Coq Require Import Permutation.

(* ------------------------------------------------------------------ *)
(** * (1) The sequential scan of a binary file *)

Lemma read_header_eof (pre : bytes) : read_header (pre ++ []) (blen pre) = None.
Proof.
  unfold read_header, readline, rest. cbv zeta.
  rewrite zskipn_app_exact. reflexivity.
Qed.

Lemma omap_all_cons_inv {A B} (f : A -> option B) (x : A) (l : list A) (r : list B) :
  omap_all f (x :: l) = Some r ->
  exists y r', f x = Some y /\ omap_all f l = Some r' /\ r = y :: r'.
Proof.
  cbn [omap_all]. intros H.
  destruct (f x) as [y|]; cbn [obind] in H; [|discriminate].
  destruct (omap_all f l) as [r'|]; cbn [obind] in H; [|discriminate].
  injection H as <-. exists y, r'. repeat split.
Qed.

Lemma scan_file_spec : forall (fs : list fab) (a : farg) (rs : list arr) (fuel : nat) (pre : bytes),
  forallb fab_ok fs = true ->
  omap_all (fun fb => spec_read fb a) fs = Some rs ->
  (length fs < fuel)%nat ->
  scan_file fuel (pre ++ encode_file fs) (blen pre) a = rs.
Proof.
  induction fs as [|fb fs IH]; intros a rs fuel pre Hok Hs Hfuel.
  - cbn [omap_all] in Hs. injection Hs as <-.
    destruct fuel as [|fuel]; [cbn [length] in Hfuel; lia|].
    cbn [scan_file]. rewrite encode_file_nil, read_header_eof. reflexivity.
  - cbn [forallb] in Hok. apply andb_true_iff in Hok. destruct Hok as [Hfb Hok].
    apply omap_all_cons_inv in Hs. destruct Hs as (r & rs' & Hr & Hrs & ->).
    destruct fuel as [|fuel]; [cbn [length] in Hfuel; lia|].
    cbn [length] in Hfuel.
    cbn [scan_file]. rewrite encode_file_cons.
    rewrite (read_header_at pre fb (encode_file fs) Hfb).
    destruct (read_selected_at pre fb (encode_file fs) a r Hfb Hr) as (skip & Hsel & Hskip).
    rewrite Hsel. cbv zeta.
    change (zprod (fab_shape fb)) with (fab_cells fb).
    assert (Hp3 : blen pre + blen (fab_hdr fb) + 8 * fab_cells fb * (fab_nc fb - skip)
                  + fab_cells fb * skip * 8 = blen (pre ++ encode_fab fb)).
    { rewrite blen_app, (blen_encode_fab fb Hfb). ring. }
    rewrite Hp3.
    pose proof (blen_nonneg (pre ++ encode_fab fb)) as Hnn.
    destruct (blen (pre ++ encode_fab fb) <? 0) eqn:E; [lia|].
    f_equal. rewrite app_assoc. apply IH; [exact Hok|exact Hrs|lia].
Qed.

Lemma length_encode_file_ge (fs : list fab) : (length fs <= length (encode_file fs))%nat.
Proof.
  induction fs as [|fb fs IH]; [cbn; lia|].
  rewrite encode_file_cons, app_length. cbn [length].
  unfold encode_fab, fab_hdr. rewrite app_length.
  pose proof (blen_print_hdr_pos (fab_lo fb) (fab_hi fb) (fab_nc fb)) as H.
  unfold blen in H. lia.
Qed.

Theorem read_bfile_spec : forall (fs : list fab) (a : farg) (rs : list arr),
  forallb fab_ok fs = true ->
  omap_all (fun fb => spec_read fb a) fs = Some rs ->
  read_bfile (encode_file fs) a = rs.
Proof.
  intros fs a rs Hok Hs. unfold read_bfile.
  change (encode_file fs) with ([] ++ encode_file fs) at 2.
  change 0 with (blen (@nil ascii)).
  apply scan_file_spec; [exact Hok|exact Hs|].
  pose proof (length_encode_file_ge fs). lia.
Qed.

(* ------------------------------------------------------------------ *)
(** * (2) np.unique: sorted distinct names *)

Lemma N_of_ascii_inj (x y : ascii) : N_of_ascii x = N_of_ascii y -> x = y.
Proof.
  intros H. rewrite <- (ascii_N_embedding x), <- (ascii_N_embedding y), H. reflexivity.
Qed.

Lemma bytes_ltb_irrefl : forall a, bytes_ltb a a = false.
Proof.
  induction a as [|x a IH]; cbn [bytes_ltb]; [reflexivity|].
  rewrite N.ltb_irrefl. exact IH.
Qed.

Lemma bytes_ltb_trans : forall a b c,
  bytes_ltb a b = true -> bytes_ltb b c = true -> bytes_ltb a c = true.
Proof.
  induction a as [|x a IH]; intros [|y b] [|z c] H1 H2; cbn [bytes_ltb] in *;
    try discriminate; try reflexivity.
  destruct (N.ltb_spec (N_of_ascii x) (N_of_ascii y)) as [Hxy|Hxy];
  destruct (N.ltb_spec (N_of_ascii y) (N_of_ascii x)) as [Hyx|Hyx];
  destruct (N.ltb_spec (N_of_ascii y) (N_of_ascii z)) as [Hyz|Hyz];
  destruct (N.ltb_spec (N_of_ascii z) (N_of_ascii y)) as [Hzy|Hzy];
  destruct (N.ltb_spec (N_of_ascii x) (N_of_ascii z)) as [Hxz|Hxz];
  destruct (N.ltb_spec (N_of_ascii z) (N_of_ascii x)) as [Hzx|Hzx];
    try discriminate; try reflexivity; try lia.
  eapply IH; eassumption.
Qed.

Lemma bytes_ltb_total : forall a b,
  bytes_ltb a b = false -> bytes_eqb a b = false -> bytes_ltb b a = true.
Proof.
  induction a as [|x a IH]; intros [|y b] H1 H2; cbn [bytes_ltb bytes_eqb] in *;
    try discriminate; try reflexivity.
  destruct (N.ltb_spec (N_of_ascii x) (N_of_ascii y)) as [Hxy|Hxy]; [discriminate|].
  destruct (N.ltb_spec (N_of_ascii y) (N_of_ascii x)) as [Hyx|Hyx]; [reflexivity|].
  assert (E : x = y) by (apply N_of_ascii_inj; lia).
  subst y. rewrite Ascii.eqb_refl in H2. cbn [andb] in H2.
  apply IH; assumption.
Qed.

(* strictly sorted w.r.t. bytes_ltb: every element is below all later ones *)
Fixpoint ssorted (l : list bytes) : Prop :=
  match l with
  | [] => True
  | x :: l' => (forall y, In y l' -> bytes_ltb x y = true) /\ ssorted l'
  end.

Lemma insert_uniq_In (x : bytes) : forall l y, In y (insert_uniq x l) <-> y = x \/ In y l.
Proof.
  induction l as [|z l IH]; intros y; cbn [insert_uniq].
  - cbn [In]. split; intros [H|H]; auto.
  - destruct (bytes_ltb x z) eqn:Elt.
    + cbn [In]. split; intros [H|H]; auto.
    + destruct (bytes_eqb x z) eqn:Eeq.
      * apply bytes_eqb_true in Eeq. subst z. cbn [In].
        split; [auto|]. intros [H|H]; auto.
      * cbn [In]. rewrite IH. tauto.
Qed.

Lemma insert_uniq_ssorted (x : bytes) : forall l, ssorted l -> ssorted (insert_uniq x l).
Proof.
  induction l as [|z l IH]; intros Hs; cbn [insert_uniq].
  - cbn [ssorted In]. split; [intros y []|exact I].
  - destruct Hs as [Hz Hl].
    destruct (bytes_ltb x z) eqn:Elt.
    + cbn [ssorted]. split; [|split; assumption].
      intros y [<-|Hy]; [exact Elt|].
      apply (bytes_ltb_trans x z y Elt). apply Hz. exact Hy.
    + destruct (bytes_eqb x z) eqn:Eeq.
      * cbn [ssorted]. split; assumption.
      * cbn [ssorted]. split; [|apply IH; exact Hl].
        intros y Hy. apply insert_uniq_In in Hy. destruct Hy as [->|Hy].
        -- apply bytes_ltb_total; assumption.
        -- apply Hz. exact Hy.
Qed.

Lemma np_unique_ssorted : forall l, ssorted (np_unique l).
Proof.
  induction l as [|x l IH]; cbn [np_unique fold_right]; [exact I|].
  apply insert_uniq_ssorted. exact IH.
Qed.

Lemma ssorted_NoDup : forall l, ssorted l -> NoDup l.
Proof.
  induction l as [|x l IH]; intros Hs; constructor.
  - destruct Hs as [Hx _]. intros Hin. apply Hx in Hin.
    rewrite bytes_ltb_irrefl in Hin. discriminate.
  - apply IH. apply Hs.
Qed.

Theorem np_unique_In : forall l x, In x (np_unique l) <-> In x l.
Proof.
  induction l as [|y l IH]; intros x; cbn [np_unique fold_right].
  - tauto.
  - fold (np_unique l). rewrite insert_uniq_In, IH. cbn [In]. split; intros [H|H]; auto.
Qed.

Theorem np_unique_NoDup : forall l, NoDup (np_unique l).
Proof. intros l. apply ssorted_NoDup, np_unique_ssorted. Qed.

(* ------------------------------------------------------------------ *)
(** * (3) Chaining non-empty per-file results *)

Theorem chain_iter_concat : forall (ls : list (list arr)),
  Forall (fun l => l <> []) ls -> chain_iter ls = concat ls.
Proof.
  induction 1 as [|l ls Hl Hls IH]; [reflexivity|].
  cbn [chain_iter concat]. f_equal.
  destruct ls as [|l' ls']; [reflexivity|].
  inversion Hls as [|? ? Hl' _]; subst.
  destruct l' as [|v l']; [congruence|]. exact IH.
Qed.

(* ------------------------------------------------------------------ *)
(** * (4) Iterating a level *)

Lemma omap_all_In {A B} (f : A -> option B) : forall (l : list A) (r : list B),
  omap_all f l = Some r -> forall y, In y r -> exists x, In x l /\ f x = Some y.
Proof.
  induction l as [|a l IH]; intros r H y Hy.
  - cbn [omap_all] in H. injection H as <-. destruct Hy.
  - apply omap_all_cons_inv in H. destruct H as (b & r' & Hb & Hr & ->).
    destruct Hy as [<-|Hy].
    + exists a. split; [left; reflexivity|exact Hb].
    + destruct (IH r' Hr y Hy) as (x & Hx & Hfx). exists x. split; [right; exact Hx|exact Hfx].
Qed.

Lemma omap_all_In_fwd {A B} (f : A -> option B) : forall (l : list A) (r : list B),
  omap_all f l = Some r -> forall x, In x l -> exists y, f x = Some y /\ In y r.
Proof.
  induction l as [|a l IH]; intros r H x Hx; [destruct Hx|].
  apply omap_all_cons_inv in H. destruct H as (b & r' & Hb & Hr & ->).
  destruct Hx as [<-|Hx].
  - exists b. split; [exact Hb|left; reflexivity].
  - destruct (IH r' Hr x Hx) as (y & Hy & Hin). exists y. split; [exact Hy|right; exact Hin].
Qed.

Lemma count_nat_app x : forall l1 l2,
  count_nat x (l1 ++ l2) = (count_nat x l1 + count_nat x l2)%nat.
Proof.
  induction l1 as [|y l1 IH]; intros l2; cbn [app count_nat]; [reflexivity|].
  rewrite IH. lia.
Qed.

Lemma pos_in_In b : forall ids k0 k, pos_in b ids k0 = Some k -> In b ids.
Proof.
  induction ids as [|i ids IH]; intros k0 k H; cbn [pos_in] in H; [discriminate|].
  destruct (Nat.eqb_spec i b) as [E|E]; [left; exact E|].
  right. eapply IH. exact H.
Qed.

(* [locate] names the file that holds the box, when the box is held once *)
Lemma locate_name lv b : forall files n ids c,
  (count_nat b (concat (map snd files)) <= 1)%nat ->
  In (n, ids) files -> In b ids ->
  locate lv files b = Some c -> fst c = n.
Proof.
  induction files as [|[n0 ids0] files IH]; intros n ids c Hc Hin Hb Hloc; [destruct Hin|].
  cbn [map snd concat] in Hc. rewrite count_nat_app in Hc.
  cbn [locate] in Hloc.
  destruct (pos_in b ids0 0) as [k|] eqn:E.
  - injection Hloc as <-. cbn [fst].
    destruct Hin as [Hin|Hin]; [congruence|].
    exfalso. apply pos_in_In in E. apply count_nat_in in E.
    assert (Hb' : In b (concat (map snd files))).
    { apply in_concat. exists ids. split; [|exact Hb].
      apply (in_map snd) in Hin. exact Hin. }
    apply count_nat_in in Hb'. lia.
  - destruct Hin as [Hin|Hin].
    + exfalso. injection Hin as -> ->.
      destruct (pos_in_complete b ids 0%nat Hb) as [k Hk]. congruence.
    + apply (IH n ids c); [lia|exact Hin|exact Hb|exact Hloc].
Qed.

Lemma wf_level_ids_nonempty lv : wf_level lv = true ->
  forall n ids, In (n, ids) (lv_files lv) -> ids <> [].
Proof.
  unfold wf_level. intros H n ids Hin.
  apply andb_true_iff in H. destruct H as [H _].
  apply andb_true_iff in H. destruct H as [H _].
  apply andb_true_iff in H. destruct H as [_ H3].
  rewrite forallb_forall in H3.
  apply (in_map snd) in Hin. apply H3 in Hin. cbn [snd] in Hin.
  intros ->. cbn in Hin. discriminate.
Qed.

Lemma wf_level_fabs_ok lv : wf_level lv = true -> forallb fab_ok (lv_fabs lv) = true.
Proof.
  unfold wf_level. intros H.
  apply andb_true_iff in H. destruct H as [H _].
  apply andb_true_iff in H. destruct H as [H _].
  apply andb_true_iff in H. destruct H as [H _].
  apply andb_true_iff in H. destruct H as [H _]. exact H.
Qed.

Lemma distinct_names_NoDup : forall l, distinct_names l = true -> NoDup l.
Proof.
  induction l as [|x l IH]; intros H; constructor;
    cbn [distinct_names] in H; apply andb_true_iff in H; destruct H as [Hx Hl].
  - intros Hin. rewrite (existsb_bytes_eqb_in x l Hin) in Hx. discriminate.
  - apply IH. exact Hl.
Qed.

Theorem level_names_perm : forall lv cells,
  wf_level lv = true -> lv_cells lv = Some cells ->
  Permutation (np_unique (map fst cells)) (map fst (lv_files lv)).
Proof.
  intros lv cells Hwf Hcells.
  destruct (wf_level_parts lv Hwf) as (Hd & Hlt & Hcount).
  apply NoDup_Permutation.
  - apply np_unique_NoDup.
  - apply distinct_names_NoDup. exact Hd.
  - intros x. rewrite np_unique_In. unfold lv_cells in Hcells. split; intros H.
    + apply in_map_iff in H. destruct H as (c & <- & Hc).
      destruct (omap_all_In _ _ _ Hcells c Hc) as (b & _ & Hloc).
      apply locate_in in Hloc. destruct Hloc as (ids & k & Hin & _).
      apply (in_map fst) in Hin. exact Hin.
    + apply in_map_iff in H. destruct H as ([n ids] & <- & Hin). cbn [fst].
      pose proof (wf_level_ids_nonempty lv Hwf n ids Hin) as Hne.
      destruct ids as [|b ids']; [congruence|].
      assert (Hb : In b (concat (map snd (lv_files lv)))).
      { apply in_concat. exists (b :: ids'). split; [|left; reflexivity].
        apply (in_map snd) in Hin. exact Hin. }
      pose proof (Hlt b Hb) as Hblt.
      assert (Hseq : In b (seq 0 (length (lv_fabs lv)))) by (apply in_seq; lia).
      destruct (omap_all_In_fwd _ _ _ Hcells b Hseq) as (c & Hloc & Hc).
      apply in_map_iff. exists c. split; [|exact Hc].
      apply (locate_name lv b (lv_files lv) n (b :: ids') c); auto.
      * rewrite (Hcount b Hblt). lia.
      * left; reflexivity.
Qed.

(* total version of the specified read *)
Definition dummy_arr : arr := {| a_shape := []; a_data := [] |}.
Definition spec_read_tot (a : farg) (fb : fab) : arr :=
  match spec_read fb a with Some r => r | None => dummy_arr end.

Lemma omap_all_tot {A B} (f : A -> option B) (d : B) : forall (l : list A) (r : list B),
  omap_all f l = Some r ->
  r = map (fun x => match f x with Some y => y | None => d end) l
  /\ forall x, In x l -> f x = Some (match f x with Some y => y | None => d end).
Proof.
  induction l as [|a l IH]; intros r H.
  - cbn [omap_all] in H. injection H as <-. split; [reflexivity|intros x []].
  - apply omap_all_cons_inv in H. destruct H as (b & r' & Hb & Hr & ->).
    destruct (IH r' Hr) as [-> Hall]. split.
    + cbn [map]. rewrite Hb. reflexivity.
    + intros x [<-|Hx]; [rewrite Hb; reflexivity|apply Hall; exact Hx].
Qed.

Lemma file_fabs_In lv n ids fb : wf_level lv = true ->
  In (n, ids) (lv_files lv) -> In fb (file_fabs lv ids) -> In fb (lv_fabs lv).
Proof.
  intros Hwf Hin Hfb.
  destruct (wf_level_parts lv Hwf) as (_ & Hlt & _).
  unfold file_fabs in Hfb. apply in_map_iff in Hfb. destruct Hfb as (i & <- & Hi).
  apply nth_In. apply Hlt. apply in_concat. exists ids. split; [|exact Hi].
  apply (in_map snd) in Hin. exact Hin.
Qed.

Lemma forallb_sub {A} (p : A -> bool) (l l' : list A) :
  forallb p l = true -> (forall x, In x l' -> In x l) -> forallb p l' = true.
Proof.
  intros H Hsub. rewrite forallb_forall in *. intros x Hx. apply H, Hsub, Hx.
Qed.

Lemma per_file_reads_tot lv a rs n ids :
  wf_level lv = true -> In (n, ids) (lv_files lv) ->
  omap_all (fun fb => spec_read fb a) (lv_fabs lv) = Some rs ->
  omap_all (fun fb => spec_read fb a) (file_fabs lv ids) = Some (map (spec_read_tot a) (file_fabs lv ids))
  /\ read_bfile (encode_file (file_fabs lv ids)) a = map (spec_read_tot a) (file_fabs lv ids)
  /\ map (spec_read_tot a) (file_fabs lv ids) <> [].
Proof.
  intros Hwf Hin Hrs.
  destruct (omap_all_tot _ dummy_arr _ _ Hrs) as [_ Hall].
  assert (Hsub : forall fb, In fb (file_fabs lv ids) -> In fb (lv_fabs lv))
    by (intros fb; apply (file_fabs_In lv n ids fb Hwf Hin)).
  assert (Hom : omap_all (fun fb => spec_read fb a) (file_fabs lv ids)
                = Some (map (spec_read_tot a) (file_fabs lv ids))).
  { apply omap_all_map. intros fb Hfb. apply (Hall fb). apply Hsub. exact Hfb. }
  split; [exact Hom|]. split.
  - apply read_bfile_spec; [|exact Hom].
    apply (forallb_sub fab_ok (lv_fabs lv)); [apply wf_level_fabs_ok; exact Hwf|exact Hsub].
  - pose proof (wf_level_ids_nonempty lv Hwf n ids Hin) as Hne.
    unfold file_fabs. destruct ids; [congruence|]. cbn [map]. discriminate.
Qed.

Theorem per_file_reads : forall lv a rs name ids,
  wf_level lv = true -> In (name, ids) (lv_files lv) ->
  omap_all (fun fb => spec_read fb a) (lv_fabs lv) = Some rs ->
  exists rf, omap_all (fun fb => spec_read fb a) (file_fabs lv ids) = Some rf
             /\ read_bfile (encode_file (file_fabs lv ids)) a = rf /\ rf <> [].
Proof.
  intros lv a rs name ids Hwf Hin Hrs.
  exists (map (spec_read_tot a) (file_fabs lv ids)).
  apply (per_file_reads_tot lv a rs name ids Hwf Hin Hrs).
Qed.

Lemma Permutation_concat_map {A B} (f : A -> list B) (l l' : list A) :
  Permutation l l' -> Permutation (concat (map f l)) (concat (map f l')).
Proof.
  intros P. rewrite <- !flat_map_concat_map. apply Permutation_flat_map. exact P.
Qed.

Theorem stream_iter_all_perm : forall lv cells a rs,
  wf_level lv = true -> lv_cells lv = Some cells -> lv_fabs lv <> [] ->
  omap_all (fun fb => spec_read fb a) (lv_fabs lv) = Some rs ->
  exists out, stream_iter_all (lv_disk lv) cells a = Some out /\ Permutation out rs.
Proof.
  intros lv cells a rs Hwf Hcells Hne Hrs.
  pose proof (level_names_perm lv cells Hwf Hcells) as Pn.
  apply Permutation_map_inv in Pn. destruct Pn as (files' & Hnames & Pf).
  (* Pf : Permutation (lv_files lv) files' *)
  assert (Hin' : forall nf, In nf files' -> In (fst nf, snd nf) (lv_files lv)).
  { intros [n ids] H. cbn [fst snd]. apply (Permutation_in _ (Permutation_sym Pf)). exact H. }
  set (F := fun nf : bytes * list nat => file_fabs lv (snd nf)).
  set (g := spec_read_tot a).
  unfold stream_iter_all. cbv zeta. rewrite Hnames.
  assert (Hlook : omap_all (fun n => lookup n (lv_disk lv)) (map fst files')
                  = Some (map (fun nf => encode_file (F nf)) files')).
  { clear Hnames Pf. induction files' as [|nf fl IH]; [reflexivity|].
    cbn [map omap_all].
    rewrite (lookup_lv_disk lv (fst nf) (snd nf) Hwf) by (apply Hin'; left; reflexivity).
    cbn [obind]. rewrite IH by (intros x Hx; apply Hin'; right; exact Hx).
    reflexivity. }
  rewrite Hlook. cbn [obind]. rewrite map_map.
  assert (Hread : map (fun nf => read_bfile (encode_file (F nf)) a) files'
                  = map (fun nf => map g (F nf)) files').
  { apply map_ext_in. intros nf Hnf.
    apply (per_file_reads_tot lv a rs (fst nf) (snd nf) Hwf (Hin' nf Hnf) Hrs). }
  rewrite Hread.
  assert (Hfne : files' <> []).
  { intros ->. apply Permutation_sym, Permutation_nil in Pf.
    pose proof (files_partition lv Hwf) as P. rewrite Pf in P. cbn [map concat] in P.
    apply Permutation_nil in P. congruence. }
  destruct (map (fun nf => map g (F nf)) files') as [|l0 ls0] eqn:Epf.
  { destruct files'; [congruence|discriminate]. }
  rewrite <- Epf. eexists. split; [reflexivity|].
  rewrite chain_iter_concat.
  2:{ apply Forall_forall. intros l Hl. apply in_map_iff in Hl. destruct Hl as (nf & <- & Hnf).
      apply (per_file_reads_tot lv a rs (fst nf) (snd nf) Hwf (Hin' nf Hnf) Hrs). }
  destruct (omap_all_tot _ dummy_arr _ _ Hrs) as [-> _].
  change (fun x => match spec_read x a with Some y => y | None => dummy_arr end) with g.
  rewrite <- (map_map F (map g)), <- concat_map.
  apply Permutation_map.
  apply (Permutation_trans (Permutation_concat_map F _ _ (Permutation_sym Pf))).
  apply files_partition. exact Hwf.
Qed.

Print Assumptions read_bfile_spec.
Print Assumptions stream_iter_all_perm.
Print Assumptions np_unique_NoDup.
