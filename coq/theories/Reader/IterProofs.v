(* Iteration over a level (LevelDataStream.__iter__): the sequential scan of a
   binary file returns the specified read of every FAB of the file and stops
   at end of file; np.unique yields the sorted distinct names; chaining
   non-empty per-file results is concatenation; and iterating a well-formed
   level yields every box exactly once with its specified data.
   Standard library only, no axioms. *)
From AK Require Import Base.Prelude Bytes.Text Bytes.FabHeader Bytes.FabHeaderProofs Bytes.BinFile Reader.Select Reader.BoxRead Reader.Level Reader.ReadSpec Reader.ReadProofs Reader.LayoutProofs.
From Coq Require Import Permutation.

(* ------------------------------------------------------------------ *)
(** * (1) The sequential scan of a binary file *)

Lemma read_header_eof (pre : bytes) : read_header (pre ++ []) (blen pre) = None.
Proof.
  unfold read_header, readline, rest. cbv zeta.
  rewrite zskipn_app_exact. reflexivity.
Qed.

Lemma omap_all_cons_inv {A B} (f : A -> option B) (x : A) (l : list A) (r : list B) :
  omap_all f (x :: l) = Some r ->
  exists y r', f x = Some y /\ omap_all f l = Some r' /\ r = y :: r'.
Proof.
  cbn [omap_all]. intros H.
  destruct (f x) as [y|]; cbn [obind] in H; [|discriminate].
  destruct (omap_all f l) as [r'|]; cbn [obind] in H; [|discriminate].
  injection H as <-. exists y, r'. repeat split.
Qed.

Lemma scan_file_spec : forall (fs : list fab) (a : farg) (rs : list arr) (fuel : nat) (pre : bytes),
  forallb fab_ok fs = true ->
  omap_all (fun fb => spec_read fb a) fs = Some rs ->
  (length fs < fuel)%nat ->
  scan_file fuel (pre ++ encode_file fs) (blen pre) a = rs.
Proof.
  induction fs as [|fb fs IH]; intros a rs fuel pre Hok Hs Hfuel.
  - cbn [omap_all] in Hs. injection Hs as <-.
    destruct fuel as [|fuel]; [cbn [length] in Hfuel; lia|].
    cbn [scan_file]. rewrite encode_file_nil, read_header_eof. reflexivity.
  - cbn [forallb] in Hok. apply andb_true_iff in Hok. destruct Hok as [Hfb Hok].
    apply omap_all_cons_inv in Hs. destruct Hs as (r & rs' & Hr & Hrs & ->).
    destruct fuel as [|fuel]; [cbn [length] in Hfuel; lia|].
    cbn [length] in Hfuel.
    cbn [scan_file]. rewrite encode_file_cons.
    rewrite (read_header_at pre fb (encode_file fs) Hfb).
    destruct (read_selected_at pre fb (encode_file fs) a r Hfb Hr) as (skip & Hsel & Hskip).
    rewrite Hsel. cbv zeta.
    change (zprod (fab_shape fb)) with (fab_cells fb).
    assert (Hp3 : blen pre + blen (fab_hdr fb) + 8 * fab_cells fb * (fab_nc fb - skip)
                  + fab_cells fb * skip * 8 = blen (pre ++ encode_fab fb)).
    { rewrite blen_app, (blen_encode_fab fb Hfb). ring. }
    rewrite Hp3.
    pose proof (blen_nonneg (pre ++ encode_fab fb)) as Hnn.
    destruct (blen (pre ++ encode_fab fb) <? 0) eqn:E; [lia|].
    f_equal. rewrite app_assoc. apply IH; [exact Hok|exact Hrs|lia].
Qed.

Lemma length_encode_file_ge (fs : list fab) : (length fs <= length (encode_file fs))%nat.
Proof.
  induction fs as [|fb fs IH]; [cbn; lia|].
  rewrite encode_file_cons, app_length. cbn [length].
  unfold encode_fab, fab_hdr. rewrite app_length.
  pose proof (blen_print_hdr_pos (fab_lo fb) (fab_hi fb) (fab_nc fb)) as H.
  unfold blen in H. lia.
Qed.

Theorem read_bfile_spec : forall (fs : list fab) (a : farg) (rs : list arr),
  forallb fab_ok fs = true ->
  omap_all (fun fb => spec_read fb a) fs = Some rs ->
  read_bfile (encode_file fs) a = rs.
Proof.
  intros fs a rs Hok Hs. unfold read_bfile.
  change (encode_file fs) with ([] ++ encode_file fs) at 2.
  change 0 with (blen (@nil ascii)).
  apply scan_file_spec; [exact Hok|exact Hs|].
  pose proof (length_encode_file_ge fs). lia.
Qed.

(* ------------------------------------------------------------------ *)
(** * (2) np.unique: sorted distinct names *)

Lemma N_of_ascii_inj (x y : ascii) : N_of_ascii x = N_of_ascii y -> x = y.
Proof.
  intros H. rewrite <- (ascii_N_embedding x), <- (ascii_N_embedding y), H. reflexivity.
Qed.

Lemma bytes_ltb_irrefl : forall a, bytes_ltb a a = false.
Proof.
  induction a as [|x a IH]; cbn [bytes_ltb]; [reflexivity|].
  rewrite N.ltb_irrefl. exact IH.
Qed.

Lemma bytes_ltb_trans : forall a b c,
  bytes_ltb a b = true -> bytes_ltb b c = true -> bytes_ltb a c = true.
Proof.
  induction a as [|x a IH]; intros [|y b] [|z c] H1 H2; cbn [bytes_ltb] in *;
    try discriminate; try reflexivity.
  destruct (N.ltb_spec (N_of_ascii x) (N_of_ascii y)) as [Hxy|Hxy];
  destruct (N.ltb_spec (N_of_ascii y) (N_of_ascii x)) as [Hyx|Hyx];
  destruct (N.ltb_spec (N_of_ascii y) (N_of_ascii z)) as [Hyz|Hyz];
  destruct (N.ltb_spec (N_of_ascii z) (N_of_ascii y)) as [Hzy|Hzy];
  destruct (N.ltb_spec (N_of_ascii x) (N_of_ascii z)) as [Hxz|Hxz];
  destruct (N.ltb_spec (N_of_ascii z) (N_of_ascii x)) as [Hzx|Hzx];
    try discriminate; try reflexivity; try lia.
  eapply IH; eassumption.
Qed.

Lemma bytes_ltb_total : forall a b,
  bytes_ltb a b = false -> bytes_eqb a b = false -> bytes_ltb b a = true.
Proof.
  induction a as [|x a IH]; intros [|y b] H1 H2; cbn [bytes_ltb bytes_eqb] in *;
    try discriminate; try reflexivity.
  destruct (N.ltb_spec (N_of_ascii x) (N_of_ascii y)) as [Hxy|Hxy]; [discriminate|].
  destruct (N.ltb_spec (N_of_ascii y) (N_of_ascii x)) as [Hyx|Hyx]; [reflexivity|].
  assert (E : x = y) by (apply N_of_ascii_inj; lia).
  subst y. rewrite Ascii.eqb_refl in H2. cbn [andb] in H2.
  apply IH; assumption.
Qed.

(* strictly sorted w.r.t. bytes_ltb: every element is below all later ones *)
Fixpoint ssorted (l : list bytes) : Prop :=
  match l with
  | [] => True
  | x :: l' => (forall y, In y l' -> bytes_ltb x y = true) /\ ssorted l'
  end.

Lemma insert_uniq_In (x : bytes) : forall l y, In y (insert_uniq x l) <-> y = x \/ In y l.
Proof.
  induction l as [|z l IH]; intros y; cbn [insert_uniq].
  - cbn [In]. split; intros [H|H]; auto.
  - destruct (bytes_ltb x z) eqn:Elt.
    + cbn [In]. split; intros [H|H]; auto.
    + destruct (bytes_eqb x z) eqn:Eeq.
      * apply bytes_eqb_true in Eeq. subst z. cbn [In].
        split; [auto|]. intros [H|H]; auto.
      * cbn [In]. rewrite IH. tauto.
Qed.

Lemma insert_uniq_ssorted (x : bytes) : forall l, ssorted l -> ssorted (insert_uniq x l).
Proof.
  induction l as [|z l IH]; intros Hs; cbn [insert_uniq].
  - cbn [ssorted In]. split; [intros y []|exact I].
  - destruct Hs as [Hz Hl].
    destruct (bytes_ltb x z) eqn:Elt.
    + cbn [ssorted]. split; [|split; assumption].
      intros y [<-|Hy]; [exact Elt|].
      apply (bytes_ltb_trans x z y Elt). apply Hz. exact Hy.
    + destruct (bytes_eqb x z) eqn:Eeq.
      * cbn [ssorted]. split; assumption.
      * cbn [ssorted]. split; [|apply IH; exact Hl].
        intros y Hy. apply insert_uniq_In in Hy. destruct Hy as [->|Hy].
        -- apply bytes_ltb_total; assumption.
        -- apply Hz. exact Hy.
Qed.

Lemma np_unique_ssorted : forall l, ssorted (np_unique l).
Proof.
  induction l as [|x l IH]; cbn [np_unique fold_right]; [exact I|].
  apply insert_uniq_ssorted. exact IH.
Qed.

Lemma ssorted_NoDup : forall l, ssorted l -> NoDup l.
Proof.
  induction l as [|x l IH]; intros Hs; constructor.
  - destruct Hs as [Hx _]. intros Hin. apply Hx in Hin.
    rewrite bytes_ltb_irrefl in Hin. discriminate.
  - apply IH. apply Hs.
Qed.

Theorem np_unique_In : forall l x, In x (np_unique l) <-> In x l.
Proof.
  induction l as [|y l IH]; intros x; cbn [np_unique fold_right].
  - tauto.
  - fold (np_unique l). rewrite insert_uniq_In, IH. cbn [In]. split; intros [H|H]; auto.
Qed.

Theorem np_unique_NoDup : forall l, NoDup (np_unique l).
Proof. intros l. apply ssorted_NoDup, np_unique_ssorted. Qed.

(* ------------------------------------------------------------------ *)
(** * (3) Chaining non-empty per-file results *)

Theorem chain_iter_concat : forall (ls : list (list arr)),
  Forall (fun l => l <> []) ls -> chain_iter ls = concat ls.
Proof.
  induction 1 as [|l ls Hl Hls IH]; [reflexivity|].
  cbn [chain_iter concat]. f_equal.
  destruct ls as [|l' ls']; [reflexivity|].
  inversion Hls as [|? ? Hl' _]; subst.
  destruct l' as [|v l']; [congruence|]. exact IH.
Qed.
