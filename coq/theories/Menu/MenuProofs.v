From AK Require Import Base.Prelude Bytes.Text Bytes.FabHeader Bytes.FabHeaderProofs
  Plotfile.TextHeader Plotfile.HeaderSpec Writers.Chef Writers.ChefProofs Menu.Menu.

(* ------------------------------------------------------------------ *)
(** * minuterie prints the header time *)
Theorem minuterie_print : forall g lvs,
  float_ok (g_time g) = true ->
  minuterie (print_header g lvs) = Some (g_time g).
Proof.
  intros g lvs Hf. unfold print_header, print_gheader. cbn [app minuterie].
  unfold line_int. rewrite py_int_str_of_Z. cbn [obind].
  pose proof (blen_nonneg (g_names g)) as Hn.
  destruct (0 <=? blen (g_names g)) eqn:E; [|lia].
  rewrite <- !app_assoc.
  replace (Z.to_nat (blen (g_names g)) + 1)%nat with (length (map (fun n => [n]) (g_names g)) + 1)%nat
    by (rewrite map_length; unfold blen; lia).
  rewrite skipn_app.
  rewrite skipn_all2 by lia.
  replace (length (map (fun n => [n]) (g_names g)) + 1 - length (map (fun n => [n]) (g_names g)))%nat with 1%nat by lia.
  cbn [app skipn]. unfold line_float. rewrite Hf. reflexivity.
Qed.

(* ------------------------------------------------------------------ *)
(** * the two-column table shows every entry exactly once *)
Theorem table_rows_cover : forall n,
  map fst (table_rows n) ++ map snd (table_rows n) = seq 0 (if Nat.odd n then S n else n).
Proof.
  intros n. unfold table_rows. cbv zeta.
  set (n' := if Nat.odd n then S n else n).
  assert (Hev : Nat.even n' = true).
  { unfold n'. destruct (Nat.odd n) eqn:E.
    - rewrite Nat.even_succ. exact E.
    - rewrite <- Nat.negb_odd, E. reflexivity. }
  apply Nat.even_spec in Hev. destruct Hev as [m Hm].
  replace (n' / 2)%nat with m by (rewrite Hm, Nat.mul_comm, Nat.div_mul; lia).
  rewrite !map_map. cbn [fst snd]. rewrite map_id.
  assert (G : forall k s, seq (s + m) k = map (fun x => (x + m)%nat) (seq s k)).
  { induction k as [|k IH]; intros s; [reflexivity|]. cbn [seq map]. f_equal. apply (IH (S s)). }
  rewrite <- (G m 0%nat). cbn [Nat.add].
  rewrite <- seq_app. f_equal. lia.
Qed.

Corollary table_rows_every_field_once : forall n k, (k < n)%nat ->
  count_occ Nat.eq_dec (map fst (table_rows n) ++ map snd (table_rows n)) k = 1%nat.
Proof.
  intros n k Hk. rewrite table_rows_cover.
  apply (proj1 (NoDup_count_occ' Nat.eq_dec _) (seq_NoDup _ _)).
  apply in_seq. destruct (Nat.odd n); lia.
Qed.

(* the pinned layout lost the last field of an odd count (3 fields: index 2 is in no row) *)
Theorem table_rows_pinned_refuted :
  ~ In 2%nat (map fst (table_rows_pinned 3) ++ map snd (table_rows_pinned 3)).
Proof. vm_compute. intros [H|[H|[]]]; discriminate. Qed.

(* ------------------------------------------------------------------ *)
(** * the value shown is the extremum of the tables *)
Theorem field_min_spec : forall (finest : bool) (per_level : list (list bytes)),
  let vals := if finest then last per_level [] else concat per_level in
  vals <> (@nil bytes) ->
  In (field_min finest per_level) vals /\ forall x, In x vals -> word_leb (field_min finest per_level) x = true.
Proof.
  intros finest per_level vals H. unfold field_min. fold vals.
  destruct vals as [|w l]; [congruence|]. apply min_word_spec.
Qed.

Theorem field_max_spec : forall (finest : bool) (per_level : list (list bytes)),
  let vals := if finest then last per_level [] else concat per_level in
  vals <> (@nil bytes) ->
  In (field_max finest per_level) vals /\ forall x, In x vals -> word_leb x (field_max finest per_level) = true.
Proof.
  intros finest per_level vals H. unfold field_max. fold vals.
  destruct vals as [|w l]; [congruence|]. apply max_word_spec.
Qed.

(* ------------------------------------------------------------------ *)
(** * the listing: every field once, as its class or under its own name *)
Lemma NoDup_app_local {A} (l l' : list A) : NoDup l -> NoDup l' -> (forall x, In x l -> ~ In x l') -> NoDup (l ++ l').
Proof.
  induction l as [|a l IH]; intros H1 H2 H3; [exact H2|].
  inversion H1; subst. cbn [app]. constructor.
  - rewrite in_app_iff. intros [H|H]; [contradiction | apply (H3 a (or_introl eq_refl) H)].
  - apply IH; [assumption | assumption | intros x Hx; apply H3; right; exact Hx].
Qed.

Section Listing.
Variable classify : bytes -> option bytes.

Lemma mem_In x l : mem x l = true <-> In x l.
Proof.
  unfold mem. rewrite existsb_exists. split.
  - intros (y & Hy & E). apply Reader.LayoutProofs.bytes_eqb_true in E. subst. exact Hy.
  - intros H. exists x. split; [exact H | apply Reader.LayoutProofs.bytes_eqb_refl].
Qed.

Lemma vf_spec : forall fields acc, NoDup acc ->
  NoDup (variables_finder classify fields acc) /\
  (forall k, In k (variables_finder classify fields acc) <-> In k acc \/ exists f, In f fields /\ class_of classify f = k).
Proof.
  induction fields as [|f fs IH]; intros acc Hnd; cbn [variables_finder].
  - split; [exact Hnd|]. intros k. split; [intros H; left; exact H | intros [H|(f & [] & _)]; exact H].
  - destruct (mem (class_of classify f) acc) eqn:E.
    + destruct (IH acc Hnd) as [H1 H2]. split; [exact H1|]. intros k. rewrite H2. split.
      * intros [H|(f' & Hf' & Hk)]; [left; exact H | right; exists f'; split; [right; exact Hf' | exact Hk]].
      * intros [H|(f' & [<-|Hf'] & Hk)]; [left; exact H | left; subst k; apply mem_In; exact E | right; exists f'; split; assumption].
    + assert (Hnd' : NoDup (acc ++ [class_of classify f])).
      { apply NoDup_app_local; [exact Hnd | constructor; [intros [] | constructor] |].
        intros x Hx [<-|[]]. apply mem_In in Hx. congruence. }
      destruct (IH _ Hnd') as [H1 H2]. split; [exact H1|]. intros k. rewrite H2, in_app_iff. cbn [In]. split.
      * intros [[H|[<-|[]]]|(f' & Hf' & Hk)]; [left; exact H | right; exists f; split; [left; reflexivity | reflexivity] |
                                               right; exists f'; split; [right; exact Hf' | exact Hk]].
      * intros [H|(f' & [<-|Hf'] & Hk)]; [left; left; exact H | left; right; left; exact Hk | right; exists f'; split; assumption].
Qed.
End Listing.

(* ------------------------------------------------------------------ *)
(** * species list and row chunking *)
Theorem species_finder_spec : forall fields s,
  In s (species_finder fields) <-> exists f, In f fields /\ strip_Y f = Some s.
Proof.
  intros fields s. unfold species_finder. rewrite in_concat. split.
  - intros (l & Hl & Hs). apply in_map_iff in Hl. destruct Hl as (f & <- & Hf).
    destruct (strip_Y f) as [s'|] eqn:E; [|contradiction]. destruct Hs as [<-|[]]. exists f. split; assumption.
  - intros (f & Hf & E). exists [s]. split; [|left; reflexivity].
    apply in_map_iff. exists f. rewrite E. split; [reflexivity | exact Hf].
Qed.

Theorem species_count : forall fields,
  length (species_finder fields) = length (filter (fun f => match strip_Y f with Some _ => true | None => false end) fields).
Proof.
  induction fields as [|f fs IH]; [reflexivity|]. unfold species_finder in *. cbn [map concat filter].
  destruct (strip_Y f); cbn [app length]; rewrite IH; reflexivity.
Qed.

Lemma chunks_concat_rows {A} (k : nat) : (0 < k)%nat -> forall fuel (l : list A),
  (length l <= fuel)%nat -> concat (chunks fuel k l) = l.
Proof.
  intros Hk. induction fuel as [|fuel IH]; intros l Hl.
  - destruct l; [reflexivity | cbn in Hl; lia].
  - cbn [chunks]. destruct l as [|a l]; [reflexivity|].
    cbn [concat]. rewrite IH.
    + apply firstn_skipn.
    + rewrite skipn_length. cbn [length] in *. lia.
Qed.

(* printing the names in rows of k loses and repeats nothing *)
Theorem rows_of_concat : forall (A : Type) (k : nat) (l : list A), (0 < k)%nat -> concat (rows_of k l) = l.
Proof. intros A k l Hk. unfold rows_of. apply chunks_concat_rows; [exact Hk | lia]. Qed.
