(* Header-only tools: minuterie.main, Menu.find_min_max / show_min_max /
   variables_finder / species_finder / row chunking (with the repairs of
   KNOWN_FINDINGS.txt).  The regular-expression classification of a field name
   is a parameter ([classify]: Some class key or None for a field unknown to
   the database); value ordering is the order of finite float64 values on
   their bit patterns (Writers.Chef.word_leb); the three-significant-digit
   formatting is Python's and is checked by the correspondence. *)
From AK Require Import Base.Prelude Bytes.Text Bytes.FabHeader Plotfile.TextHeader Writers.Chef.

(* ---- minuterie: skip version, count, names, dimension; print the time ---- *)
Definition minuterie (t : text) : option token :=
  match t with
  | _ :: l1 :: rest =>
      do n <- line_int l1;
      guard (0 <=? n);
      match skipn (Z.to_nat n + 1) rest with
      | l :: _ => line_float l
      | [] => None
      end
  | _ => None
  end.

(* ---- find_min_max: extremum over the per-box tables of all levels / of the finest ---- *)
Definition field_min (finest : bool) (per_level : list (list bytes)) : bytes :=
  let vals := if finest then last per_level [] else concat per_level in
  match vals with w :: l => min_word l w | [] => [] end.
Definition field_max (finest : bool) (per_level : list (list bytes)) : bytes :=
  let vals := if finest then last per_level [] else concat per_level in
  match vals with w :: l => max_word l w | [] => [] end.

(* ---- show_min_max: two columns; an empty entry pads an odd count;
   row i shows entries i and i + middle ---- *)
Definition table_rows (n : nat) : list (nat * nat) :=
  let n' := if Nat.odd n then S n else n in
  let middle := (n' / 2)%nat in
  map (fun i => (i, (i + middle)%nat)) (seq 0 middle).

(* the pinned layout (padding only for fewer than two entries), kept to state what was wrong *)
Definition table_rows_pinned (n : nat) : list (nat * nat) :=
  let n' := if (n / 2 =? 0)%nat then S n else n in
  let middle := (n' / 2)%nat in
  map (fun i => (i, (i + middle)%nat)) (seq 0 middle).

(* ---- variables_finder: one entry per class present, unknown fields under their own name ---- *)
Section Classify.
Variable classify : bytes -> option bytes.

Definition class_of (f : bytes) : bytes := match classify f with Some k => k | None => f end.

Fixpoint variables_finder (fields : list bytes) (acc : list bytes) : list bytes :=
  match fields with
  | [] => acc
  | f :: fs => let k := class_of f in
               variables_finder fs (if mem k acc then acc else acc ++ [k])
  end.
End Classify.

(* ---- species_finder: the Y(...) fields, stripped ---- *)
Definition strip_Y (f : bytes) : option bytes :=
  match f with
  | "Y"%char :: "("%char :: rest =>
      match rev rest with
      | ")"%char :: mid => match mid with [] => None | _ => Some (rev mid) end
      | _ => None
      end
  | _ => None
  end.

Definition species_finder (fields : list bytes) : list bytes :=
  concat (map (fun f => match strip_Y f with Some s => [s] | None => [] end) fields).

(* ---- show_species / show_variables: rows of k names ---- *)
Fixpoint chunks {A} (fuel : nat) (k : nat) (l : list A) : list (list A) :=
  match fuel with
  | O => []
  | S fuel' => match l with
               | [] => []
               | _ => firstn k l :: chunks fuel' k (skipn k l)
               end
  end.
Definition rows_of {A} (k : nat) (l : list A) : list (list A) := chunks (length l) k l.
