(* A universal first-order value used on the wire between the correspondence
   harness and the extracted model: integers, byte strings and lists.  All
   decoding of harness input into typed model values happens here, inside
   Coq, so the hand-written OCaml driver only parses and prints [sx]. *)
From AK Require Import Base.Prelude.

Inductive sx :=
| SZ (z : Z)
| SB (b : bytes)
| SL (l : list sx).

Definition as_Z (s : sx) : option Z := match s with SZ z => Some z | _ => None end.
Definition as_B (s : sx) : option bytes := match s with SB b => Some b | _ => None end.
Definition as_L (s : sx) : option (list sx) := match s with SL l => Some l | _ => None end.
Definition as_nat (s : sx) : option nat :=
  match s with SZ z => if z <? 0 then None else Some (Z.to_nat z) | _ => None end.
Definition as_bool (s : sx) : option bool :=
  match s with SZ z => Some (negb (z =? 0)) | _ => None end.
Definition as_list {A} (f : sx -> option A) (s : sx) : option (list A) :=
  do l <- as_L s; omap_all f l.
(* None = SL [], Some x = SL [x] *)
Definition as_opt {A} (f : sx -> option A) (s : sx) : option (option A) :=
  match s with
  | SL [] => Some None
  | SL [x] => do v <- f x; Some (Some v)
  | _ => None
  end.
Definition as_pair {A B} (f : sx -> option A) (g : sx -> option B) (s : sx) : option (A * B) :=
  match s with
  | SL [x; y] => do a <- f x; do b <- g y; Some (a, b)
  | _ => None
  end.

Definition of_list {A} (f : A -> sx) (l : list A) : sx := SL (map f l).
Definition of_Zs (l : list Z) : sx := SL (map SZ l).
Definition of_bool (b : bool) : sx := SZ (if b then 1 else 0).
Definition of_opt {A} (f : A -> sx) (o : option A) : sx :=
  match o with Some a => SL [f a] | None => SL [] end.
Definition of_pair {A B} (f : A -> sx) (g : B -> sx) (p : A * B) : sx :=
  SL [f (fst p); g (snd p)].

(* results: (0 value) for a returned value, (1) for "raises" *)
Definition ok (v : sx) : sx := SL [SZ 0; v].
Definition err : sx := SL [SZ 1].
Definition of_result {A} (f : A -> sx) (o : option A) : sx :=
  match o with Some a => ok (f a) | None => err end.
(* the request itself could not be decoded: a harness bug, never a verdict *)
Definition bad_request : sx := SL [SZ 2].
