(* Common imports, arithmetic automation set-up and list lemmas shared by the
   whole development.  Standard library only. *)
From Coq Require Export Ascii String.
From Coq Require Export ZArith List Bool Lia.
From Coq Require Export ZifyBool ZifyNat.
Export ListNotations.
Ltac Zify.zify_post_hook ::= Z.to_euclidean_division_equations.
Open Scope Z_scope.

(* A file content / text is a list of bytes; with the string-extraction
   directives an [ascii] is an OCaml [char]. *)
Definition bytes := list ascii.

Definition blen {A} (b : list A) : Z := Z.of_nat (length b).
Definition zfirstn {A} (n : Z) (l : list A) : list A := firstn (Z.to_nat n) l.
Definition zskipn {A} (n : Z) (l : list A) : list A := skipn (Z.to_nat n) l.
Definition znth {A} (n : Z) (l : list A) : option A :=
  if n <? 0 then None else nth_error l (Z.to_nat n).

Definition bs (s : string) : bytes := list_ascii_of_string s.

(* option monad *)
Definition obind {A B} (o : option A) (f : A -> option B) : option B :=
  match o with Some a => f a | None => None end.
Notation "'do' x <- o ; k" := (obind o (fun x => k))
  (at level 200, x pattern, o at level 100, k at level 200, right associativity).
Notation "'guard' b ; k" := (if b then k else None)
  (at level 200, b at level 100, k at level 200, right associativity).

Fixpoint omap_all {A B} (f : A -> option B) (l : list A) : option (list B) :=
  match l with
  | [] => Some []
  | a :: l' => do b <- f a; do bs <- omap_all f l'; Some (b :: bs)
  end.

Definition zsum (l : list Z) : Z := fold_right Z.add 0 l.
Definition zprod (l : list Z) : Z := fold_right Z.mul 1 l.

Lemma blen_app {A} (a b : list A) : blen (a ++ b) = blen a + blen b.
Proof. unfold blen. rewrite app_length. lia. Qed.

Lemma blen_nonneg {A} (a : list A) : 0 <= blen a.
Proof. unfold blen. lia. Qed.

Lemma blen_nil {A} : blen (@nil A) = 0.
Proof. reflexivity. Qed.

Lemma blen_cons {A} (x : A) l : blen (x :: l) = 1 + blen l.
Proof. unfold blen. cbn [length]. lia. Qed.

Lemma zskipn_app_exact {A} (a b : list A) : zskipn (blen a) (a ++ b) = b.
Proof.
  unfold zskipn, blen. rewrite Nat2Z.id.
  rewrite skipn_app, skipn_all, Nat.sub_diag. reflexivity.
Qed.

Lemma zskipn_app_ge {A} (a b : list A) n :
  blen a <= n -> zskipn n (a ++ b) = zskipn (n - blen a) b.
Proof.
  unfold zskipn, blen. intros H.
  rewrite skipn_app.
  rewrite skipn_all2 by lia. cbn [app].
  f_equal. lia.
Qed.

Lemma zskipn_0 {A} (l : list A) : zskipn 0 l = l.
Proof. reflexivity. Qed.

Lemma zskipn_zskipn {A} (l : list A) a b :
  0 <= a -> 0 <= b -> zskipn a (zskipn b l) = zskipn (a + b) l.
Proof.
  intros Ha Hb. unfold zskipn.
  replace (Z.to_nat (a + b)) with (Z.to_nat b + Z.to_nat a)%nat by lia.
  generalize (Z.to_nat a) as m. generalize (Z.to_nat b) as n. clear.
  intros n; revert l; induction n as [|n IH]; intros l m; [reflexivity|].
  destruct l as [|x l]; cbn [skipn Nat.add]; [now rewrite skipn_nil|apply IH].
Qed.

Lemma zfirstn_app_exact {A} (a b : list A) : zfirstn (blen a) (a ++ b) = a.
Proof.
  unfold zfirstn, blen. rewrite Nat2Z.id.
  rewrite firstn_app, firstn_all, Nat.sub_diag. cbn. apply app_nil_r.
Qed.

Lemma zfirstn_all {A} (a : list A) n : blen a <= n -> zfirstn n a = a.
Proof. unfold zfirstn, blen. intros. apply firstn_all2. lia. Qed.

Lemma blen_zfirstn {A} (l : list A) n :
  0 <= n <= blen l -> blen (zfirstn n l) = n.
Proof. unfold blen, zfirstn. intros. rewrite firstn_length. lia. Qed.

Lemma blen_zskipn {A} (l : list A) n :
  0 <= n <= blen l -> blen (zskipn n l) = blen l - n.
Proof. unfold blen, zskipn. intros. rewrite skipn_length. lia. Qed.

Lemma blen_concat_const {A} (ls : list (list A)) k :
  Forall (fun l => blen l = k) ls -> blen (concat ls) = k * blen ls.
Proof.
  induction 1 as [|l ls Hl _ IH]; cbn [concat].
  - unfold blen; cbn [length]; lia.
  - rewrite blen_app, blen_cons, IH, Hl. lia.
Qed.

Lemma omap_all_length {A B} (f : A -> option B) l r :
  omap_all f l = Some r -> length r = length l.
Proof.
  revert r. induction l as [|a l IH]; cbn; intros r H.
  - inversion H. reflexivity.
  - destruct (f a); cbn in H; [|discriminate].
    destruct (omap_all f l) eqn:E; cbn in H; [|discriminate].
    inversion H. cbn. f_equal. apply IH. reflexivity.
Qed.

Lemma omap_all_map {A B} (f : A -> option B) (g : A -> B) l :
  (forall a, In a l -> f a = Some (g a)) -> omap_all f l = Some (map g l).
Proof.
  induction l as [|a l IH]; intros H; cbn; [reflexivity|].
  rewrite (H a) by (left; reflexivity). cbn.
  rewrite IH by (intros; apply H; right; assumption). reflexivity.
Qed.
