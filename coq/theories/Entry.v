(* Entry points of the executable model, as [sx -> sx] functions dispatched by
   name.  This is what is extracted; the correspondence harness calls these
   and nothing else. *)
From AK Require Import Base.Prelude Base.Sx Bytes.Text Bytes.FabHeader Bytes.BinFile
  Reader.Select Reader.BoxRead Reader.Level.

Definition as_Zs := as_list as_Z.
Definition as_optZ := as_opt as_Z.

Definition dec_fab (s : sx) : option fab :=
  match s with
  | SL [lo; hi; SZ nc; SB d] =>
      do lo <- as_Zs lo; do hi <- as_Zs hi;
      Some {| fab_lo := lo; fab_hi := hi; fab_nc := nc; fab_data := d |}
  | _ => None
  end.

Definition dec_level (s : sx) : option level :=
  match s with
  | SL [fabs; files] =>
      do fabs <- as_list dec_fab fabs;
      do files <- as_list (as_pair as_B (as_list as_nat)) files;
      Some {| lv_fabs := fabs; lv_files := files |}
  | _ => None
  end.

Definition dec_ufarg (s : sx) : option ufarg :=
  match s with
  | SL [SZ 0; SB n] => Some (UName n)
  | SL [SZ 1; l] => do l <- as_list as_B l; Some (UNames l)
  | SL [SZ 2; SZ i] => Some (UInt i)
  | SL [SZ 3; a; b; c] => do a <- as_optZ a; do b <- as_optZ b; do c <- as_optZ c; Some (USlice a b c)
  | SL [SZ 4; l] => do l <- as_Zs l; Some (UList l)
  | _ => None
  end.

Definition dec_farg (s : sx) : option farg :=
  match s with
  | SL [SZ 0; SZ i] => Some (FInt i)
  | SL [SZ 1; a; b; c] => do a <- as_optZ a; do b <- as_optZ b; do c <- as_optZ c; Some (FSlice a b c)
  | SL [SZ 2; l] => do l <- as_Zs l; Some (FList l)
  | _ => None
  end.

Definition enc_farg (a : farg) : sx :=
  match a with
  | FInt i => SL [SZ 0; SZ i]
  | FSlice a b c => SL [SZ 1; of_opt SZ a; of_opt SZ b; of_opt SZ c]
  | FList l => SL [SZ 2; of_Zs l]
  end.

Definition dec_bsel (s : sx) : option bsel :=
  match s with
  | SL [SZ 0; SZ i] => Some (BInt i)
  | SL [SZ 1; a; b; c] => do a <- as_optZ a; do b <- as_optZ b; do c <- as_optZ c; Some (BSlice a b c)
  | SL [SZ 2; l] => do l <- as_Zs l; Some (BList l)
  | SL [SZ 3; l] => do l <- as_list as_bool l; Some (BMask l)
  | _ => None
  end.

Definition enc_arr (a : arr) : sx := SL [of_Zs (a_shape a); SB (a_data a)].
Definition enc_hdr (h : hdr) : sx := SL [of_Zs (h_lo h); of_Zs (h_hi h); SZ (h_nc h)].
Definition enc_disk (d : list (bytes * bytes)) : sx := of_list (of_pair SB SB) d.
Definition dec_disk := as_list (as_pair as_B as_B).
Definition enc_cells (c : list (bytes * Z)) : sx := of_list (of_pair SB SZ) c.
Definition dec_cells := as_list (as_pair as_B as_Z).

(* run a decoded request; a request that does not decode is a harness bug *)
Definition req {A} (d : option A) (k : A -> sx) : sx :=
  match d with Some a => k a | None => bad_request end.

(* C01 / C15: the whole indexing interface on one level.
   request: (fields level ufarg limit key bsel) *)
Definition e_getitem (s : sx) : sx :=
  match s with
  | SL [fields; lvs; u; SZ limit; SZ key; b] =>
      req (do fields <- as_list as_B fields; do lvs <- as_list dec_level lvs;
           do u <- dec_ufarg u; do b <- dec_bsel b; Some (fields, lvs, u, b))
          (fun '(fields, lvs, u, b) =>
             of_result (of_list enc_arr)
               (do a <- norm_farg fields u;
                do k <- norm_level limit key;
                do lv <- znth k lvs;
                do cells <- lv_cells lv;
                stream_getitem (lv_disk lv) cells a b))
  | _ => bad_request
  end.

Definition e_iter_all (s : sx) : sx :=
  match s with
  | SL [fields; lvs; u; SZ limit; SZ key] =>
      req (do fields <- as_list as_B fields; do lvs <- as_list dec_level lvs;
           do u <- dec_ufarg u; Some (fields, lvs, u))
          (fun '(fields, lvs, u) =>
             of_result (of_list enc_arr)
               (do a <- norm_farg fields u;
                do k <- norm_level limit key;
                do lv <- znth k lvs;
                do cells <- lv_cells lv;
                stream_iter_all (lv_disk lv) cells a))
  | _ => bad_request
  end.

Definition e_level_disk (s : sx) : sx :=
  req (dec_level s) (fun lv => of_result (fun c => SL [enc_disk (lv_disk lv); enc_cells c]) (lv_cells lv)).

Definition e_print_hdr (s : sx) : sx :=
  match s with
  | SL [lo; hi; SZ nc] => req (do lo <- as_Zs lo; do hi <- as_Zs hi; Some (lo, hi))
                              (fun '(lo, hi) => ok (SB (print_hdr lo hi nc)))
  | _ => bad_request
  end.

Definition e_parse_hdr (s : sx) : sx :=
  req (as_B s) (fun b => of_result enc_hdr (parse_hdr b)).

Definition e_read_box (s : sx) : sx :=
  match s with
  | SL [SB f; SZ off; a] => req (dec_farg a) (fun a => of_result enc_arr (read_box f off a))
  | _ => bad_request
  end.

Definition e_read_bfile (s : sx) : sx :=
  match s with
  | SL [SB f; a] => req (dec_farg a) (fun a => ok (of_list enc_arr (read_bfile f a)))
  | _ => bad_request
  end.

Definition e_select_boxes (s : sx) : sx :=
  match s with
  | SL [SZ n; b] => req (dec_bsel b) (fun b => of_result of_Zs (select_boxes n b))
  | _ => bad_request
  end.

Definition e_norm_farg (s : sx) : sx :=
  match s with
  | SL [fields; u] => req (do f <- as_list as_B fields; do u <- dec_ufarg u; Some (f, u))
                          (fun '(f, u) => of_result enc_farg (norm_farg f u))
  | _ => bad_request
  end.

Definition entries : list (string * (sx -> sx)) :=
  [ ("getitem", e_getitem);
    ("iter_all", e_iter_all);
    ("level_disk", e_level_disk);
    ("print_hdr", e_print_hdr);
    ("parse_hdr", e_parse_hdr);
    ("read_box", e_read_box);
    ("read_bfile", e_read_bfile);
    ("select_boxes", e_select_boxes);
    ("norm_farg", e_norm_farg)
  ]%string.

Fixpoint find_entry (name : string) (l : list (string * (sx -> sx))) : option (sx -> sx) :=
  match l with
  | [] => None
  | (n, f) :: l' => if String.eqb n name then Some f else find_entry name l'
  end.

Definition dispatch (name : string) (arg : sx) : sx :=
  match find_entry name entries with
  | Some f => f arg
  | None => bad_request
  end.

(* decimal text <-> Z for the driver: Coq's own verified conversions *)
From Coq Require Import DecimalString DecimalZ.
Definition z_of_string (s : string) : option Z :=
  match NilZero.int_of_string s with Some d => Some (Z.of_int d) | None => None end.
Definition string_of_z (z : Z) : string := NilZero.string_of_int (Z.to_int z).
