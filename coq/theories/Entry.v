(* Entry points of the executable model, as [sx -> sx] functions dispatched by
   name.  This is what is extracted; the correspondence harness calls these
   and nothing else. *)
From AK Require Import Base.Prelude Base.Sx Bytes.Text Bytes.FabHeader Bytes.BinFile
  Reader.Select Reader.BoxRead Reader.Level Plotfile.TextHeader Taste.Taste Reader.ReadSpec Plotfile.Abstract Writers.Colander Writers.ColanderSpec Writers.Combine Writers.CombineSpec Writers.Chef Writers.Chk2plt Writers.ChkHeader Writers.Chk2pltTool Writers.Chk2pltToolProofs Writers.ChefToolProofs Writers.FullPipeline Writers.GoodB
  Array.Paint Mandoline.Plate Mandoline.Slice3D Mandoline.SlicePlot Whip.Whip Pestle.Pestle Point.PointQuery Menu.Menu Paths.Posix.

Definition as_Zs := as_list as_Z.
Definition as_optZ := as_opt as_Z.

Definition dec_fab (s : sx) : option fab :=
  match s with
  | SL [lo; hi; SZ nc; SB d] =>
      do lo <- as_Zs lo; do hi <- as_Zs hi;
      Some {| fab_lo := lo; fab_hi := hi; fab_nc := nc; fab_data := d |}
  | _ => None
  end.

Definition dec_level (s : sx) : option level :=
  match s with
  | SL [fabs; files] =>
      do fabs <- as_list dec_fab fabs;
      do files <- as_list (as_pair as_B (as_list as_nat)) files;
      Some {| lv_fabs := fabs; lv_files := files |}
  | _ => None
  end.

Definition dec_ufarg (s : sx) : option ufarg :=
  match s with
  | SL [SZ 0; SB n] => Some (UName n)
  | SL [SZ 1; l] => do l <- as_list as_B l; Some (UNames l)
  | SL [SZ 2; SZ i] => Some (UInt i)
  | SL [SZ 3; a; b; c] => do a <- as_optZ a; do b <- as_optZ b; do c <- as_optZ c; Some (USlice a b c)
  | SL [SZ 4; l] => do l <- as_Zs l; Some (UList l)
  | _ => None
  end.

Definition dec_farg (s : sx) : option farg :=
  match s with
  | SL [SZ 0; SZ i] => Some (FInt i)
  | SL [SZ 1; a; b; c] => do a <- as_optZ a; do b <- as_optZ b; do c <- as_optZ c; Some (FSlice a b c)
  | SL [SZ 2; l] => do l <- as_Zs l; Some (FList l)
  | _ => None
  end.

Definition enc_farg (a : farg) : sx :=
  match a with
  | FInt i => SL [SZ 0; SZ i]
  | FSlice a b c => SL [SZ 1; Sx.of_opt SZ a; Sx.of_opt SZ b; Sx.of_opt SZ c]
  | FList l => SL [SZ 2; of_Zs l]
  end.

Definition dec_bsel (s : sx) : option bsel :=
  match s with
  | SL [SZ 0; SZ i] => Some (BInt i)
  | SL [SZ 1; a; b; c] => do a <- as_optZ a; do b <- as_optZ b; do c <- as_optZ c; Some (BSlice a b c)
  | SL [SZ 2; l] => do l <- as_Zs l; Some (BList l)
  | SL [SZ 3; l] => do l <- as_list as_bool l; Some (BMask l)
  | _ => None
  end.

Definition enc_arr (a : arr) : sx := SL [of_Zs (a_shape a); SB (a_data a)].
Definition enc_hdr (h : hdr) : sx := SL [of_Zs (h_lo h); of_Zs (h_hi h); SZ (h_nc h)].
Definition enc_disk (d : list (bytes * bytes)) : sx := of_list (of_pair SB SB) d.
Definition dec_disk := as_list (as_pair as_B as_B).
Definition enc_cells (c : list (bytes * Z)) : sx := of_list (of_pair SB SZ) c.
Definition dec_cells := as_list (as_pair as_B as_Z).

(* run a decoded request; a request that does not decode is a harness bug *)
Definition req {A} (d : option A) (k : A -> sx) : sx :=
  match d with Some a => k a | None => bad_request end.

(* C01 / C15: the whole indexing interface on one level.
   request: (fields level ufarg limit key bsel) *)
Definition e_getitem (s : sx) : sx :=
  match s with
  | SL [fields; lvs; u; SZ limit; SZ key; b] =>
      req (do fields <- as_list as_B fields; do lvs <- as_list dec_level lvs;
           do u <- dec_ufarg u; do b <- dec_bsel b; Some (fields, lvs, u, b))
          (fun '(fields, lvs, u, b) =>
             of_result (of_list enc_arr)
               (do a <- norm_farg fields u;
                do k <- norm_level limit key;
                do lv <- znth k lvs;
                do cells <- lv_cells lv;
                stream_getitem (lv_disk lv) cells a b))
  | _ => bad_request
  end.

Definition e_iter_all (s : sx) : sx :=
  match s with
  | SL [fields; lvs; u; SZ limit; SZ key] =>
      req (do fields <- as_list as_B fields; do lvs <- as_list dec_level lvs;
           do u <- dec_ufarg u; Some (fields, lvs, u))
          (fun '(fields, lvs, u) =>
             of_result (of_list enc_arr)
               (do a <- norm_farg fields u;
                do k <- norm_level limit key;
                do lv <- znth k lvs;
                do cells <- lv_cells lv;
                stream_iter_all (lv_disk lv) cells a))
  | _ => bad_request
  end.

Definition e_level_disk (s : sx) : sx :=
  req (dec_level s) (fun lv => of_result (fun c => SL [enc_disk (lv_disk lv); enc_cells c]) (lv_cells lv)).

Definition e_print_hdr (s : sx) : sx :=
  match s with
  | SL [lo; hi; SZ nc] => req (do lo <- as_Zs lo; do hi <- as_Zs hi; Some (lo, hi))
                              (fun '(lo, hi) => ok (SB (print_hdr lo hi nc)))
  | _ => bad_request
  end.

Definition e_parse_hdr (s : sx) : sx :=
  req (as_B s) (fun b => of_result enc_hdr (parse_hdr b)).

Definition e_read_box (s : sx) : sx :=
  match s with
  | SL [SB f; SZ off; a] => req (dec_farg a) (fun a => of_result enc_arr (read_box f off a))
  | _ => bad_request
  end.

Definition e_read_bfile (s : sx) : sx :=
  match s with
  | SL [SB f; a] => req (dec_farg a) (fun a => ok (of_list enc_arr (read_bfile f a)))
  | _ => bad_request
  end.

Definition e_select_boxes (s : sx) : sx :=
  match s with
  | SL [SZ n; b] => req (dec_bsel b) (fun b => of_result of_Zs (select_boxes n b))
  | _ => bad_request
  end.

Definition e_norm_farg (s : sx) : sx :=
  match s with
  | SL [fields; u] => req (do f <- as_list as_B fields; do u <- dec_ufarg u; Some (f, u))
                          (fun '(f, u) => of_result enc_farg (norm_farg f u))
  | _ => bad_request
  end.

(* ---- C02: text headers ---- *)
Definition as_Bs := as_list as_B.
Definition as_text := as_list as_Bs.
Definition enc_line (l : line) : sx := of_list SB l.
Definition enc_text (t : text) : sx := of_list enc_line t.

Definition dec_gheader (s : sx) : option gheader :=
  match s with
  | SL [ver; names; SZ ndims; SB time; SZ maxlv; lo; hi; factors; grid; steps; dx; sys] =>
      do ver <- as_Bs ver; do names <- as_Bs names; do lo <- as_Bs lo; do hi <- as_Bs hi;
      do factors <- as_Zs factors; do grid <- as_list as_Zs grid; do steps <- as_Zs steps;
      do dx <- as_list as_Bs dx; do sys <- as_Bs sys;
      Some {| g_version := ver; g_names := names; g_ndims := ndims; g_time := time;
              g_max_level := maxlv; g_geo_low := lo; g_geo_high := hi; g_factors := factors;
              g_grid_hi := grid; g_steps := steps; g_dx := dx; g_sys_coord := sys |}
  | _ => None
  end.

Definition enc_gheader (g : gheader) : sx :=
  SL [enc_line (g_version g); of_list SB (g_names g); SZ (g_ndims g); SB (g_time g);
      SZ (g_max_level g); enc_line (g_geo_low g); enc_line (g_geo_high g); of_Zs (g_factors g);
      of_list of_Zs (g_grid_hi g); of_Zs (g_steps g); of_list enc_line (g_dx g);
      enc_line (g_sys_coord g)].

Definition dec_lvboxes (s : sx) : option lvboxes :=
  match s with
  | SL [SZ nc; stepl; boxes; SB dir; SB tm] =>
      do stepl <- as_Bs stepl;
      do boxes <- as_list (as_list (as_pair as_B as_B)) boxes;
      Some {| lb_ncells := nc; lb_step_line := stepl; lb_boxes := boxes;
              lb_cell_dir := dir; lb_time_tok := tm |}
  | _ => None
  end.

Definition enc_lvboxes (b : lvboxes) : sx :=
  SL [SZ (lb_ncells b); enc_line (lb_step_line b);
      of_list (of_list (of_pair SB SB)) (lb_boxes b); SB (lb_cell_dir b); SB (lb_time_tok b)].

Definition dec_cellh (s : sx) : option cellh :=
  match s with
  | SL [idx; files; offs; mins; maxs] =>
      do idx <- as_list (as_pair as_Zs as_Zs) idx; do files <- as_Bs files; do offs <- as_Zs offs;
      do mins <- as_list as_Bs mins; do maxs <- as_list as_Bs maxs;
      Some {| c_indexes := idx; c_files := files; c_offsets := offs; c_mins := mins; c_maxs := maxs |}
  | _ => None
  end.

Definition enc_cellh (c : cellh) : sx :=
  SL [of_list (of_pair of_Zs of_Zs) (c_indexes c); of_list SB (c_files c); of_Zs (c_offsets c);
      of_list enc_line (c_mins c); of_list enc_line (c_maxs c)].

Definition e_print_header (s : sx) : sx :=
  match s with
  | SL [g; lvs] => req (do g <- dec_gheader g; do lvs <- as_list dec_lvboxes lvs; Some (g, lvs))
                       (fun '(g, lvs) => ok (enc_text (print_header g lvs)))
  | _ => bad_request
  end.

Definition e_print_cellh (s : sx) : sx :=
  match s with
  | SL [SZ nf; c] => req (dec_cellh c) (fun c => ok (enc_text (print_cellh nf c)))
  | _ => bad_request
  end.

Definition enc_opened (o : opened) : sx :=
  SL [enc_gheader (o_g o); of_list SB (o_keys o); SZ (o_limit o); of_list enc_lvboxes (o_levels o)].

Definition e_open_header (s : sx) : sx :=
  match s with
  | SL [t; limit] => req (do t <- as_text t; do l <- as_optZ limit; Some (t, l))
                         (fun '(t, l) => of_result enc_opened (open_header t l))
  | _ => bad_request
  end.

Definition e_parse_cellh (s : sx) : sx :=
  match s with
  | SL [t; SZ nf; mm] => req (do t <- as_text t; do mm <- as_bool mm; Some (t, mm))
                             (fun '(t, mm) => of_result enc_cellh
                                (match p_cellh nf mm t with Some (c, _) => Some c | None => None end))
  | _ => bad_request
  end.

(* ---- C03 / C04 / C20: the validator on an arbitrary directory ---- *)
Definition dec_ldir (s : sx) : option (bytes * ldir) :=
  match s with
  | SL [SB name; ch; files] =>
      do ch <- as_opt as_text ch; do files <- dec_disk files;
      Some (name, {| ld_cellh := ch; ld_files := files |})
  | _ => None
  end.

Definition dec_pdisk (s : sx) : option pdisk :=
  match s with
  | SL [h; dirs] =>
      do h <- as_opt as_text h; do dirs <- as_list dec_ldir dirs;
      Some {| pd_header := h; pd_dirs := dirs |}
  | _ => None
  end.

Definition dec_topts (s : sx) : option topts :=
  match s with
  | SL [a; b; c; d] =>
      do a <- as_bool a; do b <- as_bool b; do c <- as_bool c; do d <- as_bool d;
      Some {| t_headers := a; t_shape := b; t_data := c; t_coords := d |}
  | _ => None
  end.

(* np.isclose(float(token), word) as the table of the pairs found close *)
Definition dec_close (s : sx) : option (list (bytes * bytes)) :=
  as_list (fun p => match p with SL [SB t; SB w] => Some (t, w) | _ => None end) s.
Definition close_of (tbl : list (bytes * bytes)) (t w : bytes) : bool :=
  existsb (fun p => bytes_eqb (fst p) t && bytes_eqb (snd p) w) tbl.

(* request: (opts limit disk [close table]) -> verdict as 0/1 *)
Definition e_taste (s : sx) : sx :=
  match s with
  | SL [o; limit; d] =>
      req (do o <- dec_topts o; do l <- as_optZ limit; do d <- dec_pdisk d; Some (o, l, d))
          (fun '(o, l, d) => ok (of_bool (taste_good (close_of []) o l d)))
  | SL [o; limit; d; tbl] =>
      req (do o <- dec_topts o; do l <- as_optZ limit; do d <- dec_pdisk d; do tbl <- dec_close tbl; Some (o, l, d, tbl))
          (fun '(o, l, d, tbl) => ok (of_bool (taste_good (close_of tbl) o l d)))
  | _ => bad_request
  end.

(* all 16 option sets at once (the box-coordinate flag does not enter the
   modelled part): returns the verdict per (headers, shape, data) *)
Definition e_taste_all (s : sx) : sx :=
  match s with
  | SL [limit; d; tbl] =>
      req (do l <- as_optZ limit; do d <- dec_pdisk d; do tbl <- dec_close tbl; Some (l, d, tbl))
          (fun '(l, d, tbl) =>
             ok (of_list of_bool
                   (map (fun k => taste_good (close_of tbl)
                                             {| t_headers := Nat.testbit k 0; t_shape := Nat.testbit k 1;
                                                t_data := Nat.testbit k 2; t_coords := false |} l d)
                        (seq 0 8))))
  | _ => bad_request
  end.

(* ---- C05: colander on a directory image ---- *)
Definition enc_ldir (nd : bytes * ldir) : sx :=
  SL [SB (fst nd); Sx.of_opt enc_text (ld_cellh (snd nd)); enc_disk (ld_files (snd nd))].
Definition enc_pdisk (d : pdisk) : sx :=
  SL [Sx.of_opt enc_text (pd_header d); of_list enc_ldir (pd_dirs d)].

Definition e_colander (s : sx) : sx :=
  match s with
  | SL [vars; limit; d] =>
      req (do v <- as_Bs vars; do l <- as_optZ limit; do d <- dec_pdisk d; Some (v, l, d))
          (fun '(v, l, d) => of_result enc_pdisk (colander v l d))
  | _ => bad_request
  end.


(* ---- C05 / C14: the SPECIFICATION side.  request: (gheader (level ...) vars limit)
   with level = (lvboxes level-layout mins maxs) -> (image of the plotfile,
   image of the strained plotfile) ---- *)
Definition dec_plevel (s : sx) : option plevel :=
  match s with
  | SL [lb; lv; mins; maxs] =>
      do lb <- dec_lvboxes lb; do lv <- dec_level lv;
      do mins <- as_list as_Bs mins; do maxs <- as_list as_Bs maxs;
      Some {| Abstract.pl_boxes := lb; Abstract.pl_level := lv; Abstract.pl_mins := mins; Abstract.pl_maxs := maxs |}
  | _ => None
  end.

Definition e_colander_spec (s : sx) : sx :=
  match s with
  | SL [g; lvs; vars; limit] =>
      req (do g <- dec_gheader g; do lvs <- as_list dec_plevel lvs; do v <- as_Bs vars; do l <- as_optZ limit;
           Some (g, lvs, v, l))
          (fun '(g, lvs, v, l) =>
             let pf := {| pf_g := g; pf_levels := lvs |} in
             ok (SL [enc_pdisk (pf_disk pf);
                     of_result enc_pdisk
                       (match spec_step (v, l) pf with Some pf' => Some (pf_disk pf') | None => None end)]))
  | _ => bad_request
  end.

(* ---- C06: the SPECIFICATION side.  request: (plotfile1 plotfile2 names1 names2), a plotfile being
   (gheader (level ...)) -> (image of the first, image of the second, image of the combined plotfile
   or (1) when the pure operation is undefined: different meshes, no names, unknown names, not 3D) ---- *)
Definition dec_plotfile (s : sx) : option plotfile :=
  match s with
  | SL [g; lvs] => do g <- dec_gheader g; do lvs <- as_list dec_plevel lvs; Some {| pf_g := g; pf_levels := lvs |}
  | _ => None
  end.

Definition e_combine_spec (s : sx) : sx :=
  match s with
  | SL [a; b; n1; n2] =>
      req (do a <- dec_plotfile a; do b <- dec_plotfile b; do n1 <- as_Bs n1; do n2 <- as_Bs n2; Some (a, b, n1, n2))
          (fun '(a, b, n1, n2) =>
             ok (SL [enc_pdisk (pf_disk a); enc_pdisk (pf_disk b);
                     of_result enc_pdisk (match combine_pure n1 n2 a b with Some pf' => Some (pf_disk pf') | None => None end)]))
  | _ => bad_request
  end.

(* ---- C08: mandoline on 2D plotfiles ----
   request: (levels limit fidxs nx ny) -> per field the (ny, nx) array in C
   order as one byte string, then the grid levels; () where a pixel was never
   written *)
Definition e_plate (s : sx) : sx :=
  match s with
  | SL [lvs; SZ limit; fidxs; SZ nx; SZ ny] =>
      req (do lvs <- as_list dec_level lvs; do fidxs <- as_Zs fidxs; Some (lvs, fidxs))
          (fun '(lvs, fidxs) =>
             of_result (fun r =>
                          SL [of_list (fun c => Sx.of_opt (fun l => SB (concat l))
                                                 (render c (Z.to_nat nx) (Z.to_nat ny))) (fst r);
                              Sx.of_opt of_Zs (render (snd r) (Z.to_nat nx) (Z.to_nat ny))])
                       (plate lvs (Z.to_nat limit) fidxs))
  | _ => bad_request
  end.

(* ---- C10: whip ----
   request: (levels limit nfields fidx orders nx ny nz) -> the (nx, ny, nz)
   float64 grid in C order as one byte string *)
Definition e_whip (s : sx) : sx :=
  match s with
  | SL [lvs; SZ limit; SZ nfields; SZ fidx; orders; SZ nx; SZ ny; SZ nz] =>
      req (do lvs <- as_list dec_level lvs; do orders <- as_list (as_list as_nat) orders; Some (lvs, orders))
          (fun '(lvs, orders) =>
             of_result (fun c => SB (concat (render3 c (Z.to_nat nx) (Z.to_nat ny) (Z.to_nat nz))))
                       (whip lvs (Z.to_nat limit) nfields fidx orders))
  | _ => bad_request
  end.

(* ---- C09: pestle ----
   request: (levels limit id_int id_vol) with levels = list of lists of
   (lo hi (component values ...)); result: per level the per-box sums *)
Definition dec_ibox (s : sx) : option ibox :=
  match s with
  | SL [lo; hi; d] => do lo <- as_Zs lo; do hi <- as_Zs hi; do d <- as_list as_Zs d;
                      Some {| ib_lo := lo; ib_hi := hi; ib_data := d |}
  | _ => None
  end.

Definition e_pestle (s : sx) : sx :=
  match s with
  | SL [lvs; SZ limit; SZ id_int; id_vol] =>
      req (do lvs <- as_list (as_list dec_ibox) lvs; do v <- as_optZ id_vol; Some (lvs, v))
          (fun '(lvs, v) => ok (of_list of_Zs (volume_integral lvs (Z.to_nat limit) id_int v)))
  | _ => bad_request
  end.

(* ---- C19: point query ----
   request: (levels limit P) with levels = lists of (lo hi);
   result: (0) raises | (1 lv box (num...) den) | (2) *)
Definition dec_qbox (s : sx) : option qbox :=
  match s with
  | SL [lo; hi] => do lo <- as_Zs lo; do hi <- as_Zs hi; Some {| q_lo := lo; q_hi := hi |}
  | _ => None
  end.

Definition e_point (s : sx) : sx :=
  match s with
  | SL [lvs; SZ limit; P] =>
      req (do lvs <- as_list (as_list dec_qbox) lvs; do P <- as_Zs P; Some (lvs, P))
          (fun '(lvs, P) =>
             ok (match point_query lvs (Z.to_nat limit) P with
                 | PRaises => SL [SZ 0]
                 | PCase1 lv b num den => SL [SZ 1; SZ (Z.of_nat lv); SZ (Z.of_nat b); of_Zs num; SZ den]
                 | PCase2 => SL [SZ 2]
                 end))
  | _ => bad_request
  end.

(* ---- C06: combine on two directory images ---- *)
Definition e_combine (s : sx) : sx :=
  match s with
  | SL [n1; n2; d1; d2] =>
      req (do n1 <- as_Bs n1; do n2 <- as_Bs n2; do d1 <- dec_pdisk d1; do d2 <- dec_pdisk d2; Some (n1, n2, d1, d2))
          (fun '(n1, n2, d1, d2) => of_result enc_pdisk (combine_tool n1 n2 d1 d2))
  | _ => bad_request
  end.

(* ---- C11: chef (user recipe on the plotfile data) ----
   request: (keep outnames table disk), table = list of (level lo hi (component bytes ...)) *)
Definition e_chef (s : sx) : sx :=
  match s with
  | SL [keep; names; tbl; d] =>
      req (do keep <- as_Zs keep; do names <- as_Bs names;
           do tbl <- as_list (fun x => match x with
                                       | SL [lv; lo; hi; comps] => do lv <- as_nat lv; do lo <- as_Zs lo; do hi <- as_Zs hi; do c <- as_Bs comps; Some (lv, lo, hi, c)
                                       | _ => None end) tbl;
           do d <- dec_pdisk d; Some (keep, names, tbl, d))
          (fun '(keep, names, tbl, d) => of_result enc_pdisk (chef (table_recipe tbl) keep names d))
  | _ => bad_request
  end.

(* ---- C11: the SPECIFICATION side.  request: (plotfile keep names table) -> (image of the plotfile,
   image of the cooked plotfile chef_spec, do the hypotheses of C11_tool on the recipe hold (recipe_fitsb on every level)) ---- *)
Definition e_chef_spec (s : sx) : sx :=
  match s with
  | SL [a; keep; names; tbl] =>
      req (do a <- dec_plotfile a; do keep <- as_Zs keep; do names <- as_Bs names;
           do tbl <- as_list (fun x => match x with
                                       | SL [lv; lo; hi; comps] => do lv <- as_nat lv; do lo <- as_Zs lo; do hi <- as_Zs hi; do c <- as_Bs comps; Some (lv, lo, hi, c)
                                       | _ => None end) tbl;
           Some (a, keep, names, tbl))
          (fun '(a, keep, names, tbl) =>
             let r := table_recipe tbl in
             ok (SL [enc_pdisk (pf_disk a); enc_pdisk (pf_disk (chef_spec r keep names a));
                     SZ (if forallb (fun kl => recipe_fitsb r keep names (fst kl) (snd kl))
                                    (combine (seq 0 (length (pf_levels a))) (pf_levels a)) then 1 else 0)]))
  | _ => bad_request
  end.

(* ---- the hypothesis of the tool-level theorems on a plotfile, evaluated: request plotfile -> 1 when goodb holds
   (GoodB.goodb_sound: then the plotfile is 'good') ---- *)
Definition e_goodb (s : sx) : sx :=
  req (dec_plotfile s) (fun a => ok (SZ (if goodb a then 1 else 0))).

(* ---- C14: the SPECIFICATION side of a whole chain (theorem C14_full_chain).  request: (plotfile ops) with
   op = (0 vars limit) | (1 names1 names2 (0 plotfile)) | (1 names1 names2 (1 k))  [k: the k-th state of the chain,
   0 = the initial plotfile] | (2 keep names table) -> per hop the image of the state of the composed pure operations
   (fop_pure), the list ending with () at the first hop where the pure operation is undefined ---- *)
Inductive chain_op :=
| COStrain (vars : list bytes) (limit : option Z)
| COCombine (n1 n2 : list bytes) (other : plotfile + nat)
| COCook (keep : list Z) (names : list bytes) (tbl : list (nat * list Z * list Z * list bytes)).

Definition dec_chain_op (s : sx) : option chain_op :=
  match s with
  | SL [SZ 0; vars; limit] => do v <- as_Bs vars; do l <- as_optZ limit; Some (COStrain v l)
  | SL [SZ 1; n1; n2; SL [SZ 0; other]] => do n1 <- as_Bs n1; do n2 <- as_Bs n2; do o <- dec_plotfile other; Some (COCombine n1 n2 (inl o))
  | SL [SZ 1; n1; n2; SL [SZ 1; k]] => do n1 <- as_Bs n1; do n2 <- as_Bs n2; do k <- as_nat k; Some (COCombine n1 n2 (inr k))
  | SL [SZ 2; keep; names; tbl] =>
      do keep <- as_Zs keep; do names <- as_Bs names;
      do tbl <- as_list (fun x => match x with
                                  | SL [lv; lo; hi; comps] => do lv <- as_nat lv; do lo <- as_Zs lo; do hi <- as_Zs hi; do c <- as_Bs comps; Some (lv, lo, hi, c)
                                  | _ => None end) tbl;
      Some (COCook keep names tbl)
  | _ => None
  end.

Fixpoint spec_chain (ops : list chain_op) (hist : list plotfile) : list (option pdisk) :=
  match ops with
  | [] => []
  | o :: ops' =>
      match nth_error hist (length hist - 1) with
      | None => []
      | Some cur =>
          let r := match o with
                   | COStrain v l => fop_pure (FStrain v l) cur
                   | COCombine n1 n2 (inl other) => fop_pure (FCombine n1 n2 other) cur
                   | COCombine n1 n2 (inr k) => match nth_error hist k with
                                                | Some other => fop_pure (FCombine n1 n2 other) cur
                                                | None => None
                                                end
                   | COCook keep names tbl => fop_pure (FCook (table_recipe tbl) keep names) cur
                   end in
          match r with
          | Some pf' => Some (pf_disk pf') :: spec_chain ops' (hist ++ [pf'])
          | None => [None]
          end
      end
  end.

Definition e_full_chain (s : sx) : sx :=
  match s with
  | SL [a; ops] =>
      req (do a <- dec_plotfile a; do ops <- as_list dec_chain_op ops; Some (a, ops))
          (fun '(a, ops) => ok (SL [enc_pdisk (pf_disk a); of_list (Sx.of_opt enc_pdisk) (spec_chain ops [a])]))
  | _ => bad_request
  end.

(* ---- C17: chk2plt, one level ----
   request: (boxes state_files state_cells gradp_files gradp_cells ir_files ir_cells do_gradp do_ir floored y_start ns) *)
Definition e_chk2plt_level (s : sx) : sx :=
  match s with
  | SL [boxes; sf; sc; gf; gc; rf; rc; dg; dr; fl; SZ ys; SZ ns] =>
      req (do boxes <- as_list (as_pair as_Zs as_Zs) boxes;
           do sf <- dec_disk sf; do sc <- dec_cells sc; do gf <- dec_disk gf; do gc <- dec_cells gc;
           do rf <- dec_disk rf; do rc <- dec_cells rc; do dg <- as_bool dg; do dr <- as_bool dr;
           do fl <- as_opt (as_list as_Bs) fl;
           Some (boxes, sf, sc, gf, gc, rf, rc, dg, dr, fl))
          (fun '(boxes, sf, sc, gf, gc, rf, rc, dg, dr, fl) =>
             of_result (fun r => let '(files, cells, mins, maxs) := r in
                                 SL [enc_disk files; enc_cells cells; of_list (of_list SB) mins; of_list (of_list SB) maxs])
                       (convert_level boxes sf sc gf gc rf rc dg dr fl ys ns))
  | _ => bad_request
  end.

(* ... the same with the level header chk2plt writes: request as above preceded by the output field count
   -> (level header text, binary files) *)
Definition e_chk2plt_level_dir (s : sx) : sx :=
  match s with
  | SL [SZ nout; boxes; sf; sc; gf; gc; rf; rc; dg; dr; fl; SZ ys; SZ ns] =>
      req (do boxes <- as_list (as_pair as_Zs as_Zs) boxes;
           do sf <- dec_disk sf; do sc <- dec_cells sc; do gf <- dec_disk gf; do gc <- dec_cells gc;
           do rf <- dec_disk rf; do rc <- dec_cells rc; do dg <- as_bool dg; do dr <- as_bool dr;
           do fl <- as_opt (as_list as_Bs) fl;
           Some (boxes, sf, sc, gf, gc, rf, rc, dg, dr, fl))
          (fun '(boxes, sf, sc, gf, gc, rf, rc, dg, dr, fl) =>
             of_result (fun d => SL [Sx.of_opt enc_text (ld_cellh d); enc_disk (ld_files d)])
                       (convert_level_dir nout boxes sf sc gf gc rf rc dg dr fl ys ns))
  | _ => bad_request
  end.

(* ---- C17: the checkpoint Header (CheckpointReader.__init__) and the plotfile Header chk2plt writes.
   Oracle tables stand for the floating-point parameters: wholes = the tokens t with float(t) % 1 == 0,
   toints = (token, int(float(token))) pairs, frepr = (token, printed float) pairs.
   chk_header: request (text wholes toints pinned) -> the header record, read by the repaired reader or (pinned = 1)
   by the reader of the pinned commit.
   chk_written: request (text wholes toints species do_gradp do_ir (n_state n_gradp n_ir) frepr dx_rows bounds) -> the
   Header text write_global_header produces from the parsed checkpoint header and the field list chk_fields ---- *)
Definition tbl_Z (l : list (bytes * Z)) (t : bytes) : Z :=
  match find (fun p => bytes_eqb (fst p) t) l with Some p => snd p | None => 0 end.
Definition tbl_B (l : list (bytes * bytes)) (t : bytes) : bytes :=
  match find (fun p => bytes_eqb (fst p) t) l with Some p => snd p | None => t end.

Definition enc_chk_header (h : chk_header) : sx :=
  SL [enc_line (ch_version h); SZ (ch_max_level h); SZ (ch_step h); Sx.of_opt enc_line (ch_int h);
      SB (ch_time h); SB (ch_dt1 h); SB (ch_dt2 h); enc_line (ch_lo h); enc_line (ch_hi h);
      of_list (of_list (of_pair of_Zs of_Zs)) (ch_boxes h);
      SL [SB (ct_pressure (ch_tail h)); Sx.of_opt SZ (ct_sys (ch_tail h)); enc_line (ct_typvals (ch_tail h))]].

Definition e_chk_header (s : sx) : sx :=
  match s with
  | SL [t; wholes; toints; pinned] =>
      req (do t <- as_text t; do w <- as_Bs wholes; do ti <- as_list (as_pair as_B as_Z) toints; do p <- as_bool pinned;
           Some (t, w, ti, p))
          (fun '(t, w, ti, p) =>
             of_result enc_chk_header
               (match (if p : bool then p_chk_pinned else p_chk) (fun x => mem x w) (tbl_Z ti) t with
                | Some (h, _) => Some h | None => None end))
  | _ => bad_request
  end.

Definition e_chk_written (s : sx) : sx :=
  match s with
  | SL [t; wholes; toints; species; dg; di; SL [SZ n_state; SZ n_gradp; SZ n_ir]; frepr; dxrows; bnds] =>
      req (do t <- as_text t; do w <- as_Bs wholes; do ti <- as_list (as_pair as_B as_Z) toints;
           do species <- as_Bs species; do dg <- as_bool dg; do di <- as_bool di;
           do fr <- as_list (as_pair as_B as_B) frepr; do dx <- as_list as_Bs dxrows;
           do bd <- as_list (as_list (as_list (as_pair as_B as_B))) bnds;
           Some (t, w, ti, species, dg, di, fr, dx, bd))
          (fun '(t, w, ti, species, dg, di, fr, dx, bd) =>
             of_result enc_text
               (match p_chk (fun x => mem x w) (tbl_Z ti) t with
                | Some (h, _) =>
                    let fields := chk_fields species dg di in
                    let nout := chk_nfields_out n_state n_gradp n_ir dg di in
                    (* Chk2plt.__init__: the component counts of the checkpoint must add up to the field list *)
                    if nout =? blen fields then
                      Some (write_global_header (tbl_B fr) (fun lv => nth (Z.to_nat lv) dx [])
                                                (fun lv => nth (Z.to_nat lv) bd []) h fields nout)
                    else None
                | None => None end))
  | _ => bad_request
  end.

(* ---- C17: the whole conversion (Chk2pltTool.chk2plt_tool, theorem C17_tool).  request: (text wholes toints frepr dx_rows
   bounds species do_gradp do_ir floored_per_level y_start nspecies (n_state n_gradp n_ir) levels), levels = list of
   (state_files state_cells gradp_files gradp_cells ir_files ir_cells) -> the plotfile directory ---- *)
Definition dec_chk_ldisk (s : sx) : option chk_ldisk :=
  match s with
  | SL [sf; sc; gf; gc; rf; rc] =>
      do sf <- dec_disk sf; do sc <- dec_cells sc; do gf <- dec_disk gf; do gc <- dec_cells gc;
      do rf <- dec_disk rf; do rc <- dec_cells rc;
      Some {| cd_state_files := sf; cd_state_cells := sc; cd_gradp_files := gf; cd_gradp_cells := gc;
              cd_ir_files := rf; cd_ir_cells := rc |}
  | _ => None
  end.

Definition e_chk2plt_tool (s : sx) : sx :=
  match s with
  | SL [t; wholes; toints; frepr; dxrows; bnds; species; dg; di; fls; SZ ys; SZ ns; SL [SZ n_state; SZ n_gradp; SZ n_ir]; levels] =>
      req (do t <- as_text t; do w <- as_Bs wholes; do ti <- as_list (as_pair as_B as_Z) toints;
           do fr <- as_list (as_pair as_B as_B) frepr; do dx <- as_list as_Bs dxrows;
           do bd <- as_list (as_list (as_list (as_pair as_B as_B))) bnds;
           do species <- as_Bs species; do dg <- as_bool dg; do di <- as_bool di;
           do fls <- as_list (as_opt (as_list as_Bs)) fls;
           do levels <- as_list dec_chk_ldisk levels;
           Some (t, w, ti, fr, dx, bd, species, dg, di, fls, levels))
          (fun '(t, w, ti, fr, dx, bd, species, dg, di, fls, levels) =>
             of_result enc_pdisk
               (chk2plt_tool (fun x => mem x w) (tbl_Z ti) (tbl_B fr) (fun lv => nth (Z.to_nat lv) dx [])
                             (fun lv => nth (Z.to_nat lv) bd []) species dg di (fun k => nth k fls None) ys ns
                             n_state n_gradp n_ir {| cdk_header := t; cdk_levels := levels |}))
  | _ => bad_request
  end.

(* ---- C17: the SPECIFICATION side of the whole conversion (theorems C17_tool, C17_tool_output_good).  request: (text wholes
   toints frepr dx_rows bounds species do_gradp do_ir levels), levels = list of (state_level gradp_files gradp_cells ir_files
   ir_cells comps), state_level = the ghosted state FABs with their file layout, comps = per box the components the converted
   box must hold (computed by the harness's oracle) -> (checkpoint Header printed back from the parsed record, per level the
   state files and (file, offset) table of the abstract level, pf_disk (conv_pf c), goodb (conv_pf c)) ---- *)
Definition dec_chk_alevel (s : sx) : option chk_alevel :=
  match s with
  | SL [st; gf; gc; rf; rc; comps] =>
      do st <- dec_level st; do gf <- dec_disk gf; do gc <- dec_cells gc; do rf <- dec_disk rf; do rc <- dec_cells rc;
      do comps <- as_list as_Bs comps;
      Some {| al_state := st; al_gradp_files := gf; al_gradp_cells := gc; al_ir_files := rf; al_ir_cells := rc;
              al_comps := fun i => nth i comps [] |}
  | _ => None
  end.

Definition e_chk2plt_spec (s : sx) : sx :=
  match s with
  | SL [t; wholes; toints; frepr; dxrows; bnds; species; dg; di; levels] =>
      req (do t <- as_text t; do w <- as_Bs wholes; do ti <- as_list (as_pair as_B as_Z) toints;
           do fr <- as_list (as_pair as_B as_B) frepr; do dx <- as_list as_Bs dxrows;
           do bd <- as_list (as_list (as_list (as_pair as_B as_B))) bnds;
           do species <- as_Bs species; do dg <- as_bool dg; do di <- as_bool di;
           do levels <- as_list dec_chk_alevel levels;
           Some (t, w, ti, fr, dx, bd, species, dg, di, levels))
          (fun '(t, w, ti, fr, dx, bd, species, dg, di, levels) =>
             of_result (fun x => x)
               (match p_chk (fun x => mem x w) (tbl_Z ti) t with
                | Some (h, _) =>
                    let c := {| ac_h := h; ac_levels := levels |} in
                    let pf := conv_pf (tbl_B fr) (fun lv => nth (Z.to_nat lv) dx []) (fun lv => nth (Z.to_nat lv) bd []) species dg di c in
                    Some (SL [enc_text (print_chk h);
                              of_list (fun al => SL [enc_disk (lv_disk (al_state al)); enc_cells (cells_or_nil (al_state al))]) levels;
                              enc_pdisk (pf_disk pf);
                              SZ (if goodb pf then 1 else 0)])
                | None => None end))
  | _ => bad_request
  end.

(* ---- C07: mandoline 3D slice (array output) ----
   request: (levels limit cn P dom_lo dom_hi ncomp nx ny), levels = lists of (lo hi (component bytes ...));
   result: (left right), each a list over pixels (x major) of () or ((words...) normal level) *)
Definition dec_sbox (s : sx) : option sbox :=
  match s with
  | SL [lo; hi; comps] => do lo <- as_Zs lo; do hi <- as_Zs hi; do c <- as_Bs comps;
                          Some {| sb_lo := lo; sb_hi := hi; sb_comps := c |}
  | _ => None
  end.

Definition enc_sample (o : option sample) : sx :=
  match o with
  | None => SL []
  | Some (ws, n, l) => SL [of_list SB ws; SZ n; SZ l]
  end.

Definition e_slice3d (s : sx) : sx :=
  match s with
  | SL [lvs; SZ limit; SZ cn; SZ P; SZ dlo; SZ dhi; SZ ncomp; SZ nx; SZ ny] =>
      req (as_list (as_list dec_sbox) lvs)
          (fun lvs =>
             let cnn := Z.to_nat cn in
             let cx := match cnn with O => 1%nat | _ => 0%nat end in
             let cy := match cnn with 2%nat => 1%nat | _ => 2%nat end in
             let r := slice3d (Z.to_nat limit) cnn cx cy P dlo dhi lvs (Z.to_nat ncomp) in
             ok (SL [of_list enc_sample (render_side (fst r) (Z.to_nat nx) (Z.to_nat ny));
                     of_list enc_sample (render_side (snd r) (Z.to_nat nx) (Z.to_nat ny))]))
  | _ => bad_request
  end.

(* ---- C18: menu ----
   request: (fields classes finest mins maxs) with classes = per field () or (class key);
   mins / maxs = per field, per level, the list of per-box values (8-byte words);
   result: (listing species ((min max) per field) rows) *)
Definition e_menu (s : sx) : sx :=
  match s with
  | SL [fields; classes; finest; mins; maxs] =>
      req (do fields <- as_Bs fields; do classes <- as_list (as_opt as_B) classes; do finest <- as_bool finest;
           do mins <- as_list (as_list as_Bs) mins; do maxs <- as_list (as_list as_Bs) maxs;
           Some (fields, classes, finest, mins, maxs))
          (fun '(fields, classes, finest, mins, maxs) =>
             let tbl := combine fields classes in
             let classify := fun f => match find (fun fc => bytes_eqb (fst fc) f) tbl with
                                      | Some (_, c) => c | None => None end in
             ok (SL [of_list SB (variables_finder classify fields []);
                     of_list SB (species_finder fields);
                     of_list (fun mm => SL [SB (field_min finest (fst mm)); SB (field_max finest (snd mm))]) (combine mins maxs);
                     of_list (fun r => SL [SZ (Z.of_nat (fst r)); SZ (Z.of_nat (snd r))]) (table_rows (length fields))]))
  | _ => bad_request
  end.

Definition e_minuterie (s : sx) : sx :=
  req (as_text s) (fun t => of_result SB (minuterie t)).

(* ---- C13: output paths ---- *)
Definition e_path (s : sx) : sx :=
  match s with
  | SL [SZ 0; SB p] => ok (SB (chef_default p))
  | SL [SZ 1; SB p] => ok (SB (marinate_default p))
  | SL [SZ 2; SB p1; SB p2] => ok (SB (combine_default p1 p2))
  | SL [SZ 3; SB p] => ok (SB (chk2plt_default p))
  | SL [SZ 4; SB p; SB n] => ok (SB (mandoline_default p n))
  | SL [SZ 5; SB o; SB l; SB f] => ok (SB (target o l f))
  | SL [SZ 6; SB a; SB b] => ok (of_bool (inside a b))
  | SL [SZ 7; SB p] => ok (SB (normpath p))
  | _ => bad_request
  end.

(* ---- C16: plotfile-format slice ----
   sliceplot: (levels limit cn P ncomp) -> per level, per selected box: () or (lo hi ln rn ((L R) ...) per component)
   chunks: (nboxes total_size) -> the box positions held by each binary file *)
Definition enc_box2d (o : option box2d) : sx :=
  match o with
  | None => SL []
  | Some r => SL [of_Zs (b2_lo r); of_Zs (b2_hi r); SZ (b2_left r); SZ (b2_right r);
                  of_list (of_list (fun lr => SL [SB (fst lr); SB (snd lr)])) (b2_cells r)]
  end.

Definition e_sliceplot (s : sx) : sx :=
  match s with
  | SL [lvs; SZ limit; SZ cn; SZ P; SZ ncomp] =>
      req (as_list (as_list dec_sbox) lvs)
          (fun lvs =>
             let cnn := Z.to_nat cn in
             let cx := match cnn with O => 1%nat | _ => 0%nat end in
             let cy := match cnn with 2%nat => 1%nat | _ => 2%nat end in
             let L := Z.to_nat limit in
             let sel := firstn (S L) lvs in
             ok (of_list (fun kl => of_list enc_box2d (level_boxes2d L cnn cx cy P (fst kl) (Z.to_nat ncomp) (snd kl)))
                         (combine (seq 0 (length sel)) sel)))
  | _ => bad_request
  end.

Definition e_chunks (s : sx) : sx :=
  match s with
  | SL [SZ n; SZ total] => ok (of_list (of_list (fun i => SZ (Z.of_nat i))) (file_chunks (seq 0 (Z.to_nat n)) total))
  | _ => bad_request
  end.

Definition entries : list (string * (sx -> sx)) :=
  [ ("getitem", e_getitem);
    ("iter_all", e_iter_all);
    ("level_disk", e_level_disk);
    ("print_hdr", e_print_hdr);
    ("parse_hdr", e_parse_hdr);
    ("read_box", e_read_box);
    ("read_bfile", e_read_bfile);
    ("select_boxes", e_select_boxes);
    ("norm_farg", e_norm_farg);
    ("print_header", e_print_header);
    ("print_cellh", e_print_cellh);
    ("open_header", e_open_header);
    ("parse_cellh", e_parse_cellh);
    ("taste", e_taste);
    ("taste_all", e_taste_all);
    ("colander", e_colander);
    ("colander_spec", e_colander_spec);
    ("combine_spec", e_combine_spec);
   ("colander_spec", e_colander_spec);
    ("plate", e_plate);
    ("whip", e_whip);
    ("pestle", e_pestle);
    ("point", e_point);
    ("combine", e_combine);
    ("chef", e_chef);
    ("chef_spec", e_chef_spec);
    ("full_chain", e_full_chain);
    ("goodb", e_goodb);
    ("chk2plt_level", e_chk2plt_level);
    ("chk2plt_level_dir", e_chk2plt_level_dir);
    ("chk_header", e_chk_header);
    ("chk_written", e_chk_written);
    ("chk2plt_tool", e_chk2plt_tool);
    ("chk2plt_spec", e_chk2plt_spec);
    ("slice3d", e_slice3d);
    ("menu", e_menu);
    ("minuterie", e_minuterie);
    ("path", e_path);
    ("sliceplot", e_sliceplot);
    ("chunks", e_chunks)
  ]%string.

Fixpoint find_entry (name : string) (l : list (string * (sx -> sx))) : option (sx -> sx) :=
  match l with
  | [] => None
  | (n, f) :: l' => if String.eqb n name then Some f else find_entry name l'
  end.

Definition dispatch (name : string) (arg : sx) : sx :=
  match find_entry name entries with
  | Some f => f arg
  | None => bad_request
  end.

(* decimal text <-> Z for the driver: Coq's own verified conversions *)
From Coq Require Import DecimalString DecimalZ.
Definition z_of_string (s : string) : option Z :=
  match NilZero.int_of_string s with Some d => Some (Z.of_int d) | None => None end.
Definition string_of_z (z : Z) : string := NilZero.string_of_int (Z.to_int z).
