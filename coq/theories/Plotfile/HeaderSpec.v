(* Well-formedness of header records (what a well-formed plotfile's headers
   state) - the hypotheses of the print/parse round-trip theorems. *)
From AK Require Import Base.Prelude Bytes.Text Bytes.FabHeader Reader.Select Plotfile.TextHeader.

Definition no_char (c : ascii) (s : bytes) : Prop := Forall (fun x => x <> c) s.

Definition wf_gheader (g : gheader) : Prop :=
  0 <= g_ndims g /\
  0 <= g_max_level g /\
  float_ok (g_time g) = true /\
  Forall (fun t => float_ok t = true) (g_geo_low g) /\
  Forall (fun t => float_ok t = true) (g_geo_high g) /\
  Forall (fun hi => hi <> []) (g_grid_hi g) /\
  blen (g_dx g) = g_max_level g + 1 /\
  Forall (Forall (fun t => float_ok t = true)) (g_dx g).

Definition wf_lvboxes (ndims : Z) (b : lvboxes) : Prop :=
  lb_ncells b = blen (lb_boxes b) /\
  Forall (fun box => blen box = ndims /\
                     Forall (fun lh => float_ok (fst lh) = true /\ float_ok (snd lh) = true) box)
         (lb_boxes b) /\
  no_char "/"%char (lb_cell_dir b).

Definition wf_cellh (maxmins : bool) (c : cellh) : Prop :=
  Forall (fun ix => fst ix <> [] /\ snd ix <> []) (c_indexes c) /\
  length (c_files c) = length (c_indexes c) /\
  length (c_offsets c) = length (c_indexes c) /\
  (maxmins = true ->
     length (c_mins c) = length (c_indexes c) /\
     length (c_maxs c) = length (c_indexes c) /\
     Forall (Forall (fun t => float_ok t = true /\ no_char ","%char t)) (c_mins c) /\
     Forall (Forall (fun t => float_ok t = true /\ no_char ","%char t)) (c_maxs c)).

(* what opening with a level limit must expose *)
Definition restrict_levels (lim : Z) (lvs : list lvboxes) : list lvboxes :=
  firstn (Z.to_nat (lim + 1)) lvs.

Definition strip_minmax (c : cellh) : cellh :=
  {| c_indexes := c_indexes c; c_files := c_files c; c_offsets := c_offsets c;
     c_mins := []; c_maxs := [] |}.
