(* Print / parse round-trip theorems for the plotfile text headers of
   TextHeader.v under the well-formedness predicates of HeaderSpec.v, and the
   field dictionary (repeated names get _2, _3, ...).
   Standard library only, no axioms. *)
From AK Require Import Base.Prelude Bytes.Text Bytes.FabHeader Bytes.FabHeaderProofs Reader.Select Plotfile.TextHeader Plotfile.HeaderSpec.

(* ------------------------------------------------------------------ *)
(** * Algebra of the line-parser monad *)

(* the stepping rule: run the head parser, continue with the continuation *)
Lemma pbind_step {A B} (p : P A) (f : A -> P B) (t : text) a t' r :
  p t = Some (a, t') -> f a t' = r -> pbind p f t = r.
Proof. unfold pbind. intros -> ->. reflexivity. Qed.

Lemma rline_cons (l : line) (t : text) : rline (l :: t) = Some (l, t).
Proof. reflexivity. Qed.

Lemma of_opt_some {A} (o : option A) (a : A) (t : text) :
  o = Some a -> of_opt o t = Some (a, t).
Proof. intros ->. reflexivity. Qed.

(* read one line *)
Ltac p_line := eapply pbind_step; [apply rline_cons | cbv beta iota].
(* convert: [tac] proves [o = Some ?a] *)
Ltac p_opt tac := eapply pbind_step; [apply of_opt_some; tac | cbv beta iota].
(* any other parser: [tac] proves [p t = Some (?a, ?t')] *)
Ltac p_run tac := eapply pbind_step; [tac | cbv beta iota].

Lemma to_nat_blen {A} (l : list A) : Z.to_nat (blen l) = length l.
Proof. unfold blen. apply Nat2Z.id. Qed.

(* [n] single-line items *)
Lemma prepeat_map {A} (p : P A) (pr : A -> line) (xs : list A) (rest : text) :
  (forall x r, In x xs -> p (pr x :: r) = Some (x, r)) ->
  prepeat (length xs) p (map pr xs ++ rest) = Some (xs, rest).
Proof.
  induction xs as [|x xs IH]; intros H; [reflexivity|].
  cbn [length prepeat map app].
  p_run ltac:(apply H; left; reflexivity).
  p_run ltac:(apply IH; intros y r Hy; apply H; right; exact Hy).
  reflexivity.
Qed.

(* [n] multi-line items *)
Lemma prepeat_concat {A} (p : P A) (pr : A -> text) (xs : list A) (rest : text) :
  (forall x r, In x xs -> p (pr x ++ r) = Some (x, r)) ->
  prepeat (length xs) p (concat (map pr xs) ++ rest) = Some (xs, rest).
Proof.
  induction xs as [|x xs IH]; intros H; [reflexivity|].
  cbn [length prepeat map concat]. rewrite <- app_assoc.
  p_run ltac:(apply H; left; reflexivity).
  p_run ltac:(apply IH; intros y r Hy; apply H; right; exact Hy).
  reflexivity.
Qed.

(* ------------------------------------------------------------------ *)
(** * Line conversions on printed lines *)

Lemma line_int_str z : line_int [str_of_Z z] = Some z.
Proof. apply py_int_str_of_Z. Qed.

Lemma line_ints_str l : line_ints (map str_of_Z l) = Some l.
Proof. apply omap_py_int_str. Qed.

Lemma line_floats_ok l :
  Forall (fun t => float_ok t = true) l -> line_floats l = Some l.
Proof.
  unfold line_floats. induction 1 as [|t l Ht _ IH]; [reflexivity|].
  cbn [omap_all]. unfold tok_float at 1. rewrite Ht, IH. reflexivity.
Qed.

Lemma line_float_ok t : float_ok t = true -> line_float [t] = Some t.
Proof. intros H. cbn [line_float]. rewrite H. reflexivity. Qed.

Lemma no_char_nochar c s : no_char c s -> nochar c s = true.
Proof.
  unfold no_char, nochar. induction 1 as [|x s Hx _ IH]; [reflexivity|].
  cbn [forallb]. rewrite IH. apply Ascii.eqb_neq in Hx. rewrite Hx. reflexivity.
Qed.

Lemma str_nolp z : nochar "("%char (str_of_Z z) = true.
Proof.
  apply (forallb_imp numch); [|apply str_numch].
  intros c H. destruct (numch_props c H) as (_ & _ & _ & -> & _). reflexivity.
Qed.

(* "(" ++ str(n), as on the box-count line of Cell_H *)
Lemma py_int_lp_str z :
  py_int (remove_char "("%char (bs "(" ++ str_of_Z z)) = Some z.
Proof.
  rewrite remove_char_app, (remove_char_id _ _ (str_nolp z)).
  change (remove_char "("%char (bs "(")) with (@nil ascii). cbn [app].
  apply py_int_str_of_Z.
Qed.

Lemma paren_ints_paren hi : hi <> [] -> paren_ints (paren hi) = Some hi.
Proof.
  intros H. unfold paren_ints. change (paren hi) with (tok2 hi).
  rewrite tok2_ints. apply parse_ints_join. exact H.
Qed.

Lemma paren_ints_lp_paren lo : lo <> [] -> paren_ints (bs "(" ++ paren lo) = Some lo.
Proof.
  intros H. unfold paren_ints. rewrite remove_char_app.
  change (remove_char "("%char (bs "(")) with (@nil ascii). cbn [app].
  change (paren lo) with (tok2 lo).
  rewrite tok2_ints. apply parse_ints_join. exact H.
Qed.

(* ------------------------------------------------------------------ *)
(** * The grid line: line.split()[1::3] *)

Lemma pick_1_3_every3 l : pick_1_3 l = every3 l 2.
Proof. destruct l; reflexivity. Qed.

Lemma every3_triples (z : list Z -> list Z) (his : list (list Z)) :
  every3 (concat (map (fun hi => triple (z hi) hi) his)) 2 = map paren his.
Proof.
  induction his as [|hi his IH]; [reflexivity|].
  cbn [map concat]. unfold triple at 1. cbn [app every3]. rewrite IH. reflexivity.
Qed.

Lemma grid_line_ok (his : list (list Z)) :
  Forall (fun hi => hi <> []) his ->
  omap_all paren_ints
    (pick_1_3 (concat (map (fun hi => triple (map (fun _ => 0) hi) hi) his))) = Some his.
Proof.
  intros H. rewrite pick_1_3_every3.
  rewrite (every3_triples (fun hi => map (fun _ => 0) hi)).
  induction H as [|hi his Hhi _ IH]; [reflexivity|].
  cbn [map omap_all]. rewrite (paren_ints_paren hi Hhi), IH. reflexivity.
Qed.

(* ------------------------------------------------------------------ *)
(** * (1) The global header *)

Lemma print_gheader_shape g rest :
  print_gheader g ++ rest =
  g_version g :: [str_of_Z (blen (g_names g))] ::
  (map (fun n => [n]) (g_names g) ++
   [str_of_Z (g_ndims g)] :: [g_time g] :: [str_of_Z (g_max_level g)] ::
   g_geo_low g :: g_geo_high g :: map str_of_Z (g_factors g) ::
   concat (map (fun hi => triple (map (fun _ => 0) hi) hi) (g_grid_hi g)) ::
   map str_of_Z (g_steps g) ::
   (map (fun r : line => r) (g_dx g) ++ g_sys_coord g :: [str_of_Z 0] :: rest)).
Proof.
  unfold print_gheader. rewrite map_id. repeat rewrite <- app_assoc. reflexivity.
Qed.

Theorem p_gheader_print : forall g rest, wf_gheader g ->
  p_gheader (print_gheader g ++ rest) = Some (g, rest).
Proof.
  intros g rest (Hnd & Hml & Htm & Hlo & Hhi & Hgr & Hdx & Hdxf).
  rewrite print_gheader_shape.
  destruct g as [ver names nd tm ml glo ghi fac ghis steps dx sys].
  cbn [g_version g_names g_ndims g_time g_max_level g_geo_low g_geo_high
       g_factors g_grid_hi g_steps g_dx g_sys_coord] in *.
  unfold p_gheader.
  p_line.
  p_line. p_opt ltac:(apply line_int_str).
  p_run ltac:(rewrite to_nat_blen;
              apply (prepeat_map _ (fun n : bytes => [n])); intros; reflexivity).
  p_line. p_opt ltac:(apply line_int_str).
  p_line. p_opt ltac:(apply line_float_ok; exact Htm).
  p_line. p_opt ltac:(apply line_int_str).
  p_line. p_opt ltac:(apply line_floats_ok; exact Hlo).
  p_line. p_opt ltac:(apply line_floats_ok; exact Hhi).
  p_line. p_opt ltac:(apply line_ints_str).
  p_line. p_opt ltac:(apply grid_line_ok; exact Hgr).
  p_line. p_opt ltac:(apply line_ints_str).
  p_run ltac:(rewrite <- Hdx, to_nat_blen;
              apply (prepeat_map _ (fun r : line => r)); intros x r Hx;
              p_line; apply of_opt_some; apply line_floats_ok;
              exact (proj1 (Forall_forall _ _) Hdxf x Hx)).
  p_line.
  p_line. p_opt ltac:(apply line_int_str).
  reflexivity.
Qed.

(* ------------------------------------------------------------------ *)
(** * (2) One level of boxes *)

Lemma print_lvboxes_shape lv b rest :
  print_lvboxes lv b ++ rest =
  [str_of_Z lv; str_of_Z (lb_ncells b); lb_time_tok b] :: lb_step_line b ::
  (concat (map (fun box : list (token * token) => map (fun lh => [fst lh; snd lh]) box) (lb_boxes b))
   ++ [lb_cell_dir b ++ bs "/Cell"] :: rest).
Proof.
  unfold print_lvboxes. repeat rewrite <- app_assoc. reflexivity.
Qed.

Lemma p_box_print (box : list (token * token)) rest :
  Forall (fun lh => float_ok (fst lh) = true /\ float_ok (snd lh) = true) box ->
  p_box (length box) (map (fun lh => [fst lh; snd lh]) box ++ rest) = Some (box, rest).
Proof.
  intros H. unfold p_box.
  apply (prepeat_map _ (fun lh : token * token => [fst lh; snd lh])).
  intros [a b] r Hin.
  destruct (proj1 (Forall_forall _ _) H _ Hin) as [Ha Hb]. cbn [fst snd] in *.
  p_line. rewrite Ha, Hb. reflexivity.
Qed.

Lemma cell_dir_ok dir :
  no_char "/"%char dir ->
  hd [] (split_on "/"%char (join_line [dir ++ bs "/Cell"])) = dir.
Proof.
  intros H. change (join_line [dir ++ bs "/Cell"]) with (dir ++ "/"%char :: bs "Cell").
  rewrite split_on_tok_sep by (apply no_char_nochar; exact H). reflexivity.
Qed.

Theorem p_lvboxes_print : forall ndims lv b rest, 0 <= ndims -> wf_lvboxes ndims b ->
  p_lvboxes ndims lv (print_lvboxes lv b ++ rest) = Some (b, rest).
Proof.
  intros ndims lv b rest Hnd (Hnc & Hbx & Hdir).
  rewrite print_lvboxes_shape.
  destruct b as [nc stepl boxes dir tm].
  cbn [lb_ncells lb_step_line lb_boxes lb_cell_dir lb_time_tok] in *.
  unfold p_lvboxes.
  p_line.
  p_opt ltac:(apply py_int_str_of_Z).
  p_opt ltac:(apply py_int_str_of_Z).
  p_line.
  rewrite Z.eqb_refl. cbn [negb].
  p_run ltac:(rewrite Hnc, to_nat_blen;
              apply (prepeat_concat _
                (fun box : list (token * token) => map (fun lh => [fst lh; snd lh]) box));
              intros box r Hin;
              destruct (proj1 (Forall_forall _ _) Hbx _ Hin) as [Hlen Hfl];
              rewrite <- Hlen, to_nat_blen; apply p_box_print; exact Hfl).
  p_line.
  unfold pret. rewrite (cell_dir_ok dir Hdir), Hnc. reflexivity.
Qed.

(* ------------------------------------------------------------------ *)
(** * (3) A prefix of the levels *)

Theorem p_levels_print : forall ndims a b k rest, 0 <= ndims ->
  Forall (wf_lvboxes ndims) a ->
  p_levels ndims k (length a) (print_levels k (a ++ b) ++ rest)
  = Some (a, print_levels (k + blen a) b ++ rest).
Proof.
  intros ndims a. induction a as [|x a IH]; intros b k rest Hnd HF.
  - cbn [length p_levels app]. unfold pret. rewrite blen_nil, Z.add_0_r. reflexivity.
  - inversion HF as [|x' a' Hx Ha]; subst.
    cbn [length p_levels app print_levels]. rewrite <- app_assoc.
    p_run ltac:(apply p_lvboxes_print; assumption).
    p_run ltac:(apply IH; assumption).
    unfold pret. rewrite blen_cons.
    replace (k + (1 + blen a)) with (k + 1 + blen a) by lia. reflexivity.
Qed.

(* ------------------------------------------------------------------ *)
(** * (4) Opening a header with a level limit *)

Theorem eff_limit_spec : forall m limit lim, eff_limit m limit = Some lim ->
  (limit = None /\ lim = m) \/ (limit = Some lim /\ lim <= m).
Proof.
  intros m [l|] lim; cbn [eff_limit].
  - destruct (l <=? m) eqn:E; intros H; inversion H; subst.
    right. split; [reflexivity|]. apply Z.leb_le. exact E.
  - intros H; inversion H; subst. left. split; reflexivity.
Qed.

Lemma Forall_firstn' {A} (Q : A -> Prop) n l : Forall Q l -> Forall Q (firstn n l).
Proof.
  intros H. revert n. induction H as [|x l Hx _ IH]; intros [|n]; cbn [firstn];
    constructor; auto.
Qed.

Theorem open_header_roundtrip : forall g lvs limit lim,
  wf_gheader g -> Forall (wf_lvboxes (g_ndims g)) lvs -> blen lvs = g_max_level g + 1 ->
  eff_limit (g_max_level g) limit = Some lim -> 0 <= lim + 1 ->
  open_header (print_header g lvs) limit =
    Some {| o_g := g; o_keys := field_keys (g_names g) []; o_limit := lim;
            o_levels := restrict_levels lim lvs |}.
Proof.
  intros g lvs limit lim Hwf HF Hlen Heff Hlim.
  unfold open_header, print_header.
  rewrite (p_gheader_print g _ Hwf), Heff. cbn [obind].
  assert (Hle : (Z.to_nat (lim + 1) <= length lvs)%nat).
  { apply eff_limit_spec in Heff. unfold blen in Hlen.
    destruct Heff as [[_ ->]|[_ H]]; lia. }
  unfold restrict_levels. set (n := Z.to_nat (lim + 1)) in *.
  assert (Hnd : 0 <= g_ndims g) by (destruct Hwf as (H & _); exact H).
  assert (HF' : Forall (wf_lvboxes (g_ndims g)) (firstn n lvs)).
  { apply Forall_firstn'. exact HF. }
  pose proof (p_levels_print (g_ndims g) (firstn n lvs) (skipn n lvs) 0 [] Hnd HF') as HP.
  rewrite firstn_skipn, !app_nil_r, firstn_length, Nat.min_l in HP by exact Hle.
  rewrite HP. reflexivity.
Qed.

Theorem open_header_refuses : forall g lvs l, wf_gheader g -> g_max_level g < l ->
  open_header (print_header g lvs) (Some l) = None.
Proof.
  intros g lvs l Hwf Hl. unfold open_header, print_header.
  rewrite (p_gheader_print g _ Hwf). cbn [eff_limit].
  destruct (l <=? g_max_level g) eqn:E; [apply Z.leb_le in E; lia | reflexivity].
Qed.

(* ------------------------------------------------------------------ *)
(** * (5) The level header Cell_H *)

Lemma print_cellh_shape nf c rest :
  print_cellh nf c ++ rest =
  [bs "1"] :: [bs "1"] :: [str_of_Z nf] :: [bs "0"] ::
  [bs "(" ++ str_of_Z (blen (c_indexes c)); bs "0"] ::
  (map (fun ix : list Z * list Z => triple (fst ix) (snd ix)) (c_indexes c) ++
   [bs ")"] :: [str_of_Z (blen (c_indexes c))] ::
   (map (fun fo : bytes * Z => [bs "FabOnDisk:"; fst fo; str_of_Z (snd fo)])
        (combine (c_files c) (c_offsets c)) ++
    [] :: [str_of_Z (blen (c_indexes c)) ++ bs "," ++ str_of_Z nf] ::
    (map (fun r : list token => [row_token r]) (c_mins c) ++
     [] :: [str_of_Z (blen (c_indexes c)) ++ bs "," ++ str_of_Z nf] ::
     (map (fun r : list token => [row_token r]) (c_maxs c) ++ rest)))).
Proof.
  unfold print_cellh. cbv zeta. repeat rewrite <- app_assoc. reflexivity.
Qed.

Lemma p_index_line_print (ix : list Z * list Z) r :
  fst ix <> [] -> snd ix <> [] ->
  p_index_line (triple (fst ix) (snd ix) :: r) = Some (ix, r).
Proof.
  destruct ix as [lo hi]. cbn [fst snd]. intros Hlo Hhi.
  unfold p_index_line, triple.
  p_line.
  p_opt ltac:(apply paren_ints_lp_paren; exact Hlo).
  p_opt ltac:(apply paren_ints_paren; exact Hhi).
  reflexivity.
Qed.

Lemma p_fod_line_print (fo : bytes * Z) r :
  p_fod_line ([bs "FabOnDisk:"; fst fo; str_of_Z (snd fo)] :: r) = Some (fo, r).
Proof.
  destruct fo as [f o]. cbn [fst snd]. unfold p_fod_line.
  p_line.
  p_opt ltac:(apply py_int_str_of_Z).
  reflexivity.
Qed.

Lemma row_token_cons t r : row_token (t :: r) = t ++ ","%char :: row_token r.
Proof. unfold row_token. cbn [map concat]. rewrite <- app_assoc. reflexivity. Qed.

Lemma split_row_token r :
  Forall (no_char ","%char) r ->
  split_on ","%char (row_token r) = r ++ [[]].
Proof.
  induction 1 as [|t r Ht _ IH]; [reflexivity|].
  rewrite row_token_cons, split_on_tok_sep by (apply no_char_nochar; exact Ht).
  rewrite IH. reflexivity.
Qed.

Lemma drop_last_snoc {A} (l : list A) x : drop_last (l ++ [x]) = l.
Proof.
  unfold drop_last. rewrite app_length. cbn [length].
  replace (length l + 1 - 1)%nat with (length l) by lia.
  rewrite firstn_app, firstn_all, Nat.sub_diag. cbn [firstn]. apply app_nil_r.
Qed.

Lemma omap_tok_float_ok l :
  Forall (fun t => float_ok t = true) l -> omap_all tok_float l = Some l.
Proof. exact (line_floats_ok l). Qed.

Lemma p_minmax_row_print (row : list token) r :
  Forall (fun t => float_ok t = true /\ no_char ","%char t) row ->
  p_minmax_row ([row_token row] :: r) = Some (row, r).
Proof.
  intros H. unfold p_minmax_row.
  p_line. apply of_opt_some.
  change (join_line [row_token row]) with (row_token row).
  rewrite split_row_token, drop_last_snoc.
  - apply omap_tok_float_ok. eapply Forall_impl; [|exact H]. intros t [Hf _]. exact Hf.
  - eapply Forall_impl; [|exact H]. intros t [_ Hc]. exact Hc.
Qed.

Lemma map_fst_combine {A B} (a : list A) (b : list B) :
  length a = length b -> map fst (combine a b) = a.
Proof.
  revert b. induction a as [|x a IH]; intros [|y b] H; cbn in *; try congruence.
  f_equal. apply IH. congruence.
Qed.

Lemma map_snd_combine {A B} (a : list A) (b : list B) :
  length a = length b -> map snd (combine a b) = b.
Proof.
  revert b. induction a as [|x a IH]; intros [|y b] H; cbn in *; try congruence.
  f_equal. apply IH. congruence.
Qed.

(* the part common to both readers: through the FabOnDisk lines *)
Lemma p_cellh_common nf (mm : bool) idx files offs tail :
  Forall (fun ix : list Z * list Z => fst ix <> [] /\ snd ix <> []) idx ->
  length files = length idx -> length offs = length idx ->
  p_cellh nf mm
    ([bs "1"] :: [bs "1"] :: [str_of_Z nf] :: [bs "0"] ::
     [bs "(" ++ str_of_Z (blen idx); bs "0"] ::
     (map (fun ix : list Z * list Z => triple (fst ix) (snd ix)) idx ++
      [bs ")"] :: [str_of_Z (blen idx)] ::
      (map (fun fo : bytes * Z => [bs "FabOnDisk:"; fst fo; str_of_Z (snd fo)])
           (combine files offs) ++ tail)))
  = (if mm then
       pdo _ <- rline; pdo _ <- rline;
       pdo mins <- prepeat (Z.to_nat (blen idx)) p_minmax_row;
       pdo _ <- rline; pdo _ <- rline;
       pdo maxs <- prepeat (Z.to_nat (blen idx)) p_minmax_row;
       pret {| c_indexes := idx; c_files := files; c_offsets := offs;
               c_mins := mins; c_maxs := maxs |}
     else
       pret {| c_indexes := idx; c_files := files; c_offsets := offs;
               c_mins := []; c_maxs := [] |}) tail.
Proof.
  intros Hidx Hfl Hol.
  assert (Hfo : length files = length offs) by congruence.
  assert (Hcomb : length (combine files offs) = length idx).
  { rewrite combine_length, <- Hfo, Nat.min_id. exact Hfl. }
  unfold p_cellh.
  p_line. p_line.
  p_line. p_opt ltac:(apply line_int_str).
  rewrite Z.eqb_refl. cbn [negb].
  p_line.
  p_line. p_opt ltac:(apply py_int_lp_str).
  p_run ltac:(rewrite to_nat_blen;
              apply (prepeat_map _ (fun ix : list Z * list Z => triple (fst ix) (snd ix)));
              intros ix r Hin;
              destruct (proj1 (Forall_forall _ _) Hidx _ Hin) as [Hlo Hhi];
              apply p_index_line_print; assumption).
  p_line.
  p_line. p_opt ltac:(apply line_int_str).
  rewrite Z.eqb_refl. cbn [negb].
  p_run ltac:(rewrite to_nat_blen, <- Hcomb;
              apply (prepeat_map _
                (fun fo : bytes * Z => [bs "FabOnDisk:"; fst fo; str_of_Z (snd fo)]));
              intros fo r _; apply p_fod_line_print).
  rewrite (map_fst_combine _ _ Hfo), (map_snd_combine _ _ Hfo). reflexivity.
Qed.

Theorem p_cellh_print : forall nf mm c rest, wf_cellh mm c ->
  (mm = true ->  p_cellh nf true (print_cellh nf c ++ rest) = Some (c, rest)) /\
  (mm = false -> exists rest', p_cellh nf false (print_cellh nf c ++ rest) = Some (strip_minmax c, rest')).
Proof.
  intros nf mm c rest (Hidx & Hfl & Hol & Hmm).
  rewrite print_cellh_shape.
  destruct c as [idx files offs mins maxs].
  cbn [c_indexes c_files c_offsets c_mins c_maxs] in *.
  split; intros ->.
  - destruct (Hmm eq_refl) as (Hmn & Hmx & Hmnf & Hmxf).
    rewrite (p_cellh_common nf true idx files offs _ Hidx Hfl Hol).
    p_line. p_line.
    p_run ltac:(rewrite to_nat_blen, <- Hmn;
                apply (prepeat_map _ (fun r : list token => [row_token r]));
                intros row r Hin; apply p_minmax_row_print;
                exact (proj1 (Forall_forall _ _) Hmnf _ Hin)).
    p_line. p_line.
    p_run ltac:(rewrite to_nat_blen, <- Hmx;
                apply (prepeat_map _ (fun r : list token => [row_token r]));
                intros row r Hin; apply p_minmax_row_print;
                exact (proj1 (Forall_forall _ _) Hmxf _ Hin)).
    reflexivity.
  - rewrite (p_cellh_common nf false idx files offs _ Hidx Hfl Hol).
    eexists. reflexivity.
Qed.

(* ------------------------------------------------------------------ *)
(** * (6) The field dictionary *)

Lemma bytes_eqb_iff a b : bytes_eqb a b = true <-> a = b.
Proof.
  revert b. induction a as [|x a IH]; intros [|y b]; cbn [bytes_eqb];
    try (split; [discriminate | congruence]); [split; reflexivity|].
  rewrite andb_true_iff, Ascii.eqb_eq, IH. split.
  - intros [-> ->]. reflexivity.
  - intros H. inversion H. split; reflexivity.
Qed.

Lemma mem_iff s l : mem s l = true <-> In s l.
Proof.
  unfold mem. rewrite existsb_exists. split.
  - intros (x & Hin & He). apply bytes_eqb_iff in He. subst. exact Hin.
  - intros Hin. exists s. split; [exact Hin | apply bytes_eqb_iff; reflexivity].
Qed.

Lemma mem_false_iff s l : mem s l = false <-> ~ In s l.
Proof.
  rewrite <- mem_iff. destruct (mem s l); split; congruence.
Qed.

Lemma field_keys_length_gen names : forall acc,
  length (field_keys names acc) = (length acc + length names)%nat.
Proof.
  induction names as [|n names IH]; intros acc; cbn [field_keys length]; [lia|].
  destruct (mem n acc); rewrite IH, app_length; cbn [length]; lia.
Qed.

Theorem field_keys_length : forall names, length (field_keys names []) = length names.
Proof. intros names. rewrite field_keys_length_gen. reflexivity. Qed.

Lemma field_keys_nodup_gen names : forall acc,
  NoDup names -> (forall n, In n names -> ~ In n acc) ->
  field_keys names acc = acc ++ names.
Proof.
  induction names as [|n names IH]; intros acc Hnd Hdis; cbn [field_keys].
  - symmetry. apply app_nil_r.
  - inversion Hnd as [|n' names' Hn Hnd']; subst.
    assert (Hm : mem n acc = false).
    { apply mem_false_iff. apply Hdis. left. reflexivity. }
    rewrite Hm, IH, <- app_assoc; [reflexivity | exact Hnd' |].
    intros m Hm' Hin. apply in_app_iff in Hin. destruct Hin as [Hin|[<-|[]]].
    + apply (Hdis m); [right; exact Hm' | exact Hin].
    + apply Hn. exact Hm'.
Qed.

Theorem field_keys_nodup_id : forall names, NoDup names -> field_keys names [] = names.
Proof.
  intros names H. rewrite field_keys_nodup_gen; [reflexivity | exact H |].
  intros n _ [].
Qed.

(* the candidates name_2, name_3, ... *)
Definition cand (name : bytes) (k : Z) : bytes := name ++ bs "_" ++ str_of_Z k.

Lemma str_of_Z_inj j k : str_of_Z j = str_of_Z k -> j = k.
Proof.
  intros H. apply (f_equal py_int) in H. rewrite !py_int_str_of_Z in H.
  inversion H. reflexivity.
Qed.

Lemma cand_inj name j k : cand name j = cand name k -> j = k.
Proof.
  unfold cand. intros H. apply app_inv_head in H. apply app_inv_head in H.
  apply str_of_Z_inj. exact H.
Qed.

Lemma fresh_name_0 name k keys : fresh_name 0 name k keys = cand name k.
Proof. reflexivity. Qed.

Lemma fresh_name_S f name k keys :
  fresh_name (S f) name k keys =
  if mem (cand name k) keys then fresh_name f name (k + 1) keys else cand name k.
Proof. reflexivity. Qed.

(* pigeonhole: [rem] bounds the keys that can still collide with a candidate
   of index >= k; each collision removes one element of [rem] *)
Lemma fresh_name_notin fuel : forall name k keys rem,
  (length rem <= fuel)%nat ->
  (forall x, In x keys -> In x rem \/ (forall j, k <= j -> x <> cand name j)) ->
  ~ In (fresh_name fuel name k keys) keys.
Proof.
  induction fuel as [|f IH]; intros name k keys rem Hlen Hcov.
  - rewrite fresh_name_0. destruct rem as [|y rem]; [|cbn [length] in Hlen; lia].
    intros Hin. destruct (Hcov _ Hin) as [[]|Hn].
    apply (Hn k); [lia | reflexivity].
  - rewrite fresh_name_S. destruct (mem (cand name k) keys) eqn:Hm.
    + apply mem_iff in Hm. destruct (Hcov _ Hm) as [Hr|Hn];
        [|exfalso; apply (Hn k); [lia | reflexivity]].
      apply in_split in Hr. destruct Hr as (l1 & l2 & ->).
      apply (IH name (k + 1) keys (l1 ++ l2)).
      * rewrite app_length in *. cbn [length] in Hlen. lia.
      * intros x Hx. destruct (Hcov x Hx) as [Hr|Hn].
        -- apply in_app_iff in Hr. destruct Hr as [Hr|[Hr|Hr]].
           ++ left. apply in_app_iff. left. exact Hr.
           ++ right. intros j Hj E. subst x. apply cand_inj in E. lia.
           ++ left. apply in_app_iff. right. exact Hr.
        -- right. intros j Hj. apply Hn. lia.
    + apply mem_false_iff. exact Hm.
Qed.

Lemma fresh_name_fresh name acc : ~ In (fresh_name (length acc) name 2 acc) acc.
Proof.
  apply (fresh_name_notin (length acc) name 2 acc acc); [lia|].
  intros x Hx. left. exact Hx.
Qed.

Lemma NoDup_snoc {A} (l : list A) x : NoDup l -> ~ In x l -> NoDup (l ++ [x]).
Proof.
  induction 1 as [|y l Hy _ IH]; intros Hx; cbn [app].
  - constructor; [intros [] | constructor].
  - constructor.
    + intros Hin. apply in_app_iff in Hin. destruct Hin as [Hin|[<-|[]]].
      * apply Hy. exact Hin.
      * apply Hx. left. reflexivity.
    + apply IH. intros Hin. apply Hx. right. exact Hin.
Qed.

Lemma field_keys_NoDup_gen names : forall acc, NoDup acc -> NoDup (field_keys names acc).
Proof.
  induction names as [|n names IH]; intros acc Hacc; cbn [field_keys]; [exact Hacc|].
  destruct (mem n acc) eqn:Hm; apply IH; apply NoDup_snoc; try exact Hacc.
  - apply fresh_name_fresh.
  - apply mem_false_iff. exact Hm.
Qed.

Theorem field_keys_NoDup : forall names, NoDup (field_keys names []).
Proof. intros names. apply field_keys_NoDup_gen. constructor. Qed.

Print Assumptions p_gheader_print.
Print Assumptions p_lvboxes_print.
Print Assumptions p_levels_print.
Print Assumptions open_header_roundtrip.
Print Assumptions open_header_refuses.
Print Assumptions eff_limit_spec.
Print Assumptions p_cellh_print.
Print Assumptions field_keys_length.
Print Assumptions field_keys_nodup_id.
Print Assumptions field_keys_NoDup.
