(* A whole plotfile, abstractly (what the headers state + what the boxes
   hold + how boxes are laid out in binary files), and its on-disk image. *)
From AK Require Import Base.Prelude Bytes.Text Bytes.FabHeader Bytes.BinFile
  Reader.Select Reader.BoxRead Reader.Level Reader.ReadSpec
  Plotfile.TextHeader Plotfile.HeaderSpec Taste.Taste.

Record plevel := {
  pl_boxes : lvboxes;                 (* what the global header says about the level *)
  pl_level : level;                   (* FABs (index range + payload) and file layout *)
  pl_mins : list (list token);        (* per box, per field *)
  pl_maxs : list (list token)
}.

Record plotfile := {
  pf_g : gheader;
  pf_levels : list plevel
}.

Definition pf_nfields (pf : plotfile) : Z := blen (g_names (pf_g pf)).

Definition cells_or_nil (lv : level) : list (bytes * Z) :=
  match lv_cells lv with Some c => c | None => [] end.

(* the level header of a level *)
Definition pl_cellh (pl : plevel) : cellh :=
  let cells := cells_or_nil (pl_level pl) in
  {| c_indexes := map (fun fb => (fab_lo fb, fab_hi fb)) (lv_fabs (pl_level pl));
     c_files := map fst cells;
     c_offsets := map snd cells;
     c_mins := pl_mins pl;
     c_maxs := pl_maxs pl |}.

Definition pl_dir (nf : Z) (pl : plevel) : bytes * ldir :=
  (lb_cell_dir (pl_boxes pl),
   {| ld_cellh := Some (print_cellh nf (pl_cellh pl));
      ld_files := lv_disk (pl_level pl) |}).

(* the directory a well-formed plotfile is stored as *)
Definition pf_disk (pf : plotfile) : pdisk :=
  {| pd_header := Some (print_header (pf_g pf) (map pl_boxes (pf_levels pf)));
     pd_dirs := map (pl_dir (pf_nfields pf)) (pf_levels pf) |}.

Definition wf_plevel (ndims nf : Z) (pl : plevel) : Prop :=
  wf_lvboxes ndims (pl_boxes pl) /\
  wf_level (pl_level pl) = true /\
  lv_fabs (pl_level pl) <> [] /\
  lb_ncells (pl_boxes pl) = blen (lv_fabs (pl_level pl)) /\
  Forall (fun fb => fab_nc fb = nf) (lv_fabs (pl_level pl)) /\
  length (pl_mins pl) = length (lv_fabs (pl_level pl)) /\
  length (pl_maxs pl) = length (lv_fabs (pl_level pl)) /\
  Forall (Forall (fun t => float_ok t = true /\ no_char ","%char t)) (pl_mins pl) /\
  Forall (Forall (fun t => float_ok t = true /\ no_char ","%char t)) (pl_maxs pl).

Definition wf_plotfile (pf : plotfile) : Prop :=
  wf_gheader (pf_g pf) /\
  blen (pf_levels pf) = g_max_level (pf_g pf) + 1 /\
  NoDup (map (fun pl => lb_cell_dir (pl_boxes pl)) (pf_levels pf)) /\
  Forall (wf_plevel (g_ndims (pf_g pf)) (pf_nfields pf)) (pf_levels pf).
