(* The text headers of a plotfile ([Header] and [Level_n/Cell_H]) and the
   parsers of PlotfileCooker.__init__, read_boxes and read_cell_headers.

   A text file is a list of lines, a line a list of non-empty whitespace-free
   tokens; the harness renders a line as ' '.join(tokens) + '\n' (optionally
   with trailing blanks, as AMReX writes some lines) and the Python code reads
   it back with readline()/split(), which on such text yields exactly the
   tokens.  Float tokens are opaque byte strings: the model only decides
   whether float() accepts them. *)
From AK Require Import Base.Prelude Bytes.Text Bytes.FabHeader Reader.Select.

Definition token := bytes.
Definition line := list token.
Definition text := list line.

(* ---- float(token) acceptance ---- *)
Fixpoint all_digits (s : bytes) : bool :=
  match s with [] => true | c :: s' => is_digit c && all_digits s' end.

Fixpoint span_digits (s : bytes) : bytes * bytes :=
  match s with
  | [] => ([], [])
  | c :: s' => if is_digit c then let (d, r) := span_digits s' in (c :: d, r) else ([], s)
  end.

Definition lower (c : ascii) : ascii :=
  let n := code c in if (65 <=? n) && (n <=? 90) then ascii_of_N (Z.to_N (n + 32)) else c.

Definition strip_sign (s : bytes) : bytes :=
  match s with
  | c :: s' => if Ascii.eqb c "-"%char || Ascii.eqb c "+"%char then s' else s
  | [] => []
  end.

Definition is_e (c : ascii) : bool := Ascii.eqb c "e"%char || Ascii.eqb c "E"%char.

Definition float_ok (s : bytes) : bool :=
  let u := strip_sign s in
  let lu := map lower u in
  if bytes_eqb lu (bs "inf") || bytes_eqb lu (bs "infinity") || bytes_eqb lu (bs "nan") then true
  else
    let (ip, r1) := span_digits u in
    let (fp, r2) :=
      match r1 with
      | c :: r => if Ascii.eqb c "."%char then span_digits r else ([], r1)
      | [] => ([], [])
      end in
    let mant_ok := negb ((length ip =? 0)%nat && (length fp =? 0)%nat) in
    let exp_ok :=
      match r2 with
      | [] => true
      | c :: r => is_e c && (let d := strip_sign r in negb (length d =? 0)%nat && all_digits d)
      end in
    mant_ok && exp_ok.

(* ---- reading lines ---- *)
(* a parser consumes lines from the front of the remaining text *)
Definition P (A : Type) := text -> option (A * text).
Definition pret {A} (a : A) : P A := fun t => Some (a, t).
Definition pbind {A B} (p : P A) (f : A -> P B) : P B :=
  fun t => match p t with Some (a, t') => f a t' | None => None end.
Definition pfail {A} : P A := fun _ => None.
Notation "'pdo' x <- p ; k" := (pbind p (fun x => k))
  (at level 200, x pattern, p at level 100, k at level 200, right associativity).

(* readline(): at end of file Python returns '' - an empty line, which every
   conversion below refuses; we keep reading [] forever *)
Definition rline : P line := fun t => match t with [] => Some ([], []) | l :: t' => Some (l, t') end.
Definition of_opt {A} (o : option A) : P A := fun t => match o with Some a => Some (a, t) | None => None end.

Definition line_int (l : line) : option Z := match l with [t] => py_int t | _ => None end.
Definition line_float (l : line) : option token :=
  match l with [t] => if float_ok t then Some t else None | _ => None end.
Definition tok_float (t : token) : option token := if float_ok t then Some t else None.
Definition line_floats (l : line) : option (list token) := omap_all tok_float l.
Definition line_ints (l : line) : option (list Z) := omap_all py_int l.

Fixpoint prepeat {A} (n : nat) (p : P A) : P (list A) :=
  match n with
  | O => pret []
  | S n' => pdo a <- p; pdo r <- prepeat n' p; pret (a :: r)
  end.

(* ---- field dictionary: repeated names get _2, _3, ... ---- *)
Definition mem (s : bytes) (l : list bytes) : bool := existsb (bytes_eqb s) l.

Fixpoint fresh_name (fuel : nat) (name : bytes) (k : Z) (keys : list bytes) : bytes :=
  let cand := name ++ bs "_" ++ str_of_Z k in
  match fuel with
  | O => cand
  | S f => if mem cand keys then fresh_name f name (k + 1) keys else cand
  end.

(* keys in insertion order; [acc] holds the keys so far *)
Fixpoint field_keys (names : list bytes) (acc : list bytes) : list bytes :=
  match names with
  | [] => acc
  | n :: names' =>
      if mem n acc then field_keys names' (acc ++ [fresh_name (length acc) n 2 acc])
      else field_keys names' (acc ++ [n])
  end.

(* every second-of-three token of the grid line: line.split()[1::3] *)
Fixpoint every3 (l : list token) (k : nat) : list token :=
  match l with
  | [] => []
  | t :: l' => match k with
               | 1%nat => t :: every3 l' 0
               | 0%nat => every3 l' 2
               | _ => every3 l' 1
               end
  end.
(* k counts down to the next pick: start at 1 picks index 1, 4, 7 ... *)
Definition pick_1_3 (l : list token) : list token :=
  match l with [] => [] | _ :: l' => every3 l' 1 end.

Definition paren_ints (t : token) : option (list Z) :=
  parse_ints (remove_char ")"%char (remove_char "("%char t)).

(* ---- global header ---- *)
Record gheader := {
  g_version : line;
  g_names : list bytes;          (* field names as written *)
  g_ndims : Z;
  g_time : token;
  g_max_level : Z;
  g_geo_low : list token;
  g_geo_high : list token;
  g_factors : list Z;
  g_grid_hi : list (list Z);     (* the (hi) index tuple of each level: size - 1 *)
  g_steps : list Z;
  g_dx : list (list token);      (* max_level + 1 rows *)
  g_sys_coord : line
}.

Record lvboxes := {
  lb_ncells : Z;
  lb_step_line : line;
  lb_boxes : list (list (token * token));   (* per box, per dimension: lo hi *)
  lb_cell_dir : bytes;
  lb_time_tok : token
}.

Definition join_line (l : line) : bytes := join_with (bs " ") l.

Definition p_gheader : P gheader :=
  pdo version <- rline;
  pdo l <- rline; pdo nvars <- of_opt (line_int l);
  pdo names <- prepeat (Z.to_nat nvars) (pdo l <- rline; pret (join_line l));
  pdo l <- rline; pdo ndims <- of_opt (line_int l);
  pdo l <- rline; pdo time <- of_opt (line_float l);
  pdo l <- rline; pdo maxlv <- of_opt (line_int l);
  pdo l <- rline; pdo lo <- of_opt (line_floats l);
  pdo l <- rline; pdo hi <- of_opt (line_floats l);
  pdo l <- rline; pdo factors <- of_opt (line_ints l);
  pdo l <- rline; pdo grids <- of_opt (omap_all paren_ints (pick_1_3 l));
  pdo l <- rline; pdo steps <- of_opt (line_ints l);
  pdo dx <- prepeat (Z.to_nat (maxlv + 1)) (pdo l <- rline; of_opt (line_floats l));
  pdo sys <- rline;
  pdo l <- rline; pdo zero <- of_opt (line_int l);
  if negb (zero =? 0) then pfail else
  pret {| g_version := version; g_names := names; g_ndims := ndims; g_time := time;
          g_max_level := maxlv; g_geo_low := lo; g_geo_high := hi; g_factors := factors;
          g_grid_hi := grids; g_steps := steps; g_dx := dx; g_sys_coord := sys |}.

(* one level of read_boxes *)
Definition p_box (ndims : nat) : P (list (token * token)) :=
  prepeat ndims (pdo l <- rline;
                 match l with
                 | [a; b] => if float_ok a && float_ok b then pret (a, b) else pfail
                 | _ => pfail
                 end).

Definition p_lvboxes (ndims : Z) (lv : Z) : P lvboxes :=
  pdo l <- rline;
  match l with
  | [cl; nc; tm] =>
      pdo cl <- of_opt (py_int cl);
      pdo nc <- of_opt (py_int nc);
      pdo stepl <- rline;
      if negb (cl =? lv) then pfail else
      pdo boxes <- prepeat (Z.to_nat nc) (p_box (Z.to_nat ndims));
      pdo l <- rline;
      pret {| lb_ncells := nc; lb_step_line := stepl; lb_boxes := boxes;
              lb_cell_dir := hd [] (split_on "/"%char (join_line l)); lb_time_tok := tm |}
  | _ => pfail
  end.

Fixpoint p_levels (ndims : Z) (lv : Z) (n : nat) : P (list lvboxes) :=
  match n with
  | O => pret []
  | S n' => pdo b <- p_lvboxes ndims lv; pdo r <- p_levels ndims (lv + 1) n'; pret (b :: r)
  end.

(* limit_level handling of __init__ *)
Definition eff_limit (maxlv : Z) (limit : option Z) : option Z :=
  match limit with
  | None => Some maxlv
  | Some l => if l <=? maxlv then Some l else None
  end.

Record opened := {
  o_g : gheader;
  o_keys : list bytes;
  o_limit : Z;
  o_levels : list lvboxes
}.

Definition open_header (t : text) (limit : option Z) : option opened :=
  match p_gheader t with
  | None => None
  | Some (g, rest) =>
      do lim <- eff_limit (g_max_level g) limit;
      match p_levels (g_ndims g) 0 (Z.to_nat (lim + 1)) rest with
      | None => None
      | Some (lvs, _) =>
          Some {| o_g := g; o_keys := field_keys (g_names g) []; o_limit := lim; o_levels := lvs |}
      end
  end.

(* ---- level header (Cell_H) ---- *)
Record cellh := {
  c_indexes : list (list Z * list Z);
  c_files : list bytes;
  c_offsets : list Z;
  c_mins : list (list token);    (* per box, per field (only with maxmins) *)
  c_maxs : list (list token)
}.

Definition p_index_line : P (list Z * list Z) :=
  pdo l <- rline;
  match l with
  | [a; b; _] => pdo lo <- of_opt (paren_ints a); pdo hi <- of_opt (paren_ints b); pret (lo, hi)
  | _ => pfail
  end.

Definition p_fod_line : P (bytes * Z) :=
  pdo l <- rline;
  match l with
  | [_; f; o] => pdo off <- of_opt (py_int o); pret (f, off)
  | _ => pfail
  end.

Definition drop_last {A} (l : list A) : list A := firstn (length l - 1) l.

(* a min/max row: readline().split(',')[:-1] converted to floats; the row is
   rendered as one token "v,v,...,v," *)
Definition p_minmax_row : P (list token) :=
  pdo l <- rline;
  of_opt (omap_all tok_float (drop_last (split_on ","%char (join_line l)))).

Definition p_cellh (nfields : Z) (maxmins : bool) : P cellh :=
  pdo _ <- rline; pdo _ <- rline;
  pdo l <- rline; pdo nf <- of_opt (line_int l);
  if negb (nf =? nfields) then pfail else
  pdo _ <- rline;
  pdo l <- rline;
  pdo ncells <- of_opt (match l with t :: _ => py_int (remove_char "("%char t) | [] => None end);
  pdo idx <- prepeat (Z.to_nat ncells) p_index_line;
  pdo _ <- rline;
  pdo l <- rline; pdo n2 <- of_opt (line_int l);
  if negb (n2 =? ncells) then pfail else
  pdo fods <- prepeat (Z.to_nat ncells) p_fod_line;
  if maxmins then
    pdo _ <- rline; pdo _ <- rline;
    pdo mins <- prepeat (Z.to_nat ncells) p_minmax_row;
    pdo _ <- rline; pdo _ <- rline;
    pdo maxs <- prepeat (Z.to_nat ncells) p_minmax_row;
    pret {| c_indexes := idx; c_files := map fst fods; c_offsets := map snd fods;
            c_mins := mins; c_maxs := maxs |}
  else
    pret {| c_indexes := idx; c_files := map fst fods; c_offsets := map snd fods;
            c_mins := []; c_maxs := [] |}.

(* ---- printers (the format AMReX writes and the generator emits) ---- *)
Definition paren (zs : list Z) : token := bs "(" ++ join_ints zs ++ bs ")".
Definition triple (lo hi : list Z) : list token :=
  [bs "(" ++ paren lo; paren hi; paren (map (fun _ => 0) hi) ++ bs ")"].

Definition print_gheader (g : gheader) : text :=
  [g_version g; [str_of_Z (blen (g_names g))]]
  ++ map (fun n => [n]) (g_names g)
  ++ [[str_of_Z (g_ndims g)]; [g_time g]; [str_of_Z (g_max_level g)];
      g_geo_low g; g_geo_high g; map str_of_Z (g_factors g);
      concat (map (fun hi => triple (map (fun _ => 0) hi) hi) (g_grid_hi g));
      map str_of_Z (g_steps g)]
  ++ g_dx g
  ++ [g_sys_coord g; [str_of_Z 0]].

Definition print_lvboxes (lv : Z) (b : lvboxes) : text :=
  [[str_of_Z lv; str_of_Z (lb_ncells b); lb_time_tok b]; lb_step_line b]
  ++ concat (map (fun box => map (fun lh => [fst lh; snd lh]) box) (lb_boxes b))
  ++ [[lb_cell_dir b ++ bs "/Cell"]].

Fixpoint print_levels (lv : Z) (l : list lvboxes) : text :=
  match l with
  | [] => []
  | b :: l' => print_lvboxes lv b ++ print_levels (lv + 1) l'
  end.

Definition print_header (g : gheader) (lvs : list lvboxes) : text :=
  print_gheader g ++ print_levels 0 lvs.

Definition row_token (r : list token) : token := concat (map (fun t => t ++ bs ",") r).

Definition print_cellh (nfields : Z) (c : cellh) : text :=
  let n := blen (c_indexes c) in
  [[bs "1"]; [bs "1"]; [str_of_Z nfields]; [bs "0"]; [bs "(" ++ str_of_Z n; bs "0"]]
  ++ map (fun ix => triple (fst ix) (snd ix)) (c_indexes c)
  ++ [[bs ")"]; [str_of_Z n]]
  ++ map (fun fo => [bs "FabOnDisk:"; fst fo; str_of_Z (snd fo)]) (combine (c_files c) (c_offsets c))
  ++ [[]; [str_of_Z n ++ bs "," ++ str_of_Z nfields]]
  ++ map (fun r => [row_token r]) (c_mins c)
  ++ [[]; [str_of_Z n ++ bs "," ++ str_of_Z nfields]]
  ++ map (fun r => [row_token r]) (c_maxs c).
