(* amr_kitchen/pestle/pestle.py volume_integral and
   PlotfileCooker.compute_box_array, on integer-valued box data.

   The read prefix of increment_sum / increment_sum_masked (seek(offset),
   readline, shape_from_header, relative seek over whole components,
   fromfile, reshape order='F') is the single-field read of
   Reader/BoxRead.v (C01): here a box is its index range and, per component,
   its cell values in Fortran order.  Values are integers so that the
   correspondence can compare exact sums (dyadic cell volumes). *)
From AK Require Import Base.Prelude Bytes.FabHeader Array.Paint.

Record ibox := { ib_lo : list Z; ib_hi : list Z; ib_data : list (list Z) }.

Definition ib_shape (b : ibox) : list Z := box_shape (ib_lo b) (ib_hi b).

(* ---- compute_box_array ---- *)
Definition corners (lvls : list (list ibox)) : list Z :=
  concat (map (fun b => ib_lo b ++ map (fun h => h + 1) (ib_hi b)) (concat lvls)).

(* box_rez = np.gcd.reduce(corners) *)
Definition box_rez (lvls : list (list ibox)) : Z := fold_right Z.gcd 0 (corners lvls).

(* box_array[lo // r : hi // r + 1] = i, in box order; -1 elsewhere ([None]) *)
Definition barr_patch (r : Z) (ib : nat * ibox) : @patch Z :=
  {| p_start := map (fun l => l / r) (ib_lo (snd ib));
     p_stop := map (fun h => h / r + 1) (ib_hi (snd ib));
     p_val := fun _ => Z.of_nat (fst ib) |}.

Definition box_array (r : Z) (boxes : list ibox) : @canvas Z :=
  paint_all (map (barr_patch r) (combine (seq 0 (length boxes)) boxes)) blank.

(* ---- covering mask of one box of level lv against the box array of lv+1 ----
   barr_starts = (lo * 2) // r ; next_lv_map = expand_array3d(slice, r // 2)
   mask[t] = (next_lv_map[t] == -1)   for t the cell index relative to lo *)
Definition mask_at (r : Z) (barr : @canvas Z) (lo : list Z) (t : list Z) : bool :=
  match barr (map (fun lt => (fst lt * 2) / r + snd lt / (r / 2)) (combine lo t)) with
  | None => true
  | Some _ => false
  end.

(* ---- cells of a box in Fortran order: relative indices ---- *)
Fixpoint rel_cells (shape : list Z) : list (list Z) :=
  match shape with
  | [] => [[]]
  | n :: rest => flat_map (fun tl => map (fun i => Z.of_nat i :: tl) (seq 0 (Z.to_nat n))) (rel_cells rest)
  end.

Definition zsum_list (l : list Z) : Z := fold_right Z.add 0 l.

Definition comp (b : ibox) (c : Z) : list Z := nth (Z.to_nat c) (ib_data b) [].

(* np.sum(data[mask] * volfrac[mask]) ; np.sum(data * volfrac) *)
Definition box_sum (b : ibox) (id_int : Z) (id_vol : option Z) (keep : list Z -> bool) : Z :=
  let cells := rel_cells (ib_shape b) in
  let d := comp b id_int in
  let v := match id_vol with Some c => comp b c | None => map (fun _ => 1) d end in
  zsum_list (map (fun tdv => if keep (fst (fst tdv)) then snd (fst tdv) * snd tdv else 0)
                 (combine (combine cells d) v)).

(* per level the list of per-box sums, in box (= submission) order: levels
   0..L-1 masked by the occupancy of the next level, level L unmasked *)
Definition volume_integral (lvls : list (list ibox)) (L : nat) (id_int : Z) (id_vol : option Z)
  : list (list Z) :=
  let r := box_rez lvls in
  map (fun lv =>
         let boxes := nth lv lvls [] in
         if (lv <? L)%nat then
           let barr := box_array r (nth (S lv) lvls []) in
           map (fun b => box_sum b id_int id_vol (mask_at r barr (ib_lo b))) boxes
         else
           map (fun b => box_sum b id_int id_vol (fun _ => true)) boxes)
      (seq 0 (S L)).
