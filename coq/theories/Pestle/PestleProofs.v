(* Proofs about the pestle model: with the occupancy resolution r = gcd of
   all box corners, the covering mask of a coarse cell is true exactly when
   no box of the next level contains the cell's refinement - so every level
   contributes exactly its cells not covered by the next selected level. *)
From AK Require Import Base.Prelude Bytes.FabHeader Array.Paint Pestle.Pestle.

(* ------------------------------------------------------------------ *)
(** * the resolution divides every corner *)

Lemma fold_gcd_divides : forall (l : list Z) x, In x l -> (fold_right Z.gcd 0 l | x).
Proof.
  induction l as [|y l IH]; intros x Hin; [contradiction|].
  cbn [fold_right]. destruct Hin as [<-|Hin].
  - apply Z.gcd_divide_l.
  - apply (Z.divide_trans _ (fold_right Z.gcd 0 l)); [apply Z.gcd_divide_r | apply IH; exact Hin].
Qed.

Definition aligned (r : Z) (b : ibox) : Prop :=
  Forall (fun l => (r | l)) (ib_lo b) /\ Forall (fun h => (r | h + 1)) (ib_hi b).

Theorem box_rez_aligned : forall lvls bs b, In bs lvls -> In b bs -> aligned (box_rez lvls) b.
Proof.
  intros lvls bs b Hbs Hb.
  assert (Hc : forall x, In x (ib_lo b ++ map (fun h => h + 1) (ib_hi b)) -> (box_rez lvls | x)).
  { intros x Hx. apply fold_gcd_divides. unfold corners. apply in_concat.
    exists (ib_lo b ++ map (fun h => h + 1) (ib_hi b)). split; [|exact Hx].
    apply in_map_iff. exists b. split; [reflexivity|]. apply in_concat. exists bs. split; assumption. }
  split; apply Forall_forall; intros x Hx; apply Hc; apply in_or_app.
  - left. exact Hx.
  - right. apply in_map_iff. exists x. split; [reflexivity | exact Hx].
Qed.

(* ------------------------------------------------------------------ *)
(** * the box array *)

Lemma paint_all_None {V} : forall (pts : list (@patch V)) c p,
  paint_all pts c p = None <-> (c p = None /\ forall pt, In pt pts -> covers pt p = false).
Proof.
  induction pts as [|x pts IH]; intros c p.
  - cbn. split; [intros H; split; [exact H | intros ? []] | intros [H _]; exact H].
  - change (paint_all (x :: pts) c) with (paint_all pts (paint c x)).
    rewrite IH. unfold paint at 1. split.
    + intros [H1 H2]. destruct (covers x p) eqn:E; [discriminate|].
      split; [exact H1|]. intros pt [<-|Hpt]; [exact E | apply H2; exact Hpt].
    + intros [H1 H2]. rewrite (H2 x (or_introl eq_refl)). split; [exact H1|].
      intros pt Hpt. apply H2. right. exact Hpt.
Qed.

(* a fine box (aligned to r) covers box-array cell x / r exactly when it contains x *)
Lemma barr_covers (r : Z) (i : nat) (b : ibox) (x : list Z) : 0 < r -> aligned r b ->
  covers (barr_patch r (i, b)) (coarsen r x) = cell_in (ib_lo b) (ib_hi b) x.
Proof.
  intros Hr [Hlo Hhi]. unfold covers, barr_patch, cell_in, coarsen. cbn [p_start p_stop snd].
  revert x Hlo Hhi. generalize (ib_lo b) (ib_hi b). clear b.
  induction l as [|l lo IH]; intros [|h hi] [|x0 x] Hlo Hhi; cbn [map in_slice]; try reflexivity.
  inversion Hlo as [|? ? [a Ha] Hlo']; subst. inversion Hhi as [|? ? [e He] Hhi']; subst.
  rewrite (IH hi x Hlo' Hhi'). f_equal.
  rewrite Z.div_mul by lia.
  assert (Hh : h / r + 1 = e).
  { replace h with (e * r - 1) by lia.
    replace (e * r - 1) with ((r - 1) + (e - 1) * r) by ring.
    rewrite Z.div_add by lia. rewrite Z.div_small by lia. ring. }
  rewrite Hh.
  assert (H1 : (a <=? x0 / r) = (a * r <=? x0)).
  { apply eq_true_iff_eq. rewrite !Z.leb_le. split; intros H.
    - pose proof (Z.mul_div_le x0 r Hr). nia.
    - apply Z.div_le_lower_bound; lia. }
  assert (H2 : (x0 / r <? e) = (x0 <? h + 1)).
  { apply eq_true_iff_eq. rewrite !Z.ltb_lt. rewrite He. split; intros H.
    - pose proof (Z.mod_pos_bound x0 r Hr). pose proof (Z.div_mod x0 r). nia.
    - apply Z.div_lt_upper_bound; lia. }
  rewrite H1, H2. reflexivity.
Qed.

Lemma in_combine_seq {A} : forall (l : list A) s i b,
  nth_error l i = Some b -> In ((s + i)%nat, b) (combine (seq s (length l)) l).
Proof.
  induction l as [|x l IH]; intros s [|i] b H; cbn in H; try discriminate.
  - injection H as ->. cbn. left. f_equal. lia.
  - cbn [length seq combine]. right. replace (s + S i)%nat with (S s + i)%nat by lia. apply IH. exact H.
Qed.

Definition covered (fine : list ibox) (x : list Z) : bool :=
  existsb (fun b => cell_in (ib_lo b) (ib_hi b) x) fine.

Theorem box_array_spec : forall r fine x, 0 < r -> Forall (aligned r) fine ->
  (box_array r fine (coarsen r x) = None <-> covered fine x = false).
Proof.
  intros r fine x Hr Hal. unfold box_array. rewrite paint_all_None. unfold covered.
  split.
  - intros [_ H]. destruct (existsb _ fine) eqn:E; [|reflexivity].
    apply existsb_exists in E. destruct E as (b & Hb & Hc).
    pose proof Hb as Hb0.
    apply In_nth_error in Hb. destruct Hb as (i & Hi).
    assert (Hin : In (barr_patch r (i, b)) (map (barr_patch r) (combine (seq 0 (length fine)) fine))).
    { apply in_map. apply (in_combine_seq fine 0 i b Hi). }
    specialize (H _ Hin). rewrite barr_covers in H; [congruence | exact Hr |].
    rewrite Forall_forall in Hal. apply Hal. exact Hb0.
  - intros H. split; [reflexivity|].
    intros pt Hpt. apply in_map_iff in Hpt. destruct Hpt as ([i b] & <- & Hib).
    apply in_combine_r in Hib.
    rewrite barr_covers; [| exact Hr | rewrite Forall_forall in Hal; apply Hal; exact Hib].
    destruct (cell_in (ib_lo b) (ib_hi b) x) eqn:E; [|reflexivity].
    assert (existsb (fun b0 => cell_in (ib_lo b0) (ib_hi b0) x) fine = true); [|congruence].
    apply existsb_exists. exists b. split; assumption.
Qed.

(* ------------------------------------------------------------------ *)
(** * the mask of a coarse cell *)

Definition zip_add (a b : list Z) : list Z := map (fun ab => fst ab + snd ab) (combine a b).
Definition refine (c : list Z) : list Z := map (fun x => 2 * x) c.

Lemma mask_index (h : Z) : 0 < h -> forall lo t,
  Forall (fun l => (h | l)) lo -> length t = length lo -> Forall (fun x => 0 <= x) t ->
  map (fun lt => (fst lt * 2) / (2 * h) + snd lt / ((2 * h) / 2)) (combine lo t)
  = coarsen (2 * h) (refine (zip_add lo t)).
Proof.
  intros Hh. induction lo as [|l lo IH]; intros [|t0 t] Hlo Hlen Ht; cbn in Hlen; try lia; [reflexivity|].
  inversion Hlo as [|? ? [m Hm] Hlo']; subst. inversion Ht as [|? ? Ht0 Ht']; subst.
  unfold coarsen, refine, zip_add in *. cbn [combine map fst snd].
  rewrite (IH t Hlo' ltac:(lia) Ht'). f_equal.
  replace (2 * h / 2) with h by (rewrite Z.mul_comm, Z.div_mul; lia).
  replace (m * h * 2) with (m * (2 * h)) by ring. rewrite Z.div_mul by lia.
  replace (2 * (m * h + t0) / (2 * h)) with ((m * h + t0) / h) by (symmetry; apply Z.div_mul_cancel_l; lia).
  rewrite (Z.add_comm (m * h)), Z.div_add by lia. ring.
Qed.

Theorem mask_spec : forall r fine lo t,
  0 < r -> Z.even r = true -> Forall (aligned r) fine ->
  Forall (fun l => (r | l)) lo -> length t = length lo -> Forall (fun x => 0 <= x) t ->
  mask_at r (box_array r fine) lo t = negb (covered fine (refine (zip_add lo t))).
Proof.
  intros r fine lo t Hr Hev Hal Hlo Hlen Ht.
  apply Z.even_spec in Hev. destruct Hev as [h ->].
  assert (Hh : 0 < h) by lia.
  unfold mask_at. rewrite (mask_index h Hh lo t); [| | exact Hlen | exact Ht].
  - destruct (box_array (2 * h) fine (coarsen (2 * h) (refine (zip_add lo t)))) eqn:E.
    + destruct (covered fine (refine (zip_add lo t))) eqn:Ec; [reflexivity|].
      apply (box_array_spec (2 * h) fine _ ltac:(lia) Hal) in Ec. congruence.
    + apply (box_array_spec (2 * h) fine _ ltac:(lia) Hal) in E. rewrite E. reflexivity.
  - revert Hlo. apply Forall_impl. intros l [m Hm]. exists (m * 2). lia.
Qed.

(* ------------------------------------------------------------------ *)
(** * per-level sums: exactly the cells not covered by the next level *)

Lemma rel_cells_props : forall shape t, In t (rel_cells shape) ->
  length t = length shape /\ Forall (fun x => 0 <= x) t.
Proof.
  induction shape as [|n shape IH]; intros t Ht; cbn [rel_cells] in Ht.
  - destruct Ht as [<-|[]]. split; [reflexivity | constructor].
  - apply in_flat_map in Ht. destruct Ht as (tl & Htl & Ht).
    apply in_map_iff in Ht. destruct Ht as (i & <- & _).
    destruct (IH tl Htl) as [Hl Hf]. split; [cbn; lia | constructor; [lia | exact Hf]].
Qed.

Lemma box_sum_ext b i v keep keep' :
  (forall t, In t (rel_cells (ib_shape b)) -> keep t = keep' t) ->
  box_sum b i v keep = box_sum b i v keep'.
Proof.
  intros H. unfold box_sum. cbv zeta. f_equal. apply map_ext_in.
  intros [[t d] w] Hin. cbn [fst snd].
  apply in_combine_l in Hin. apply in_combine_l in Hin. rewrite (H t Hin). reflexivity.
Qed.

Lemma nth_map_seq' {B} (g : nat -> B) (d : B) (n k : nat) :
  (k < n)%nat -> nth k (map g (seq 0 n)) d = g k.
Proof.
  intros Hk. rewrite (nth_indep _ d (g 0%nat)) by (rewrite map_length, seq_length; exact Hk).
  rewrite (map_nth g (seq 0 n) 0%nat k). rewrite seq_nth by exact Hk. reflexivity.
Qed.

Definition box_wf (b : ibox) : Prop := length (ib_lo b) = length (ib_hi b).

(* the sum a level must contribute: its cells whose refinement lies in no box
   of the next level (all its cells for the last selected level) *)
Definition uncovered_sum (fine : list ibox) (id_int : Z) (id_vol : option Z) (b : ibox) : Z :=
  box_sum b id_int id_vol (fun t => negb (covered fine (refine (zip_add (ib_lo b) t)))).

Theorem volume_integral_masked : forall lvls L lv id_int id_vol,
  (lv < L)%nat -> 0 < box_rez lvls -> Z.even (box_rez lvls) = true ->
  (forall bs b, In bs lvls -> In b bs -> box_wf b) ->
  nth lv (volume_integral lvls L id_int id_vol) []
  = map (uncovered_sum (nth (S lv) lvls []) id_int id_vol) (nth lv lvls []).
Proof.
  intros lvls L lv id_int id_vol Hlv Hr Hev Hwf.
  unfold volume_integral. cbv zeta. rewrite nth_map_seq' by lia.
  destruct (lv <? L)%nat eqn:E; [|lia].
  apply map_ext_in. intros b Hb. unfold uncovered_sum. apply box_sum_ext. intros t Ht.
  destruct (rel_cells_props _ _ Ht) as [Hlen Hnn].
  assert (Hbs : In (nth lv lvls []) lvls \/ nth lv lvls [] = []).
  { destruct (Nat.lt_ge_cases lv (length lvls)) as [H|H]; [left; apply nth_In; exact H | right; apply nth_overflow; exact H]. }
  destruct Hbs as [Hbs|Hnil]; [|rewrite Hnil in Hb; contradiction].
  assert (Hbw : box_wf b) by (apply (Hwf _ b Hbs Hb)).
  apply mask_spec; try assumption.
  - apply Forall_forall. intros b' Hb'.
    assert (Hfs : In (nth (S lv) lvls []) lvls).
    { destruct (Nat.lt_ge_cases (S lv) (length lvls)) as [H|H]; [apply nth_In; exact H|].
      rewrite nth_overflow in Hb' by exact H. contradiction. }
    apply (box_rez_aligned lvls _ b' Hfs Hb').
  - apply (box_rez_aligned lvls _ b Hbs Hb).
  - rewrite Hlen. unfold ib_shape, box_shape. unfold box_wf in Hbw.
    revert Hbw. generalize (ib_lo b) (ib_hi b). clear.
    induction l as [|x l IH]; intros [|y l0] H; cbn in *; try lia. f_equal. apply IH. lia.
Qed.

Theorem volume_integral_finest : forall lvls L id_int id_vol,
  nth L (volume_integral lvls L id_int id_vol) []
  = map (fun b => box_sum b id_int id_vol (fun _ => true)) (nth L lvls []).
Proof.
  intros. unfold volume_integral. cbv zeta. rewrite nth_map_seq' by lia.
  destruct (L <? L)%nat eqn:E; [lia | reflexivity].
Qed.

Theorem volume_integral_levels : forall lvls L id_int id_vol,
  length (volume_integral lvls L id_int id_vol) = S L.
Proof. intros. unfold volume_integral. cbv zeta. rewrite map_length, seq_length. reflexivity. Qed.

(* ------------------------------------------------------------------ *)
(** * a coarse cell is refined as a whole or not at all *)

Theorem covered_children : forall r fine x, 0 < r -> Z.even r = true -> Forall (aligned r) fine ->
  covered fine (refine (coarsen 2 x)) = covered fine x.
Proof.
  intros r fine x Hr Hev Hal. unfold covered.
  apply Z.even_spec in Hev. destruct Hev as [h ->].
  induction fine as [|b fine IH]; [reflexivity|].
  inversion Hal as [|? ? [Hlo Hhi] Hal']; subst.
  cbn [existsb]. rewrite (IH Hal'). f_equal. clear IH Hal Hal'.
  unfold cell_in, refine, coarsen.
  revert x Hlo Hhi. generalize (ib_lo b) (ib_hi b). clear b fine.
  induction l as [|l lo IH]; intros [|hh hi] [|x0 x] Hlo Hhi; cbn [map in_slice]; try reflexivity.
  inversion Hlo as [|? ? [a Ha] Hlo']; subst. inversion Hhi as [|? ? [e He] Hhi']; subst.
  rewrite (IH hi x Hlo' Hhi'). f_equal.
  assert (H1 : (a * (2 * h) <=? 2 * (x0 / 2)) = (a * (2 * h) <=? x0)).
  { apply eq_true_iff_eq. rewrite !Z.leb_le. pose proof (Z.div_mod x0 2). pose proof (Z.mod_pos_bound x0 2). lia. }
  assert (H2 : (2 * (x0 / 2) <? hh + 1) = (x0 <? hh + 1)).
  { apply eq_true_iff_eq. rewrite !Z.ltb_lt. rewrite He.
    pose proof (Z.div_mod x0 2). pose proof (Z.mod_pos_bound x0 2). lia. }
  rewrite H1, H2. reflexivity.
Qed.
