(* Level-ordered painting of AMR boxes, generically: whatever builds the
   per-level patch lists (per box, per file, in any order), if the patches of
   level j are exactly the images of the boxes of level j and a patch covers
   the pixels whose level-j cell lies in its box, the final canvas holds at
   every pixel the patch value of the finest level having a box there. *)
From AK Require Import Base.Prelude Array.Paint.

Section Amr.
Context {B V : Type}.
Variable lo hi : B -> list Z.
Variable fac : nat -> Z.                       (* refinement factor of level j to the grid *)
Variable mk : nat -> B -> @patch V.
Hypothesis mk_covers : forall j b p,
  covers (mk j b) p = cell_in (lo b) (hi b) (coarsen (fac j) p).

Definition patches_of (boxes : list (list B)) (pts : list (list (@patch V))) : Prop :=
  length pts = length boxes /\
  forall j bs ps, nth_error boxes j = Some bs -> nth_error pts j = Some ps ->
    forall pt, In pt ps <-> exists b, In b bs /\ pt = mk j b.

Theorem amr_covering : forall boxes pts c p lv bs b,
  patches_of boxes pts ->
  nth_error boxes lv = Some bs -> In b bs ->
  cell_in (lo b) (hi b) (coarsen (fac lv) p) = true ->
  (forall b', In b' bs -> cell_in (lo b') (hi b') (coarsen (fac lv) p) = true ->
              p_val (mk lv b') p = p_val (mk lv b) p) ->
  (forall j bs' b', (lv < j)%nat -> nth_error boxes j = Some bs' -> In b' bs' ->
                    cell_in (lo b') (hi b') (coarsen (fac j) p) = false) ->
  paint_levels pts c p = Some (p_val (mk lv b) p).
Proof.
  intros boxes pts c p lv bs b [Hlen Hpts] Hn Hin Hcell Huniq Hfiner.
  assert (Hlt : (lv < length pts)%nat).
  { rewrite Hlen. apply nth_error_Some. rewrite Hn. discriminate. }
  destruct (nth_error pts lv) as [ps|] eqn:Eps; [|apply nth_error_None in Eps; lia].
  apply (paint_levels_finest pts lv c p _ ps Eps).
  - exists (mk lv b). split.
    + apply (Hpts lv bs ps Hn Eps). exists b. split; [exact Hin | reflexivity].
    + rewrite mk_covers. exact Hcell.
  - intros pt Hpt Hc. apply (Hpts lv bs ps Hn Eps) in Hpt. destruct Hpt as (b' & Hb' & ->).
    rewrite mk_covers in Hc. apply Huniq; assumption.
  - intros j ps' pt Hj Hnj Hpt.
    assert (Hjl : (j < length boxes)%nat).
    { rewrite <- Hlen. apply nth_error_Some. rewrite Hnj. discriminate. }
    destruct (nth_error boxes j) as [bs'|] eqn:Ebs; [|apply nth_error_None in Ebs; lia].
    apply (Hpts j bs' ps' Ebs Hnj) in Hpt. destruct Hpt as (b' & Hb' & ->).
    rewrite mk_covers. apply (Hfiner j bs' b' Hj Ebs Hb').
Qed.

Lemma finest_true (P : nat -> bool) : forall L,
  (exists j, (j <= L)%nat /\ P j = true) ->
  exists j, (j <= L)%nat /\ P j = true /\ forall j', (j < j' <= L)%nat -> P j' = false.
Proof.
  induction L as [|L IH]; intros [j [Hj Hp]].
  - exists 0%nat. replace j with 0%nat in Hp by lia. repeat split; [lia | exact Hp | intros; lia].
  - destruct (P (S L)) eqn:E.
    + exists (S L). repeat split; [lia | exact E | intros; lia].
    + assert (HjL : (j <= L)%nat).
      { destruct (Nat.eq_dec j (S L)) as [->|Hne]; [congruence | lia]. }
      destruct (IH (ex_intro _ j (conj HjL Hp))) as (j0 & Hj0 & Hp0 & Hlater).
      exists j0. repeat split; [lia | exact Hp0 |].
      intros j' Hj'. destruct (Nat.eq_dec j' (S L)) as [->|Hne]; [exact E | apply Hlater; lia].
Qed.

Definition lv_covers (boxes : list (list B)) (p : list Z) (j : nat) : bool :=
  match nth_error boxes j with
  | Some bs => existsb (fun b => cell_in (lo b) (hi b) (coarsen (fac j) p)) bs
  | None => false
  end.

(* two builds of the patch lists from the same boxes paint the same canvas
   wherever overlapping boxes of one level agree (in particular when the
   boxes of a level are disjoint): independence of task order, of the
   grouping of boxes into tasks, and of the completion order *)
Theorem amr_order_free : forall boxes pts pts' c p,
  patches_of boxes pts -> patches_of boxes pts' ->
  (forall j bs b b', nth_error boxes j = Some bs -> In b bs -> In b' bs ->
     cell_in (lo b) (hi b) (coarsen (fac j) p) = true ->
     cell_in (lo b') (hi b') (coarsen (fac j) p) = true -> p_val (mk j b') p = p_val (mk j b) p) ->
  paint_levels pts c p = paint_levels pts' c p.
Proof.
  intros boxes pts pts' c p Hp Hp' Hagree.
  destruct (existsb (lv_covers boxes p) (seq 0 (length boxes))) eqn:E.
  - apply existsb_exists in E. destruct E as (j0 & Hj0 & Hc0). apply in_seq in Hj0.
    destruct (finest_true (lv_covers boxes p) (length boxes - 1)) as (lv & Hle & Hcov & Hlater).
    { exists j0. split; [lia | exact Hc0]. }
    unfold lv_covers in Hcov. destruct (nth_error boxes lv) as [bs|] eqn:En; [|discriminate].
    apply existsb_exists in Hcov. destruct Hcov as (b & Hb & Hcell).
    assert (Hfiner : forall j bs' b', (lv < j)%nat -> nth_error boxes j = Some bs' -> In b' bs' ->
                       cell_in (lo b') (hi b') (coarsen (fac j) p) = false).
    { intros j bs' b' Hj Hnj Hb'.
      assert (Hjl : (j < length boxes)%nat) by (apply nth_error_Some; rewrite Hnj; discriminate).
      specialize (Hlater j ltac:(lia)). unfold lv_covers in Hlater. rewrite Hnj in Hlater.
      destruct (cell_in (lo b') (hi b') (coarsen (fac j) p)) eqn:Ec; [|reflexivity].
      assert (existsb (fun b0 => cell_in (lo b0) (hi b0) (coarsen (fac j) p)) bs' = true); [|congruence].
      apply existsb_exists. exists b'. split; assumption. }
    rewrite (amr_covering boxes pts c p lv bs b Hp En Hb Hcell); [| |exact Hfiner].
    + symmetry. apply (amr_covering boxes pts' c p lv bs b Hp' En Hb Hcell); [|exact Hfiner].
      intros b' Hb' Hc'. apply (Hagree lv bs b b' En Hb Hb' Hcell Hc').
    + intros b' Hb' Hc'. apply (Hagree lv bs b b' En Hb Hb' Hcell Hc').
  - assert (Hnone : forall pts0, patches_of boxes pts0 ->
               forall ps pt, In ps pts0 -> In pt ps -> covers pt p = false).
    { intros pts0 [Hlen Hpts] ps pt Hps Hpt.
      apply In_nth_error in Hps. destruct Hps as [j Hj].
      assert (Hjl : (j < length boxes)%nat) by (rewrite <- Hlen; apply nth_error_Some; rewrite Hj; discriminate).
      destruct (nth_error boxes j) as [bs|] eqn:Ebs; [|apply nth_error_None in Ebs; lia].
      apply (Hpts j bs ps Ebs Hj) in Hpt. destruct Hpt as (b & Hb & ->).
      rewrite mk_covers.
      destruct (cell_in (lo b) (hi b) (coarsen (fac j) p)) eqn:Ec; [|reflexivity].
      assert (existsb (lv_covers boxes p) (seq 0 (length boxes)) = true); [|congruence].
      apply existsb_exists. exists j. split; [apply in_seq; lia|].
      unfold lv_covers. rewrite Ebs. apply existsb_exists. exists b. split; assumption. }
    rewrite (paint_levels_none pts c p (Hnone pts Hp)).
    rewrite (paint_levels_none pts' c p (Hnone pts' Hp')). reflexivity.
Qed.
End Amr.
