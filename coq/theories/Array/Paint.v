(* Level-ordered painting of box data into a uniform covering grid, as done by
     mandoline.plate        (2D, all_data[i][xa:xo, ya:yo] = out['data'][i])
     whip.main              (3D, grid[x0:x1, y0:y1, z0:z1] = expand_array3d(...))
     mandoline.reducemp_data_ortho (the two bracketing canvases)
   A canvas is a function from pixels of the finest selected level to an
   optional value ([None] = never written: numpy's np.empty memory).
   Generic in the dimension (a pixel is a list of integers) and in the value
   type.  Standard library only, no axioms. *)
From AK Require Import Base.Prelude.

Section Paint.
Context {V : Type}.

Definition pixel := list Z.
Definition canvas := pixel -> option V.
Definition blank : canvas := fun _ => None.

(* a rectangular write: target slice [start, stop) per axis and the value it
   stores at each absolute pixel of the slice *)
Record patch := { p_start : list Z; p_stop : list Z; p_val : pixel -> V }.

Fixpoint in_slice (start stop p : list Z) : bool :=
  match start, stop, p with
  | [], [], [] => true
  | a :: start', o :: stop', x :: p' => (a <=? x) && (x <? o) && in_slice start' stop' p'
  | _, _, _ => false
  end.

Definition covers (pt : patch) (p : pixel) : bool := in_slice (p_start pt) (p_stop pt) p.

Definition paint (c : canvas) (pt : patch) : canvas :=
  fun p => if covers pt p then Some (p_val pt p) else c p.

Definition paint_all (pts : list patch) (c : canvas) : canvas := fold_left paint pts c.

Lemma paint_all_app a b c : paint_all (a ++ b) c = paint_all b (paint_all a c).
Proof. unfold paint_all. apply fold_left_app. Qed.

(* no patch over the pixel: the canvas keeps what it had *)
Lemma paint_all_none : forall pts c p,
  (forall pt, In pt pts -> covers pt p = false) -> paint_all pts c p = c p.
Proof.
  induction pts as [|x pts IH]; intros c p H; [reflexivity|].
  change (paint_all (x :: pts) c) with (paint_all pts (paint c x)).
  rewrite IH by (intros pt Hpt; apply H; right; exact Hpt).
  unfold paint. rewrite (H x) by (left; reflexivity). reflexivity.
Qed.

(* some patch over the pixel, and all patches over it agree on its value:
   that value, whatever the order of the patches *)
Lemma paint_all_val : forall pts c p v,
  (exists pt, In pt pts /\ covers pt p = true) ->
  (forall pt, In pt pts -> covers pt p = true -> p_val pt p = v) ->
  paint_all pts c p = Some v.
Proof.
  induction pts as [|x pts IH]; intros c p v [pt [Hin Hc]] Hall; [contradiction|].
  change (paint_all (x :: pts) c) with (paint_all pts (paint c x)).
  destruct (existsb (fun pt' => covers pt' p) pts) eqn:E.
  - apply existsb_exists in E. destruct E as [pt' [Hin' Hc']].
    apply IH; [exists pt'; split; assumption|].
    intros q Hq Hcq. apply Hall; [right; exact Hq | exact Hcq].
  - rewrite paint_all_none.
    + destruct Hin as [<-|Hin].
      * unfold paint. rewrite Hc. f_equal. apply Hall; [left; reflexivity | exact Hc].
      * exfalso. assert (Hf : covers pt p = false); [|congruence].
        destruct (covers pt p) eqn:Ec; [|reflexivity].
        assert (existsb (fun pt' => covers pt' p) pts = true); [|congruence].
        apply existsb_exists. exists pt. split; assumption.
    + intros q Hq. destruct (covers q p) eqn:Ec; [|reflexivity].
      assert (existsb (fun pt' => covers pt' p) pts = true); [|congruence].
      apply existsb_exists. exists q. split; assumption.
Qed.

(* ---- levels painted in order: later levels overwrite earlier ones ---- *)

Fixpoint paint_levels (lvls : list (list patch)) (c : canvas) : canvas :=
  match lvls with
  | [] => c
  | pts :: rest => paint_levels rest (paint_all pts c)
  end.

Lemma paint_levels_none : forall lvls c p,
  (forall pts pt, In pts lvls -> In pt pts -> covers pt p = false) ->
  paint_levels lvls c p = c p.
Proof.
  induction lvls as [|pts rest IH]; intros c p H; [reflexivity|].
  cbn [paint_levels]. rewrite IH.
  - apply paint_all_none. intros pt Hpt. apply (H pts); [left; reflexivity | exact Hpt].
  - intros pts' pt Hin Hpt. apply (H pts'); [right; exact Hin | exact Hpt].
Qed.

(* The pixel is covered at level [i] (where all covering patches agree on its
   value [v]) and by no patch of a later level: the final canvas holds [v]. *)
Theorem paint_levels_finest : forall lvls i c p v pts,
  nth_error lvls i = Some pts ->
  (exists pt, In pt pts /\ covers pt p = true) ->
  (forall pt, In pt pts -> covers pt p = true -> p_val pt p = v) ->
  (forall j pts' pt, (i < j)%nat -> nth_error lvls j = Some pts' -> In pt pts' -> covers pt p = false) ->
  paint_levels lvls c p = Some v.
Proof.
  induction lvls as [|l0 rest IH]; intros i c p v pts Hnth Hex Hall Hlater.
  - destruct i; discriminate.
  - destruct i as [|i]; cbn [nth_error] in Hnth.
    + injection Hnth as ->. cbn [paint_levels].
      rewrite paint_levels_none.
      * apply paint_all_val; assumption.
      * intros pts' pt Hin Hpt. apply In_nth_error in Hin. destruct Hin as [j Hj].
        apply (Hlater (S j) pts' pt); [lia | exact Hj | exact Hpt].
    + cbn [paint_levels]. apply (IH i _ p v pts Hnth Hex Hall).
      intros j pts' pt Hlt Hj Hpt. apply (Hlater (S j) pts' pt); [lia | exact Hj | exact Hpt].
Qed.

(* Within a level the order of the patches is irrelevant when overlapping
   patches agree (in a well-formed plotfile the boxes of a level are disjoint,
   so no two patches overlap at all). *)
Theorem paint_all_order_free : forall pts pts' c p,
  (forall pt, In pt pts <-> In pt pts') ->
  (forall a b, In a pts -> In b pts -> covers a p = true -> covers b p = true -> p_val a p = p_val b p) ->
  paint_all pts c p = paint_all pts' c p.
Proof.
  intros pts pts' c p Hsame Hagree.
  destruct (existsb (fun pt => covers pt p) pts) eqn:E.
  - apply existsb_exists in E. destruct E as [pt [Hin Hc]].
    rewrite (paint_all_val pts c p (p_val pt p)).
    + symmetry. apply paint_all_val.
      * exists pt. split; [apply Hsame; exact Hin | exact Hc].
      * intros q Hq Hcq. apply Hagree; try assumption. apply Hsame. exact Hq.
    + exists pt. split; assumption.
    + intros q Hq Hcq. apply Hagree; assumption.
  - assert (Hn : forall pt, In pt pts -> covers pt p = false).
    { intros q Hq. destruct (covers q p) eqn:Ec; [|reflexivity].
      assert (existsb (fun pt => covers pt p) pts = true); [|congruence].
      apply existsb_exists. exists q. split; assumption. }
    rewrite paint_all_none by exact Hn.
    rewrite paint_all_none; [reflexivity|].
    intros q Hq. apply Hn. apply Hsame. exact Hq.
Qed.

End Paint.

(* ------------------------------------------------------------------ *)
(** * AMR geometry: a level-[lv] box seen from the grid of level [L] *)

(* index range of a box: inclusive cell indices *)
Definition cell_in (lo hi q : list Z) : bool := in_slice lo (map (fun h => h + 1) hi) q.

(* the slice the tools compute: start = lo * factor, stop = (hi + 1) * factor *)
Definition slice_start (f : Z) (lo : list Z) : list Z := map (fun l => l * f) lo.
Definition slice_stop (f : Z) (hi : list Z) : list Z := map (fun h => (h + 1) * f) hi.

(* the coarse cell under a fine pixel *)
Definition coarsen (f : Z) (p : list Z) : list Z := map (fun x => x / f) p.

Lemma in_slice_coarsen (f : Z) : 0 < f -> forall lo hi p,
  in_slice (slice_start f lo) (slice_stop f hi) p = cell_in lo hi (coarsen f p).
Proof.
  intros Hf. unfold cell_in, slice_start, slice_stop, coarsen.
  induction lo as [|l lo IH]; intros [|h hi] [|x p]; cbn [map in_slice]; try reflexivity.
  rewrite IH. f_equal.
  assert (H1 : (l * f <=? x) = (l <=? x / f)).
  { apply eq_true_iff_eq. rewrite !Z.leb_le. split; intros H.
    - apply Z.div_le_lower_bound; lia.
    - pose proof (Z.mul_div_le x f Hf). nia. }
  assert (H2 : (x <? (h + 1) * f) = (x / f <? h + 1)).
  { apply eq_true_iff_eq. rewrite !Z.ltb_lt. split; intros H.
    - apply Z.div_lt_upper_bound; lia.
    - pose proof (Z.mod_pos_bound x f Hf). pose proof (Z.div_mod x f). nia. }
  rewrite H1, H2. reflexivity.
Qed.

(* position inside the expanded box data and the cell it replicates *)
Lemma rel_div (f l x : Z) : 0 < f -> (x - l * f) / f = x / f - l.
Proof.
  intros Hf. replace (x - l * f) with (x + (- l) * f) by ring.
  rewrite Z.div_add by lia. ring.
Qed.
