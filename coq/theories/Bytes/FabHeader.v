(* The FAB header line of AMReX binary files.
     print_hdr  = amr_kitchen.utils.header_from_indices
     parse_hdr  = the common body of shape_from_header,
                  indices_from_header, indexes_and_shape_from_header and
                  shapes_from_header_vardims:
                    start, stop, _, nfields = h.split()[-4:]
                    nfields = int(nfields)
                    start = ints(start.split('(')[-1].replace(')','').split(','))
                    stop  = ints(stop.replace('(','').replace(')','').split(','))
   The caller decodes the line as ASCII first. *)
From AK Require Import Base.Prelude Bytes.Text.

Definition hdr_const : bytes :=
  bs "FAB ((8, (64 11 52 0 1 12 0 1023)),(8, (8 7 6 5 4 3 2 1)))".

Definition join_ints (zs : list Z) : bytes :=
  join_with (bs ",") (map str_of_Z zs).

Definition print_hdr (lo hi : list Z) (nc : Z) : bytes :=
  hdr_const ++ bs "((" ++ join_ints lo ++ bs ") (" ++ join_ints hi ++ bs ") ("
            ++ join_ints (map (fun _ => 0) hi) ++ bs ")) " ++ str_of_Z nc ++ [nl].

Record hdr := { h_lo : list Z; h_hi : list Z; h_nc : Z }.

Definition parse_ints (s : bytes) : option (list Z) :=
  omap_all py_int (split_on ","%char s).

Definition parse_hdr (line : bytes) : option hdr :=
  guard is_ascii line;
  match last_n 4 (split_ws line) with
  | [start; stop; _; nf] =>
      do nc <- py_int nf;
      do lo <- parse_ints (remove_char ")"%char (last (split_on "("%char start) []));
      do hi <- parse_ints (remove_char ")"%char (remove_char "("%char stop));
      Some {| h_lo := lo; h_hi := hi; h_nc := nc |}
  | _ => None
  end.

(* numpy: shape = stop - start + 1 (arrays must have equal length, or one of
   them length 1 which broadcasts) *)
Fixpoint zip_with {A B C} (f : A -> B -> C) (a : list A) (b : list B) : list C :=
  match a, b with
  | x :: a', y :: b' => f x y :: zip_with f a' b'
  | _, _ => []
  end.

Definition np_binop (f : Z -> Z -> Z) (a b : list Z) : option (list Z) :=
  if (length a =? length b)%nat then Some (zip_with f a b)
  else match a, b with
       | [x], _ => Some (map (fun y => f x y) b)
       | _, [y] => Some (map (fun x => f x y) a)
       | _, _ => None
       end.

Definition hdr_shape (h : hdr) : option (list Z) :=
  np_binop (fun hi lo => hi - lo + 1) (h_hi h) (h_lo h).

Definition box_shape (lo hi : list Z) : list Z :=
  zip_with (fun h l => h - l + 1) hi lo.
