(* Extrema of float64 words: the recorded minimum / maximum of a component is
   one of its values and bounds all of them. *)
From AK Require Import Base.Prelude Bytes.Text Bytes.Word.

(* ------------------------------------------------------------------ *)
(** * extrema *)

Lemma word_leb_refl a : word_leb a a = true.
Proof. unfold word_leb. apply Z.leb_refl. Qed.
Lemma word_leb_trans a b c : word_leb a b = true -> word_leb b c = true -> word_leb a c = true.
Proof. unfold word_leb. rewrite !Z.leb_le. lia. Qed.
Lemma word_leb_total a b : word_leb a b = true \/ word_leb b a = true.
Proof. unfold word_leb. rewrite !Z.leb_le. lia. Qed.

Lemma min_word_spec : forall l d,
  In (min_word l d) (d :: l) /\ forall x, In x (d :: l) -> word_leb (min_word l d) x = true.
Proof.
  unfold min_word. induction l as [|w l IH]; intros d; cbn [fold_left].
  - split; [left; reflexivity|]. intros x [<-|[]]. apply word_leb_refl.
  - destruct (word_leb d w) eqn:E.
    + destruct (IH d) as [Hin Hle]. split.
      * destruct Hin as [H|H]; [left; exact H | right; right; exact H].
      * intros x [<-|[<-|Hx]].
        -- apply Hle. left. reflexivity.
        -- apply (word_leb_trans _ d); [apply Hle; left; reflexivity | exact E].
        -- apply Hle. right. exact Hx.
    + destruct (IH w) as [Hin Hle]. split.
      * destruct Hin as [H|H]; [right; left; exact H | right; right; exact H].
      * intros x [<-|[<-|Hx]].
        -- apply (word_leb_trans _ w); [apply Hle; left; reflexivity|].
           destruct (word_leb_total w d) as [H|H]; [exact H | congruence].
        -- apply Hle. left. reflexivity.
        -- apply Hle. right. exact Hx.
Qed.

Lemma max_word_spec : forall l d,
  In (max_word l d) (d :: l) /\ forall x, In x (d :: l) -> word_leb x (max_word l d) = true.
Proof.
  unfold max_word. induction l as [|w l IH]; intros d; cbn [fold_left].
  - split; [left; reflexivity|]. intros x [<-|[]]. apply word_leb_refl.
  - destruct (word_leb d w) eqn:E.
    + destruct (IH w) as [Hin Hle]. split.
      * destruct Hin as [H|H]; [right; left; exact H | right; right; exact H].
      * intros x [<-|[<-|Hx]].
        -- apply (word_leb_trans _ w); [exact E | apply Hle; left; reflexivity].
        -- apply Hle. left. reflexivity.
        -- apply Hle. right. exact Hx.
    + destruct (IH d) as [Hin Hle]. split.
      * destruct Hin as [H|H]; [left; exact H | right; right; exact H].
      * intros x [<-|[<-|Hx]].
        -- apply Hle. left. reflexivity.
        -- apply (word_leb_trans _ d); [|apply Hle; left; reflexivity].
           destruct (word_leb_total w d) as [H|H]; [exact H | congruence].
        -- apply Hle. right. exact Hx.
Qed.

(* the minimum / maximum recorded for a non-empty component is one of its
   values and bounds all of them *)
Theorem comp_min_spec : forall c, words_of c <> [] ->
  In (comp_min c) (words_of c) /\ forall x, In x (words_of c) -> word_leb (comp_min c) x = true.
Proof.
  intros c H. unfold comp_min. destruct (words_of c) as [|w l]; [congruence|]. apply min_word_spec.
Qed.

Theorem comp_max_spec : forall c, words_of c <> [] ->
  In (comp_max c) (words_of c) /\ forall x, In x (words_of c) -> word_leb x (comp_max c) = true.
Proof.
  intros c H. unfold comp_max. destruct (words_of c) as [|w l]; [congruence|]. apply max_word_spec.
Qed.


(* np.nanmin / np.nanmax: an extremum of the non-NaN values *)
Theorem nan_min_spec : forall c w, nan_min c = Some w ->
  In w (words_of c) /\ is_nan w = false /\
  forall x, In x (words_of c) -> is_nan x = false -> word_leb w x = true.
Proof.
  intros c w H. unfold nan_min in H.
  destruct (filter (fun w0 => negb (is_nan w0)) (words_of c)) as [|w0 l] eqn:E; [discriminate|].
  injection H as <-. destruct (min_word_spec l w0) as [Hin Hle].
  assert (Hf : forall x, In x (w0 :: l) <-> In x (words_of c) /\ is_nan x = false).
  { intros x. rewrite <- E, filter_In. destruct (is_nan x); cbn [negb]; intuition congruence. }
  split; [apply Hf; exact Hin|]. split; [apply Hf; exact Hin|].
  intros x Hx Hn. apply Hle. apply Hf. split; assumption.
Qed.

Theorem nan_max_spec : forall c w, nan_max c = Some w ->
  In w (words_of c) /\ is_nan w = false /\
  forall x, In x (words_of c) -> is_nan x = false -> word_leb x w = true.
Proof.
  intros c w H. unfold nan_max in H.
  destruct (filter (fun w0 => negb (is_nan w0)) (words_of c)) as [|w0 l] eqn:E; [discriminate|].
  injection H as <-. destruct (max_word_spec l w0) as [Hin Hle].
  assert (Hf : forall x, In x (w0 :: l) <-> In x (words_of c) /\ is_nan x = false).
  { intros x. rewrite <- E, filter_In. destruct (is_nan x); cbn [negb]; intuition congruence. }
  split; [apply Hf; exact Hin|]. split; [apply Hf; exact Hin|].
  intros x Hx Hn. apply Hle. apply Hf. split; assumption.
Qed.

(* is_nan on bit patterns: spot checks (quiet / signalling NaN, infinities, largest finite) *)
Example is_nan_examples :
  let w (l : list Z) := map (fun x => ascii_of_nat (Z.to_nat x)) l in
  (is_nan (w [0;0;0;0;0;0;248;127]), is_nan (w [1;0;0;0;0;0;240;255]), is_nan (w [0;0;0;0;0;0;240;127]),
   is_nan (w [0;0;0;0;0;0;240;255]), is_nan (w [255;255;255;255;255;255;239;127]), is_nan (w [0;0;0;0;0;0;0;0]))
  = (true, true, false, false, false, false).
Proof. vm_compute. reflexivity. Qed.
