(* Round-trip and framing proofs for the FAB header printer / parser of
   FabHeader.v:
     py_int (str_of_Z z) = Some z
     parse_hdr (print_hdr lo hi nc) = Some {lo; hi; nc}
     take_line (print_hdr lo hi nc ++ r) = print_hdr lo hi nc
   Standard library only, no axioms. *)
From AK Require Import Base.Prelude Bytes.Text Bytes.FabHeader.
From Coq Require Import DecimalString.
From Coq Require DecimalZ Decimal.

Local Notation los := list_ascii_of_string.

(* ------------------------------------------------------------------ *)
(** * Generic list / boolean helpers *)

Lemma forallb_imp {A} (p q : A -> bool) (l : list A) :
  (forall c, p c = true -> q c = true) ->
  forallb p l = true -> forallb q l = true.
Proof.
  intros Hpq. induction l as [|a l IH]; cbn [forallb]; [reflexivity|].
  intros H. apply andb_true_iff in H. destruct H as [Ha Hl].
  rewrite (Hpq a Ha), (IH Hl). reflexivity.
Qed.

Lemma filter_id {A} (p : A -> bool) (l : list A) :
  forallb p l = true -> filter p l = l.
Proof.
  induction l as [|a l IH]; cbn [forallb filter]; [reflexivity|].
  intros H. apply andb_true_iff in H. destruct H as [Ha Hl].
  rewrite Ha, (IH Hl). reflexivity.
Qed.

Lemma last_n_app {A} (a b : list A) : last_n (length b) (a ++ b) = b.
Proof.
  unfold last_n. rewrite app_length.
  replace (length a + length b - length b)%nat with (length a) by lia.
  rewrite skipn_app, skipn_all, Nat.sub_diag. reflexivity.
Qed.

(* ------------------------------------------------------------------ *)
(** * Character classes *)

(* characters produced by str_of_Z *)
Definition numch (c : ascii) : bool := is_digit c || Ascii.eqb c "-"%char.
(* characters produced by join_ints *)
Definition jch (c : ascii) : bool := numch c || Ascii.eqb c ","%char.
(* characters allowed in the header line before the final newline *)
Definition hch (c : ascii) : bool := negb (Ascii.eqb c nl) && is_ascii_byte c.

Definition nochar (x : ascii) (t : bytes) : bool :=
  forallb (fun c => negb (Ascii.eqb c x)) t.
Definition nows (t : bytes) : bool :=
  forallb (fun c => negb (is_space c)) t.

Lemma numch_props c : numch c = true ->
  is_space c = false /\ is_ascii_byte c = true /\ Ascii.eqb c nl = false /\
  Ascii.eqb c "("%char = false /\ Ascii.eqb c ")"%char = false /\
  Ascii.eqb c ","%char = false.
Proof.
  destruct c as [[] [] [] [] [] [] [] []]; vm_compute; intros H;
    try discriminate H; repeat split.
Qed.

Lemma jch_props c : jch c = true ->
  is_space c = false /\ is_ascii_byte c = true /\ Ascii.eqb c nl = false /\
  Ascii.eqb c "("%char = false /\ Ascii.eqb c ")"%char = false.
Proof.
  destruct c as [[] [] [] [] [] [] [] []]; vm_compute; intros H;
    try discriminate H; repeat split.
Qed.

Lemma digit_not_sign c : is_digit c = true ->
  Ascii.eqb c "-"%char = false /\ Ascii.eqb c "+"%char = false.
Proof.
  destruct c as [[] [] [] [] [] [] [] []]; vm_compute; intros H;
    try discriminate H; repeat split.
Qed.

Lemma numch_jch c : numch c = true -> jch c = true.
Proof. unfold jch. intros ->. reflexivity. Qed.

Lemma jch_hch c : jch c = true -> hch c = true.
Proof.
  intros H. destruct (jch_props c H) as (_ & Ha & Hn & _).
  unfold hch. rewrite Ha, Hn. reflexivity.
Qed.

(* ------------------------------------------------------------------ *)
(** * Decimal printing: characters *)

Lemma sou_numch d : forallb numch (los (NilEmpty.string_of_uint d)) = true.
Proof.
  induction d; cbn [NilEmpty.string_of_uint list_ascii_of_string forallb];
    [reflexivity | rewrite IHd; reflexivity ..].
Qed.

Lemma nzsou_numch d : forallb numch (los (NilZero.string_of_uint d)) = true.
Proof.
  destruct d; try reflexivity;
    match goal with
    | |- context [NilZero.string_of_uint ?x] => exact (sou_numch x)
    end.
Qed.

Lemma nz_nonempty d :
  exists c s, los (NilZero.string_of_uint d) = c :: s /\ is_digit c = true.
Proof.
  destruct d;
    cbn [NilZero.string_of_uint NilEmpty.string_of_uint list_ascii_of_string];
    eexists; eexists; split; reflexivity.
Qed.

Lemma str_numch z : forallb numch (str_of_Z z) = true.
Proof.
  unfold str_of_Z. destruct (Z.to_int z) as [d|d];
    cbn [NilZero.string_of_int list_ascii_of_string forallb].
  - apply nzsou_numch.
  - rewrite nzsou_numch. reflexivity.
Qed.

Lemma str_nonempty z : str_of_Z z <> [].
Proof.
  unfold str_of_Z. destruct (Z.to_int z) as [d|d];
    cbn [NilZero.string_of_int list_ascii_of_string].
  - destruct (nz_nonempty d) as (c & s & E & _). rewrite E. discriminate.
  - discriminate.
Qed.

Lemma str_jch z : forallb jch (str_of_Z z) = true.
Proof. apply (forallb_imp numch); [apply numch_jch | apply str_numch]. Qed.

Lemma str_nocomma z : nochar ","%char (str_of_Z z) = true.
Proof.
  apply (forallb_imp numch); [|apply str_numch].
  intros c H. destruct (numch_props c H) as (_ & _ & _ & _ & _ & ->).
  reflexivity.
Qed.

Lemma str_nows z : nows (str_of_Z z) = true.
Proof.
  apply (forallb_imp numch); [|apply str_numch].
  intros c H. destruct (numch_props c H) as (-> & _). reflexivity.
Qed.

(* ------------------------------------------------------------------ *)
(** * Decimal printing: value (py_int after str) *)

Fixpoint hval (d : Decimal.uint) (acc : Z) : Z :=
  match d with
  | Decimal.Nil => acc
  | Decimal.D0 l => hval l (10 * acc + 0)
  | Decimal.D1 l => hval l (10 * acc + 1)
  | Decimal.D2 l => hval l (10 * acc + 2)
  | Decimal.D3 l => hval l (10 * acc + 3)
  | Decimal.D4 l => hval l (10 * acc + 4)
  | Decimal.D5 l => hval l (10 * acc + 5)
  | Decimal.D6 l => hval l (10 * acc + 6)
  | Decimal.D7 l => hval l (10 * acc + 7)
  | Decimal.D8 l => hval l (10 * acc + 8)
  | Decimal.D9 l => hval l (10 * acc + 9)
  end.

Ltac dstep :=
  match goal with
  | |- context [is_digit ?c] =>
      let b := eval vm_compute in (is_digit c) in
      change (is_digit c) with b
  end;
  cbv iota;
  match goal with
  | |- context [code ?c - 48] =>
      let v := eval vm_compute in (code c - 48) in
      change (code c - 48) with v
  end.

Lemma digits_true d : forall acc,
  digits_us true (los (NilEmpty.string_of_uint d)) acc = Some (hval d acc).
Proof.
  induction d; intros acc;
    cbn [NilEmpty.string_of_uint list_ascii_of_string digits_us hval];
    [reflexivity | dstep; apply IHd ..].
Qed.

Lemma digits_false d : d <> Decimal.Nil -> forall acc,
  digits_us false (los (NilEmpty.string_of_uint d)) acc = Some (hval d acc).
Proof.
  intros Hd acc. destruct d; [congruence | ..];
    cbn [NilEmpty.string_of_uint list_ascii_of_string digits_us hval];
    dstep; apply digits_true.
Qed.

Lemma hval_pos d : forall p, hval d (Z.pos p) = Z.pos (Pos.of_uint_acc d p).
Proof.
  induction d; intros p; cbn [hval Pos.of_uint_acc];
    [reflexivity | rewrite <- IHd; f_equal; lia ..].
Qed.

Lemma hval_zero d : hval d 0 = Z.of_N (Pos.of_uint d).
Proof.
  induction d; cbn [hval Pos.of_uint]; [reflexivity | ..].
  - change (10 * 0 + 0) with 0. exact IHd.
  - change (10 * 0 + 1) with 1. rewrite hval_pos. reflexivity.
  - change (10 * 0 + 2) with 2. rewrite hval_pos. reflexivity.
  - change (10 * 0 + 3) with 3. rewrite hval_pos. reflexivity.
  - change (10 * 0 + 4) with 4. rewrite hval_pos. reflexivity.
  - change (10 * 0 + 5) with 5. rewrite hval_pos. reflexivity.
  - change (10 * 0 + 6) with 6. rewrite hval_pos. reflexivity.
  - change (10 * 0 + 7) with 7. rewrite hval_pos. reflexivity.
  - change (10 * 0 + 8) with 8. rewrite hval_pos. reflexivity.
  - change (10 * 0 + 9) with 9. rewrite hval_pos. reflexivity.
Qed.

Lemma digits_uint d :
  digits_us false (los (NilZero.string_of_uint d)) 0 = Some (Z.of_uint d).
Proof.
  destruct d eqn:E; [reflexivity | ..];
    match goal with
    | |- context [NilZero.string_of_uint ?x] =>
        change (NilZero.string_of_uint x) with (NilEmpty.string_of_uint x);
        rewrite (digits_false x) by discriminate;
        rewrite hval_zero; reflexivity
    end.
Qed.

Lemma py_int_uint d :
  py_int (los (NilZero.string_of_uint d)) = Some (Z.of_uint d).
Proof.
  destruct (nz_nonempty d) as (c & s & E & Hc).
  destruct (digit_not_sign c Hc) as [Hm Hp].
  rewrite <- (digits_uint d). rewrite E. unfold py_int.
  rewrite Hm, Hp. reflexivity.
Qed.

Lemma py_int_int i : py_int (los (NilZero.string_of_int i)) = Some (Z.of_int i).
Proof.
  destruct i as [d|d]; cbn [NilZero.string_of_int list_ascii_of_string].
  - apply py_int_uint.
  - unfold py_int. rewrite Ascii.eqb_refl.
    pose proof (digits_uint d) as Hd.
    destruct (nz_nonempty d) as (c & s & E & _). rewrite E in *.
    rewrite Hd. reflexivity.
Qed.

Theorem py_int_str_of_Z : forall z : Z, py_int (str_of_Z z) = Some z.
Proof.
  intros z. unfold str_of_Z. rewrite py_int_int. f_equal.
  apply DecimalZ.of_to.
Qed.

(* ------------------------------------------------------------------ *)
(** * split_ws *)

Lemma split_ws_cons c s :
  split_ws (c :: s) =
  if is_space c then split_ws s
  else match s with
       | [] => [[c]]
       | c' :: _ =>
           if is_space c' then [c] :: split_ws s
           else match split_ws s with
                | t :: r' => (c :: t) :: r'
                | [] => [[c]]
                end
       end.
Proof. reflexivity. Qed.

Lemma split_ws_nonsp_nonempty c s :
  is_space c = false -> split_ws (c :: s) <> [].
Proof.
  intros H. rewrite split_ws_cons, H.
  destruct s as [|c' s']; [discriminate|].
  destruct (is_space c'); [discriminate|].
  destruct (split_ws (c' :: s')); discriminate.
Qed.

Lemma split_ws_app_sp a c b :
  is_space c = true -> split_ws (a ++ c :: b) = split_ws a ++ split_ws b.
Proof.
  intros Hc. induction a as [|x a IH].
  - cbn [app]. rewrite split_ws_cons, Hc. reflexivity.
  - cbn [app]. rewrite (split_ws_cons x (a ++ c :: b)), (split_ws_cons x a).
    destruct (is_space x) eqn:Hx; [exact IH|].
    destruct a as [|y a].
    + cbn [app] in *. rewrite Hc, IH. reflexivity.
    + cbn [app] in *. rewrite IH.
      destruct (is_space y) eqn:Hy; [reflexivity|].
      pose proof (split_ws_nonsp_nonempty y a Hy) as Hne.
      destruct (split_ws (y :: a)); [congruence | reflexivity].
Qed.

Lemma split_ws_tok_sp t c r :
  t <> [] -> nows t = true -> is_space c = true ->
  split_ws (t ++ c :: r) = t :: split_ws r.
Proof.
  intros Hne Ht Hc. induction t as [|a t IH]; [congruence|].
  unfold nows in *. cbn [forallb] in Ht.
  apply andb_true_iff in Ht. destruct Ht as [Ha Ht].
  apply negb_true_iff in Ha.
  destruct t as [|b t].
  - cbn [app]. rewrite !split_ws_cons, Ha, Hc. reflexivity.
  - specialize (IH ltac:(discriminate) Ht).
    cbn [forallb] in Ht. apply andb_true_iff in Ht. destruct Ht as [Hb _].
    apply negb_true_iff in Hb.
    cbn [app] in *. rewrite split_ws_cons, Ha, Hb, IH. reflexivity.
Qed.

(* ------------------------------------------------------------------ *)
(** * split_on / remove_char / join_with *)

Lemma split_on_tok_sep sep t r :
  nochar sep t = true -> split_on sep (t ++ sep :: r) = t :: split_on sep r.
Proof.
  unfold nochar. induction t as [|a t IH]; intros H.
  - cbn [app split_on]. rewrite Ascii.eqb_refl. reflexivity.
  - cbn [forallb] in H. apply andb_true_iff in H. destruct H as [Ha Ht].
    apply negb_true_iff in Ha.
    cbn [app split_on]. rewrite Ha, (IH Ht). reflexivity.
Qed.

Lemma split_on_tok sep t : nochar sep t = true -> split_on sep t = [t].
Proof.
  unfold nochar. induction t as [|a t IH]; intros H; [reflexivity|].
  cbn [forallb] in H. apply andb_true_iff in H. destruct H as [Ha Ht].
  apply negb_true_iff in Ha.
  cbn [split_on]. rewrite Ha, (IH Ht). reflexivity.
Qed.

Lemma split_on_join sep l :
  l <> [] -> Forall (fun t => nochar sep t = true) l ->
  split_on sep (join_with [sep] l) = l.
Proof.
  induction l as [|x l IH]; [congruence|]. intros _ HF.
  inversion HF as [|x' l' Hx Hl]; subst.
  destruct l as [|y l].
  - cbn [join_with]. apply split_on_tok. assumption.
  - change (join_with [sep] (x :: y :: l))
      with (x ++ sep :: join_with [sep] (y :: l)).
    rewrite split_on_tok_sep by assumption.
    rewrite IH; [reflexivity | discriminate | assumption].
Qed.

Lemma remove_char_id x t : nochar x t = true -> remove_char x t = t.
Proof. apply filter_id. Qed.

Lemma remove_char_app x a b :
  remove_char x (a ++ b) = remove_char x a ++ remove_char x b.
Proof. apply filter_app. Qed.

(* ------------------------------------------------------------------ *)
(** * join_ints *)

Lemma join_ints_1 x : join_ints [x] = str_of_Z x.
Proof. reflexivity. Qed.

Lemma join_ints_cons2 x y l :
  join_ints (x :: y :: l) = str_of_Z x ++ ","%char :: join_ints (y :: l).
Proof. reflexivity. Qed.

Lemma join_jch l : forallb jch (join_ints l) = true.
Proof.
  induction l as [|x l IH]; [reflexivity|].
  destruct l as [|y l].
  - rewrite join_ints_1. apply str_jch.
  - rewrite join_ints_cons2, forallb_app. cbn [forallb].
    rewrite str_jch, IH. reflexivity.
Qed.

Lemma join_hch l : forallb hch (join_ints l) = true.
Proof. apply (forallb_imp jch); [apply jch_hch | apply join_jch]. Qed.

Lemma str_hch z : forallb hch (str_of_Z z) = true.
Proof. apply (forallb_imp jch); [apply jch_hch | apply str_jch]. Qed.

Lemma join_nows l : nows (join_ints l) = true.
Proof.
  apply (forallb_imp jch); [|apply join_jch].
  intros c H. destruct (jch_props c H) as (-> & _). reflexivity.
Qed.

Lemma join_nolp l : nochar "("%char (join_ints l) = true.
Proof.
  apply (forallb_imp jch); [|apply join_jch].
  intros c H. destruct (jch_props c H) as (_ & _ & _ & -> & _). reflexivity.
Qed.

Lemma join_norp l : nochar ")"%char (join_ints l) = true.
Proof.
  apply (forallb_imp jch); [|apply join_jch].
  intros c H. destruct (jch_props c H) as (_ & _ & _ & _ & ->). reflexivity.
Qed.

Lemma omap_py_int_str l : omap_all py_int (map str_of_Z l) = Some l.
Proof.
  induction l as [|z l IH]; [reflexivity|].
  cbn [map omap_all]. rewrite py_int_str_of_Z, IH. reflexivity.
Qed.

Lemma parse_ints_join l : l <> [] -> parse_ints (join_ints l) = Some l.
Proof.
  intros Hl. unfold parse_ints, join_ints.
  change (bs ",") with [","%char].
  rewrite split_on_join.
  - apply omap_py_int_str.
  - destruct l; [congruence | discriminate].
  - apply Forall_forall. intros t Hin. apply in_map_iff in Hin.
    destruct Hin as (z & <- & _). apply str_nocomma.
Qed.

(* ------------------------------------------------------------------ *)
(** * Shape of the header line *)

Definition hdr_body (lo hi : list Z) (nc : Z) : bytes :=
  hdr_const ++ bs "((" ++ join_ints lo ++ bs ") (" ++ join_ints hi ++ bs ") ("
            ++ join_ints (map (fun _ => 0) hi) ++ bs ")) " ++ str_of_Z nc.

Lemma print_hdr_body lo hi nc : print_hdr lo hi nc = hdr_body lo hi nc ++ [nl].
Proof.
  unfold print_hdr, hdr_body. repeat rewrite <- app_assoc. reflexivity.
Qed.

Lemma hdr_body_hch lo hi nc : forallb hch (hdr_body lo hi nc) = true.
Proof.
  unfold hdr_body. repeat rewrite forallb_app.
  rewrite !join_hch, str_hch. reflexivity.
Qed.

Theorem print_hdr_is_ascii : forall lo hi nc,
  is_ascii (print_hdr lo hi nc) = true.
Proof.
  intros lo hi nc. rewrite print_hdr_body. unfold is_ascii.
  rewrite forallb_app. apply andb_true_iff. split; [|reflexivity].
  apply (forallb_imp hch); [|apply hdr_body_hch].
  intros c H. unfold hch in H. apply andb_true_iff in H. apply H.
Qed.

Lemma take_line_app a r :
  nochar nl a = true -> take_line (a ++ nl :: r) = a ++ [nl].
Proof.
  unfold nochar. induction a as [|c a IH]; intros H.
  - cbn [app take_line]. rewrite Ascii.eqb_refl. reflexivity.
  - cbn [forallb] in H. apply andb_true_iff in H. destruct H as [Hc Ha].
    apply negb_true_iff in Hc.
    cbn [app take_line]. rewrite Hc, (IH Ha). reflexivity.
Qed.

Theorem take_line_print_hdr : forall (lo hi : list Z) (nc : Z) (r : bytes),
  take_line (print_hdr lo hi nc ++ r) = print_hdr lo hi nc.
Proof.
  intros lo hi nc r. rewrite print_hdr_body, <- app_assoc.
  change ([nl] ++ r) with (nl :: r).
  apply take_line_app.
  apply (forallb_imp hch); [|apply hdr_body_hch].
  intros c H. unfold hch in H. apply andb_true_iff in H. apply H.
Qed.

Theorem blen_print_hdr_pos : forall lo hi nc, 0 < blen (print_hdr lo hi nc).
Proof.
  intros lo hi nc. unfold print_hdr. rewrite blen_app.
  assert (Hc : blen hdr_const = 58) by reflexivity.
  match goal with |- 0 < _ + blen ?x => pose proof (blen_nonneg x) end.
  lia.
Qed.

(* the four last whitespace-separated tokens *)
Definition hdr_c0 : bytes :=
  bs "FAB ((8, (64 11 52 0 1 12 0 1023)),(8, (8 7 6 5 4 3 2".
Definition sp : ascii := " "%char.
Definition tok1 (lo : list Z) : bytes := bs "1)))((" ++ join_ints lo ++ bs ")".
Definition tok2 (hi : list Z) : bytes := bs "(" ++ join_ints hi ++ bs ")".
Definition tok3 (hi : list Z) : bytes :=
  bs "(" ++ join_ints (map (fun _ => 0) hi) ++ bs "))".

Lemma print_hdr_shape lo hi nc :
  print_hdr lo hi nc =
  hdr_c0 ++ sp :: tok1 lo ++ sp :: tok2 hi ++ sp :: tok3 hi ++ sp ::
    str_of_Z nc ++ [nl].
Proof.
  unfold print_hdr, hdr_const, hdr_c0, tok1, tok2, tok3, sp.
  cbv [bs list_ascii_of_string].
  repeat rewrite <- app_assoc. cbn [app]. reflexivity.
Qed.

Lemma tok1_nows lo : nows (tok1 lo) = true.
Proof.
  unfold tok1, nows. rewrite !forallb_app. fold (nows (join_ints lo)).
  rewrite join_nows. reflexivity.
Qed.

Lemma tok2_nows hi : nows (tok2 hi) = true.
Proof.
  unfold tok2, nows. rewrite !forallb_app. fold (nows (join_ints hi)).
  rewrite join_nows. reflexivity.
Qed.

Lemma tok3_nows hi : nows (tok3 hi) = true.
Proof.
  unfold tok3, nows. rewrite !forallb_app.
  fold (nows (join_ints (map (fun _ => 0) hi))).
  rewrite join_nows. reflexivity.
Qed.

Lemma split_ws_hdr lo hi nc :
  last_n 4 (split_ws (print_hdr lo hi nc)) =
  [tok1 lo; tok2 hi; tok3 hi; str_of_Z nc].
Proof.
  rewrite print_hdr_shape.
  rewrite split_ws_app_sp by reflexivity.
  rewrite (split_ws_tok_sp (tok1 lo));
    [| unfold tok1; discriminate | apply tok1_nows | reflexivity].
  rewrite (split_ws_tok_sp (tok2 hi));
    [| unfold tok2; discriminate | apply tok2_nows | reflexivity].
  rewrite (split_ws_tok_sp (tok3 hi));
    [| unfold tok3; discriminate | apply tok3_nows | reflexivity].
  rewrite (split_ws_tok_sp (str_of_Z nc));
    [| apply str_nonempty | apply str_nows | reflexivity].
  exact (last_n_app _ [tok1 lo; tok2 hi; tok3 hi; str_of_Z nc]).
Qed.

Lemma tok1_last lo :
  last (split_on "("%char (tok1 lo)) [] = join_ints lo ++ bs ")".
Proof.
  change (tok1 lo)
    with (bs "1)))" ++ "("%char :: [] ++ "("%char :: (join_ints lo ++ bs ")")).
  rewrite split_on_tok_sep by reflexivity.
  rewrite split_on_tok_sep by reflexivity.
  rewrite split_on_tok.
  - reflexivity.
  - unfold nochar. rewrite forallb_app. fold (nochar "("%char (join_ints lo)).
    rewrite join_nolp. reflexivity.
Qed.

Lemma tok1_ints lo :
  remove_char ")"%char (last (split_on "("%char (tok1 lo)) []) = join_ints lo.
Proof.
  rewrite tok1_last, remove_char_app.
  rewrite (remove_char_id _ _ (join_norp lo)).
  change (remove_char ")"%char (bs ")")) with (@nil ascii).
  apply app_nil_r.
Qed.

Lemma tok2_ints hi :
  remove_char ")"%char (remove_char "("%char (tok2 hi)) = join_ints hi.
Proof.
  unfold tok2. rewrite !remove_char_app.
  rewrite (remove_char_id _ _ (join_nolp hi)).
  rewrite (remove_char_id _ _ (join_norp hi)).
  change (remove_char "("%char (bs "(")) with (@nil ascii).
  change (remove_char "("%char (bs ")")) with (bs ")").
  change (remove_char ")"%char []) with (@nil ascii).
  change (remove_char ")"%char (bs ")")) with (@nil ascii).
  cbn [app]. apply app_nil_r.
Qed.

Theorem parse_print_hdr : forall (lo hi : list Z) (nc : Z),
  lo <> [] -> hi <> [] ->
  parse_hdr (print_hdr lo hi nc) = Some {| h_lo := lo; h_hi := hi; h_nc := nc |}.
Proof.
  intros lo hi nc Hlo Hhi. unfold parse_hdr.
  rewrite print_hdr_is_ascii, split_ws_hdr. cbv iota.
  rewrite py_int_str_of_Z. cbn [obind].
  rewrite tok1_ints, (parse_ints_join lo Hlo). cbn [obind].
  rewrite tok2_ints, (parse_ints_join hi Hhi). cbn [obind].
  reflexivity.
Qed.

Theorem print_hdr_inj : forall lo hi nc lo' hi' nc',
  lo <> [] -> hi <> [] -> lo' <> [] -> hi' <> [] ->
  print_hdr lo hi nc = print_hdr lo' hi' nc' ->
  lo = lo' /\ hi = hi' /\ nc = nc'.
Proof.
  intros lo hi nc lo' hi' nc' Hlo Hhi Hlo' Hhi' E.
  pose proof (parse_print_hdr lo hi nc Hlo Hhi) as P.
  rewrite E, (parse_print_hdr lo' hi' nc' Hlo' Hhi') in P.
  inversion P. auto.
Qed.

Print Assumptions parse_print_hdr.
Print Assumptions take_line_print_hdr.
Print Assumptions py_int_str_of_Z.
