(* Python text primitives used by amr_kitchen's header parsers, as total
   Gallina functions over byte lists:
     str.split()          -> split_ws
     str.split(sep)       -> split_on
     str.replace(c, '')   -> remove_char
     int(token)           -> py_int     (sign, digits, single '_' between digits)
     str(int)             -> str_of_Z   (Coq's own decimal printer)
   Non-ASCII input makes .decode('ascii') raise: [is_ascii]. *)
From AK Require Import Base.Prelude.
From Coq Require Import DecimalString DecimalZ Decimal.

Definition code (c : ascii) : Z := Z.of_N (N_of_ascii c).

Definition is_space (c : ascii) : bool :=
  let n := code c in
  ((9 <=? n) && (n <=? 13)) || ((28 <=? n) && (n <=? 32)).

Definition is_ascii_byte (c : ascii) : bool := code c <? 128.
Definition is_ascii (s : bytes) : bool := forallb is_ascii_byte s.

Definition nl : ascii := "010"%char.

(* str.split() : maximal runs of non-whitespace *)
Fixpoint split_ws (s : bytes) : list bytes :=
  match s with
  | [] => []
  | c :: s' =>
      let r := split_ws s' in
      if is_space c then r
      else match s' with
           | [] => [[c]]
           | c' :: _ =>
               if is_space c' then [c] :: r
               else match r with
                    | t :: r' => (c :: t) :: r'
                    | [] => [[c]]
                    end
           end
  end.

(* str.split(sep) for a one-character separator: always >= 1 piece *)
Fixpoint split_on (sep : ascii) (s : bytes) : list bytes :=
  match s with
  | [] => [[]]
  | c :: s' =>
      if Ascii.eqb c sep then [] :: split_on sep s'
      else match split_on sep s' with
           | t :: r => (c :: t) :: r
           | [] => [[c]]
           end
  end.

Definition remove_char (c : ascii) (s : bytes) : bytes :=
  filter (fun x => negb (Ascii.eqb x c)) s.

Definition is_digit (c : ascii) : bool :=
  let n := code c in (48 <=? n) && (n <=? 57).

(* digits with single underscores between digits (PEP 515) *)
Fixpoint digits_us (prev_digit : bool) (s : bytes) (acc : Z) : option Z :=
  match s with
  | [] => if prev_digit then Some acc else None
  | c :: s' =>
      if is_digit c then digits_us true s' (10 * acc + (code c - 48))
      else if Ascii.eqb c "_"%char then
             (if prev_digit then digits_us false s' acc else None)
      else None
  end.

Definition py_int (s : bytes) : option Z :=
  match s with
  | [] => None
  | c :: s' =>
      if Ascii.eqb c "-"%char then
        (match s' with [] => None | _ => do v <- digits_us false s' 0; Some (- v) end)
      else if Ascii.eqb c "+"%char then
        (match s' with [] => None | _ => digits_us false s' 0 end)
      else digits_us false s 0
  end.

(* Python's str(int) *)
Definition str_of_Z (z : Z) : bytes :=
  list_ascii_of_string (NilZero.string_of_int (Z.to_int z)).

Fixpoint join_with (sep : bytes) (l : list bytes) : bytes :=
  match l with
  | [] => []
  | [x] => x
  | x :: l' => x ++ sep ++ join_with sep l'
  end.

Definition last_n {A} (n : nat) (l : list A) : list A :=
  skipn (length l - n) l.

(* file.readline() on the remaining bytes: through the first newline *)
Fixpoint take_line (s : bytes) : bytes :=
  match s with
  | [] => []
  | c :: s' => if Ascii.eqb c nl then [c] else c :: take_line s'
  end.
