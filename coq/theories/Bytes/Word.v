(* float64 values as 8-byte little-endian words: the numeric order on bit
   patterns, extrema of a component, NaN test.  Used by chef / chk2plt (per-box
   minima and maxima), menu, and the binary-data check of taste. *)
From AK Require Import Base.Prelude Bytes.Text.

(* ---- the order of float64 values on their bit patterns (NaN excluded) ---- *)
Fixpoint le_bits (w : bytes) : Z :=
  match w with
  | [] => 0
  | c :: w' => code c + 256 * le_bits w'
  end.

Definition word_key (w : bytes) : Z :=
  let b := le_bits w in
  if b <? 9223372036854775808 then b else 9223372036854775808 - b.

Definition word_leb (a b : bytes) : bool := word_key a <=? word_key b.

Definition min_word (l : list bytes) (d : bytes) : bytes :=
  fold_left (fun m w => if word_leb m w then m else w) l d.
Definition max_word (l : list bytes) (d : bytes) : bytes :=
  fold_left (fun m w => if word_leb m w then w else m) l d.

(* the 8-byte words of a component *)
Fixpoint words (fuel : nat) (b : bytes) : list bytes :=
  match fuel with
  | O => []
  | S fuel' => match b with
               | [] => []
               | _ => firstn 8 b :: words fuel' (skipn 8 b)
               end
  end.
Definition words_of (b : bytes) : list bytes := words (length b) b.

Definition comp_min (c : bytes) : bytes := match words_of c with w :: l => min_word l w | [] => [] end.
Definition comp_max (c : bytes) : bytes := match words_of c with w :: l => max_word l w | [] => [] end.


(* ---- NaN-ignoring extrema (np.nanmin / np.nanmax) ----
   numpy reduces with C fmin / fmax, which ignore QUIET NaNs; on a signalling
   NaN they return a quiet NaN and the running extremum is lost (platform
   dependent): data holding signalling NaNs are outside this model. *)
(* exponent all ones and a non-zero mantissa *)
Definition is_nan (w : bytes) : bool := 9218868437227405312 <? le_bits w mod 9223372036854775808.

Definition nan_min (c : bytes) : option bytes :=
  match filter (fun w => negb (is_nan w)) (words_of c) with w :: l => Some (min_word l w) | [] => None end.
Definition nan_max (c : bytes) : option bytes :=
  match filter (fun w => negb (is_nan w)) (words_of c) with w :: l => Some (max_word l w) | [] => None end.
