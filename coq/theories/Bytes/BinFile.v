(* Binary file access as the Python code performs it (open(..,'rb'), seek,
   readline, np.fromfile) and the on-disk image of a list of FABs. *)
From AK Require Import Base.Prelude Bytes.Text Bytes.FabHeader.

(* bytes from position [pos] (a position past EOF gives nothing) *)
Definition rest (f : bytes) (pos : Z) : bytes := zskipn pos f.

Definition readline (f : bytes) (pos : Z) : bytes := take_line (rest f pos).

(* np.fromfile(bf, 'float64', count) at [pos]: the raw bytes of the items
   read.  Fewer items than asked are returned silently when the file is
   short; a negative count reads everything. *)
Definition fromfile (f : bytes) (pos : Z) (count : Z) : bytes :=
  let r := rest f pos in
  let avail := blen r / 8 in
  let k := if count <? 0 then avail else Z.min count avail in
  zfirstn (8 * k) r.

(* ndarray.reshape(shape): the element count must match.  (A negative
   dimension asks numpy to infer it; the model refuses it - such shapes only
   come from corrupt headers and are kept out of the validated region.) *)
Definition reshape_ok (data : bytes) (shape : list Z) : bool :=
  forallb (fun d => 0 <=? d) shape && (blen data =? 8 * zprod shape).

(* A multi-dimensional float64 array in Fortran order: first axis fastest.
   [a_data] holds the 8 raw bytes of each element. *)
Record arr := { a_shape : list Z; a_data : bytes }.

(* ---- on-disk image ---- *)

Record fab := { fab_lo : list Z; fab_hi : list Z; fab_nc : Z; fab_data : bytes }.

Definition fab_shape (f : fab) : list Z := box_shape (fab_lo f) (fab_hi f).
Definition fab_cells (f : fab) : Z := zprod (fab_shape f).

Definition fab_hdr (f : fab) : bytes := print_hdr (fab_lo f) (fab_hi f) (fab_nc f).
Definition encode_fab (f : fab) : bytes := fab_hdr f ++ fab_data f.
Definition encode_file (fs : list fab) : bytes := concat (map encode_fab fs).

Definition fab_size (f : fab) : Z := blen (encode_fab f).
(* byte offset of the k-th FAB of a file *)
Definition fab_offset (fs : list fab) (k : nat) : Z := zsum (map fab_size (firstn k fs)).

Definition fab_ok (f : fab) : bool :=
  negb (length (fab_lo f) =? 0)%nat &&
  (length (fab_lo f) =? length (fab_hi f))%nat &&
  forallb (fun d => 1 <=? d) (fab_shape f) &&
  (0 <=? fab_nc f) &&
  (blen (fab_data f) =? 8 * fab_cells f * fab_nc f).

(* component [c] of a FAB payload: a contiguous block *)
Definition sub (start len : Z) (b : bytes) : bytes := zfirstn len (zskipn start b).
Definition fab_comp (f : fab) (c : Z) : bytes :=
  sub (8 * fab_cells f * c) (8 * fab_cells f) (fab_data f).
