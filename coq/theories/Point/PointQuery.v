(* LevelDataSelector.__call__ (plotfile_cooker.py): the box-matching and the
   point-to-index conversion of a point query, on the half-cell lattice.

   Coordinates are measured per direction from the domain origin in units of
   u = dx_finest / 2, so that every cell face and cell centre of every level
   is an integer: a level-lv box with index range lo..hi spans
   [lo * 2f, (hi + 1) * 2f] with f = 2^(L - lv), its cell c has its centre at
   (2c + 1) f and half a cell is f.  (The implementation performs the same
   comparisons on floats geo_low + k u; they are exact on dyadic geometries,
   which is what the correspondence uses.)  The spline evaluation
   scipy.ndimage.map_coordinates is outside the model: the model returns the
   box and the local index at which it is evaluated. *)
From AK Require Import Base.Prelude Bytes.FabHeader Array.Paint.

Record qbox := { q_lo : list Z; q_hi : list Z }.

(* boxes[:, d, 0] + a <= point[d] <= boxes[:, d, 1] - a  for all d, a = s * f *)
Definition within (f s : Z) (lo hi P : list Z) : bool :=
  match lo, hi, P with
  | [l0; l1; l2], [h0; h1; h2], [p0; p1; p2] =>
      (l0 * 2 * f + s * f <=? p0) && (p0 <=? (h0 + 1) * 2 * f - s * f) &&
      (l1 * 2 * f + s * f <=? p1) && (p1 <=? (h1 + 1) * 2 * f - s * f) &&
      (l2 * 2 * f + s * f <=? p2) && (p2 <=? (h2 + 1) * 2 * f - s * f)
  | _, _, _ => false
  end.

(* np.nonzero(mask)[0] *)
Fixpoint nonzero {A} (p : A -> bool) (l : list A) (k : nat) : list nat :=
  match l with
  | [] => []
  | x :: l' => if p x then k :: nonzero p l' (S k) else nonzero p l' (S k)
  end.

Definition pow2 (k : nat) : Z := Z.of_nat (Nat.pow 2 k).

Definition matches (L : nat) (s : Z) (P : list Z) (lvls : list (list qbox)) : list (list nat) :=
  map (fun klv => nonzero (fun b => within (pow2 (L - fst klv)) s (q_lo b) (q_hi b) P) (snd klv) 0)
      (combine (seq 0 (S L)) lvls).

(* [lv for lv in m if len(m[lv]) != 0][-1] ; IndexError when there is none *)
Definition finest_match (m : list (list nat)) : option nat :=
  last (map Some (nonzero (fun l => negb (length l =? 0)%nat) m 0)) None.

Inductive presult :=
| PRaises                                   (* IndexError / AssertionError: the query is refused *)
| PCase1 (lv box : nat) (num : list Z) (den : Z)   (* local index num/den in that box *)
| PCase2.                                   (* the between-boxes branch (not modelled further) *)

Definition point_query (lvls : list (list qbox)) (L : nat) (P : list Z) : presult :=
  match P with
  | [_; _; _] =>
      let ex := matches L 0 P lvls in
      let inn := matches L 1 P lvls in
      let out := matches L (-1) P lvls in
      match finest_match ex with
      | None => PRaises
      | Some lv_ex =>
          let lv_in := finest_match inn in
          match finest_match out with
          | None => PRaises
          | Some lv_out =>
              match lv_in with
              | Some lv =>
                  if (lv =? lv_ex)%nat then
                    (* CASE 1 and its assertions *)
                    match nth lv inn [], nth lv ex [], nth lv out [] with
                    | [bid], [_], [_] =>
                        if (lv =? lv_out)%nat then
                          let f := pow2 (L - lv) in
                          let b := nth bid (nth lv lvls []) {| q_lo := []; q_hi := [] |} in
                          (* point_idx = point / dx - 1/2 ; point_local = point_idx - lo *)
                          PCase1 lv bid (map (fun pl => fst pl - f - snd pl * 2 * f) (combine P (q_lo b))) (2 * f)
                        else PRaises
                    | _, _, _ => PRaises
                    end
                  else PCase2
              | None => PCase2
              end
          end
      end
  | _ => PRaises                         (* point[2] on a 2-tuple: IndexError *)
  end.
