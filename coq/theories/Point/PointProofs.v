(* CASE 1 of the point query is taken, with the right box and the cell's
   integral offset, at every interior cell centre of the finest covering
   level.  Standard library only. *)
From AK Require Import Base.Prelude Bytes.FabHeader Array.Paint Point.PointQuery.

(* ------------------------------------------------------------------ *)
(** * np.nonzero and "finest level with a match" *)

Lemma nonzero_none {A} (p : A -> bool) : forall l k, (forall x, In x l -> p x = false) -> nonzero p l k = [].
Proof.
  induction l as [|x l IH]; intros k H; [reflexivity|]. cbn [nonzero].
  rewrite (H x (or_introl eq_refl)). apply IH. intros y Hy. apply H. right. exact Hy.
Qed.

Lemma nonzero_single {A} (p : A -> bool) : forall l k i x,
  nth_error l i = Some x -> p x = true ->
  (forall j y, j <> i -> nth_error l j = Some y -> p y = false) ->
  nonzero p l k = [(k + i)%nat].
Proof.
  induction l as [|a l IH]; intros k i x Hn Hp Hothers; [destruct i; discriminate|].
  destruct i as [|i]; cbn [nth_error] in Hn.
  - injection Hn as ->. cbn [nonzero]. rewrite Hp. rewrite Nat.add_0_r. f_equal.
    apply nonzero_none. intros y Hy. apply In_nth_error in Hy. destruct Hy as [j Hj].
    apply (Hothers (S j) y); [lia | exact Hj].
  - cbn [nonzero]. rewrite (Hothers 0%nat a ltac:(lia) eq_refl).
    rewrite (IH (S k) i x Hn Hp). { f_equal. lia. }
    intros j y Hj Hy. apply (Hothers (S j) y); [lia | exact Hy].
Qed.

Lemma nonzero_app {A} (p : A -> bool) : forall l1 l2 k,
  nonzero p (l1 ++ l2) k = nonzero p l1 k ++ nonzero p l2 (k + length l1)%nat.
Proof.
  induction l1 as [|x l1 IH]; intros l2 k; cbn [app nonzero length].
  - rewrite Nat.add_0_r. reflexivity.
  - rewrite IH. replace (S k + length l1)%nat with (k + S (length l1))%nat by lia.
    destruct (p x); reflexivity.
Qed.

Lemma last_app_single {A} (l : list A) (x d : A) : last (l ++ [x]) d = x.
Proof. induction l as [|y l IH]; [reflexivity|]. cbn [app]. destruct (l ++ [x]) eqn:E; [destruct l; discriminate|]. exact IH. Qed.

(* the finest level with a non-empty match list *)
Lemma finest_match_at : forall (m : list (list nat)) lv x,
  nth_error m lv = Some x -> x <> [] ->
  (forall j y, (lv < j)%nat -> nth_error m j = Some y -> y = []) ->
  finest_match m = Some lv.
Proof.
  intros m lv x Hn Hx Hlater. unfold finest_match.
  destruct (nth_error_split m lv Hn) as (pre & post & -> & Hlen).
  rewrite nonzero_app. cbn [nonzero length].
  assert (Hne : negb (length x =? 0)%nat = true) by (destruct x; [congruence | reflexivity]).
  rewrite Hne.
  rewrite (nonzero_none _ post).
  - rewrite map_app. cbn [map]. rewrite last_app_single. f_equal. lia.
  - intros y Hy. apply In_nth_error in Hy. destruct Hy as [j Hj].
    assert (Hy0 : y = []).
    { apply (Hlater (lv + S j)%nat y); [lia|].
      rewrite nth_error_app2 by lia. replace (lv + S j - length pre)%nat with (S j) by lia. exact Hj. }
    subst y. reflexivity.
Qed.

Lemma nth_error_matches L s P lvls j bs :
  (j <= L)%nat -> nth_error lvls j = Some bs ->
  nth_error (matches L s P lvls) j
  = Some (nonzero (fun b => within (pow2 (L - j)) s (q_lo b) (q_hi b) P) bs 0).
Proof.
  intros Hj Hn. unfold matches. rewrite nth_error_map.
  assert (H : nth_error (combine (seq 0 (S L)) lvls) j = Some (j, bs)).
  { assert (Hs : nth_error (seq 0 (S L)) j = Some j).
    { rewrite nth_error_nth' with (d := 0%nat) by (rewrite seq_length; lia). rewrite seq_nth by lia. reflexivity. }
    assert (Hgen : forall (l : list nat) (lv : list (list qbox)) i k,
               nth_error l i = Some k -> nth_error lv i = Some bs -> nth_error (combine l lv) i = Some (k, bs)).
    { induction l as [|a l IH]; intros [|b lv] [|i] k H1 H2; cbn in *; try discriminate.
      - injection H1 as ->. injection H2 as ->. reflexivity.
      - apply IH; assumption. }
    apply Hgen; assumption. }
  rewrite H. reflexivity.
Qed.

Lemma nth_error_matches_inv L s P lvls j y :
  nth_error (matches L s P lvls) j = Some y ->
  exists bs, (j <= L)%nat /\ nth_error lvls j = Some bs /\
             y = nonzero (fun b => within (pow2 (L - j)) s (q_lo b) (q_hi b) P) bs 0.
Proof.
  unfold matches. rewrite nth_error_map. intros H.
  destruct (nth_error (combine (seq 0 (S L)) lvls) j) as [[k bs]|] eqn:E; [|discriminate].
  cbn in H. injection H as <-.
  assert (Hk : k = j /\ (j <= L)%nat /\ nth_error lvls j = Some bs).
  { assert (Hgen : forall (lv : list (list qbox)) (l : list nat) i s0 n,
        l = seq s0 n -> nth_error (combine l lv) i = Some (k, bs) -> k = (s0 + i)%nat /\ (i < n)%nat /\ nth_error lv i = Some bs).
    { induction lv as [|b lv IH]; intros l i s0 n Hl H.
      - destruct l; destruct i; discriminate.
      - destruct l as [|a l]; [destruct i; discriminate|]. destruct n as [|n]; [discriminate|].
        cbn [seq] in Hl. injection Hl as -> ->.
        destruct i as [|i]; cbn in H.
        + injection H as <- <-. repeat split; lia.
        + destruct (IH (seq (S s0) n) i (S s0) n eq_refl H) as (-> & Hlt & Hn). repeat split; [lia | lia | exact Hn]. }
    destruct (Hgen lvls (seq 0 (S L)) j 0%nat (S L) eq_refl E) as (-> & Hlt & Hn). repeat split; [lia | exact Hn]. }
  destruct Hk as (-> & Hle & Hn). exists bs. repeat split; assumption.
Qed.

(* ------------------------------------------------------------------ *)
(** * CASE 1 at interior cell centres *)

Lemma pow2_pos k : 0 < pow2 k.
Proof. unfold pow2. pose proof (Nat.pow_nonzero 2 k). lia. Qed.

Lemma within_mono f s s' lo hi P : 0 < f -> s <= s' -> within f s' lo hi P = true -> within f s lo hi P = true.
Proof.
  intros Hf Hs. unfold within.
  destruct lo as [|l0 [|l1 [|l2 [|? ?]]]]; try discriminate.
  destruct hi as [|h0 [|h1 [|h2 [|? ?]]]]; try discriminate.
  destruct P as [|p0 [|p1 [|p2 [|? ?]]]]; try discriminate.
  rewrite !andb_true_iff, !Z.leb_le. intros H. nia.
Qed.

Lemma within_false_mono f s s' lo hi P : 0 < f -> s <= s' -> within f s lo hi P = false -> within f s' lo hi P = false.
Proof.
  intros Hf Hs H. destruct (within f s' lo hi P) eqn:E; [|reflexivity].
  rewrite (within_mono f s s' lo hi P Hf Hs E) in H. discriminate.
Qed.

Theorem point_case1 : forall lvls L lv bs bid B l0 l1 l2 h0 h1 h2 c0 c1 c2,
  (lv <= L)%nat -> nth_error lvls lv = Some bs -> nth_error bs bid = Some B ->
  q_lo B = [l0; l1; l2] -> q_hi B = [h0; h1; h2] ->
  l0 + 1 <= c0 <= h0 - 1 -> l1 + 1 <= c1 <= h1 - 1 -> l2 + 1 <= c2 <= h2 - 1 ->
  let f := pow2 (L - lv) in
  let P := [(2 * c0 + 1) * f; (2 * c1 + 1) * f; (2 * c2 + 1) * f] in
  (forall i B', i <> bid -> nth_error bs i = Some B' -> within f (-1) (q_lo B') (q_hi B') P = false) ->
  (forall j bs' B', (lv < j <= L)%nat -> nth_error lvls j = Some bs' -> In B' bs' ->
                    within (pow2 (L - j)) (-1) (q_lo B') (q_hi B') P = false) ->
  point_query lvls L P = PCase1 lv bid [(c0 - l0) * (2 * f); (c1 - l1) * (2 * f); (c2 - l2) * (2 * f)] (2 * f).
Proof.
  intros lvls L lv bs bid B l0 l1 l2 h0 h1 h2 c0 c1 c2 Hle Hlv HB Hlo Hhi Hc0 Hc1 Hc2 f P Hsame Hfiner.
  pose proof (pow2_pos (L - lv)) as Hf. fold f in Hf.
  (* the three match lists at level lv are [bid] *)
  assert (HinB : forall s, -1 <= s <= 1 -> within f s (q_lo B) (q_hi B) P = true).
  { intros s Hs. unfold within, P. rewrite Hlo, Hhi. rewrite !andb_true_iff, !Z.leb_le. nia. }
  assert (Hlist : forall s, -1 <= s <= 1 ->
            nth_error (matches L s P lvls) lv = Some [bid]).
  { intros s Hs. rewrite (nth_error_matches L s P lvls lv bs Hle Hlv). f_equal.
    rewrite (nonzero_single _ bs 0 bid B HB (HinB s Hs)); [reflexivity|].
    intros i B' Hi HB'. apply (within_false_mono f (-1) s); [exact Hf | lia | apply (Hsame i B' Hi HB')]. }
  assert (Hlater : forall s, -1 <= s <= 1 -> forall j y, (lv < j)%nat ->
            nth_error (matches L s P lvls) j = Some y -> y = []).
  { intros s Hs j y Hj Hy. destruct (nth_error_matches_inv _ _ _ _ _ _ Hy) as (bs' & HjL & Hn' & ->).
    apply nonzero_none. intros B' HB'.
    apply (within_false_mono (pow2 (L - j)) (-1) s); [apply pow2_pos | lia |].
    apply (Hfiner j bs' B'); [lia | exact Hn' | exact HB']. }
  assert (Hfm : forall s, -1 <= s <= 1 -> finest_match (matches L s P lvls) = Some lv).
  { intros s Hs. apply (finest_match_at _ lv [bid] (Hlist s Hs)); [discriminate | apply (Hlater s Hs)]. }
  unfold point_query. unfold P at 1. cbv zeta.
  fold P.
  rewrite (Hfm 0 ltac:(lia)), (Hfm 1 ltac:(lia)), (Hfm (-1) ltac:(lia)).
  rewrite Nat.eqb_refl.
  rewrite (nth_error_nth _ _ _ (Hlist 1 ltac:(lia))), (nth_error_nth _ _ _ (Hlist 0 ltac:(lia))),
          (nth_error_nth _ _ _ (Hlist (-1) ltac:(lia))).
  rewrite (nth_error_nth _ _ _ Hlv), (nth_error_nth _ _ _ HB). rewrite Hlo.
  fold f. unfold P. cbn [combine map fst snd]. f_equal. f_equal; [|f_equal; [|f_equal]]; ring.
Qed.

(* ------------------------------------------------------------------ *)
(** * the two side conditions follow from the mesh structure *)

(* a box of the same level whose index range is disjoint from B's (boxes of a
   level never overlap) stays more than half a cell away from every interior
   cell centre of B *)
Lemma same_level_far : forall f l0 l1 l2 h0 h1 h2 c0 c1 c2 l0' l1' l2' h0' h1' h2',
  0 < f ->
  l0 + 1 <= c0 <= h0 - 1 -> l1 + 1 <= c1 <= h1 - 1 -> l2 + 1 <= c2 <= h2 - 1 ->
  (h0' < l0 \/ h0 < l0' \/ h1' < l1 \/ h1 < l1' \/ h2' < l2 \/ h2 < l2') ->
  within f (-1) [l0'; l1'; l2'] [h0'; h1'; h2'] [(2 * c0 + 1) * f; (2 * c1 + 1) * f; (2 * c2 + 1) * f] = false.
Proof.
  intros f l0 l1 l2 h0 h1 h2 c0 c1 c2 l0' l1' l2' h0' h1' h2' Hf H0 H1 H2 Hsep.
  unfold within.
  destruct ((l0' * 2 * f + -1 * f <=? (2 * c0 + 1) * f) && ((2 * c0 + 1) * f <=? (h0' + 1) * 2 * f - -1 * f) &&
            (l1' * 2 * f + -1 * f <=? (2 * c1 + 1) * f) && ((2 * c1 + 1) * f <=? (h1' + 1) * 2 * f - -1 * f) &&
            (l2' * 2 * f + -1 * f <=? (2 * c2 + 1) * f) && ((2 * c2 + 1) * f <=? (h2' + 1) * 2 * f - -1 * f)) eqn:E;
    [|reflexivity].
  exfalso. rewrite !andb_true_iff, !Z.leb_le in E.
  destruct E as [[[[[E1 E2] E3] E4] E5] E6].
  destruct Hsep as [H|[H|[H|[H|[H|H]]]]]; nia.
Qed.

(* a box of a finer level j (refinement g = 2^(j - lv) >= 2 of level lv, whose
   corners lie on level-lv cell faces) that does not contain the refinement of
   cell c stays more than half a fine cell away from the centre of c *)
Lemma finer_far : forall fj g c0 c1 c2 l0' l1' l2' h0' h1' h2',
  0 < fj -> 2 <= g ->
  (g | l0') -> (g | l1') -> (g | l2') -> (g | h0' + 1) -> (g | h1' + 1) -> (g | h2' + 1) ->
  (h0' < c0 * g \/ c0 * g < l0' \/ h1' < c1 * g \/ c1 * g < l1' \/ h2' < c2 * g \/ c2 * g < l2') ->
  within fj (-1) [l0'; l1'; l2'] [h0'; h1'; h2']
         [(2 * c0 + 1) * (g * fj); (2 * c1 + 1) * (g * fj); (2 * c2 + 1) * (g * fj)] = false.
Proof.
  intros fj g c0 c1 c2 l0' l1' l2' h0' h1' h2' Hf Hg [a0 A0] [a1 A1] [a2 A2] [e0 E0] [e1 E1] [e2 E2] Hsep.
  unfold within.
  match goal with |- ?b = false => destruct b eqn:E; [|reflexivity] end.
  exfalso. rewrite !andb_true_iff, !Z.leb_le in E.
  destruct E as [[[[[X1 X2] X3] X4] X5] X6].
  destruct Hsep as [H|[H|[H|[H|[H|H]]]]].
  - assert (e0 <= c0) by nia. nia.
  - assert (c0 + 1 <= a0) by nia. nia.
  - assert (e1 <= c1) by nia. nia.
  - assert (c1 + 1 <= a1) by nia. nia.
  - assert (e2 <= c2) by nia. nia.
  - assert (c2 + 1 <= a2) by nia. nia.
Qed.

(* ------------------------------------------------------------------ *)
(** * outside the domain *)

Theorem point_outside : forall lvls L P,
  (forall j bs B, nth_error lvls j = Some bs -> (j <= L)%nat -> In B bs ->
                  within (pow2 (L - j)) 0 (q_lo B) (q_hi B) P = false) ->
  point_query lvls L P = PRaises.
Proof.
  intros lvls L P H. unfold point_query.
  destruct P as [|p0 [|p1 [|p2 [|? ?]]]]; try reflexivity.
  cbv zeta.
  assert (Hfm : finest_match (matches L 0 [p0; p1; p2] lvls) = None).
  { unfold finest_match. rewrite nonzero_none; [reflexivity|].
    intros y Hy. apply In_nth_error in Hy. destruct Hy as [j Hj].
    destruct (nth_error_matches_inv _ _ _ _ _ _ Hj) as (bs & HjL & Hn & ->).
    rewrite nonzero_none; [reflexivity|]. intros B HB. apply (H j bs B Hn HjL HB). }
  rewrite Hfm. reflexivity.
Qed.
