(* amr_kitchen/taste/taste.py: the plotfile validator, as a function of the
   directory content.  Verdict only: [taste_good] is true iff no check
   reports an error and nothing raises (Taster.__init__ turns every exception
   into "bad"; in failing mode "bad" raises, in non-failing mode it evaluates
   false without raising). *)
From AK Require Import Base.Prelude Bytes.Text Bytes.FabHeader Bytes.BinFile
  Reader.Select Reader.BoxRead Reader.Level Plotfile.TextHeader Bytes.Word.

Record ldir := { ld_cellh : option text; ld_files : list (bytes * bytes) }.
Record pdisk := { pd_header : option text; pd_dirs : list (bytes * ldir) }.

Record topts := { t_headers : bool; t_shape : bool; t_data : bool; t_coords : bool }.

Fixpoint lookup_dir (name : bytes) (dirs : list (bytes * ldir)) : option ldir :=
  match dirs with
  | [] => None
  | (n, d) :: dirs' => if bytes_eqb n name then Some d else lookup_dir name dirs'
  end.

(* PlotfileCooker.__init__ in validate mode: header, boxes, level headers *)
Definition open_levels (d : pdisk) (o : opened) (maxmins : bool) : option (list (ldir * cellh)) :=
  omap_all (fun lb =>
              do ld <- lookup_dir (lb_cell_dir lb) (pd_dirs d);
              do t <- ld_cellh ld;
              match p_cellh (blen (o_keys o)) maxmins t with
              | Some (c, _) => Some (ld, c)
              | None => None
              end) (o_levels o).

(* taste_plotfile_structure *)
Definition check_structure (ld : ldir) (c : cellh) : bool :=
  forallb (fun f => existsb (fun nf => bytes_eqb (fst nf) f) (ld_files ld)) (c_files c).

Record boxrec := { br_file : bytes; br_off : Z; br_lo : list Z; br_hi : list Z }.

Fixpoint zip3 (fs : list bytes) (os : list Z) (ix : list (list Z * list Z)) : list boxrec :=
  match fs, os, ix with
  | f :: fs', o :: os', (lo, hi) :: ix' =>
      {| br_file := f; br_off := o; br_lo := lo; br_hi := hi |} :: zip3 fs' os' ix'
  | _, _, _ => []
  end.

Definition cell_boxes (c : cellh) : list boxrec := zip3 (c_files c) (c_offsets c) (c_indexes c).

Fixpoint list_eqb (a b : list Z) : bool :=
  match a, b with
  | [], [] => true
  | x :: a', y :: b' => (x =? y) && list_eqb a' b'
  | _, _ => false
  end.

(* mp_fun_headers for one box *)
Definition header_ok (nf : Z) (ld : ldir) (b : boxrec) : bool :=
  match lookup (br_file b) (ld_files ld) with
  | None => false
  | Some f =>
      if br_off b <? 0 then false else
      match parse_hdr (readline f (br_off b)) with
      | None => false
      | Some h =>
          match hdr_shape h with
          | None => false
          | Some _ => list_eqb (h_lo h) (br_lo b) && list_eqb (h_hi h) (br_hi b) && (h_nc h =? nf)
          end
      end
  end.

Definition check_headers (nf : Z) (ld : ldir) (c : cellh) : bool :=
  forallb (header_ok nf ld) (cell_boxes c).

(* stable insertion sort of the boxes of one file by recorded offset *)
Fixpoint insert_by_off (b : boxrec) (l : list boxrec) : list boxrec :=
  match l with
  | [] => [b]
  | x :: l' => if br_off b <? br_off x then b :: l else x :: insert_by_off b l'
  end.
Definition sort_by_off (l : list boxrec) : list boxrec := fold_right insert_by_off [] l.

(* mp_fun_shape: [h] is the header line just read, [pos] the position after it *)
Fixpoint walk_shape (nf : Z) (f : bytes) (pos : Z) (h : bytes) (nexts : list boxrec) : bool :=
  match parse_hdr h with
  | None => false
  | Some hd =>
      match hdr_shape hd with
      | None => false
      | Some shp =>
          let pos' := pos + zprod shp * h_nc hd * 8 in
          if pos' <? 0 then false else
          match nexts with
          | [] => pos' =? blen f
          | b :: rest =>
              let line := readline f pos' in
              if bytes_eqb line (print_hdr (br_lo b) (br_hi b) nf)
              then walk_shape nf f (pos' + blen line) line rest
              else false
          end
      end
  end.

Definition shape_ok_file (nf : Z) (ld : ldir) (c : cellh) (name : bytes) : bool :=
  match lookup name (ld_files ld) with
  | None => false
  | Some f =>
      match sort_by_off (filter (fun b => bytes_eqb (br_file b) name) (cell_boxes c)) with
      | [] => true
      | _ :: rest => let h := readline f 0 in walk_shape nf f (blen h) h rest
      end
  end.

Definition check_shape (nf : Z) (ld : ldir) (c : cellh) : bool :=
  forallb (shape_ok_file nf ld c) (np_unique (c_files c)).

(* ---- taste_binary_data (as repaired by the fix: commit of KNOWN_FINDINGS.txt) ----
   For every binary file of a level: mp_read_binary_data reads every FAB from
   the start of the file until a header line does not parse or the data are
   short; the idx-th FAB read is compared, field by field, with the idx-th
   row (boxes of the file sorted by recorded offset) of the level header's
   minima and maxima tables: np.isclose(table value, np.nanmin / np.nanmax of
   the component).
   [close tok w] = np.isclose(float(tok), value of the word w): floating-point
   parsing and arithmetic are Python's - an oracle of the model, instantiated
   in the correspondence by the table of the pairs numpy finds close.
   Outside the model: tables whose rows have different lengths (numpy raises
   on them), ties between recorded offsets (np.argsort is not stable). *)
Fixpoint insert_by {A} (key : A -> Z) (b : A) (l : list A) : list A :=
  match l with
  | [] => [b]
  | x :: l' => if key b <? key x then b :: l else x :: insert_by key b l'
  end.
Definition sort_by {A} (key : A -> Z) (l : list A) : list A := fold_right (insert_by key) [] l.

(* lv_boxes_ids[bf_mask][ofst_sort]: the boxes of file [name] (positions in
   the level header), sorted by recorded offset *)
Definition file_ids (c : cellh) (name : bytes) : list nat :=
  sort_by (fun i => nth i (c_offsets c) 0)
          (filter (fun i => bytes_eqb (nth i (c_files c) []) name) (seq 0 (length (c_files c)))).

(* mp_read_binary_data: (shape, components, payload) of every FAB read *)
Fixpoint scan_data (fuel : nat) (f : bytes) (pos : Z) : list (list Z * Z * bytes) :=
  match fuel with
  | O => []
  | S fuel' =>
      match read_header f pos with
      | None => []
      | Some (h, shp, p1) =>
          let total := shp ++ [h_nc h] in
          let data := fromfile f p1 (zprod total) in
          if reshape_ok data total
          then (shp, h_nc h, data) :: scan_data fuel' f (p1 + blen data)
          else []
      end
  end.

Section BinaryData.
Variable close : token -> bytes -> bool.

(* one field of one FAB: data[..., k] exists, the component has a non-NaN
   value, and both table entries are close to its extrema *)
Definition field_data_ok (fab : list Z * Z * bytes) (mins maxs : list token) (k : nat) : bool :=
  let '(shp, nc, data) := fab in
  let comp := sub (8 * zprod shp * Z.of_nat k) (8 * zprod shp) data in
  (Z.of_nat k <? nc) &&
  match nth_error mins k, nth_error maxs k, nan_min comp, nan_max comp with
  | Some tmin, Some tmax, Some wmin, Some wmax => close tmin wmin && close tmax wmax
  | _, _, _, _ => false
  end.

Definition fab_data_ok (nf : Z) (fab : list Z * Z * bytes) (mins maxs : list token) : bool :=
  forallb (field_data_ok fab mins maxs) (seq 0 (Z.to_nat nf)).

Definition data_ok_file (nf : Z) (ld : ldir) (c : cellh) (name : bytes) : bool :=
  match lookup name (ld_files ld) with
  | None => false
  | Some f =>
      let ids := file_ids c name in
      let fabs := scan_data (S (length f)) f 0 in
      forallb (fun kf => match nth_error ids (fst kf) with
                         | None => false          (* more FABs in the file than rows: IndexError *)
                         | Some i => fab_data_ok nf (snd kf) (nth i (c_mins c) []) (nth i (c_maxs c) [])
                         end)
              (combine (seq 0 (length fabs)) fabs)
  end.

Definition check_data (nf : Z) (ld : ldir) (c : cellh) : bool :=
  forallb (data_ok_file nf ld c) (np_unique (c_files c)).

(* Taster(...): everything except the box-coordinate check, which involves
   floating-point values and is handled separately (Taste/Coords.v) *)
Definition taste_good (o : topts) (limit : option Z) (d : pdisk) : bool :=
  match pd_header d with
  | None => false
  | Some ht =>
      match open_header ht limit with
      | None => false
      | Some op =>
          match open_levels d op (t_data o) with
          | None => false
          | Some lvs =>
              let nf := blen (o_keys op) in
              forallb (fun lc => check_structure (fst lc) (snd lc)) lvs &&
              (if t_headers o then forallb (fun lc => check_headers nf (fst lc) (snd lc)) lvs else true) &&
              (if t_shape o then forallb (fun lc => check_shape nf (fst lc) (snd lc)) lvs else true) &&
              (* taste_binary_data is only reached when binary_data is set and
                 one of the two other binary checks is off *)
              (if t_data o && negb (t_headers o && t_shape o)
               then forallb (fun lc => check_data nf (fst lc) (snd lc)) lvs else true)
          end
      end
  end.
End BinaryData.
