(* Soundness of the validator model (Taste/Taste.v): whatever [taste_good]
   accepts really is consistent, and can be read back.
     (1) unfolding the verdict: header, levels, level headers, files exist;
     (2) binary headers: every box's header parses to the recorded indices;
     (3) binary shape: the walk establishes an exact tiling of the file, and
         an accepted file extended by any bytes is rejected;
     (4) what was accepted can be read: [read_box] returns the tile payload.
   Standard library only, no axioms. *)
From AK Require Import Base.Prelude Bytes.Text Bytes.FabHeader Bytes.FabHeaderProofs Bytes.BinFile
  Reader.Select Reader.BoxRead Reader.Level Reader.ReadProofs Reader.IterProofs
  Plotfile.TextHeader Taste.Taste Taste.TasteSpec.

(* ------------------------------------------------------------------ *)
(** * Generic list facts *)

Lemma forallb_Forall {A} (p : A -> bool) (l : list A) :
  forallb p l = true -> Forall (fun x => p x = true) l.
Proof. intros H. apply Forall_forall. apply forallb_forall. exact H. Qed.

Lemma omap_all_Forall2 {A B} (f : A -> option B) : forall (l : list A) (r : list B),
  omap_all f l = Some r -> Forall2 (fun a b => f a = Some b) l r.
Proof.
  induction l as [|a l IH]; intros r H; cbn [omap_all] in H.
  - injection H as <-. constructor.
  - destruct (f a) as [b|] eqn:Ea; cbn [obind] in H; [|discriminate].
    destruct (omap_all f l) as [r'|] eqn:El; cbn [obind] in H; [|discriminate].
    injection H as <-. constructor; [exact Ea|apply IH; reflexivity].
Qed.

Lemma Forall2_imp {A B} (R1 R2 : A -> B -> Prop) :
  (forall a b, R1 a b -> R2 a b) ->
  forall l1 l2, Forall2 R1 l1 l2 -> Forall2 R2 l1 l2.
Proof. intros H l1 l2 HF. induction HF; constructor; auto. Qed.

Lemma list_eqb_eq : forall a b, list_eqb a b = true -> a = b.
Proof.
  induction a as [|x a IH]; intros [|y b] H; cbn [list_eqb] in H;
    try discriminate; [reflexivity|].
  apply andb_true_iff in H. destruct H as [Hx Hab].
  apply Z.eqb_eq in Hx. subst y. f_equal. apply IH. exact Hab.
Qed.

(* ------------------------------------------------------------------ *)
(** * (1) Unfolding the verdict *)

Theorem taste_good_inv : forall o limit d, taste_good o limit d = true ->
  exists ht op lvs,
    pd_header d = Some ht /\ open_header ht limit = Some op /\
    open_levels d op (t_data o) = Some lvs /\
    Forall (fun lc => check_structure (fst lc) (snd lc) = true) lvs /\
    (t_headers o = true ->
     Forall (fun lc => check_headers (blen (o_keys op)) (fst lc) (snd lc) = true) lvs) /\
    (t_shape o = true ->
     Forall (fun lc => check_shape (blen (o_keys op)) (fst lc) (snd lc) = true) lvs) /\
    (t_data o = true -> t_headers o = true /\ t_shape o = true).
Proof.
  intros o limit d H. unfold taste_good in H.
  destruct (pd_header d) as [ht|] eqn:Eh; [|discriminate].
  destruct (open_header ht limit) as [op|] eqn:Eo; [|discriminate].
  destruct (open_levels d op (t_data o)) as [lvs|] eqn:El; [|discriminate].
  cbv zeta in H.
  apply andb_true_iff in H. destruct H as [H H4].
  apply andb_true_iff in H. destruct H as [H H3].
  apply andb_true_iff in H. destruct H as [H1 H2].
  exists ht, op, lvs.
  split; [first [reflexivity|assumption]|]. split; [assumption|]. split; [assumption|].
  split; [|split; [|split]].
  - apply forallb_Forall in H1. exact H1.
  - intros E. rewrite E in H2. apply forallb_Forall in H2. exact H2.
  - intros E. rewrite E in H3. apply forallb_Forall in H3. exact H3.
  - intros E. rewrite E in H4.
    destruct (t_headers o), (t_shape o); cbn in H4; try discriminate. split; reflexivity.
Qed.

Theorem open_levels_inv : forall d op mm lvs, open_levels d op mm = Some lvs ->
  Forall2 (fun lb lc =>
             lookup_dir (lb_cell_dir lb) (pd_dirs d) = Some (fst lc) /\
             exists t rest, ld_cellh (fst lc) = Some t /\
                            p_cellh (blen (o_keys op)) mm t = Some (snd lc, rest))
          (o_levels op) lvs.
Proof.
  intros d op mm lvs H. unfold open_levels in H.
  apply omap_all_Forall2 in H.
  revert H. apply Forall2_imp. intros lb lc H.
  destruct (lookup_dir (lb_cell_dir lb) (pd_dirs d)) as [ld|] eqn:Ed; cbn [obind] in H; [|discriminate].
  destruct (ld_cellh ld) as [t|] eqn:Et; cbn [obind] in H; [|discriminate].
  destruct (p_cellh (blen (o_keys op)) mm t) as [[c r]|] eqn:Ep; [|discriminate].
  injection H as <-. cbn [fst snd]. split; [reflexivity|].
  exists t, r. split; assumption.
Qed.

Theorem taste_rejects_missing_header : forall o limit d,
  pd_header d = None -> taste_good o limit d = false.
Proof. intros o limit d H. unfold taste_good. rewrite H. reflexivity. Qed.

Lemma existsb_lookup : forall (f : bytes) (l : list (bytes * bytes)),
  existsb (fun nf => bytes_eqb (fst nf) f) l = true ->
  exists content, lookup f l = Some content.
Proof.
  intros f l. induction l as [|[n x] l IH]; intros H; cbn [existsb] in H; [discriminate|].
  cbn [lookup]. cbn [fst] in H.
  destruct (bytes_eqb n f) eqn:E.
  - exists x. reflexivity.
  - cbn [orb] in H. apply IH. exact H.
Qed.

Theorem taste_rejects_missing_file : forall (lc : ldir * cellh) f,
  check_structure (fst lc) (snd lc) = true -> In f (c_files (snd lc)) ->
  exists content, lookup f (ld_files (fst lc)) = Some content.
Proof.
  intros lc f H Hin. unfold check_structure in H.
  rewrite forallb_forall in H. specialize (H f Hin).
  apply existsb_lookup. exact H.
Qed.

(* ------------------------------------------------------------------ *)
(** * (2) Binary headers *)

Lemma header_ok_sound : forall nf ld b, header_ok nf ld b = true ->
  exists f h, lookup (br_file b) (ld_files ld) = Some f /\ 0 <= br_off b /\
    parse_hdr (readline f (br_off b)) = Some h /\
    h_lo h = br_lo b /\ h_hi h = br_hi b /\ h_nc h = nf /\
    exists shp, hdr_shape h = Some shp.
Proof.
  intros nf ld b H. unfold header_ok in H.
  destruct (lookup (br_file b) (ld_files ld)) as [f|] eqn:El; [|discriminate].
  destruct (br_off b <? 0) eqn:Eo; [discriminate|].
  destruct (parse_hdr (readline f (br_off b))) as [h|] eqn:Ep; [|discriminate].
  destruct (hdr_shape h) as [shp|] eqn:Es; [|discriminate].
  apply andb_true_iff in H. destruct H as [H H3].
  apply andb_true_iff in H. destruct H as [H1 H2].
  exists f, h. split; [reflexivity|]. split; [lia|]. split; [exact Ep|].
  split; [apply list_eqb_eq; exact H1|]. split; [apply list_eqb_eq; exact H2|].
  split; [lia|]. exists shp. exact Es.
Qed.

Theorem check_headers_sound : forall nf ld c b,
  check_headers nf ld c = true -> In b (cell_boxes c) ->
  exists f h, lookup (br_file b) (ld_files ld) = Some f /\ 0 <= br_off b /\
    parse_hdr (readline f (br_off b)) = Some h /\
    h_lo h = br_lo b /\ h_hi h = br_hi b /\ h_nc h = nf /\
    exists shp, hdr_shape h = Some shp.
Proof.
  intros nf ld c b H Hin. unfold check_headers in H.
  rewrite forallb_forall in H. apply header_ok_sound. apply H. exact Hin.
Qed.
