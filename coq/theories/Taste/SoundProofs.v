(* Soundness of the validator model (Taste/Taste.v): whatever [taste_good]
   accepts really is consistent, and can be read back.
     (1) unfolding the verdict: header, levels, level headers, files exist;
     (2) binary headers: every box's header parses to the recorded indices;
     (3) binary shape: the walk establishes an exact tiling of the file, and
         an accepted file extended by any bytes is rejected;
     (4) what was accepted can be read: [read_box] returns the tile payload.
   Standard library only, no axioms. *)
From AK Require Import Base.Prelude Bytes.Text Bytes.FabHeader Bytes.FabHeaderProofs Bytes.BinFile
  Reader.Select Reader.BoxRead Reader.Level Reader.ReadProofs Reader.IterProofs
  Plotfile.TextHeader Taste.Taste Taste.TasteSpec.

(* ------------------------------------------------------------------ *)
(** * Generic list facts *)

Lemma forallb_Forall {A} (p : A -> bool) (l : list A) :
  forallb p l = true -> Forall (fun x => p x = true) l.
Proof. intros H. apply Forall_forall. apply forallb_forall. exact H. Qed.

Lemma omap_all_Forall2 {A B} (f : A -> option B) : forall (l : list A) (r : list B),
  omap_all f l = Some r -> Forall2 (fun a b => f a = Some b) l r.
Proof.
  induction l as [|a l IH]; intros r H; cbn [omap_all] in H.
  - injection H as <-. constructor.
  - destruct (f a) as [b|] eqn:Ea; cbn [obind] in H; [|discriminate].
    destruct (omap_all f l) as [r'|] eqn:El; cbn [obind] in H; [|discriminate].
    injection H as <-. constructor; [exact Ea|apply IH; reflexivity].
Qed.

Lemma Forall2_imp {A B} (R1 R2 : A -> B -> Prop) :
  (forall a b, R1 a b -> R2 a b) ->
  forall l1 l2, Forall2 R1 l1 l2 -> Forall2 R2 l1 l2.
Proof. intros H l1 l2 HF. induction HF; constructor; auto. Qed.

Lemma list_eqb_eq : forall a b, list_eqb a b = true -> a = b.
Proof.
  induction a as [|x a IH]; intros [|y b] H; cbn [list_eqb] in H;
    try discriminate; [reflexivity|].
  apply andb_true_iff in H. destruct H as [Hx Hab].
  apply Z.eqb_eq in Hx. subst y. f_equal. apply IH. exact Hab.
Qed.

(* ------------------------------------------------------------------ *)
(** * (1) Unfolding the verdict *)

Theorem taste_good_inv : forall close o limit d, taste_good close o limit d = true ->
  exists ht op lvs,
    pd_header d = Some ht /\ open_header ht limit = Some op /\
    open_levels d op (t_data o) = Some lvs /\
    Forall (fun lc => check_structure (fst lc) (snd lc) = true) lvs /\
    (t_headers o = true ->
     Forall (fun lc => check_headers (blen (o_keys op)) (fst lc) (snd lc) = true) lvs) /\
    (t_shape o = true ->
     Forall (fun lc => check_shape (blen (o_keys op)) (fst lc) (snd lc) = true) lvs) /\
    (t_data o && negb (t_headers o && t_shape o) = true ->
     Forall (fun lc => check_data close (blen (o_keys op)) (fst lc) (snd lc) = true) lvs).
Proof.
  intros close o limit d H. unfold taste_good in H.
  destruct (pd_header d) as [ht|] eqn:Eh; [|discriminate].
  destruct (open_header ht limit) as [op|] eqn:Eo; [|discriminate].
  destruct (open_levels d op (t_data o)) as [lvs|] eqn:El; [|discriminate].
  cbv zeta in H.
  apply andb_true_iff in H. destruct H as [H H4].
  apply andb_true_iff in H. destruct H as [H H3].
  apply andb_true_iff in H. destruct H as [H1 H2].
  exists ht, op, lvs.
  split; [first [reflexivity|assumption]|]. split; [assumption|]. split; [assumption|].
  split; [|split; [|split]].
  - apply forallb_Forall in H1. exact H1.
  - intros E. rewrite E in H2. apply forallb_Forall in H2. exact H2.
  - intros E. rewrite E in H3. apply forallb_Forall in H3. exact H3.
  - intros E. rewrite E in H4. apply forallb_Forall in H4. exact H4.
Qed.

Theorem open_levels_inv : forall d op mm lvs, open_levels d op mm = Some lvs ->
  Forall2 (fun lb lc =>
             lookup_dir (lb_cell_dir lb) (pd_dirs d) = Some (fst lc) /\
             exists t rest, ld_cellh (fst lc) = Some t /\
                            p_cellh (blen (o_keys op)) mm t = Some (snd lc, rest))
          (o_levels op) lvs.
Proof.
  intros d op mm lvs H. unfold open_levels in H.
  apply omap_all_Forall2 in H.
  revert H. apply Forall2_imp. intros lb lc H.
  destruct (lookup_dir (lb_cell_dir lb) (pd_dirs d)) as [ld|] eqn:Ed; cbn [obind] in H; [|discriminate].
  destruct (ld_cellh ld) as [t|] eqn:Et; cbn [obind] in H; [|discriminate].
  destruct (p_cellh (blen (o_keys op)) mm t) as [[c r]|] eqn:Ep; [|discriminate].
  injection H as <-. cbn [fst snd]. split; [reflexivity|].
  exists t, r. split; assumption.
Qed.

Theorem taste_rejects_missing_header : forall close o limit d,
  pd_header d = None -> taste_good close o limit d = false.
Proof. intros close o limit d H. unfold taste_good. rewrite H. reflexivity. Qed.

Lemma existsb_lookup : forall (f : bytes) (l : list (bytes * bytes)),
  existsb (fun nf => bytes_eqb (fst nf) f) l = true ->
  exists content, lookup f l = Some content.
Proof.
  intros f l. induction l as [|[n x] l IH]; intros H; cbn [existsb] in H; [discriminate|].
  cbn [lookup]. cbn [fst] in H.
  destruct (bytes_eqb n f) eqn:E.
  - exists x. reflexivity.
  - cbn [orb] in H. apply IH. exact H.
Qed.

Theorem taste_rejects_missing_file : forall (lc : ldir * cellh) f,
  check_structure (fst lc) (snd lc) = true -> In f (c_files (snd lc)) ->
  exists content, lookup f (ld_files (fst lc)) = Some content.
Proof.
  intros lc f H Hin. unfold check_structure in H.
  rewrite forallb_forall in H. specialize (H f Hin).
  apply existsb_lookup. exact H.
Qed.

(* ------------------------------------------------------------------ *)
(** * (2) Binary headers *)

Lemma header_ok_sound : forall nf ld b, header_ok nf ld b = true ->
  exists f h, lookup (br_file b) (ld_files ld) = Some f /\ 0 <= br_off b /\
    parse_hdr (readline f (br_off b)) = Some h /\
    h_lo h = br_lo b /\ h_hi h = br_hi b /\ h_nc h = nf /\
    exists shp, hdr_shape h = Some shp.
Proof.
  intros nf ld b H. unfold header_ok in H.
  destruct (lookup (br_file b) (ld_files ld)) as [f|] eqn:El; [|discriminate].
  destruct (br_off b <? 0) eqn:Eo; [discriminate|].
  destruct (parse_hdr (readline f (br_off b))) as [h|] eqn:Ep; [|discriminate].
  destruct (hdr_shape h) as [shp|] eqn:Es; [|discriminate].
  apply andb_true_iff in H. destruct H as [H H3].
  apply andb_true_iff in H. destruct H as [H1 H2].
  exists f, h. split; [reflexivity|]. split; [lia|]. split; [exact Ep|].
  split; [apply list_eqb_eq; exact H1|]. split; [apply list_eqb_eq; exact H2|].
  split; [lia|]. exists shp. exact Es.
Qed.

Theorem check_headers_sound : forall nf ld c b,
  check_headers nf ld c = true -> In b (cell_boxes c) ->
  exists f h, lookup (br_file b) (ld_files ld) = Some f /\ 0 <= br_off b /\
    parse_hdr (readline f (br_off b)) = Some h /\
    h_lo h = br_lo b /\ h_hi h = br_hi b /\ h_nc h = nf /\
    exists shp, hdr_shape h = Some shp.
Proof.
  intros nf ld c b H Hin. unfold check_headers in H.
  rewrite forallb_forall in H. apply header_ok_sound. apply H. exact Hin.
Qed.
(* ------------------------------------------------------------------ *)
(** * Lines *)

Lemma take_line_prefix : forall s, exists r, s = take_line s ++ r.
Proof.
  induction s as [|c s [r IH]]; cbn [take_line].
  - exists []. reflexivity.
  - destruct (Ascii.eqb c nl).
    + exists s. reflexivity.
    + exists r. cbn [app]. f_equal. exact IH.
Qed.

Lemma take_line_app_nl : forall s e,
  In nl (take_line s) -> take_line (s ++ e) = take_line s.
Proof.
  induction s as [|c s IH]; intros e H; cbn [take_line] in H; [destruct H|].
  cbn [app take_line].
  destruct (Ascii.eqb c nl) eqn:E; [reflexivity|].
  f_equal. apply IH. destruct H as [H|H]; [|exact H].
  subst c. rewrite Ascii.eqb_refl in E. discriminate.
Qed.

Lemma take_line_In_nl : forall s, In nl s -> In nl (take_line s).
Proof.
  induction s as [|c s IH]; intros H; [destruct H|].
  cbn [take_line]. destruct (Ascii.eqb c nl) eqn:E.
  - apply Ascii.eqb_eq in E. subst c. left. reflexivity.
  - right. apply IH. destruct H as [H|H]; [|exact H].
    subst c. rewrite Ascii.eqb_refl in E. discriminate.
Qed.

Lemma take_line_incl : forall s x, In x (take_line s) -> In x s.
Proof.
  induction s as [|c s IH]; intros x H; cbn [take_line] in H; [exact H|].
  destruct (Ascii.eqb c nl).
  - destruct H as [H|[]]. left. exact H.
  - destruct H as [H|H]; [left; exact H|right; apply IH; exact H].
Qed.

Lemma print_hdr_In_nl lo hi nc : In nl (print_hdr lo hi nc).
Proof. rewrite print_hdr_body. apply in_or_app. right. left. reflexivity. Qed.

Lemma print_hdr_nonnil lo hi nc : print_hdr lo hi nc <> [].
Proof.
  intros E. pose proof (blen_print_hdr_pos lo hi nc) as H. rewrite E in H.
  unfold blen in H. cbn [length] in H. lia.
Qed.

(* ------------------------------------------------------------------ *)
(** * (3) Binary shape: the walk establishes an exact tiling *)

(* the payload size a header line announces is non-negative *)
Definition payload_nonneg (h : bytes) : Prop :=
  forall hd shp, parse_hdr h = Some hd -> hdr_shape hd = Some shp ->
                 0 <= zprod shp * h_nc hd.

Definition tile_ok (t : bytes * bytes) : Prop :=
  exists n, hdr_payload (fst t) = Some n /\ blen (snd t) = n.

(* [h] is the header line just read, sitting in the file right before the
   current position: the file is [pre ++ h ++ post] and the position is
   [blen pre + blen h]. *)
Theorem walk_shape_tiled : forall nf nexts pre h post,
  walk_shape nf (pre ++ h ++ post) (blen pre + blen h) h nexts = true ->
  payload_nonneg h ->
  Forall (fun b => payload_nonneg (print_hdr (br_lo b) (br_hi b) nf)) nexts ->
  exists tiles : list (bytes * bytes),
    length tiles = S (length nexts) /\
    h ++ post = concat (map tile_bytes tiles) /\
    Forall tile_ok tiles /\
    fst (hd ([], []) tiles) = h /\
    Forall2 (fun t b => fst t = print_hdr (br_lo b) (br_hi b) nf) (tl tiles) nexts.
Proof.
  intros nf nexts. induction nexts as [|b more IH]; intros pre h post Hw Hh Hn.
  - cbn [walk_shape] in Hw.
    destruct (parse_hdr h) as [hd|] eqn:Ep; [|discriminate].
    destruct (hdr_shape hd) as [shp|] eqn:Es; [|discriminate].
    cbv zeta in Hw.
    destruct (blen pre + blen h + zprod shp * h_nc hd * 8 <? 0) eqn:Eneg; [discriminate|].
    apply Z.eqb_eq in Hw. rewrite !blen_app in Hw.
    exists [(h, post)]. split; [reflexivity|]. split.
    { cbn [map concat]. unfold tile_bytes. cbn [fst snd]. rewrite app_nil_r. reflexivity. }
    split.
    { constructor; [|constructor]. exists (8 * zprod shp * h_nc hd). cbn [fst snd].
      split; [|lia]. unfold hdr_payload. rewrite Ep. cbn [obind]. rewrite Es. reflexivity. }
    split; [reflexivity|]. cbn [tl]. constructor.
  - cbn [walk_shape] in Hw.
    destruct (parse_hdr h) as [hd|] eqn:Ep; [|discriminate].
    destruct (hdr_shape hd) as [shp|] eqn:Es; [|discriminate].
    cbv zeta in Hw.
    pose proof (Hh hd shp Ep Es) as Hn0.
    remember (zprod shp * h_nc hd * 8) as n eqn:En.
    assert (Hn0' : 0 <= n) by lia.
    destruct (blen pre + blen h + n <? 0) eqn:Eneg; [discriminate|].
    remember (pre ++ h ++ post) as f eqn:Ef.
    remember (print_hdr (br_lo b) (br_hi b) nf) as line eqn:Eline.
    destruct (bytes_eqb (readline f (blen pre + blen h + n)) line) eqn:Eb; [|discriminate].
    apply bytes_eqb_eq in Eb. rewrite Eb in Hw.
    assert (Hr : rest f (blen pre + blen h + n) = zskipn n post).
    { unfold rest. rewrite Ef, app_assoc.
      rewrite zskipn_app_ge by (rewrite blen_app; lia).
      f_equal. rewrite blen_app. lia. }
    unfold readline in Eb. rewrite Hr in Eb.
    assert (Hne : line <> []) by (rewrite Eline; apply print_hdr_nonnil).
    assert (Hle : n <= blen post).
    { destruct (Z_le_gt_dec n (blen post)) as [Hle|Hgt]; [exact Hle|].
      exfalso. apply Hne. rewrite <- Eb.
      unfold zskipn. rewrite skipn_all2; [reflexivity|]. unfold blen in Hgt. lia. }
    destruct (take_line_prefix (zskipn n post)) as [post' Hp']. rewrite Eb in Hp'.
    assert (Hpost : post = zfirstn n post ++ line ++ post').
    { rewrite <- Hp'. unfold zfirstn, zskipn. symmetry. apply firstn_skipn. }
    assert (Hpl : blen (zfirstn n post) = n) by (apply blen_zfirstn; lia).
    remember (zfirstn n post) as pl eqn:Epl.
    assert (Hf : f = (pre ++ h ++ pl) ++ line ++ post').
    { rewrite Ef, Hpost, <- !app_assoc. reflexivity. }
    assert (Hpos : blen pre + blen h + n + blen line = blen (pre ++ h ++ pl) + blen line).
    { rewrite !blen_app. lia. }
    rewrite Hpos, Hf in Hw.
    inversion Hn as [|b' more' Hb Hmore]; subst b' more'.
    rewrite <- Eline in Hb.
    destruct (IH _ _ _ Hw Hb Hmore) as (tiles & Hlen & Hcat & Hok & Hfst & HF2).
    exists ((h, pl) :: tiles).
    split; [cbn [length]; rewrite Hlen; reflexivity|]. split.
    { cbn [map concat]. unfold tile_bytes at 1. cbn [fst snd].
      rewrite <- Hcat, <- app_assoc, <- Hpost. reflexivity. }
    split.
    { constructor; [|exact Hok]. exists (8 * zprod shp * h_nc hd). cbn [fst snd].
      split; [|lia]. unfold hdr_payload. rewrite Ep. cbn [obind]. rewrite Es. reflexivity. }
    split; [reflexivity|]. cbn [tl].
    destruct tiles as [|t0 tiles']; [discriminate Hlen|].
    cbn [List.hd tl] in *. constructor; [exact (eq_trans Hfst Eline)|exact HF2].
Qed.

(* the same statement in positional form: [h] is the [blen h] bytes of [f]
   that end at [pos] *)
Corollary walk_shape_tiled_pos : forall nf f nexts pos h,
  blen h <= pos ->
  zfirstn (blen h) (zskipn (pos - blen h) f) = h ->
  walk_shape nf f pos h nexts = true ->
  payload_nonneg h ->
  Forall (fun b => payload_nonneg (print_hdr (br_lo b) (br_hi b) nf)) nexts ->
  exists tiles : list (bytes * bytes),
    length tiles = S (length nexts) /\
    zskipn (pos - blen h) f = concat (map tile_bytes tiles) /\
    Forall tile_ok tiles /\
    hd ([], []) tiles = (h, snd (hd ([], []) tiles)) /\
    Forall2 (fun t b => fst t = print_hdr (br_lo b) (br_hi b) nf) (tl tiles) nexts.
Proof.
  intros nf f nexts pos h Hle Hh Hw Hp Hn.
  destruct h as [|c0 h0] eqn:Eh.
  { destruct nexts; cbn in Hw; discriminate. }
  rewrite <- Eh in *. clear Eh c0 h0.
  set (q := pos - blen h) in *.
  assert (Hsplit : zskipn q f = h ++ zskipn (blen h) (zskipn q f)).
  { rewrite <- Hh at 1. unfold zfirstn, zskipn. symmetry. apply firstn_skipn. }
  assert (Hf : f = zfirstn q f ++ h ++ zskipn (blen h) (zskipn q f)).
  { rewrite <- Hsplit. unfold zfirstn, zskipn. symmetry. apply firstn_skipn. }
  assert (Hq : q <= blen f).
  { destruct (Z_le_gt_dec q (blen f)) as [H|H]; [exact H|]. exfalso.
    assert (E : zskipn q f = []) by (unfold zskipn; apply skipn_all2; unfold blen in H; lia).
    rewrite E in Hh. unfold zfirstn in Hh. rewrite firstn_nil in Hh. subst h.
    destruct nexts; cbn in Hw; discriminate. }
  assert (Hpre : blen (zfirstn q f) = q) by (apply blen_zfirstn; lia).
  rewrite Hf in Hw.
  replace pos with (blen (zfirstn q f) + blen h) in Hw by lia.
  destruct (walk_shape_tiled _ _ _ _ _ Hw Hp Hn) as (tiles & Hlen & Hcat & Hok & Hfst & HF2).
  exists tiles. split; [exact Hlen|]. split; [rewrite Hsplit; exact Hcat|].
  split; [exact Hok|]. split; [|exact HF2].
  destruct tiles as [|[a p] tiles']; [discriminate Hlen|]. cbn [List.hd fst snd] in *. subst a. reflexivity.
Qed.

(* ---- non-negativity of the announced payload for valid boxes ---- *)

Lemma zprod_box_shape_ge1 : forall lo hi,
  Forall2 (fun l h => l <= h) lo hi ->
  1 <= zprod (zip_with (fun h l => h - l + 1) hi lo).
Proof.
  intros lo hi H. induction H as [|l h lo hi Hlh _ IH]; cbn [zip_with zprod fold_right].
  - lia.
  - fold (zprod (zip_with (fun h0 l0 => h0 - l0 + 1) hi lo)).
    set (p := zprod _) in *. change (1 * 1 <= (h - l + 1) * p).
    apply Z.mul_le_mono_nonneg; lia.
Qed.

Lemma box_valid_payload : forall nf b, 0 <= nf -> box_valid b ->
  payload_nonneg (print_hdr (br_lo b) (br_hi b) nf).
Proof.
  intros nf b Hnf (Hlen & Hne & HF) hd shp Hp Hs.
  assert (Hhi : br_hi b <> []).
  { intros E. rewrite E in Hlen. destruct (br_lo b); [congruence|discriminate]. }
  rewrite (parse_print_hdr _ _ nf Hne Hhi) in Hp. injection Hp as <-.
  unfold hdr_shape, np_binop in Hs. cbn [h_hi h_lo h_nc] in *.
  rewrite <- Hlen, Nat.eqb_refl in Hs. injection Hs as <-.
  pose proof (zprod_box_shape_ge1 _ _ HF) as H1.
  apply Z.mul_nonneg_nonneg; lia.
Qed.

(* ---- the per-file check ---- *)

(* [file_tiled], together with the facts about the first tile that the
   definition leaves out *)
Theorem shape_ok_file_tiles : forall nf ld c name f,
  lookup name (ld_files ld) = Some f -> file_boxes c name <> [] ->
  shape_ok_file nf ld c name = true ->
  0 <= nf -> Forall box_valid (tl (file_boxes c name)) ->
  payload_nonneg (readline f 0) ->
  exists tiles : list (bytes * bytes),
    length tiles = length (file_boxes c name) /\
    f = concat (map tile_bytes tiles) /\
    Forall tile_ok tiles /\
    Forall2 (fun t b => fst t = print_hdr (br_lo b) (br_hi b) nf)
            (tl tiles) (tl (file_boxes c name)) /\
    fst (hd ([], []) tiles) = readline f 0.
Proof.
  intros nf ld c name f Hl Hne Hs Hnf Hv Hh.
  unfold shape_ok_file in Hs. rewrite Hl in Hs.
  change (sort_by_off (filter (fun b => bytes_eqb (br_file b) name) (cell_boxes c)))
    with (file_boxes c name) in Hs.
  destruct (file_boxes c name) as [|b0 more] eqn:Eb; [congruence|].
  cbv zeta in Hs. cbn [tl length] in *.
  destruct (take_line_prefix f) as [post Hp].
  unfold readline, rest in *. rewrite zskipn_0 in *.
  set (h := take_line f) in *.
  assert (Hw : walk_shape nf ([] ++ h ++ post) (blen (@nil ascii) + blen h) h more = true).
  { cbn [app]. rewrite <- Hp. exact Hs. }
  destruct (walk_shape_tiled nf more [] h post Hw Hh) as (tiles & Hlen & Hcat & Hok & Hfst & HF2).
  { revert Hv. apply Forall_impl. intros b. apply box_valid_payload. exact Hnf. }
  exists tiles. split; [exact Hlen|]. split; [rewrite Hp; exact Hcat|].
  split; [exact Hok|]. split; [exact HF2|exact Hfst].
Qed.

Theorem shape_ok_file_tiled_strong : forall nf ld c name f,
  lookup name (ld_files ld) = Some f -> file_boxes c name <> [] ->
  shape_ok_file nf ld c name = true ->
  0 <= nf -> Forall box_valid (tl (file_boxes c name)) ->
  payload_nonneg (readline f 0) ->
  file_tiled nf f (file_boxes c name).
Proof.
  intros nf ld c name f Hl Hne Hs Hnf Hv Hh.
  destruct (shape_ok_file_tiles nf ld c name f Hl Hne Hs Hnf Hv Hh)
    as (tiles & Hlen & Hcat & Hok & HF2 & _).
  exists tiles. split; [exact Hlen|]. split; [exact Hcat|]. split; [exact Hok|exact HF2].
Qed.

Theorem shape_ok_file_tiled : forall nf ld c name f,
  lookup name (ld_files ld) = Some f -> file_boxes c name <> [] ->
  shape_ok_file nf ld c name = true ->
  0 <= nf -> Forall box_valid (file_boxes c name) ->
  (forall hd shp, parse_hdr (readline f 0) = Some hd -> hdr_shape hd = Some shp ->
                  0 <= zprod shp * h_nc hd) ->
  file_tiled nf f (file_boxes c name).
Proof.
  intros nf ld c name f Hl Hne Hs Hnf Hv Hh.
  apply (shape_ok_file_tiled_strong nf ld c name f Hl Hne Hs Hnf); [|exact Hh].
  destruct (file_boxes c name) as [|b0 more]; [constructor|].
  inversion Hv; assumption.
Qed.

(* with a single box the first header needs no side condition: the final
   position test forces its payload to be what is left of the file *)
Theorem shape_ok_file_tiled_single : forall nf ld c name f b,
  lookup name (ld_files ld) = Some f -> file_boxes c name = [b] ->
  shape_ok_file nf ld c name = true ->
  file_tiled nf f [b].
Proof.
  intros nf ld c name f b Hl Eb Hs.
  unfold shape_ok_file in Hs. rewrite Hl in Hs.
  change (sort_by_off (filter (fun b => bytes_eqb (br_file b) name) (cell_boxes c)))
    with (file_boxes c name) in Hs.
  rewrite Eb in Hs. cbv zeta in Hs.
  destruct (take_line_prefix f) as [post Hp].
  unfold readline, rest in *. rewrite zskipn_0 in *.
  set (h := take_line f) in *. cbn [walk_shape] in Hs.
  destruct (parse_hdr h) as [hd|] eqn:Ep; [|discriminate].
  destruct (hdr_shape hd) as [shp|] eqn:Es; [|discriminate].
  cbv zeta in Hs.
  destruct (blen h + zprod shp * h_nc hd * 8 <? 0); [discriminate|].
  apply Z.eqb_eq in Hs. rewrite Hp, blen_app in Hs.
  exists [(h, post)]. split; [reflexivity|]. split.
  { cbn [map concat]. unfold tile_bytes. cbn [fst snd]. rewrite app_nil_r. exact Hp. }
  split; [|constructor].
  constructor; [|constructor]. exists (8 * zprod shp * h_nc hd). cbn [fst snd].
  split; [|lia]. unfold hdr_payload. rewrite Ep. cbn [obind]. rewrite Es. reflexivity.
Qed.

(* ---- truncation / extension ---- *)

Lemma walk_shape_extend : forall nf extra nexts f pos h, extra <> [] ->
  walk_shape nf f pos h nexts = true ->
  walk_shape nf (f ++ extra) pos h nexts = false.
Proof.
  intros nf extra nexts. induction nexts as [|b more IH]; intros f pos h Hx Hw.
  - cbn [walk_shape] in *.
    destruct (parse_hdr h) as [hd|]; [|discriminate].
    destruct (hdr_shape hd) as [shp|]; [|discriminate].
    cbv zeta in *.
    destruct (pos + zprod shp * h_nc hd * 8 <? 0); [discriminate|].
    apply Z.eqb_eq in Hw. apply Z.eqb_neq. rewrite blen_app.
    assert (0 < blen extra).
    { destruct extra; [congruence|]. rewrite blen_cons. pose proof (blen_nonneg extra). lia. }
    lia.
  - cbn [walk_shape] in *.
    destruct (parse_hdr h) as [hd|]; [|discriminate].
    destruct (hdr_shape hd) as [shp|]; [|discriminate].
    cbv zeta in *.
    set (p := pos + zprod shp * h_nc hd * 8) in *.
    destruct (p <? 0) eqn:Eneg; [discriminate|].
    set (line := print_hdr (br_lo b) (br_hi b) nf) in *.
    destruct (bytes_eqb (readline f p) line) eqn:Eb; [|discriminate].
    apply bytes_eqb_eq in Eb.
    assert (Hin : In nl (readline f p)) by (rewrite Eb; apply print_hdr_In_nl).
    assert (E : readline (f ++ extra) p = readline f p).
    { unfold readline, rest in *.
      destruct (Z_le_gt_dec p (blen f)) as [Hle|Hgt].
      - rewrite zskipn_app_le by exact Hle. apply take_line_app_nl. exact Hin.
      - exfalso. unfold zskipn in Hin. rewrite skipn_all2 in Hin; [destruct Hin|].
        unfold blen in Hgt. lia. }
    rewrite E, Eb. rewrite Eb in Hw.
    assert (Hrefl : bytes_eqb line line = true) by (apply bytes_eqb_eq; reflexivity).
    rewrite Hrefl. apply IH; assumption.
Qed.

(* an accepted file, extended by any non-empty bytes, is rejected - provided
   the first line of the file is terminated by a newline inside the file *)
Theorem shape_ok_file_length : forall nf ld c name f extra,
  lookup name (ld_files ld) = Some f -> extra <> [] -> file_boxes c name <> [] ->
  In nl f ->
  shape_ok_file nf ld c name = true ->
  forall ld', lookup name (ld_files ld') = Some (f ++ extra) ->
              shape_ok_file nf ld' c name = false.
Proof.
  intros nf ld c name f extra Hl Hx Hne Hnl Hs ld' Hl'.
  unfold shape_ok_file in *. rewrite Hl in Hs. rewrite Hl'.
  change (sort_by_off (filter (fun b => bytes_eqb (br_file b) name) (cell_boxes c)))
    with (file_boxes c name) in *.
  destruct (file_boxes c name) as [|b0 more]; [congruence|].
  cbv zeta in *.
  assert (E : readline (f ++ extra) 0 = readline f 0).
  { unfold readline, rest. rewrite !zskipn_0. apply take_line_app_nl.
    apply take_line_In_nl. exact Hnl. }
  rewrite E. apply walk_shape_extend; assumption.
Qed.

(* with two boxes or more the newline is there anyway *)
Lemma skipn_incl {A} : forall n (l : list A) x, In x (skipn n l) -> In x l.
Proof.
  induction n as [|n IH]; intros l x H; [exact H|].
  destruct l as [|a l]; [exact H|]. right. apply IH. exact H.
Qed.

Theorem shape_ok_file_newline : forall nf ld c name f b0 b1 more,
  lookup name (ld_files ld) = Some f -> file_boxes c name = b0 :: b1 :: more ->
  shape_ok_file nf ld c name = true -> In nl f.
Proof.
  intros nf ld c name f b0 b1 more Hl Eb Hs.
  unfold shape_ok_file in Hs. rewrite Hl in Hs.
  change (sort_by_off (filter (fun b => bytes_eqb (br_file b) name) (cell_boxes c)))
    with (file_boxes c name) in Hs.
  rewrite Eb in Hs. cbv zeta in Hs. cbn [walk_shape] in Hs.
  destruct (parse_hdr (readline f 0)) as [hd|]; [|discriminate].
  destruct (hdr_shape hd) as [shp|]; [|discriminate].
  cbv zeta in Hs.
  set (p := blen (readline f 0) + zprod shp * h_nc hd * 8) in *.
  destruct (p <? 0); [discriminate|].
  destruct (bytes_eqb (readline f p) (print_hdr (br_lo b1) (br_hi b1) nf)) eqn:E; [|discriminate].
  apply bytes_eqb_eq in E.
  pose proof (print_hdr_In_nl (br_lo b1) (br_hi b1) nf) as Hin. rewrite <- E in Hin.
  unfold readline, rest, zskipn in Hin.
  apply take_line_incl in Hin. apply skipn_incl in Hin. exact Hin.
Qed.

Corollary shape_ok_file_length_multi : forall nf ld c name f extra b0 b1 more,
  lookup name (ld_files ld) = Some f -> extra <> [] ->
  file_boxes c name = b0 :: b1 :: more ->
  shape_ok_file nf ld c name = true ->
  forall ld', lookup name (ld_files ld') = Some (f ++ extra) ->
              shape_ok_file nf ld' c name = false.
Proof.
  intros nf ld c name f extra b0 b1 more Hl Hx Eb Hs ld' Hl'.
  apply (shape_ok_file_length nf ld c name f extra Hl Hx); try assumption.
  - rewrite Eb. discriminate.
  - apply (shape_ok_file_newline nf ld c name f b0 b1 more); assumption.
Qed.

(* ---- from the level-wide check to one file / one box ---- *)

Theorem check_shape_sound : forall nf ld c name,
  check_shape nf ld c = true -> In name (c_files c) ->
  shape_ok_file nf ld c name = true /\ exists f, lookup name (ld_files ld) = Some f.
Proof.
  intros nf ld c name H Hin. unfold check_shape in H. rewrite forallb_forall in H.
  assert (Hs : shape_ok_file nf ld c name = true) by (apply H; apply np_unique_In; exact Hin).
  split; [exact Hs|]. unfold shape_ok_file in Hs.
  destruct (lookup name (ld_files ld)) as [f|]; [|discriminate]. exists f. reflexivity.
Qed.

Lemma zip3_In_file : forall fs os ix b, In b (zip3 fs os ix) -> In (br_file b) fs.
Proof.
  induction fs as [|f fs IH]; intros os ix b H; cbn [zip3] in H; [destruct H|].
  destruct os as [|o os]; [destruct H|]. destruct ix as [|[lo hi] ix]; [destruct H|].
  destruct H as [H|H]; [subst b; left; reflexivity|right; exact (IH _ _ _ H)].
Qed.

Lemma insert_by_off_In_rev (b : boxrec) : forall l x,
  x = b \/ In x l -> In x (insert_by_off b l).
Proof.
  induction l as [|y l IH]; intros x H; cbn [insert_by_off].
  - destruct H as [H|[]]. left. symmetry. exact H.
  - destruct (br_off b <? br_off y).
    + destruct H as [H|H]; [left; symmetry; exact H|right; exact H].
    + destruct H as [H|[H|H]]; [right; apply IH; left; exact H|left; exact H|right; apply IH; right; exact H].
Qed.

Lemma sort_by_off_In_rev : forall l x, In x l -> In x (sort_by_off l).
Proof.
  induction l as [|b l IH]; intros x H; [exact H|].
  unfold sort_by_off. cbn [fold_right]. fold (sort_by_off l).
  apply insert_by_off_In_rev. destruct H as [H|H]; [left; symmetry; exact H|right; apply IH; exact H].
Qed.

(* every box of a level whose shape check passes lies in a file that passes
   the per-file check, among the boxes the walk goes through *)
Theorem check_shape_box : forall nf ld c b,
  check_shape nf ld c = true -> In b (cell_boxes c) ->
  In b (file_boxes c (br_file b)) /\
  shape_ok_file nf ld c (br_file b) = true /\
  exists f, lookup (br_file b) (ld_files ld) = Some f.
Proof.
  intros nf ld c b H Hin. split.
  - unfold file_boxes. apply sort_by_off_In_rev. apply filter_In. split; [exact Hin|].
    apply bytes_eqb_eq. reflexivity.
  - apply check_shape_sound; [exact H|]. unfold cell_boxes in Hin.
    apply zip3_In_file in Hin. exact Hin.
Qed.

(* ------------------------------------------------------------------ *)
(** * (4) Reading what was accepted *)

Definition all_fields : farg := FSlice None None None.

Lemma firstn_add_skipn {A} : forall (n m : nat) (l : list A),
  firstn n l ++ firstn m (skipn n l) = firstn (n + m) l.
Proof.
  induction n as [|n IH]; intros m l; [reflexivity|].
  destruct l as [|a l]; cbn [firstn skipn Nat.add app].
  - rewrite firstn_nil. reflexivity.
  - f_equal. apply IH.
Qed.

(* two adjacent blocks make one block *)
Lemma sub_app_adj (a l1 l2 : Z) (x : bytes) :
  0 <= a -> 0 <= l1 -> 0 <= l2 ->
  sub a l1 x ++ sub (a + l1) l2 x = sub a (l1 + l2) x.
Proof.
  intros Ha H1 H2. unfold sub.
  replace (a + l1) with (l1 + a) by lia.
  rewrite <- (zskipn_zskipn x l1 a H1 Ha).
  unfold zfirstn, zskipn. rewrite firstn_add_skipn. f_equal. lia.
Qed.

Lemma concat_blocks (chunk : Z) (data : bytes) : 0 <= chunk ->
  forall (m k : nat),
  concat (map (fun i => sub (chunk * i) chunk data) (map Z.of_nat (seq k m)))
  = sub (chunk * Z.of_nat k) (chunk * Z.of_nat m) data.
Proof.
  intros Hc. induction m as [|m IH]; intros k.
  - cbn [seq map concat]. unfold sub, zfirstn.
    replace (Z.to_nat (chunk * Z.of_nat 0)) with 0%nat by lia. reflexivity.
  - cbn [seq map concat]. rewrite IH.
    replace (chunk * Z.of_nat (S k)) with (chunk * Z.of_nat k + chunk) by lia.
    rewrite sub_app_adj by nia. f_equal. lia.
Qed.

Lemma range_list_all (n : Z) : 0 <= n ->
  range_list 0 n 1 = map Z.of_nat (seq 0 (Z.to_nat n)).
Proof.
  intros Hn. unfold range_list.
  assert (E : range_len 0 n 1 = n).
  { unfold range_len. change (0 <? 1) with true. cbv iota.
    destruct (0 <? n) eqn:E0; [|lia].
    rewrite Z.div_1_r. lia. }
  rewrite E. apply map_ext. intros i. lia.
Qed.

(* all the components of a block-structured payload: the payload itself *)
Theorem take_comps_all : forall chunk n data,
  0 <= chunk -> 0 <= n -> blen data = chunk * n ->
  take_comps chunk (range_list 0 n 1) data = data.
Proof.
  intros chunk n data Hc Hn Hd. unfold take_comps.
  rewrite range_list_all by exact Hn.
  rewrite concat_blocks by exact Hc.
  unfold sub. replace (chunk * Z.of_nat 0) with 0 by lia. rewrite zskipn_0.
  apply zfirstn_all. lia.
Qed.

Lemma blen_range_list_all (n : Z) : 0 <= n -> blen (range_list 0 n 1) = n.
Proof.
  intros Hn. rewrite range_list_all by exact Hn.
  unfold blen. rewrite map_length, seq_length. lia.
Qed.

Lemma slice_indices_all (n : Z) : 0 <= n ->
  slice_indices None None None n = Some (0, n, 1).
Proof.
  intros Hn. unfold slice_indices.
  destruct (0 <=? n) eqn:E; [|lia]. reflexivity.
Qed.

Lemma zprod_nonneg (l : list Z) : Forall (fun d => 0 <= d) l -> 0 <= zprod l.
Proof.
  unfold zprod. induction 1 as [|a l Ha _ IH]; cbn [fold_right]; [lia|].
  apply Z.mul_nonneg_nonneg; assumption.
Qed.

Lemma read_block_all (f : bytes) (pos : Z) (shp : list Z) (n : Z) :
  0 <= pos -> 0 <= zprod shp * n -> pos + 8 * (zprod shp * n) <= blen f ->
  read_block f pos shp 0 n
  = Some (sub pos (8 * (zprod shp * n)) f, pos + 8 * (zprod shp * n)).
Proof.
  intros Hp Hc Hle. unfold read_block. cbv zeta.
  replace (pos + zprod shp * 0 * 8) with pos by lia.
  destruct (0 <=? pos) eqn:E; [|lia].
  assert (Hd : fromfile f pos (zprod shp * n) = sub pos (8 * (zprod shp * n)) f).
  { unfold fromfile, rest, sub. cbv zeta.
    rewrite blen_zskipn by lia.
    set (cnt := zprod shp * n) in *.
    destruct (cnt <? 0) eqn:E1; [lia|].
    replace (Z.min cnt ((blen f - pos) / 8)) with cnt by lia. reflexivity. }
  rewrite Hd. rewrite blen_sub by lia. reflexivity.
Qed.

Theorem accepted_box_readable : forall nf f (b : boxrec) h shp,
  0 <= nf -> 0 <= br_off b ->
  parse_hdr (readline f (br_off b)) = Some h ->
  h_lo h = br_lo b -> h_hi h = br_hi b -> h_nc h = nf ->
  hdr_shape h = Some shp -> Forall (fun d => 0 <= d) shp ->
  br_off b + blen (readline f (br_off b)) + 8 * zprod shp * nf <= blen f ->
  read_box f (br_off b) all_fields =
    Some {| a_shape := shp ++ [nf];
            a_data := sub (br_off b + blen (readline f (br_off b))) (8 * zprod shp * nf) f |}.
Proof.
  intros nf f b h shp Hnf Hoff Hp _ _ Hnc Hs Hshp Hle.
  pose proof (zprod_nonneg shp Hshp) as Hz.
  pose proof (blen_nonneg (readline f (br_off b))) as Hl0.
  assert (Hc : 0 <= zprod shp * nf) by (apply Z.mul_nonneg_nonneg; assumption).
  unfold read_box. destruct (0 <=? br_off b) eqn:E; [|lia].
  unfold read_header. cbv zeta. rewrite Hp. cbn [obind]. rewrite Hs. cbn [obind].
  set (pos := br_off b + blen (readline f (br_off b))) in *.
  unfold all_fields, read_selected. cbv zeta.
  rewrite Hnc, (slice_indices_all nf Hnf). cbn [obind].
  change (0 <? 1) with true. cbv iota.
  replace (Z.max (nf - 0) 0) with nf by lia.
  rewrite (read_block_all f pos shp nf) by lia. cbn [obind].
  set (data := sub pos (8 * (zprod shp * nf)) f).
  assert (Hd : blen data = 8 * (zprod shp * nf)) by (apply blen_sub; lia).
  rewrite reshape_ok_true.
  - rewrite blen_range_list_all by exact Hnf.
    rewrite take_comps_all; [| lia | exact Hnf | lia].
    unfold data. replace (8 * zprod shp * nf) with (8 * (zprod shp * nf)) by lia. reflexivity.
  - rewrite forallb_app. cbn [forallb]. apply andb_true_iff. split; [|lia].
    apply forallb_forall. rewrite Forall_forall in Hshp. intros d Hd'.
    specialize (Hshp d Hd'). lia.
  - rewrite zprod_app1. exact Hd.
Qed.

(* ---- the payload of a tile is available at the tile's offset ---- *)

(* start position of the k-th tile: the total size of the preceding tiles *)
Definition tile_off (tiles : list (bytes * bytes)) (k : nat) : Z :=
  blen (concat (map tile_bytes (firstn k tiles))).

Lemma tiles_split : forall (tiles : list (bytes * bytes)) k, (k < length tiles)%nat ->
  concat (map tile_bytes tiles) =
  concat (map tile_bytes (firstn k tiles)) ++
  fst (nth k tiles ([], [])) ++ snd (nth k tiles ([], [])) ++
  concat (map tile_bytes (skipn (S k) tiles)).
Proof.
  induction tiles as [|t tiles IH]; intros k Hk; cbn [length] in Hk; [lia|].
  destruct k as [|k].
  - cbn [firstn map concat nth skipn app]. unfold tile_bytes at 1.
    rewrite <- app_assoc. reflexivity.
  - cbn [firstn map concat nth]. rewrite (IH k) by lia.
    rewrite <- app_assoc. reflexivity.
Qed.

Lemma tile_payload_at : forall tiles k f,
  f = concat (map tile_bytes tiles) -> (k < length tiles)%nat ->
  let t := nth k tiles ([], []) in
  rest f (tile_off tiles k) =
    fst t ++ snd t ++ concat (map tile_bytes (skipn (S k) tiles)) /\
  tile_off tiles k + blen (fst t) + blen (snd t) <= blen f /\
  sub (tile_off tiles k + blen (fst t)) (blen (snd t)) f = snd t.
Proof.
  intros tiles k f Hf Hk t. subst f. rewrite (tiles_split tiles k Hk). fold t.
  unfold tile_off. set (pre := concat (map tile_bytes (firstn k tiles))).
  set (post := concat (map tile_bytes (skipn (S k) tiles))).
  split; [|split].
  - unfold rest. apply zskipn_app_exact.
  - rewrite !blen_app. pose proof (blen_nonneg post). lia.
  - unfold sub. rewrite app_assoc.
    replace (blen pre + blen (fst t)) with (blen (pre ++ fst t)) by apply blen_app.
    rewrite zskipn_app_exact. apply zfirstn_app_exact.
Qed.

(* a header line that [readline] returns whole whatever follows it: it ends
   with its only newline (every [print_hdr] line does) *)
Definition line_complete (h : bytes) : Prop := forall r, take_line (h ++ r) = h.

Lemma print_hdr_complete lo hi nc : line_complete (print_hdr lo hi nc).
Proof. intros r. apply take_line_print_hdr. Qed.

Lemma take_line_idem : forall s, take_line (take_line s) = take_line s.
Proof.
  induction s as [|c s IH]; [reflexivity|]. cbn [take_line].
  destruct (Ascii.eqb c nl) eqn:E; cbn [take_line]; rewrite E; [reflexivity|].
  f_equal. exact IH.
Qed.

(* a line read from a file that contains its newline is complete *)
Lemma take_line_complete : forall s, In nl (take_line s) -> line_complete (take_line s).
Proof.
  intros s H r. rewrite take_line_app_nl by (rewrite take_line_idem; exact H).
  apply take_line_idem.
Qed.

Theorem tiled_payload_available : forall tiles k f n,
  f = concat (map tile_bytes tiles) -> (k < length tiles)%nat ->
  let t := nth k tiles ([], []) in
  let off := tile_off tiles k in
  line_complete (fst t) -> blen (snd t) = n ->
  readline f off = fst t /\
  off + blen (readline f off) + n <= blen f /\
  sub (off + blen (readline f off)) n f = snd t.
Proof.
  intros tiles k f n Hf Hk t off Hc Hn.
  destruct (tile_payload_at tiles k f Hf Hk) as (Hr & Hle & Hs). fold t off in Hr, Hle, Hs.
  assert (E : readline f off = fst t) by (unfold readline; rewrite Hr; apply Hc).
  rewrite E, <- Hn. auto.
Qed.

(* ---- every tile of an accepted file starts with the line [readline]
        returns at its offset ---- *)

Lemma Forall2_nth_l {A B} (R : A -> B -> Prop) (d : A) : forall l1 l2 k,
  Forall2 R l1 l2 -> (k < length l1)%nat ->
  exists b, nth_error l2 k = Some b /\ R (nth k l1 d) b.
Proof.
  intros l1 l2 k H. revert k. induction H as [|a b l1 l2 Hab _ IH]; intros k Hk;
    cbn [length] in Hk; [lia|].
  destruct k as [|k]; cbn [nth nth_error].
  - exists b. auto.
  - apply IH. lia.
Qed.

Theorem tiles_readline : forall nf tiles nexts f,
  f = concat (map tile_bytes tiles) ->
  fst (hd ([], []) tiles) = readline f 0 ->
  Forall2 (fun t b => fst t = print_hdr (br_lo b) (br_hi b) nf) (tl tiles) nexts ->
  forall k, (k < length tiles)%nat ->
            readline f (tile_off tiles k) = fst (nth k tiles ([], [])).
Proof.
  intros nf tiles nexts f Hf H0 HF k Hk.
  destruct tiles as [|t0 tiles]; [cbn [length] in Hk; lia|].
  destruct k as [|k].
  - cbn [nth List.hd] in *. unfold tile_off. cbn [firstn map concat].
    rewrite blen_nil. symmetry. exact H0.
  - cbn [tl length] in *.
    destruct (Forall2_nth_l _ ([], []) _ _ k HF) as (b & _ & Hb); [unfold bytes in *; lia|].
    assert (Hk2 : (S k < length (t0 :: tiles))%nat) by (cbn [length]; lia).
    assert (Hc : line_complete (fst (nth (S k) (t0 :: tiles) ([], [])))).
    { cbn [nth]. unfold bytes in *. rewrite Hb. apply print_hdr_complete. }
    exact (proj1 (tiled_payload_available (t0 :: tiles) (S k) f _ Hf Hk2 Hc eq_refl)).
Qed.

(* ---- reading the k-th tile ---- *)

Lemma some_inj {A} (a b : A) : Some a = Some b -> a = b.
Proof. intros H. injection H as H. exact H. Qed.

Theorem tiled_box_readable : forall nf f tiles k (b : boxrec) h shp,
  f = concat (map tile_bytes tiles) -> (k < length tiles)%nat ->
  let t := nth k tiles ([], []) in
  tile_ok t ->
  readline f (tile_off tiles k) = fst t ->
  br_off b = tile_off tiles k ->
  0 <= nf ->
  parse_hdr (fst t) = Some h -> h_lo h = br_lo b -> h_hi h = br_hi b -> h_nc h = nf ->
  hdr_shape h = Some shp -> Forall (fun d => 0 <= d) shp ->
  read_box f (br_off b) all_fields = Some {| a_shape := shp ++ [nf]; a_data := snd t |}.
Proof.
  intros nf f tiles k b h shp Hf Hk t (n & Hpay & Hn) Hline Hoff Hnf Hp Hlo Hhi Hnc Hs Hshp.
  destruct (tile_payload_at tiles k f Hf Hk) as (_ & Hle & Hsub). fold t in Hle, Hsub.
  assert (Hpay' : hdr_payload (fst t) = Some (8 * zprod shp * nf)).
  { unfold hdr_payload. rewrite Hp. cbn [obind]. rewrite Hs. rewrite <- Hnc. reflexivity. }
  rewrite Hpay' in Hpay. apply some_inj in Hpay.
  assert (Hoff0 : 0 <= br_off b) by (rewrite Hoff; apply blen_nonneg).
  rewrite <- Hoff in Hline, Hle, Hsub.
  rewrite (accepted_box_readable nf f b h shp Hnf Hoff0); try assumption.
  - rewrite Hline. rewrite Hpay, <- Hn, Hsub. reflexivity.
  - rewrite Hline. exact Hp.
  - rewrite Hline. lia.
Qed.

(* ---- end to end: a file accepted by the shape check, a box whose header
        check passes and whose recorded offset is the start of its tile ---- *)

Lemma insert_by_off_In (b : boxrec) : forall l x,
  In x (insert_by_off b l) -> x = b \/ In x l.
Proof.
  induction l as [|y l IH]; intros x H; cbn [insert_by_off] in H.
  - destruct H as [H|[]]. left. symmetry. exact H.
  - destruct (br_off b <? br_off y).
    + destruct H as [H|H]; [left; symmetry; exact H|right; exact H].
    + destruct H as [H|H]; [right; left; exact H|].
      destruct (IH x H) as [H'|H']; [left; exact H'|right; right; exact H'].
Qed.

Lemma sort_by_off_In : forall l x, In x (sort_by_off l) -> In x l.
Proof.
  induction l as [|b l IH]; intros x H; [exact H|].
  unfold sort_by_off in H. cbn [fold_right] in H. fold (sort_by_off l) in H.
  apply insert_by_off_In in H. destruct H as [H|H]; [left; symmetry; exact H|right; apply IH; exact H].
Qed.

Lemma file_boxes_In : forall c name b, In b (file_boxes c name) ->
  In b (cell_boxes c) /\ br_file b = name.
Proof.
  intros c name b H. unfold file_boxes in H. apply sort_by_off_In in H.
  apply filter_In in H. destruct H as [H1 H2]. split; [exact H1|].
  apply bytes_eqb_eq. exact H2.
Qed.

Lemma box_valid_shape : forall b h shp, box_valid b ->
  h_lo h = br_lo b -> h_hi h = br_hi b -> hdr_shape h = Some shp ->
  shp = box_shape (br_lo b) (br_hi b) /\ Forall (fun d => 0 <= d) shp.
Proof.
  intros b h shp (Hlen & _ & HF) Hlo Hhi Hs.
  unfold hdr_shape, np_binop in Hs. rewrite Hlo, Hhi, <- Hlen, Nat.eqb_refl in Hs.
  injection Hs as <-. split; [reflexivity|].
  clear Hlen Hlo Hhi. induction HF as [|l x lo hi Hlx _ IH]; cbn [zip_with]; constructor; [lia|exact IH].
Qed.

Theorem accepted_file_readable : forall nf ld c name f,
  lookup name (ld_files ld) = Some f -> file_boxes c name <> [] ->
  shape_ok_file nf ld c name = true ->
  0 <= nf -> Forall box_valid (tl (file_boxes c name)) ->
  payload_nonneg (readline f 0) ->
  exists tiles : list (bytes * bytes),
    length tiles = length (file_boxes c name) /\
    f = concat (map tile_bytes tiles) /\
    forall k b,
      nth_error (file_boxes c name) k = Some b ->
      br_off b = tile_off tiles k ->
      header_ok nf ld b = true -> box_valid b ->
      read_box f (br_off b) all_fields =
        Some {| a_shape := box_shape (br_lo b) (br_hi b) ++ [nf];
                a_data := snd (nth k tiles ([], [])) |}.
Proof.
  intros nf ld c name f Hl Hne Hs Hnf Hv Hh.
  destruct (shape_ok_file_tiles nf ld c name f Hl Hne Hs Hnf Hv Hh)
    as (tiles & Hlen & Hcat & Hok & HF2 & Hfst).
  exists tiles. split; [exact Hlen|]. split; [exact Hcat|].
  intros k b Hk Hoff Hhok Hbv.
  assert (Hk' : (k < length tiles)%nat).
  { rewrite Hlen. apply nth_error_Some. rewrite Hk. discriminate. }
  apply nth_error_In in Hk. apply file_boxes_In in Hk. destruct Hk as [_ Hname].
  destruct (header_ok_sound nf ld b Hhok) as (f' & h & Hl' & Hoff0 & Hp & Hlo & Hhi & Hnc & shp & Hshp).
  rewrite Hname, Hl in Hl'. injection Hl' as <-.
  destruct (box_valid_shape b h shp Hbv Hlo Hhi Hshp) as [Eshp Hnn]. rewrite <- Eshp.
  pose proof (tiles_readline nf tiles _ f Hcat Hfst HF2 k Hk') as Hline.
  apply (tiled_box_readable nf f tiles k b h shp Hcat Hk'); try assumption.
  - rewrite Forall_forall in Hok. apply Hok. apply nth_In. exact Hk'.
  - rewrite <- Hline, <- Hoff. exact Hp.
Qed.

(* ------------------------------------------------------------------ *)
Print Assumptions taste_good_inv.
Print Assumptions open_levels_inv.
Print Assumptions taste_rejects_missing_header.
Print Assumptions taste_rejects_missing_file.
Print Assumptions check_headers_sound.
Print Assumptions walk_shape_tiled.
Print Assumptions walk_shape_tiled_pos.
Print Assumptions shape_ok_file_tiles.
Print Assumptions shape_ok_file_tiled_strong.
Print Assumptions shape_ok_file_tiled.
Print Assumptions shape_ok_file_tiled_single.
Print Assumptions shape_ok_file_length.
Print Assumptions shape_ok_file_newline.
Print Assumptions shape_ok_file_length_multi.
Print Assumptions check_shape_sound.
Print Assumptions check_shape_box.
Print Assumptions take_comps_all.
Print Assumptions accepted_box_readable.
Print Assumptions tiled_payload_available.
Print Assumptions tiles_readline.
Print Assumptions tiled_box_readable.
Print Assumptions accepted_file_readable.
