(* Completeness of the binary-data check of the validator model
   (Taste.check_data = taste_binary_data as repaired) and, with it, of the
   validator under ALL option sets.
   Standard library only, no axioms. *)
From AK Require Import Base.Prelude Bytes.Text Bytes.FabHeader Bytes.FabHeaderProofs
  Bytes.BinFile Bytes.Word Bytes.WordProofs Reader.Select Reader.BoxRead Reader.Level Reader.ReadSpec
  Reader.LayoutProofs Reader.ReadProofs Reader.IterProofs
  Plotfile.TextHeader Plotfile.HeaderSpec Plotfile.HeaderProofs
  Taste.Taste Taste.TasteSpec Plotfile.Abstract Taste.CompleteProofs
  Writers.Colander Writers.ColanderProofs Writers.CombineProofs.
From Coq Require Import Permutation Sorted.

(* ------------------------------------------------------------------ *)
(** * Insertion sort by a key: a strictly sorted permutation is the result *)
Section SortBy.
Context {A : Type} (key : A -> Z).
Definition key_lt (a b : A) : Prop := key a < key b.
Definition key_le (a b : A) : Prop := key a <= key b.

Lemma insert_by_perm b : forall l, Permutation (b :: l) (insert_by key b l).
Proof.
  induction l as [|x l IH]; cbn [insert_by]; [apply Permutation_refl|].
  destruct (key b <? key x); [apply Permutation_refl|].
  eapply perm_trans; [apply perm_swap|apply perm_skip; exact IH].
Qed.

Lemma sort_by_cons b l : sort_by key (b :: l) = insert_by key b (sort_by key l).
Proof. reflexivity. Qed.

Lemma sort_by_perm : forall l, Permutation l (sort_by key l).
Proof.
  induction l as [|b l IH]; [apply Permutation_refl|].
  rewrite sort_by_cons.
  eapply perm_trans; [apply perm_skip; exact IH|apply insert_by_perm].
Qed.

Lemma insert_by_sorted b : forall l,
  StronglySorted key_le l -> StronglySorted key_le (insert_by key b l).
Proof.
  induction l as [|x l IH]; intros H; cbn [insert_by].
  - constructor; constructor.
  - inversion H as [|? ? Hs Hall]; subst.
    destruct (key b <? key x) eqn:E.
    + constructor; [exact H|]. constructor; [unfold key_le; lia|].
      eapply Forall_impl; [|exact Hall]. unfold key_le. intros; lia.
    + constructor; [apply IH; exact Hs|].
      apply Forall_forall. intros y Hy.
      apply (Permutation_in _ (Permutation_sym (insert_by_perm b l))) in Hy.
      destruct Hy as [<-|Hy]; [unfold key_le; lia|].
      rewrite Forall_forall in Hall. apply Hall; exact Hy.
Qed.

Lemma sort_by_sorted : forall l, StronglySorted key_le (sort_by key l).
Proof.
  induction l as [|b l IH]; [constructor|].
  rewrite sort_by_cons. apply insert_by_sorted. exact IH.
Qed.

Lemma sorted_perm_unique_by : forall l2 l1,
  Permutation l1 l2 -> StronglySorted key_le l1 -> StronglySorted key_lt l2 -> l1 = l2.
Proof.
  induction l2 as [|a l2 IH]; intros l1 HP H1 H2.
  - apply Permutation_sym, Permutation_nil in HP. exact HP.
  - destruct l1 as [|b l1]; [apply Permutation_nil in HP; discriminate|].
    inversion H1 as [|? ? H1s H1a]; subst. inversion H2 as [|? ? H2s H2a]; subst.
    assert (Hba : b = a).
    { assert (Hb : In b (a :: l2))
        by (eapply Permutation_in; [exact HP|left; reflexivity]).
      assert (Ha : In a (b :: l1))
        by (eapply Permutation_in; [apply Permutation_sym; exact HP|left; reflexivity]).
      destruct Hb as [Hb|Hb]; [symmetry; exact Hb|].
      destruct Ha as [Ha|Ha]; [exact Ha|].
      rewrite Forall_forall in H1a, H2a.
      specialize (H1a _ Ha). specialize (H2a _ Hb).
      unfold key_le, key_lt in *. lia. }
    subst b. f_equal.
    apply IH; [eapply Permutation_cons_inv; exact HP|exact H1s|exact H2s].
Qed.

Theorem sort_by_unique : forall l l',
  Permutation l l' -> StronglySorted key_lt l' -> sort_by key l = l'.
Proof.
  intros l l' HP HS. apply sorted_perm_unique_by.
  - eapply perm_trans; [apply Permutation_sym, sort_by_perm|exact HP].
  - apply sort_by_sorted.
  - exact HS.
Qed.
End SortBy.

(* ------------------------------------------------------------------ *)
(** * The scan of a binary file finds every FAB, in file order *)
Definition fab_rec (fb : fab) : list Z * Z * bytes := (fab_shape fb, fab_nc fb, fab_data fb).

Theorem scan_data_spec : forall (fs : list fab) fuel pre,
  Forall (fun fb => fab_ok fb = true) fs -> (length fs < fuel)%nat ->
  scan_data fuel (pre ++ encode_file fs) (blen pre) = map fab_rec fs.
Proof.
  induction fs as [|fb fs IH]; intros fuel pre HF Hfuel.
  - destruct fuel as [|fuel]; [cbn in Hfuel; lia|].
    cbn [scan_data map]. rewrite encode_file_nil, read_header_eof. reflexivity.
  - inversion HF as [|? ? Hok HF']; subst.
    destruct fuel as [|fuel]; [cbn in Hfuel; lia|]. cbn [length] in Hfuel.
    cbn [scan_data]. rewrite encode_file_cons.
    rewrite (read_header_at pre fb (encode_file fs) Hok). cbv zeta. cbn [h_nc].
    rewrite (whole_payload pre fb (encode_file fs) Hok), (whole_reshape fb Hok).
    cbn [map]. unfold fab_rec at 1. f_equal.
    destruct (fab_ok_inv fb Hok) as (_ & _ & _ & _ & _ & Hd).
    replace (blen pre + blen (fab_hdr fb) + blen (fab_data fb)) with (blen (pre ++ encode_fab fb))
      by (rewrite blen_app; unfold encode_fab; rewrite blen_app; ring).
    replace (pre ++ encode_fab fb ++ encode_file fs) with ((pre ++ encode_fab fb) ++ encode_file fs)
      by (rewrite <- app_assoc; reflexivity).
    apply IH; [exact HF' | lia].
Qed.

(* ------------------------------------------------------------------ *)
(** * The rows of a file sorted by recorded offset are its boxes in on-disk order *)
Lemma nth_map_seq {B} (f : nat -> B) (d : B) : forall n s i, (i < n)%nat -> nth i (map f (seq s n)) d = f (s + i)%nat.
Proof.
  induction n as [|n IH]; intros s i Hi; [lia|]. cbn [seq map].
  destruct i as [|i]; [cbn [nth]; f_equal; lia|]. cbn [nth]. rewrite IH by lia. f_equal. lia.
Qed.

Theorem file_ids_sorted : forall pl name ids,
  wf_level (pl_level pl) = true -> In (name, ids) (lv_files (pl_level pl)) ->
  file_ids (pl_cellh pl) name = ids.
Proof.
  intros pl name ids Hwf Hin. unfold file_ids.
  set (lv := pl_level pl) in *.
  set (n := length (lv_fabs lv)).
  pose proof (proj2 (cells_or_nil_spec _ Hwf)) as Hcells. fold lv in Hcells. fold n in Hcells.
  assert (Hfiles : c_files (pl_cellh pl) = map (fun i => fst (loc_of lv i)) (seq 0 n)).
  { unfold pl_cellh. cbn [c_files]. fold lv. rewrite Hcells, map_map. reflexivity. }
  assert (Hoffs : c_offsets (pl_cellh pl) = map (fun i => snd (loc_of lv i)) (seq 0 n)).
  { unfold pl_cellh. cbn [c_offsets]. fold lv. rewrite Hcells, map_map. reflexivity. }
  rewrite Hfiles, Hoffs, map_length, seq_length.
  apply sort_by_unique.
  - erewrite filter_ext_in.
    + exact (filter_file_perm lv Hwf name ids Hin).
    + intros i Hi. apply in_seq in Hi. rewrite nth_map_seq by lia. reflexivity.
  - match goal with |- StronglySorted ?R ids =>
      cut (StronglySorted R (map (fun i => nth i ids 0%nat) (seq 0 (length ids))));
        [rewrite (map_nth_seq 0%nat ids); trivial|] end.
    apply StronglySorted_map_seq. intros i j Hij Hj. unfold key_lt.
    destruct (wf_level_parts lv Hwf) as (_ & Hlt & _).
    assert (Hb : forall k, (k < length ids)%nat -> (nth k ids 0%nat < n)%nat).
    { intros k Hk. apply Hlt. apply (ids_in_concat lv name ids Hin). apply nth_In. exact Hk. }
    rewrite !nth_map_seq by (apply Hb; lia). cbn [Nat.add].
    unfold loc_of. rewrite !(locate_nth lv Hwf name ids Hin) by lia. cbn [snd].
    apply fab_offset_lt. rewrite file_fabs_length. lia.
Qed.

(* ------------------------------------------------------------------ *)
(** * The check on a well-formed level *)
Section Data.
Variable close : token -> bytes -> bool.

(* the rows of the level header are close to the extrema of the stored data:
   stated with the model's own per-box predicate (a boolean) *)
Definition pl_minmax_close (nf : Z) (pl : plevel) : Prop :=
  forall b, (b < length (lv_fabs (pl_level pl)))%nat ->
    fab_data_ok close nf (fab_rec (nth b (lv_fabs (pl_level pl)) dummy_fab))
                (nth b (pl_mins pl) []) (nth b (pl_maxs pl) []) = true.

(* ... which holds when every row entry is close to np.nanmin / np.nanmax of
   the component it describes (and no component is entirely NaN) *)
Lemma fab_data_ok_intro nf fb mins maxs :
  (forall k, (k < Z.to_nat nf)%nat ->
     Z.of_nat k < fab_nc fb /\
     exists tmin tmax wmin wmax,
       nth_error mins k = Some tmin /\ nth_error maxs k = Some tmax /\
       nan_min (fab_comp fb (Z.of_nat k)) = Some wmin /\ nan_max (fab_comp fb (Z.of_nat k)) = Some wmax /\
       close tmin wmin = true /\ close tmax wmax = true) ->
  fab_data_ok close nf (fab_rec fb) mins maxs = true.
Proof.
  intros H. unfold fab_data_ok. apply forallb_forall. intros k Hk. apply in_seq in Hk.
  destruct (H k ltac:(lia)) as (Hnc & tmin & tmax & wmin & wmax & E1 & E2 & E3 & E4 & E5 & E6).
  unfold field_data_ok, fab_rec.
  change (sub (8 * zprod (fab_shape fb) * Z.of_nat k) (8 * zprod (fab_shape fb)) (fab_data fb))
    with (fab_comp fb (Z.of_nat k)).
  rewrite E1, E2, E3, E4, E5, E6.
  apply andb_true_iff. split; [apply Z.ltb_lt; exact Hnc | reflexivity].
Qed.

Lemma forallb_combine_seq {B} (p : nat -> B -> bool) (d : B) : forall (l : list B) s,
  (forall k, (k < length l)%nat -> p (s + k)%nat (nth k l d) = true) ->
  forallb (fun kf => p (fst kf) (snd kf)) (combine (seq s (length l)) l) = true.
Proof.
  induction l as [|x l IH]; intros s H; [reflexivity|].
  cbn [length seq combine forallb fst snd].
  pose proof (H 0%nat ltac:(cbn [length]; lia)) as H0. rewrite Nat.add_0_r in H0. cbn [nth] in H0.
  rewrite H0. cbn [andb].
  apply IH. intros k Hk. replace (S s + k)%nat with (s + S k)%nat by lia. apply (H (S k)). cbn [length]. lia.
Qed.

Lemma nth_error_combine_seq {B} : forall (l : list B) s k x,
  nth_error l k = Some x -> nth_error (combine (seq s (length l)) l) k = Some ((s + k)%nat, x).
Proof.
  induction l as [|y l IH]; intros s k x H; [destruct k; discriminate|].
  cbn [length seq combine]. destruct k as [|k]; cbn [nth_error] in *.
  - injection H as ->. rewrite Nat.add_0_r. reflexivity.
  - rewrite (IH (S s) k x H). f_equal. f_equal. lia.
Qed.

Theorem data_ok_file_complete : forall nf nf' pl name ids,
  wf_level (pl_level pl) = true ->
  In (name, ids) (lv_files (pl_level pl)) ->
  pl_minmax_close nf pl ->
  data_ok_file close nf (snd (pl_dir nf' pl)) (pl_cellh pl) name = true.
Proof.
  intros nf nf' pl name ids Hwf Hin Hclose.
  unfold data_ok_file. cbn [pl_dir snd ld_files].
  rewrite (lookup_lv_disk _ name ids Hwf Hin).
  rewrite (file_ids_sorted pl name ids Hwf Hin).
  set (fs := file_fabs (pl_level pl) ids).
  assert (HF : Forall (fun fb => fab_ok fb = true) fs).
  { apply Forall_forall. intros fb Hfb.
    pose proof (file_fabs_In _ name ids fb Hwf Hin Hfb) as Hfb'.
    pose proof (wf_level_fabs_ok _ Hwf) as Hok. rewrite forallb_forall in Hok. apply Hok. exact Hfb'. }
  assert (Hlen : length fs = length ids) by apply file_fabs_length.
  assert (Hscan : scan_data (S (length (encode_file fs))) (encode_file fs) 0 = map fab_rec fs).
  { apply (scan_data_spec fs (S (length (encode_file fs))) [] HF).
    (* every FAB occupies at least one byte *)
    assert (G : forall l : list fab, (length l <= length (encode_file l))%nat).
    { induction l as [|fb l IHl]; [cbn; lia|]. rewrite encode_file_cons, app_length. cbn [length].
      pose proof (fab_size_pos fb) as Hp. unfold fab_size, blen in Hp. lia. }
    specialize (G fs). lia. }
  cbv zeta. rewrite Hscan.
  cbn [pl_cellh c_mins c_maxs].
  apply (forallb_combine_seq
           (fun k fab => match nth_error ids k with
                         | Some i => fab_data_ok close nf fab (nth i (pl_mins pl) []) (nth i (pl_maxs pl) [])
                         | None => false end) (fab_rec dummy_fab) (map fab_rec fs) 0%nat).
  intros k Hk. rewrite map_length in Hk. cbn [Nat.add].
  rewrite (nth_error_nth' ids 0%nat) by lia.
  rewrite (map_nth fab_rec fs dummy_fab k).
  unfold fs. rewrite (nth_file_fabs _ ids k) by lia.
  apply Hclose.
  destruct (wf_level_parts _ Hwf) as (_ & Hlt & _).
  apply Hlt. apply (ids_in_concat _ name ids Hin). apply nth_In. lia.
Qed.

Theorem check_data_complete : forall nf nf' pl,
  wf_level (pl_level pl) = true -> pl_minmax_close nf pl ->
  check_data close nf (snd (pl_dir nf' pl)) (pl_cellh pl) = true.
Proof.
  intros nf nf' pl Hwf Hclose. unfold check_data.
  apply forallb_forall. intros name Hname.
  destruct (cells_or_nil_spec _ Hwf) as [Hcells _].
  pose proof (level_names_perm _ _ Hwf Hcells) as HP.
  change (c_files (pl_cellh pl)) with (map fst (cells_or_nil (pl_level pl))) in Hname.
  apply (Permutation_in _ HP) in Hname.
  apply in_map_iff in Hname. destruct Hname as ([n ids] & <- & Hin). cbn [fst].
  apply (data_ok_file_complete nf nf' pl n ids Hwf Hin Hclose).
Qed.

(* ------------------------------------------------------------------ *)
(** * Completeness under all sixteen option sets *)
Theorem taste_complete : forall (pf : plotfile) (o : topts) (limit : option Z) (lim : Z),
  wf_plotfile pf ->
  eff_limit (g_max_level (pf_g pf)) limit = Some lim -> 0 <= lim ->
  ((t_data o && negb (t_headers o && t_shape o)) = true ->
   Forall (pl_minmax_close (pf_nfields pf)) (firstn (Z.to_nat (lim + 1)) (pf_levels pf))) ->
  taste_good close o limit (pf_disk pf) = true.
Proof.
  intros pf o limit lim Hwf Heff Hlim Hmm.
  apply (taste_complete_gen close pf o limit lim Hwf Heff Hlim).
  intros Hbr. specialize (Hmm Hbr).
  assert (Hd : t_data o = true) by (destruct (t_data o); [reflexivity | discriminate]).
  rewrite Hd. unfold opened_levels.
  apply forallb_forall. intros lc Hlc. apply in_map_iff in Hlc.
  destruct Hlc as (pl & <- & Hpl). cbn [fst snd].
  rewrite Forall_forall in Hmm. pose proof (Hmm pl Hpl) as Hc.
  apply In_firstn in Hpl.
  destruct Hwf as (_ & _ & _ & Hlv). rewrite Forall_forall in Hlv.
  destruct (Hlv pl Hpl) as (_ & Hwl & _).
  apply check_data_complete; assumption.
Qed.

(* The option sets that do not reach the data check need no hypothesis on the tables. *)
Corollary taste_complete_nodata : forall (pf : plotfile) (o : topts) (limit : option Z) (lim : Z),
  wf_plotfile pf ->
  eff_limit (g_max_level (pf_g pf)) limit = Some lim -> 0 <= lim ->
  (t_data o && negb (t_headers o && t_shape o)) = false ->
  taste_good close o limit (pf_disk pf) = true.
Proof.
  intros pf o limit lim Hwf Heff Hlim Hbr. apply (taste_complete pf o limit lim Hwf Heff Hlim).
  rewrite Hbr. discriminate.
Qed.

(* Soundness of the data check on one file: every FAB the scan finds has a row,
   and the row passes the per-box predicate. *)
Theorem data_ok_file_inv : forall nf ld c name f,
  lookup name (ld_files ld) = Some f -> data_ok_file close nf ld c name = true ->
  forall k fab, nth_error (scan_data (S (length f)) f 0) k = Some fab ->
    exists i, nth_error (file_ids c name) k = Some i /\
              fab_data_ok close nf fab (nth i (c_mins c) []) (nth i (c_maxs c) []) = true.
Proof.
  intros nf ld c name f Hf H k fab Hk. unfold data_ok_file in H. rewrite Hf in H. cbv zeta in H.
  rewrite forallb_forall in H.
  set (fabs := scan_data (S (length f)) f 0) in *.
  assert (Hin : In (k, fab) (combine (seq 0 (length fabs)) fabs)).
  { apply (nth_error_In _ k). rewrite (nth_error_combine_seq fabs 0%nat k fab Hk). reflexivity. }
  specialize (H _ Hin). cbn [fst snd] in H.
  destruct (nth_error (file_ids c name) k) as [i|]; [|discriminate].
  exists i. split; [reflexivity | exact H].
Qed.
End Data.

(* the pinned validator (before the fix: commit) answered "bad" on every
   directory for the six option sets reaching the data check *)
Definition taste_good_pinned close (o : topts) (limit : option Z) (d : pdisk) : bool :=
  taste_good close o limit d && negb (t_data o && negb (t_headers o && t_shape o)).

Theorem taste_binary_data_branch_pinned : forall close o limit d,
  (t_data o && negb (t_headers o && t_shape o)) = true -> taste_good_pinned close o limit d = false.
Proof. intros close o limit d H. unfold taste_good_pinned. rewrite H. apply andb_false_r. Qed.

Print Assumptions taste_complete.
Print Assumptions data_ok_file_inv.
