(* Completeness of the validator model (Taste/Taste.v): every well-formed
   plotfile (Plotfile/Abstract.v) is accepted under every option set; for the
   option sets that reach the binary-data check, provided that check passes on
   the opened levels (discharged in Taste/DataProofs.v).
   Standard library only, no axioms. *)
From AK Require Import Base.Prelude Bytes.Text Bytes.FabHeader Bytes.FabHeaderProofs
  Bytes.BinFile Reader.Select Reader.BoxRead Reader.Level Reader.ReadSpec
  Reader.LayoutProofs Reader.ReadProofs Reader.IterProofs
  Plotfile.TextHeader Plotfile.HeaderSpec Plotfile.HeaderProofs
  Taste.Taste Taste.TasteSpec Plotfile.Abstract.
From Coq Require Import Permutation Sorted.

(* ------------------------------------------------------------------ *)
(** * Generic list facts *)

Lemma omap_all_default {A B} (f : A -> option B) (d : B) : forall l r,
  omap_all f l = Some r ->
  r = map (fun x => match f x with Some y => y | None => d end) l.
Proof.
  induction l as [|a l IH]; intros r H; cbn [omap_all] in H.
  - inversion H. reflexivity.
  - destruct (f a) as [b|] eqn:E; cbn [obind] in H; [|discriminate].
    destruct (omap_all f l) as [r'|] eqn:E2; cbn [obind] in H; [|discriminate].
    inversion H. cbn [map]. rewrite E. f_equal. apply IH. reflexivity.
Qed.

Lemma omap_all_map_pre {A B C} (g : A -> B) (f : B -> option C) : forall l,
  omap_all f (map g l) = omap_all (fun a => f (g a)) l.
Proof.
  induction l as [|a l IH]; cbn [map omap_all]; [reflexivity|].
  rewrite IH. reflexivity.
Qed.

Lemma map_via_seq {A B} (d : A) (h : A -> B) (l : list A) :
  map h l = map (fun i => h (nth i l d)) (seq 0 (length l)).
Proof. rewrite <- (map_map (fun i => nth i l d) h), map_nth_seq. reflexivity. Qed.

Lemma filter_map_comm {A B} (f : A -> B) (p : B -> bool) : forall l,
  filter p (map f l) = map f (filter (fun x => p (f x)) l).
Proof.
  induction l as [|a l IH]; cbn [map filter]; [reflexivity|].
  destruct (p (f a)); cbn [map]; rewrite IH; reflexivity.
Qed.

Lemma In_firstn {A} (x : A) : forall n l, In x (firstn n l) -> In x l.
Proof.
  induction n as [|n IH]; intros [|a l] H; cbn [firstn] in H; try (destruct H; fail).
  destruct H as [H|H]; [left; exact H|right; apply IH; exact H].
Qed.

Lemma NoDup_fst_unique {A B} : forall (l : list (A * B)) a b b',
  NoDup (map fst l) -> In (a, b) l -> In (a, b') l -> b = b'.
Proof.
  induction l as [|[x y] l IH]; intros a b b' Hnd H1 H2; [destruct H1|].
  cbn [map fst] in Hnd. inversion Hnd as [|? ? Hx Hnd']; subst.
  destruct H1 as [H1|H1], H2 as [H2|H2].
  - congruence.
  - inversion H1; subst. exfalso. apply Hx. apply (in_map fst) in H2. exact H2.
  - inversion H2; subst. exfalso. apply Hx. apply (in_map fst) in H1. exact H1.
  - apply (IH a); assumption.
Qed.

Lemma firstn_S_snoc {A} (d : A) : forall k l, (k < length l)%nat ->
  firstn (S k) l = firstn k l ++ [nth k l d].
Proof.
  induction k as [|k IH]; intros [|a l] H; cbn [length] in H; try lia.
  - reflexivity.
  - change (firstn (S (S k)) (a :: l)) with (a :: firstn (S k) l).
    rewrite IH by lia. reflexivity.
Qed.

Lemma StronglySorted_map_seq {B} (R : B -> B -> Prop) (f : nat -> B) : forall m s,
  (forall i j, (s <= i < j)%nat -> (j < s + m)%nat -> R (f i) (f j)) ->
  StronglySorted R (map f (seq s m)).
Proof.
  induction m as [|m IH]; intros s H; cbn [seq map]; constructor.
  - apply IH. intros i j Hij Hj. apply H; lia.
  - apply Forall_forall. intros x Hx. apply in_map_iff in Hx.
    destruct Hx as (j & <- & Hj). apply in_seq in Hj. apply H; lia.
Qed.

Lemma zip3_map {A} (f : A -> bytes) (g : A -> Z) (h : A -> list Z * list Z) : forall l,
  zip3 (map f l) (map g l) (map h l) =
  map (fun x => {| br_file := f x; br_off := g x; br_lo := fst (h x); br_hi := snd (h x) |}) l.
Proof.
  induction l as [|a l IH]; cbn [map zip3]; [reflexivity|].
  destruct (h a) as [lo hi] eqn:E. cbn [fst snd]. f_equal. exact IH.
Qed.

Lemma list_eqb_refl : forall l, list_eqb l l = true.
Proof.
  induction l as [|x l IH]; cbn [list_eqb]; [reflexivity|].
  rewrite Z.eqb_refl, IH. reflexivity.
Qed.

Lemma lookup_some_existsb name : forall disk f,
  lookup name disk = Some f ->
  existsb (fun nf : bytes * bytes => bytes_eqb (fst nf) name) disk = true.
Proof.
  induction disk as [|[n g] disk IH]; intros f H; cbn [lookup] in H; [discriminate|].
  cbn [existsb fst]. destruct (bytes_eqb n name); [reflexivity|].
  cbn [orb]. apply (IH f). exact H.
Qed.

(* ------------------------------------------------------------------ *)
(** * Insertion sort by offset: a strictly sorted permutation is the result *)

Definition off_lt (a b : boxrec) : Prop := br_off a < br_off b.
Definition off_le (a b : boxrec) : Prop := br_off a <= br_off b.

Lemma insert_by_off_perm b : forall l, Permutation (b :: l) (insert_by_off b l).
Proof.
  induction l as [|x l IH]; cbn [insert_by_off]; [apply Permutation_refl|].
  destruct (br_off b <? br_off x); [apply Permutation_refl|].
  eapply perm_trans; [apply perm_swap|apply perm_skip; exact IH].
Qed.

Lemma sort_by_off_cons b l : sort_by_off (b :: l) = insert_by_off b (sort_by_off l).
Proof. reflexivity. Qed.

Lemma sort_by_off_perm : forall l, Permutation l (sort_by_off l).
Proof.
  induction l as [|b l IH]; [apply Permutation_refl|].
  rewrite sort_by_off_cons.
  eapply perm_trans; [apply perm_skip; exact IH|apply insert_by_off_perm].
Qed.

Lemma insert_by_off_sorted b : forall l,
  StronglySorted off_le l -> StronglySorted off_le (insert_by_off b l).
Proof.
  induction l as [|x l IH]; intros H; cbn [insert_by_off].
  - constructor; constructor.
  - inversion H as [|? ? Hs Hall]; subst.
    destruct (br_off b <? br_off x) eqn:E.
    + constructor; [exact H|]. constructor; [unfold off_le; lia|].
      eapply Forall_impl; [|exact Hall]. unfold off_le. intros; lia.
    + constructor; [apply IH; exact Hs|].
      apply Forall_forall. intros y Hy.
      apply (Permutation_in _ (Permutation_sym (insert_by_off_perm b l))) in Hy.
      destruct Hy as [<-|Hy]; [unfold off_le; lia|].
      rewrite Forall_forall in Hall. apply Hall; exact Hy.
Qed.

Lemma sort_by_off_sorted : forall l, StronglySorted off_le (sort_by_off l).
Proof.
  induction l as [|b l IH]; [constructor|].
  rewrite sort_by_off_cons. apply insert_by_off_sorted. exact IH.
Qed.

Lemma sorted_perm_unique : forall l2 l1,
  Permutation l1 l2 -> StronglySorted off_le l1 -> StronglySorted off_lt l2 -> l1 = l2.
Proof.
  induction l2 as [|a l2 IH]; intros l1 HP H1 H2.
  - apply Permutation_sym, Permutation_nil in HP. exact HP.
  - destruct l1 as [|b l1]; [apply Permutation_nil in HP; discriminate|].
    inversion H1 as [|? ? H1s H1a]; subst. inversion H2 as [|? ? H2s H2a]; subst.
    assert (Hba : b = a).
    { assert (Hb : In b (a :: l2))
        by (eapply Permutation_in; [exact HP|left; reflexivity]).
      assert (Ha : In a (b :: l1))
        by (eapply Permutation_in; [apply Permutation_sym; exact HP|left; reflexivity]).
      destruct Hb as [Hb|Hb]; [symmetry; exact Hb|].
      destruct Ha as [Ha|Ha]; [exact Ha|].
      rewrite Forall_forall in H1a, H2a.
      specialize (H1a _ Ha). specialize (H2a _ Hb).
      unfold off_le, off_lt in *. lia. }
    subst b. f_equal.
    apply IH; [eapply Permutation_cons_inv; exact HP|exact H1s|exact H2s].
Qed.

Theorem sort_by_off_unique : forall l l',
  Permutation l l' -> StronglySorted off_lt l' -> sort_by_off l = l'.
Proof.
  intros l l' HP HS. apply sorted_perm_unique.
  - eapply perm_trans; [apply Permutation_sym, sort_by_off_perm|exact HP].
  - apply sort_by_off_sorted.
  - exact HS.
Qed.

(* ------------------------------------------------------------------ *)
(** * The level header of a well-formed level *)

Definition loc_of (lv : level) (b : nat) : bytes * Z :=
  match locate lv (lv_files lv) b with Some c => c | None => ([], 0) end.

Definition boxrec_of (lv : level) (b : nat) : boxrec :=
  {| br_file := fst (loc_of lv b); br_off := snd (loc_of lv b);
     br_lo := fab_lo (nth b (lv_fabs lv) dummy_fab);
     br_hi := fab_hi (nth b (lv_fabs lv) dummy_fab) |}.

(* record of the k-th FAB of file [name] holding the FABs [fs] *)
Definition mkrec (name : bytes) (fs : list fab) (k : nat) : boxrec :=
  {| br_file := name; br_off := fab_offset fs k;
     br_lo := fab_lo (nth k fs dummy_fab); br_hi := fab_hi (nth k fs dummy_fab) |}.

Lemma cells_or_nil_spec lv : wf_level lv = true ->
  lv_cells lv = Some (cells_or_nil lv) /\
  cells_or_nil lv = map (loc_of lv) (seq 0 (length (lv_fabs lv))).
Proof.
  intros Hwf. destruct (lv_cells_spec lv Hwf) as (cells & Hc & _).
  unfold cells_or_nil. rewrite Hc. split; [reflexivity|]. unfold lv_cells in Hc.
  apply (omap_all_default _ ([], 0)) in Hc. exact Hc.
Qed.

Theorem cell_boxes_spec : forall pl, wf_level (pl_level pl) = true ->
  cell_boxes (pl_cellh pl)
  = map (boxrec_of (pl_level pl)) (seq 0 (length (lv_fabs (pl_level pl)))).
Proof.
  intros pl Hwf. unfold cell_boxes, pl_cellh. cbn [c_files c_offsets c_indexes].
  rewrite (proj2 (cells_or_nil_spec _ Hwf)).
  rewrite (map_via_seq dummy_fab (fun fb => (fab_lo fb, fab_hi fb))).
  rewrite !map_map. rewrite zip3_map. reflexivity.
Qed.

Lemma count_nat_concat_le x ids : forall (ls : list (list nat)),
  In ids ls -> (count_nat x ids <= count_nat x (concat ls))%nat.
Proof.
  induction ls as [|a ls IH]; intros H; [destruct H|].
  cbn [concat]. rewrite count_nat_app.
  destruct H as [->|H]; [lia|]. apply IH in H. lia.
Qed.

Section LevelFacts.
  Variable lv : level.
  Hypothesis Hwf : wf_level lv = true.
  Variables (name : bytes) (ids : list nat).
  Hypothesis Hin : In (name, ids) (lv_files lv).

  Lemma ids_in_concat : forall x, In x ids -> In x (concat (map snd (lv_files lv))).
  Proof.
    intros x Hx. apply in_concat. exists ids. split; [|exact Hx].
    apply (in_map snd) in Hin. exact Hin.
  Qed.

  Lemma file_ids_NoDup : NoDup ids.
  Proof.
    destruct (wf_level_parts lv Hwf) as (_ & Hlt & Hc).
    apply count_le1_NoDup. intros x.
    destruct (Nat.eq_dec (count_nat x ids) 0) as [E|E]; [lia|].
    pose proof (count_nat_pos _ _ E) as Hx.
    assert (Hids : In ids (map snd (lv_files lv)))
      by (apply (in_map snd) in Hin; exact Hin).
    pose proof (count_nat_concat_le x ids _ Hids) as Hle.
    rewrite (Hc x (Hlt x (ids_in_concat x Hx))) in Hle. exact Hle.
  Qed.

  Lemma locate_nth k : (k < length ids)%nat ->
    locate lv (lv_files lv) (nth k ids 0%nat) = Some (name, fab_offset (file_fabs lv ids) k).
  Proof.
    intros Hk.
    destruct (wf_level_parts lv Hwf) as (Hd & Hlt & Hc).
    set (b := nth k ids 0%nat).
    assert (Hb : In b ids) by (apply nth_In; exact Hk).
    pose proof (Hlt b (ids_in_concat b Hb)) as Hblt.
    destruct (locate_total lv b Hwf Hblt) as [c Hloc]. rewrite Hloc.
    assert (Hn : fst c = name).
    { apply (locate_name lv b (lv_files lv) name ids c); auto.
      rewrite (Hc b Hblt). lia. }
    destruct (locate_in lv b _ _ Hloc) as (ids' & k' & Hin' & Hpos & Hoff).
    rewrite Hn in Hin'.
    assert (E : ids' = ids).
    { eapply NoDup_fst_unique;
        [apply distinct_names_NoDup; exact Hd|exact Hin'|exact Hin]. }
    subst ids'.
    apply pos_in_spec in Hpos. destruct Hpos as [Hnth Hk'].
    assert (E : k' = k).
    { apply (proj1 (NoDup_nth ids 0%nat) file_ids_NoDup); auto. }
    subst k'. destruct c as [c1 c2]. cbn [fst snd] in *. subst. reflexivity.
  Qed.

  Lemma filter_file_perm :
    Permutation (filter (fun b => bytes_eqb (fst (loc_of lv b)) name)
                        (seq 0 (length (lv_fabs lv)))) ids.
  Proof.
    destruct (wf_level_parts lv Hwf) as (Hd & Hlt & Hc).
    apply NoDup_Permutation.
    - apply NoDup_filter, seq_NoDup.
    - exact file_ids_NoDup.
    - intros x. rewrite filter_In, in_seq. split.
      + intros [Hx He].
        assert (Hxl : (x < length (lv_fabs lv))%nat) by lia.
        destruct (locate_total lv x Hwf Hxl) as [c Hloc].
        unfold loc_of in He. rewrite Hloc in He.
        apply LayoutProofs.bytes_eqb_true in He.
        destruct (locate_in lv x _ _ Hloc) as (ids' & k' & Hin' & Hpos & _).
        rewrite He in Hin'.
        assert (E : ids' = ids).
        { eapply NoDup_fst_unique;
            [apply distinct_names_NoDup; exact Hd|exact Hin'|exact Hin]. }
        subst ids'. eapply pos_in_In. exact Hpos.
      + intros Hx. split.
        * pose proof (Hlt x (ids_in_concat x Hx)). lia.
        * destruct (In_nth ids x 0%nat Hx) as (k & Hk & <-).
          unfold loc_of. rewrite (locate_nth k Hk). cbn [fst].
          apply LayoutProofs.bytes_eqb_refl.
  Qed.

  Lemma boxrec_of_ids :
    map (boxrec_of lv) ids = map (mkrec name (file_fabs lv ids)) (seq 0 (length ids)).
  Proof.
    rewrite (map_via_seq 0%nat (boxrec_of lv) ids).
    apply map_ext_in. intros k Hk. apply in_seq in Hk.
    unfold boxrec_of, mkrec, loc_of. rewrite (locate_nth k) by lia.
    cbn [fst snd]. rewrite (nth_file_fabs lv ids k) by lia. reflexivity.
  Qed.

  Lemma file_fabs_length : length (file_fabs lv ids) = length ids.
  Proof. unfold file_fabs. apply map_length. Qed.
End LevelFacts.

(* ------------------------------------------------------------------ *)
(** * Offsets inside a file *)

Lemma fab_size_pos fb : 0 < fab_size fb.
Proof.
  unfold fab_size, encode_fab, fab_hdr. rewrite blen_app.
  pose proof (blen_print_hdr_pos (fab_lo fb) (fab_hi fb) (fab_nc fb)).
  pose proof (blen_nonneg (fab_data fb)). lia.
Qed.

Lemma zsum_app a b : zsum (a ++ b) = zsum a + zsum b.
Proof.
  unfold zsum. induction a as [|x a IH]; cbn [app fold_right]; [lia|].
  rewrite IH. lia.
Qed.

Lemma fab_offset_S fs k : (k < length fs)%nat ->
  fab_offset fs (S k) = fab_offset fs k + fab_size (nth k fs dummy_fab).
Proof.
  intros H. unfold fab_offset. rewrite (firstn_S_snoc dummy_fab k fs H).
  rewrite map_app, zsum_app. unfold zsum at 2. cbn [map fold_right]. lia.
Qed.

Lemma fab_offset_0 fs : fab_offset fs 0 = 0.
Proof. reflexivity. Qed.

Lemma fab_offset_all fs : fab_offset fs (length fs) = blen (encode_file fs).
Proof. rewrite blen_encode_file. unfold fab_offset. rewrite firstn_all. reflexivity. Qed.

Lemma fab_offset_lt fs : forall j i, (i < j <= length fs)%nat ->
  fab_offset fs i < fab_offset fs j.
Proof.
  induction j as [|j IH]; intros i H; [lia|].
  rewrite fab_offset_S by lia.
  pose proof (fab_size_pos (nth j fs dummy_fab)).
  destruct (Nat.eq_dec i j) as [->|Hne]; [lia|].
  specialize (IH i). lia.
Qed.

Lemma fab_offset_nonneg fs k : (k <= length fs)%nat -> 0 <= fab_offset fs k.
Proof.
  intros H. destruct k as [|k]; [rewrite fab_offset_0; lia|].
  pose proof (fab_offset_lt fs (S k) 0%nat). rewrite fab_offset_0 in *. lia.
Qed.

(* ------------------------------------------------------------------ *)
(** * KEY LEMMA: the boxes of a file sorted by recorded offset are its boxes
      in on-disk order *)

Theorem file_boxes_sorted : forall pl name ids,
  wf_level (pl_level pl) = true -> In (name, ids) (lv_files (pl_level pl)) ->
  sort_by_off (filter (fun b => bytes_eqb (br_file b) name) (cell_boxes (pl_cellh pl)))
  = map (mkrec name (file_fabs (pl_level pl) ids)) (seq 0 (length ids)).
Proof.
  intros pl name ids Hwf Hin.
  rewrite (cell_boxes_spec pl Hwf), filter_map_comm.
  apply sort_by_off_unique.
  - rewrite <- (boxrec_of_ids _ Hwf name ids Hin).
    apply Permutation_map.
    exact (filter_file_perm _ Hwf name ids Hin).
  - apply StronglySorted_map_seq. intros i j Hij Hj.
    unfold off_lt, mkrec. cbn [br_off].
    apply fab_offset_lt. rewrite file_fabs_length. lia.
Qed.

(* ------------------------------------------------------------------ *)
(** * Walking a file made of FABs *)

Lemma hdr_shape_fab fb : length (fab_lo fb) = length (fab_hi fb) ->
  hdr_shape {| h_lo := fab_lo fb; h_hi := fab_hi fb; h_nc := fab_nc fb |}
  = Some (fab_shape fb).
Proof.
  intros H. unfold hdr_shape, np_binop. cbn [h_hi h_lo].
  rewrite <- H, Nat.eqb_refl. reflexivity.
Qed.

Lemma readline_fab pre fb post :
  readline (pre ++ encode_fab fb ++ post) (blen pre) = fab_hdr fb.
Proof.
  unfold readline, rest. rewrite zskipn_app_exact.
  unfold encode_fab. rewrite <- app_assoc. unfold fab_hdr.
  apply take_line_print_hdr.
Qed.

Lemma walk_shape_step nf f pos fb nexts : fab_ok fb = true ->
  walk_shape nf f pos (fab_hdr fb) nexts =
  if pos + 8 * fab_cells fb * fab_nc fb <? 0 then false else
  match nexts with
  | [] => pos + 8 * fab_cells fb * fab_nc fb =? blen f
  | b :: rest =>
      if bytes_eqb (readline f (pos + 8 * fab_cells fb * fab_nc fb))
                   (print_hdr (br_lo b) (br_hi b) nf)
      then walk_shape nf f
             (pos + 8 * fab_cells fb * fab_nc fb
              + blen (readline f (pos + 8 * fab_cells fb * fab_nc fb)))
             (readline f (pos + 8 * fab_cells fb * fab_nc fb)) rest
      else false
  end.
Proof.
  intros Hok. destruct (fab_ok_inv fb Hok) as (Hlo & Hhi & Hlen & _).
  assert (E : zprod (fab_shape fb) * fab_nc fb * 8 = 8 * fab_cells fb * fab_nc fb)
    by (unfold fab_cells; ring).
  destruct nexts as [|b rest]; cbn [walk_shape]; unfold fab_hdr;
    rewrite (parse_print_hdr _ _ _ Hlo Hhi), (hdr_shape_fab fb Hlen);
    cbn [h_nc]; rewrite E; reflexivity.
Qed.

Theorem walk_shape_complete : forall nf name fs,
  Forall (fun fb => fab_ok fb = true /\ fab_nc fb = nf) fs ->
  forall m k, (S k + m = length fs)%nat ->
  walk_shape nf (encode_file fs)
    (fab_offset fs k + blen (fab_hdr (nth k fs dummy_fab)))
    (fab_hdr (nth k fs dummy_fab))
    (map (mkrec name fs) (seq (S k) m)) = true.
Proof.
  intros nf name fs HF. rewrite Forall_forall in HF.
  induction m as [|m IH]; intros k Hk.
  - assert (Hin : In (nth k fs dummy_fab) fs) by (apply nth_In; lia).
    destruct (HF _ Hin) as [Hok Hnc].
    rewrite walk_shape_step by exact Hok. cbn [seq map].
    assert (E : fab_offset fs k + blen (fab_hdr (nth k fs dummy_fab))
                + 8 * fab_cells (nth k fs dummy_fab) * fab_nc (nth k fs dummy_fab)
                = blen (encode_file fs)).
    { rewrite <- fab_offset_all. replace (length fs) with (S k) by lia.
      rewrite fab_offset_S by lia. unfold fab_size.
      rewrite (blen_encode_fab _ Hok). lia. }
    rewrite E. pose proof (blen_nonneg (encode_file fs)) as Hnn.
    destruct (blen (encode_file fs) <? 0) eqn:E0; [lia|]. apply Z.eqb_refl.
  - assert (Hin : In (nth k fs dummy_fab) fs) by (apply nth_In; lia).
    destruct (HF _ Hin) as [Hok Hnc].
    assert (Hin' : In (nth (S k) fs dummy_fab) fs) by (apply nth_In; lia).
    destruct (HF _ Hin') as [Hok' Hnc'].
    rewrite walk_shape_step by exact Hok. cbn [seq map].
    assert (E : fab_offset fs k + blen (fab_hdr (nth k fs dummy_fab))
                + 8 * fab_cells (nth k fs dummy_fab) * fab_nc (nth k fs dummy_fab)
                = fab_offset fs (S k)).
    { rewrite fab_offset_S by lia. unfold fab_size.
      rewrite (blen_encode_fab _ Hok). lia. }
    rewrite E.
    assert (Hrl : readline (encode_file fs) (fab_offset fs (S k))
                  = fab_hdr (nth (S k) fs dummy_fab)).
    { destruct (encode_file_split fs (S k)) as [Hsplit Hlen]; [lia|].
      rewrite Hsplit, <- Hlen. apply readline_fab. }
    rewrite Hrl.
    pose proof (fab_offset_nonneg fs (S k)) as Hnn.
    destruct (fab_offset fs (S k) <? 0) eqn:E0; [lia|].
    assert (Hh : print_hdr (br_lo (mkrec name fs (S k))) (br_hi (mkrec name fs (S k))) nf
                 = fab_hdr (nth (S k) fs dummy_fab)).
    { unfold mkrec, fab_hdr. cbn [br_lo br_hi]. rewrite Hnc'. reflexivity. }
    rewrite Hh, LayoutProofs.bytes_eqb_refl.
    apply IH. lia.
Qed.

Lemma file_fabs_Forall lv nf name ids : wf_level lv = true ->
  Forall (fun fb => fab_nc fb = nf) (lv_fabs lv) ->
  In (name, ids) (lv_files lv) ->
  Forall (fun fb => fab_ok fb = true /\ fab_nc fb = nf) (file_fabs lv ids).
Proof.
  intros Hwf Hnc Hin. apply Forall_forall. intros fb Hfb.
  pose proof (file_fabs_In lv name ids fb Hwf Hin Hfb) as Hfb'.
  pose proof (wf_level_fabs_ok lv Hwf) as Hok. rewrite forallb_forall in Hok.
  rewrite Forall_forall in Hnc. split; [apply Hok|apply Hnc]; exact Hfb'.
Qed.

Theorem shape_ok_file_complete : forall nf nf' pl name ids,
  wf_level (pl_level pl) = true ->
  Forall (fun fb => fab_nc fb = nf) (lv_fabs (pl_level pl)) ->
  In (name, ids) (lv_files (pl_level pl)) ->
  shape_ok_file nf (snd (pl_dir nf' pl)) (pl_cellh pl) name = true.
Proof.
  intros nf nf' pl name ids Hwf Hnc Hin.
  unfold shape_ok_file. cbn [pl_dir snd ld_files].
  rewrite (lookup_lv_disk _ name ids Hwf Hin).
  rewrite (file_boxes_sorted pl name ids Hwf Hin).
  pose proof (file_fabs_Forall _ nf name ids Hwf Hnc Hin) as HF.
  pose proof (file_fabs_length (pl_level pl) ids) as Hlen.
  pose proof (wf_level_ids_nonempty _ Hwf name ids Hin) as Hne.
  set (fs := file_fabs (pl_level pl) ids) in *.
  destruct ids as [|i0 ids']; [congruence|]. clear Hne.
  cbn [length seq map]. cbv zeta.
  assert (Hrl : readline (encode_file fs) 0 = fab_hdr (nth 0%nat fs dummy_fab)).
  { destruct (encode_file_split fs 0%nat) as [Hsplit _]; [cbn [length] in Hlen; lia|].
    rewrite Hsplit. cbn [firstn]. rewrite encode_file_nil.
    exact (readline_fab [] _ _). }
  rewrite Hrl.
  replace (blen (fab_hdr (nth 0%nat fs dummy_fab)))
    with (fab_offset fs 0 + blen (fab_hdr (nth 0%nat fs dummy_fab)))
    by (rewrite fab_offset_0; lia).
  apply walk_shape_complete; [exact HF|]. cbn [length] in Hlen. lia.
Qed.

Theorem check_shape_complete : forall nf nf' pl,
  wf_level (pl_level pl) = true ->
  Forall (fun fb => fab_nc fb = nf) (lv_fabs (pl_level pl)) ->
  check_shape nf (snd (pl_dir nf' pl)) (pl_cellh pl) = true.
Proof.
  intros nf nf' pl Hwf Hnc. unfold check_shape.
  apply forallb_forall. intros name Hname.
  destruct (cells_or_nil_spec _ Hwf) as [Hcells _].
  pose proof (level_names_perm _ _ Hwf Hcells) as HP.
  change (c_files (pl_cellh pl)) with (map fst (cells_or_nil (pl_level pl))) in Hname.
  apply (Permutation_in _ HP) in Hname.
  apply in_map_iff in Hname. destruct Hname as ([n ids] & <- & Hin). cbn [fst].
  apply (shape_ok_file_complete nf nf' pl n ids Hwf Hnc Hin).
Qed.

(* ------------------------------------------------------------------ *)
(** * (d) the header of every box *)

Theorem check_headers_complete : forall nf nf' pl,
  wf_level (pl_level pl) = true ->
  Forall (fun fb => fab_nc fb = nf) (lv_fabs (pl_level pl)) ->
  check_headers nf (snd (pl_dir nf' pl)) (pl_cellh pl) = true.
Proof.
  intros nf nf' pl Hwf Hnc. unfold check_headers.
  rewrite (cell_boxes_spec pl Hwf).
  apply forallb_forall. intros r Hr.
  apply in_map_iff in Hr. destruct Hr as (b & <- & Hb). apply in_seq in Hb.
  set (lv := pl_level pl) in *.
  assert (Hbl : (b < length (lv_fabs lv))%nat) by lia.
  destruct (locate_total lv b Hwf Hbl) as [c Hloc].
  destruct (locate_spec lv b c Hwf Hbl Hloc) as (pre & post & Hlk & Hpre).
  set (fb := nth b (lv_fabs lv) dummy_fab) in *.
  assert (Hfb : In fb (lv_fabs lv)) by (apply nth_In; exact Hbl).
  pose proof (wf_level_fabs_ok lv Hwf) as Hok. rewrite forallb_forall in Hok.
  specialize (Hok fb Hfb).
  rewrite Forall_forall in Hnc. specialize (Hnc fb Hfb).
  destruct (fab_ok_inv fb Hok) as (Hlo & Hhi & Hlen & _).
  unfold header_ok, boxrec_of, loc_of. rewrite Hloc.
  cbn [br_file br_off br_lo br_hi pl_dir snd ld_files].
  fold lv. fold fb. rewrite Hlk, <- Hpre.
  pose proof (blen_nonneg pre) as Hnn.
  destruct (blen pre <? 0) eqn:E0; [lia|].
  rewrite readline_fab. unfold fab_hdr.
  rewrite (parse_print_hdr _ _ _ Hlo Hhi), (hdr_shape_fab fb Hlen).
  cbn [h_lo h_hi h_nc]. rewrite !list_eqb_refl, Hnc, Z.eqb_refl. reflexivity.
Qed.

(* ------------------------------------------------------------------ *)
(** * (c) every file named by the level header exists *)

Theorem check_structure_complete : forall nf' pl,
  wf_level (pl_level pl) = true ->
  check_structure (snd (pl_dir nf' pl)) (pl_cellh pl) = true.
Proof.
  intros nf' pl Hwf. unfold check_structure.
  cbn [pl_dir snd ld_files pl_cellh c_files].
  rewrite (proj2 (cells_or_nil_spec _ Hwf)), map_map.
  apply forallb_forall. intros f Hf.
  apply in_map_iff in Hf. destruct Hf as (b & <- & Hb). apply in_seq in Hb.
  assert (Hbl : (b < length (lv_fabs (pl_level pl)))%nat) by lia.
  destruct (locate_total _ b Hwf Hbl) as [c Hloc].
  destruct (locate_spec _ b c Hwf Hbl Hloc) as (pre & post & Hlk & _).
  unfold loc_of. rewrite Hloc.
  apply (lookup_some_existsb _ _ _ Hlk).
Qed.

(* the three checks do not look at the min/max tables *)
Lemma check_structure_strip ld c :
  check_structure ld (strip_minmax c) = check_structure ld c.
Proof. reflexivity. Qed.
Lemma check_headers_strip nf ld c :
  check_headers nf ld (strip_minmax c) = check_headers nf ld c.
Proof. reflexivity. Qed.
Lemma check_shape_strip nf ld c :
  check_shape nf ld (strip_minmax c) = check_shape nf ld c.
Proof. reflexivity. Qed.

(* ------------------------------------------------------------------ *)
(** * (b) opening the level headers *)

Lemma wf_cellh_pl ndims nf pl mm : wf_plevel ndims nf pl -> wf_cellh mm (pl_cellh pl).
Proof.
  intros (_ & Hwf & _ & _ & _ & Hmn & Hmx & Hmnf & Hmxf).
  pose proof (proj2 (cells_or_nil_spec _ Hwf)) as Hcells.
  unfold wf_cellh, pl_cellh. cbn [c_indexes c_files c_offsets c_mins c_maxs].
  rewrite Hcells, !map_length, seq_length.
  repeat split; try assumption.
  apply Forall_forall. intros ix Hix. apply in_map_iff in Hix.
  destruct Hix as (fb & <- & Hfb). cbn [fst snd].
  pose proof (wf_level_fabs_ok _ Hwf) as Hok. rewrite forallb_forall in Hok.
  destruct (fab_ok_inv fb (Hok fb Hfb)) as (Hlo & Hhi & _). split; assumption.
Qed.

Lemma lookup_dir_levels nf : forall levels pl,
  NoDup (map (fun pl => lb_cell_dir (pl_boxes pl)) levels) -> In pl levels ->
  lookup_dir (lb_cell_dir (pl_boxes pl)) (map (pl_dir nf) levels) = Some (snd (pl_dir nf pl)).
Proof.
  induction levels as [|p levels IH]; intros pl Hnd Hin; [destruct Hin|].
  cbn [map] in Hnd. inversion Hnd as [|? ? Hp Hnd']; subst.
  cbn [map]. unfold pl_dir at 1. cbn [lookup_dir].
  destruct Hin as [->|Hin].
  - rewrite LayoutProofs.bytes_eqb_refl. reflexivity.
  - destruct (bytes_eqb (lb_cell_dir (pl_boxes p)) (lb_cell_dir (pl_boxes pl))) eqn:E.
    + exfalso. apply LayoutProofs.bytes_eqb_true in E. apply Hp. rewrite E.
      apply (in_map (fun pl => lb_cell_dir (pl_boxes pl))). exact Hin.
    + apply IH; assumption.
Qed.

Definition opened_of (pf : plotfile) (lim : Z) : opened :=
  {| o_g := pf_g pf; o_keys := field_keys (g_names (pf_g pf)) []; o_limit := lim;
     o_levels := restrict_levels lim (map pl_boxes (pf_levels pf)) |}.

Definition opened_levels (pf : plotfile) (lim : Z) (mm : bool) : list (ldir * cellh) :=
  map (fun pl => (snd (pl_dir (pf_nfields pf) pl),
                  if mm then pl_cellh pl else strip_minmax (pl_cellh pl)))
      (firstn (Z.to_nat (lim + 1)) (pf_levels pf)).

Lemma nfields_keys pf : blen (o_keys (opened_of pf 0)) = pf_nfields pf.
Proof.
  unfold opened_of, pf_nfields, blen. cbn [o_keys]. rewrite field_keys_length. reflexivity.
Qed.

Theorem open_levels_complete : forall pf lim mm, wf_plotfile pf ->
  open_levels (pf_disk pf) (opened_of pf lim) mm = Some (opened_levels pf lim mm).
Proof.
  intros pf lim mm (Hg & Hlen & Hnd & Hlv).
  unfold open_levels, opened_levels, opened_of, restrict_levels.
  cbn [o_levels o_keys pf_disk pd_dirs].
  rewrite firstn_map, omap_all_map_pre.
  apply omap_all_map. intros pl Hin. apply In_firstn in Hin.
  rewrite (lookup_dir_levels _ _ pl Hnd Hin). cbn [obind pl_dir snd ld_cellh].
  replace (blen (field_keys (g_names (pf_g pf)) [])) with (pf_nfields pf)
    by (symmetry; apply (nfields_keys pf)).
  rewrite Forall_forall in Hlv.
  pose proof (wf_cellh_pl _ _ pl mm (Hlv pl Hin)) as Hwc.
  rewrite <- (app_nil_r (print_cellh (pf_nfields pf) (pl_cellh pl))).
  destruct (p_cellh_print (pf_nfields pf) mm (pl_cellh pl) [] Hwc) as [Ht Hf].
  destruct mm.
  - rewrite (Ht eq_refl). reflexivity.
  - destruct (Hf eq_refl) as [rest' Hr]. rewrite Hr. reflexivity.
Qed.

(* ------------------------------------------------------------------ *)
(** * (a) opening the global header *)

Theorem open_header_complete : forall pf limit lim, wf_plotfile pf ->
  eff_limit (g_max_level (pf_g pf)) limit = Some lim -> 0 <= lim ->
  open_header (print_header (pf_g pf) (map pl_boxes (pf_levels pf))) limit
  = Some (opened_of pf lim).
Proof.
  intros pf limit lim (Hg & Hlen & Hnd & Hlv) Heff Hlim. unfold opened_of.
  apply open_header_roundtrip; [exact Hg| |rewrite blen_map; exact Hlen|exact Heff|lia].
  apply Forall_forall. intros lb Hlb. apply in_map_iff in Hlb.
  destruct Hlb as (pl & <- & Hpl). rewrite Forall_forall in Hlv.
  destruct (Hlv pl Hpl) as (H & _). exact H.
Qed.

(* ------------------------------------------------------------------ *)
(** * Completeness *)

Theorem taste_complete_gen : forall close (pf : plotfile) (o : topts) (limit : option Z) (lim : Z),
  wf_plotfile pf ->
  eff_limit (g_max_level (pf_g pf)) limit = Some lim -> 0 <= lim ->
  ((t_data o && negb (t_headers o && t_shape o)) = true ->
   forallb (fun lc => check_data close (pf_nfields pf) (fst lc) (snd lc)) (opened_levels pf lim (t_data o)) = true) ->
  taste_good close o limit (pf_disk pf) = true.
Proof.
  intros close pf o limit lim Hwf Heff Hlim Hbr.
  unfold taste_good.
  change (pd_header (pf_disk pf))
    with (Some (print_header (pf_g pf) (map pl_boxes (pf_levels pf)))).
  cbv beta iota.
  rewrite (open_header_complete pf limit lim Hwf Heff Hlim).
  rewrite (open_levels_complete pf lim (t_data o) Hwf).
  replace (blen (o_keys (opened_of pf lim))) with (pf_nfields pf)
    by (symmetry; apply (nfields_keys pf)).
  destruct Hwf as (Hg & Hlen & Hnd & Hlv). rewrite Forall_forall in Hlv.
  assert (HS : forallb (fun lc => check_structure (fst lc) (snd lc))
                       (opened_levels pf lim (t_data o)) = true).
  { apply forallb_forall. intros lc Hlc. apply in_map_iff in Hlc.
    destruct Hlc as (pl & <- & Hpl). apply In_firstn in Hpl. cbn [fst snd].
    destruct (Hlv pl Hpl) as (_ & Hwl & _).
    destruct (t_data o); [|rewrite check_structure_strip];
      apply check_structure_complete; exact Hwl. }
  assert (HH : forallb (fun lc => check_headers (pf_nfields pf) (fst lc) (snd lc))
                       (opened_levels pf lim (t_data o)) = true).
  { apply forallb_forall. intros lc Hlc. apply in_map_iff in Hlc.
    destruct Hlc as (pl & <- & Hpl). apply In_firstn in Hpl. cbn [fst snd].
    destruct (Hlv pl Hpl) as (_ & Hwl & _ & _ & Hnc & _).
    destruct (t_data o); [|rewrite check_headers_strip];
      apply check_headers_complete; assumption. }
  assert (HP : forallb (fun lc => check_shape (pf_nfields pf) (fst lc) (snd lc))
                       (opened_levels pf lim (t_data o)) = true).
  { apply forallb_forall. intros lc Hlc. apply in_map_iff in Hlc.
    destruct Hlc as (pl & <- & Hpl). apply In_firstn in Hpl. cbn [fst snd].
    destruct (Hlv pl Hpl) as (_ & Hwl & _ & _ & Hnc & _).
    destruct (t_data o); [|rewrite check_shape_strip];
      apply check_shape_complete; assumption. }
  rewrite HS, HH, HP.
  destruct (t_data o && negb (t_headers o && t_shape o)) eqn:E.
  - rewrite (Hbr eq_refl). destruct (t_headers o), (t_shape o); reflexivity.
  - destruct (t_headers o), (t_shape o); reflexivity.
Qed.

Print Assumptions taste_complete_gen.
