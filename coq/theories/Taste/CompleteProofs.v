(* Completeness of the validator model (Taste/Taste.v): every well-formed
   plotfile (Plotfile/Abstract.v) is accepted under every option set that
   does not reach the (broken) binary-data branch.
   Standard library only, no axioms. *)
From AK Require Import Base.Prelude Bytes.Text Bytes.FabHeader Bytes.FabHeaderProofs
  Bytes.BinFile Reader.Select Reader.BoxRead Reader.Level Reader.ReadSpec
  Reader.LayoutProofs Reader.ReadProofs Reader.IterProofs
  Plotfile.TextHeader Plotfile.HeaderSpec Plotfile.HeaderProofs
  Taste.Taste Taste.TasteSpec Plotfile.Abstract.
From Coq Require Import Permutation Sorted.

(* ------------------------------------------------------------------ *)
(** * The binary-data branch always answers "bad" *)

Theorem taste_binary_data_branch : forall o limit d,
  (t_data o && negb (t_headers o && t_shape o)) = true -> taste_good o limit d = false.
Proof.
  intros o limit d H. unfold taste_good.
  destruct (pd_header d) as [ht|]; [|reflexivity].
  destruct (open_header ht limit) as [op|]; [|reflexivity].
  destruct (open_levels d op (t_data o)) as [lvs|]; [|reflexivity].
  rewrite H. cbn [negb]. apply andb_false_r.
Qed.

(* ------------------------------------------------------------------ *)
(** * Generic list facts *)

Lemma omap_all_default {A B} (f : A -> option B) (d : B) : forall l r,
  omap_all f l = Some r ->
  r = map (fun x => match f x with Some y => y | None => d end) l.
Proof.
  induction l as [|a l IH]; intros r H; cbn [omap_all] in H.
  - inversion H. reflexivity.
  - destruct (f a) as [b|] eqn:E; cbn [obind] in H; [|discriminate].
    destruct (omap_all f l) as [r'|] eqn:E2; cbn [obind] in H; [|discriminate].
    inversion H. cbn [map]. rewrite E. f_equal. apply IH. reflexivity.
Qed.

Lemma omap_all_map_pre {A B C} (g : A -> B) (f : B -> option C) : forall l,
  omap_all f (map g l) = omap_all (fun a => f (g a)) l.
Proof.
  induction l as [|a l IH]; cbn [map omap_all]; [reflexivity|].
  rewrite IH. reflexivity.
Qed.

Lemma map_via_seq {A B} (d : A) (h : A -> B) (l : list A) :
  map h l = map (fun i => h (nth i l d)) (seq 0 (length l)).
Proof. rewrite <- (map_map (fun i => nth i l d) h), map_nth_seq. reflexivity. Qed.

Lemma filter_map_comm {A B} (f : A -> B) (p : B -> bool) : forall l,
  filter p (map f l) = map f (filter (fun x => p (f x)) l).
Proof.
  induction l as [|a l IH]; cbn [map filter]; [reflexivity|].
  destruct (p (f a)); cbn [map]; rewrite IH; reflexivity.
Qed.

Lemma In_firstn {A} (x : A) : forall n l, In x (firstn n l) -> In x l.
Proof.
  induction n as [|n IH]; intros [|a l] H; cbn [firstn] in H; try (destruct H; fail).
  destruct H as [H|H]; [left; exact H|right; apply IH; exact H].
Qed.

Lemma NoDup_fst_unique {A B} : forall (l : list (A * B)) a b b',
  NoDup (map fst l) -> In (a, b) l -> In (a, b') l -> b = b'.
Proof.
  induction l as [|[x y] l IH]; intros a b b' Hnd H1 H2; [destruct H1|].
  cbn [map fst] in Hnd. inversion Hnd as [|? ? Hx Hnd']; subst.
  destruct H1 as [H1|H1], H2 as [H2|H2].
  - congruence.
  - inversion H1; subst. exfalso. apply Hx. apply (in_map fst) in H2. exact H2.
  - inversion H2; subst. exfalso. apply Hx. apply (in_map fst) in H1. exact H1.
  - apply (IH a); assumption.
Qed.

Lemma firstn_S_snoc {A} (d : A) : forall k l, (k < length l)%nat ->
  firstn (S k) l = firstn k l ++ [nth k l d].
Proof.
  induction k as [|k IH]; intros [|a l] H; cbn [length] in H; try lia.
  - reflexivity.
  - change (firstn (S (S k)) (a :: l)) with (a :: firstn (S k) l).
    rewrite IH by lia. reflexivity.
Qed.

Lemma StronglySorted_map_seq {B} (R : B -> B -> Prop) (f : nat -> B) : forall m s,
  (forall i j, (s <= i < j)%nat -> (j < s + m)%nat -> R (f i) (f j)) ->
  StronglySorted R (map f (seq s m)).
Proof.
  induction m as [|m IH]; intros s H; cbn [seq map]; constructor.
  - apply IH. intros i j Hij Hj. apply H; lia.
  - apply Forall_forall. intros x Hx. apply in_map_iff in Hx.
    destruct Hx as (j & <- & Hj). apply in_seq in Hj. apply H; lia.
Qed.

Lemma zip3_map {A} (f : A -> bytes) (g : A -> Z) (h : A -> list Z * list Z) : forall l,
  zip3 (map f l) (map g l) (map h l) =
  map (fun x => {| br_file := f x; br_off := g x; br_lo := fst (h x); br_hi := snd (h x) |}) l.
Proof.
  induction l as [|a l IH]; cbn [map zip3]; [reflexivity|].
  destruct (h a) as [lo hi] eqn:E. cbn [fst snd]. f_equal. exact IH.
Qed.

Lemma list_eqb_refl : forall l, list_eqb l l = true.
Proof.
  induction l as [|x l IH]; cbn [list_eqb]; [reflexivity|].
  rewrite Z.eqb_refl, IH. reflexivity.
Qed.

Lemma lookup_some_existsb name : forall disk f,
  lookup name disk = Some f ->
  existsb (fun nf : bytes * bytes => bytes_eqb (fst nf) name) disk = true.
Proof.
  induction disk as [|[n g] disk IH]; intros f H; cbn [lookup] in H; [discriminate|].
  cbn [existsb fst]. destruct (bytes_eqb n name); [reflexivity|].
  cbn [orb]. apply (IH f). exact H.
Qed.

(* ------------------------------------------------------------------ *)
(** * Insertion sort by offset: a strictly sorted permutation is the result *)

Definition off_lt (a b : boxrec) : Prop := br_off a < br_off b.
Definition off_le (a b : boxrec) : Prop := br_off a <= br_off b.

Lemma insert_by_off_perm b : forall l, Permutation (b :: l) (insert_by_off b l).
Proof.
  induction l as [|x l IH]; cbn [insert_by_off]; [apply Permutation_refl|].
  destruct (br_off b <? br_off x); [apply Permutation_refl|].
  eapply perm_trans; [apply perm_swap|apply perm_skip; exact IH].
Qed.

Lemma sort_by_off_cons b l : sort_by_off (b :: l) = insert_by_off b (sort_by_off l).
Proof. reflexivity. Qed.

Lemma sort_by_off_perm : forall l, Permutation l (sort_by_off l).
Proof.
  induction l as [|b l IH]; [apply Permutation_refl|].
  rewrite sort_by_off_cons.
  eapply perm_trans; [apply perm_skip; exact IH|apply insert_by_off_perm].
Qed.

Lemma insert_by_off_sorted b : forall l,
  StronglySorted off_le l -> StronglySorted off_le (insert_by_off b l).
Proof.
  induction l as [|x l IH]; intros H; cbn [insert_by_off].
  - constructor; constructor.
  - inversion H as [|? ? Hs Hall]; subst.
    destruct (br_off b <? br_off x) eqn:E.
    + constructor; [exact H|]. constructor; [unfold off_le; lia|].
      eapply Forall_impl; [|exact Hall]. unfold off_le. intros; lia.
    + constructor; [apply IH; exact Hs|].
      apply Forall_forall. intros y Hy.
      apply (Permutation_in _ (Permutation_sym (insert_by_off_perm b l))) in Hy.
      destruct Hy as [<-|Hy]; [unfold off_le; lia|].
      rewrite Forall_forall in Hall. apply Hall; exact Hy.
Qed.

Lemma sort_by_off_sorted : forall l, StronglySorted off_le (sort_by_off l).
Proof.
  induction l as [|b l IH]; [constructor|].
  rewrite sort_by_off_cons. apply insert_by_off_sorted. exact IH.
Qed.

Lemma sorted_perm_unique : forall l2 l1,
  Permutation l1 l2 -> StronglySorted off_le l1 -> StronglySorted off_lt l2 -> l1 = l2.
Proof.
  induction l2 as [|a l2 IH]; intros l1 HP H1 H2.
  - apply Permutation_sym, Permutation_nil in HP. exact HP.
  - destruct l1 as [|b l1]; [apply Permutation_nil in HP; discriminate|].
    inversion H1 as [|? ? H1s H1a]; subst. inversion H2 as [|? ? H2s H2a]; subst.
    assert (Hba : b = a).
    { assert (Hb : In b (a :: l2))
        by (eapply Permutation_in; [exact HP|left; reflexivity]).
      assert (Ha : In a (b :: l1))
        by (eapply Permutation_in; [apply Permutation_sym; exact HP|left; reflexivity]).
      destruct Hb as [Hb|Hb]; [symmetry; exact Hb|].
      destruct Ha as [Ha|Ha]; [exact Ha|].
      rewrite Forall_forall in H1a, H2a.
      specialize (H1a _ Ha). specialize (H2a _ Hb).
      unfold off_le, off_lt in *. lia. }
    subst b. f_equal.
    apply IH; [eapply Permutation_cons_inv; exact HP|exact H1s|exact H2s].
Qed.

Theorem sort_by_off_unique : forall l l',
  Permutation l l' -> StronglySorted off_lt l' -> sort_by_off l = l'.
Proof.
  intros l l' HP HS. apply sorted_perm_unique.
  - eapply perm_trans; [apply Permutation_sym, sort_by_off_perm|exact HP].
  - apply sort_by_off_sorted.
  - exact HS.
Qed.

(* ------------------------------------------------------------------ *)
(** * The level header of a well-formed level *)

Definition loc_of (lv : level) (b : nat) : bytes * Z :=
  match locate lv (lv_files lv) b with Some c => c | None => ([], 0) end.

Definition boxrec_of (lv : level) (b : nat) : boxrec :=
  {| br_file := fst (loc_of lv b); br_off := snd (loc_of lv b);
     br_lo := fab_lo (nth b (lv_fabs lv) dummy_fab);
     br_hi := fab_hi (nth b (lv_fabs lv) dummy_fab) |}.

(* record of the k-th FAB of file [name] holding the FABs [fs] *)
Definition mkrec (name : bytes) (fs : list fab) (k : nat) : boxrec :=
  {| br_file := name; br_off := fab_offset fs k;
     br_lo := fab_lo (nth k fs dummy_fab); br_hi := fab_hi (nth k fs dummy_fab) |}.

Lemma cells_or_nil_spec lv : wf_level lv = true ->
  lv_cells lv = Some (cells_or_nil lv) /\
  cells_or_nil lv = map (loc_of lv) (seq 0 (length (lv_fabs lv))).
Proof.
  intros Hwf. destruct (lv_cells_spec lv Hwf) as (cells & Hc & _).
  unfold cells_or_nil. rewrite Hc. split; [reflexivity|]. unfold lv_cells in Hc.
  apply (omap_all_default _ ([], 0)) in Hc. exact Hc.
Qed.

Theorem cell_boxes_spec : forall pl, wf_level (pl_level pl) = true ->
  cell_boxes (pl_cellh pl)
  = map (boxrec_of (pl_level pl)) (seq 0 (length (lv_fabs (pl_level pl)))).
Proof.
  intros pl Hwf. unfold cell_boxes, pl_cellh. cbn [c_files c_offsets c_indexes].
  rewrite (proj2 (cells_or_nil_spec _ Hwf)).
  rewrite (map_via_seq dummy_fab (fun fb => (fab_lo fb, fab_hi fb))).
  rewrite !map_map. rewrite zip3_map. reflexivity.
Qed.

Lemma count_nat_concat_le x ids : forall (ls : list (list nat)),
  In ids ls -> (count_nat x ids <= count_nat x (concat ls))%nat.
Proof.
  induction ls as [|a ls IH]; intros H; [destruct H|].
  cbn [concat]. rewrite count_nat_app.
  destruct H as [->|H]; [lia|]. apply IH in H. lia.
Qed.

Section LevelFacts.
  Variable lv : level.
  Hypothesis Hwf : wf_level lv = true.
  Variables (name : bytes) (ids : list nat).
  Hypothesis Hin : In (name, ids) (lv_files lv).

  Lemma ids_in_concat : forall x, In x ids -> In x (concat (map snd (lv_files lv))).
  Proof.
    intros x Hx. apply in_concat. exists ids. split; [|exact Hx].
    apply (in_map snd) in Hin. exact Hin.
  Qed.

  Lemma file_ids_NoDup : NoDup ids.
  Proof.
    destruct (wf_level_parts lv Hwf) as (_ & Hlt & Hc).
    apply count_le1_NoDup. intros x.
    destruct (Nat.eq_dec (count_nat x ids) 0) as [E|E]; [lia|].
    pose proof (count_nat_pos _ _ E) as Hx.
    assert (Hids : In ids (map snd (lv_files lv)))
      by (apply (in_map snd) in Hin; exact Hin).
    pose proof (count_nat_concat_le x ids _ Hids) as Hle.
    rewrite (Hc x (Hlt x (ids_in_concat x Hx))) in Hle. exact Hle.
  Qed.

  Lemma locate_nth k : (k < length ids)%nat ->
    locate lv (lv_files lv) (nth k ids 0%nat) = Some (name, fab_offset (file_fabs lv ids) k).
  Proof.
    intros Hk.
    destruct (wf_level_parts lv Hwf) as (Hd & Hlt & Hc).
    set (b := nth k ids 0%nat).
    assert (Hb : In b ids) by (apply nth_In; exact Hk).
    pose proof (Hlt b (ids_in_concat b Hb)) as Hblt.
    destruct (locate_total lv b Hwf Hblt) as [c Hloc]. rewrite Hloc.
    assert (Hn : fst c = name).
    { apply (locate_name lv b (lv_files lv) name ids c); auto.
      rewrite (Hc b Hblt). lia. }
    destruct (locate_in lv b _ _ Hloc) as (ids' & k' & Hin' & Hpos & Hoff).
    rewrite Hn in Hin'.
    assert (E : ids' = ids).
    { eapply NoDup_fst_unique;
        [apply distinct_names_NoDup; exact Hd|exact Hin'|exact Hin]. }
    subst ids'.
    apply pos_in_spec in Hpos. destruct Hpos as [Hnth Hk'].
    assert (E : k' = k).
    { apply (proj1 (NoDup_nth ids 0%nat) file_ids_NoDup); auto. }
    subst k'. destruct c as [c1 c2]. cbn [fst snd] in *. subst. reflexivity.
  Qed.

  Lemma filter_file_perm :
    Permutation (filter (fun b => bytes_eqb (fst (loc_of lv b)) name)
                        (seq 0 (length (lv_fabs lv)))) ids.
  Proof.
    destruct (wf_level_parts lv Hwf) as (Hd & Hlt & Hc).
    apply NoDup_Permutation.
    - apply NoDup_filter, seq_NoDup.
    - exact file_ids_NoDup.
    - intros x. rewrite filter_In, in_seq. split.
      + intros [Hx He].
        assert (Hxl : (x < length (lv_fabs lv))%nat) by lia.
        destruct (locate_total lv x Hwf Hxl) as [c Hloc].
        unfold loc_of in He. rewrite Hloc in He.
        apply LayoutProofs.bytes_eqb_true in He.
        destruct (locate_in lv x _ _ Hloc) as (ids' & k' & Hin' & Hpos & _).
        rewrite He in Hin'.
        assert (E : ids' = ids).
        { eapply NoDup_fst_unique;
            [apply distinct_names_NoDup; exact Hd|exact Hin'|exact Hin]. }
        subst ids'. eapply pos_in_In. exact Hpos.
      + intros Hx. split.
        * pose proof (Hlt x (ids_in_concat x Hx)). lia.
        * destruct (In_nth ids x 0%nat Hx) as (k & Hk & <-).
          unfold loc_of. rewrite (locate_nth k Hk). cbn [fst].
          apply LayoutProofs.bytes_eqb_refl.
  Qed.

  Lemma boxrec_of_ids :
    map (boxrec_of lv) ids = map (mkrec name (file_fabs lv ids)) (seq 0 (length ids)).
  Proof.
    rewrite (map_via_seq 0%nat (boxrec_of lv) ids).
    apply map_ext_in. intros k Hk. apply in_seq in Hk.
    unfold boxrec_of, mkrec, loc_of. rewrite (locate_nth k) by lia.
    cbn [fst snd]. rewrite (nth_file_fabs lv ids k) by lia. reflexivity.
  Qed.

  Lemma file_fabs_length : length (file_fabs lv ids) = length ids.
  Proof. unfold file_fabs. apply map_length. Qed.
End LevelFacts.

(* ------------------------------------------------------------------ *)
(** * Offsets inside a file *)

Lemma fab_size_pos fb : 0 < fab_size fb.
Proof.
  unfold fab_size, encode_fab, fab_hdr. rewrite blen_app.
  pose proof (blen_print_hdr_pos (fab_lo fb) (fab_hi fb) (fab_nc fb)).
  pose proof (blen_nonneg (fab_data fb)). lia.
Qed.

Lemma zsum_app a b : zsum (a ++ b) = zsum a + zsum b.
Proof.
  unfold zsum. induction a as [|x a IH]; cbn [app fold_right]; [lia|].
  rewrite IH. lia.
Qed.

Lemma fab_offset_S fs k : (k < length fs)%nat ->
  fab_offset fs (S k) = fab_offset fs k + fab_size (nth k fs dummy_fab).
Proof.
  intros H. unfold fab_offset. rewrite (firstn_S_snoc dummy_fab k fs H).
  rewrite map_app, zsum_app. unfold zsum at 2. cbn [map fold_right]. lia.
Qed.

Lemma fab_offset_0 fs : fab_offset fs 0 = 0.
Proof. reflexivity. Qed.

Lemma fab_offset_all fs : fab_offset fs (length fs) = blen (encode_file fs).
Proof. rewrite blen_encode_file. unfold fab_offset. rewrite firstn_all. reflexivity. Qed.

Lemma fab_offset_lt fs : forall j i, (i < j <= length fs)%nat ->
  fab_offset fs i < fab_offset fs j.
Proof.
  induction j as [|j IH]; intros i H; [lia|].
  rewrite fab_offset_S by lia.
  pose proof (fab_size_pos (nth j fs dummy_fab)).
  destruct (Nat.eq_dec i j) as [->|Hne]; [lia|].
  specialize (IH i). lia.
Qed.

Lemma fab_offset_nonneg fs k : (k <= length fs)%nat -> 0 <= fab_offset fs k.
Proof.
  intros H. destruct k as [|k]; [rewrite fab_offset_0; lia|].
  pose proof (fab_offset_lt fs (S k) 0%nat). rewrite fab_offset_0 in *. lia.
Qed.

(* ------------------------------------------------------------------ *)
(** * KEY LEMMA: the boxes of a file sorted by recorded offset are its boxes
      in on-disk order *)

Theorem file_boxes_sorted : forall pl name ids,
  wf_level (pl_level pl) = true -> In (name, ids) (lv_files (pl_level pl)) ->
  sort_by_off (filter (fun b => bytes_eqb (br_file b) name) (cell_boxes (pl_cellh pl)))
  = map (mkrec name (file_fabs (pl_level pl) ids)) (seq 0 (length ids)).
Proof.
  intros pl name ids Hwf Hin.
  rewrite (cell_boxes_spec pl Hwf), filter_map_comm.
  apply sort_by_off_unique.
  - rewrite <- (boxrec_of_ids _ Hwf name ids Hin).
    apply Permutation_map.
    exact (filter_file_perm _ Hwf name ids Hin).
  - apply StronglySorted_map_seq. intros i j Hij Hj.
    unfold off_lt, mkrec. cbn [br_off].
    apply fab_offset_lt. rewrite file_fabs_length. lia.
Qed.
