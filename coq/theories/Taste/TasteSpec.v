(* Specification side of the validator: what "consistent" means for a binary
   file with respect to the boxes a level header assigns to it. *)
From AK Require Import Base.Prelude Bytes.Text Bytes.FabHeader Bytes.BinFile
  Reader.Select Reader.BoxRead Reader.Level Plotfile.TextHeader Taste.Taste.

(* A tile: a header line followed by its payload. *)
Definition tile_bytes (t : bytes * bytes) : bytes := fst t ++ snd t.

(* payload size announced by a header line *)
Definition hdr_payload (h : bytes) : option Z :=
  do hd <- parse_hdr h; do shp <- hdr_shape hd; Some (8 * zprod shp * h_nc hd).

(* [f] is exactly a sequence of FABs, one per box of [bs] (the boxes the level
   header assigns to the file, sorted by recorded offset): every tile's
   payload has the size its own header announces, and every tile after the
   first starts with exactly the header of the corresponding box with [nf]
   components. *)
Definition file_tiled (nf : Z) (f : bytes) (bs : list boxrec) : Prop :=
  exists tiles : list (bytes * bytes),
    length tiles = length bs /\
    f = concat (map tile_bytes tiles) /\
    Forall (fun t => exists n, hdr_payload (fst t) = Some n /\ blen (snd t) = n) tiles /\
    Forall2 (fun t b => fst t = print_hdr (br_lo b) (br_hi b) nf) (tl tiles) (tl bs).

(* the boxes of file [name] in a level header, sorted by recorded offset *)
Definition file_boxes (c : cellh) (name : bytes) : list boxrec :=
  sort_by_off (filter (fun b => bytes_eqb (br_file b) name) (cell_boxes c)).

(* every box record whose payload size is non-negative: index ranges with
   lo <= hi componentwise and equal dimension *)
Definition box_valid (b : boxrec) : Prop :=
  length (br_lo b) = length (br_hi b) /\ br_lo b <> [] /\
  Forall2 (fun l h => l <= h) (br_lo b) (br_hi b).

Definition default_opts : topts :=
  {| t_headers := true; t_shape := true; t_data := false; t_coords := false |}.
