(* Proofs about the 3D slice model: the bracketing cells chosen in a box, the
   samples held by the two canvases, and the interpolation identities. *)
From AK Require Import Base.Prelude Bytes.FabHeader Bytes.BinFile Array.Paint Mandoline.Plate
  Mandoline.PlateProofs Mandoline.Slice3D.
From Coq Require Import QArith Qfield.

(* ------------------------------------------------------------------ *)
(** * slice_box: which cells bracket the plane *)

Lemma fz_pos L lv : (0 < fz L lv)%Z.
Proof. unfold fz. apply pow2_pos. Qed.

(* the cell whose centre is the last one at or below P *)
Lemma last_centre_below (f P : Z) : (0 < f)%Z ->
  let c := ((P / (4 * f) - 1) / 2)%Z in
  ((2 * c + 1) * (4 * f) <= P < (2 * c + 3) * (4 * f))%Z.
Proof.
  intros Hf c.
  assert (H4 : (0 < 4 * f)%Z) by lia.
  pose proof (Z.div_mod P (4 * f) ltac:(lia)) as Hdm.
  pose proof (Z.mod_pos_bound P (4 * f) H4) as Hm.
  set (q := (P / (4 * f))%Z) in *.
  pose proof (Z.div_mod (q - 1) 2 ltac:(lia)) as Hdm2.
  pose proof (Z.mod_pos_bound (q - 1) 2 ltac:(lia)) as Hm2.
  fold c in Hdm2.
  assert (Hq : (2 * c + 1 <= q < 2 * c + 3)%Z) by lia.
  split.
  - apply (Z.le_trans _ (q * (4 * f))); [apply Z.mul_le_mono_nonneg_r; lia | lia].
  - apply (Z.lt_le_trans _ ((q + 1) * (4 * f))); [lia | apply Z.mul_le_mono_nonneg_r; lia].
Qed.

(* The four cases of slice_box, for a box lo..hi along the normal:
   beyond the last centre / before the first / on a centre / between two *)
Theorem slice_idx_spec : forall L cn P lv b,
  let lo := nthZ (sb_lo b) cn in let hi := nthZ (sb_hi b) cn in
  (lo <= hi)%Z ->
  match slice_idx L cn P lv b with
  | (Some i, None) => (i = hi - lo /\ centre L lv hi < P)%Z
  | (None, Some j) => (j = 0 /\ P < centre L lv lo)%Z
  | (Some i, Some j) =>
      (0 <= i <= hi - lo /\ 0 <= j <= hi - lo /\
       centre L lv (lo + i) <= P <= centre L lv (lo + j) /\
       ((i = j /\ centre L lv (lo + i) = P) \/ (j = i + 1 /\ centre L lv (lo + i) < P < centre L lv (lo + j))))%Z
  | (None, None) => False
  end.
Proof.
  intros L cn P lv b lo hi Hle. unfold slice_idx. fold lo hi.
  pose proof (fz_pos L lv) as Hf.
  destruct (centre L lv hi <? P)%Z eqn:E1; [split; lia|].
  destruct (P <? centre L lv lo)%Z eqn:E2; [split; lia|].
  pose proof (last_centre_below (fz L lv) P Hf) as Hc. cbv zeta in Hc.
  set (c := ((P / (4 * fz L lv) - 1) / 2)%Z) in *.
  assert (Hlo : (lo <= c)%Z).
  { unfold centre in E2. assert ((2 * lo + 1) * (4 * fz L lv) <= P)%Z by lia.
    destruct (Z_lt_le_dec c lo) as [Hlt|]; [|assumption]. exfalso.
    assert ((2 * c + 3) * (4 * fz L lv) <= (2 * lo + 1) * (4 * fz L lv))%Z by (apply Z.mul_le_mono_nonneg_r; lia). lia. }
  assert (Hhi : (c <= hi)%Z).
  { unfold centre in E1. assert (P <= (2 * hi + 1) * (4 * fz L lv))%Z by lia.
    destruct (Z_lt_le_dec hi c) as [Hlt|]; [|assumption]. exfalso.
    assert ((2 * hi + 3) * (4 * fz L lv) <= (2 * c + 1) * (4 * fz L lv))%Z by (apply Z.mul_le_mono_nonneg_r; lia). lia. }
  replace (lo + (c - lo))%Z with c by ring.
  destruct (centre L lv c =? P)%Z eqn:E3.
  - apply Z.eqb_eq in E3. replace (lo + (c - lo))%Z with c by ring.
    repeat split; try lia. all: try (left; split; [reflexivity | exact E3]).
  - apply Z.eqb_neq in E3. unfold centre in *.
    assert (Hc1 : (c + 1 <= hi)%Z).
    { destruct (Z_lt_le_dec hi (c + 1)) as [Hlt|]; [|assumption]. exfalso.
      assert (c = hi) by lia. subst c. lia. }
    replace (lo + (c - lo))%Z with c by ring. replace (lo + (c - lo + 1))%Z with (c + 1)%Z by ring.
    replace (2 * (c + 1) + 1)%Z with (2 * c + 3)%Z by ring.
    repeat split; try lia. all: try (right; split; [reflexivity | lia]).
Qed.

(* ------------------------------------------------------------------ *)
(** * the interpolation identities (exact arithmetic) *)

Definition lerp (l r ln rn p : Q) : Q := (l * (rn - p) + r * (p - ln)) / (rn - ln).

(* a field affine along the normal is reproduced exactly, whatever the two
   bracketing samples (same level or mixed levels) *)
Theorem lerp_affine : forall a b ln rn p : Q, ~ rn - ln == 0 ->
  lerp (a * ln + b) (a * rn + b) ln rn p == a * p + b.
Proof. intros a b ln rn p H. unfold lerp. field. exact H. Qed.

(* a field constant along the normal is reproduced exactly *)
Theorem lerp_const : forall v ln rn p : Q, ~ rn - ln == 0 -> lerp v v ln rn p == v.
Proof. intros v ln rn p H. unfold lerp. field. exact H. Qed.

(* the result lies between the two samples when the plane lies between their centres *)
Theorem lerp_at_left : forall l r ln rn : Q, ~ rn - ln == 0 -> lerp l r ln rn ln == l.
Proof. intros l r ln rn H. unfold lerp. field. exact H. Qed.
Theorem lerp_at_right : forall l r ln rn : Q, ~ rn - ln == 0 -> lerp l r ln rn rn == r.
Proof. intros l r ln rn H. unfold lerp. field. exact H. Qed.

(* ------------------------------------------------------------------ *)
(** * what the two canvases hold *)
Open Scope Z_scope.

Definition pick2 {A} (side : bool) (pr : A * A) : A := if side then fst pr else snd pr.

Section Canvases.
Variable L : nat.
Variables cn cx cy : nat.
Variable P dom_lo dom_hi : Z.

Notation bp := (box_paints L cn cx cy P dom_lo dom_hi).
Notation lp := (level_paints L cn cx cy P dom_lo dom_hi).

(* a patch painted for box b covers the pixels whose level-lv cell lies in
   b's in-plane footprint *)
Lemma side_patch_covers lv b i ncomp x y :
  covers (side_patch L cn cx cy lv b i ncomp) [x; y]
  = cell_in [nthZ (sb_lo b) cx; nthZ (sb_lo b) cy] [nthZ (sb_hi b) cx; nthZ (sb_hi b) cy]
            (coarsen (fz L lv) [x; y]).
Proof.
  unfold covers, side_patch. cbn [p_start p_stop].
  change [nthZ (sb_lo b) cx * fz L lv; nthZ (sb_lo b) cy * fz L lv]
    with (slice_start (fz L lv) [nthZ (sb_lo b) cx; nthZ (sb_lo b) cy]).
  change [(nthZ (sb_hi b) cx + 1) * fz L lv; (nthZ (sb_hi b) cy + 1) * fz L lv]
    with (slice_stop (fz L lv) [nthZ (sb_hi b) cx; nthZ (sb_hi b) cy]).
  apply in_slice_coarsen. apply fz_pos.
Qed.

(* every patch a box paints on the left canvas is one of its planes: the one
   slice_box returned on the left, or its right plane when that is the first
   cell centre of the domain; nothing is painted for a box that is not selected *)
Lemma box_paints_left lv ncomp b pt :
  In pt (fst (bp lv ncomp b)) ->
  selected L cn P lv b = true /\
  exists i, pt = side_patch L cn cx cy lv b i ncomp /\
    (fst (slice_idx L cn P lv b) = Some i \/
     (snd (slice_idx L cn P lv b) = Some i /\ centre L lv (nthZ (sb_lo b) cn + i) = dom_lo * 8 + 4 * fz L lv)).
Proof.
  unfold box_paints. destruct (selected L cn P lv b); [|intros []].
  destruct (slice_idx L cn P lv b) as [l r]. cbn [fst snd]. intros H. split; [reflexivity|].
  apply in_app_or in H. destruct H as [H|H].
  - destruct l as [i|]; [|contradiction]. destruct H as [<-|[]]. exists i. split; [reflexivity | left; reflexivity].
  - destruct r as [i|]; [|contradiction].
    destruct (centre L lv (nthZ (sb_lo b) cn + i) =? dom_lo * 8 + 4 * fz L lv) eqn:E; [|contradiction].
    destruct H as [<-|[]]. exists i. split; [reflexivity|]. right. split; [reflexivity | apply Z.eqb_eq; exact E].
Qed.

Lemma box_paints_right lv ncomp b pt :
  In pt (snd (bp lv ncomp b)) ->
  selected L cn P lv b = true /\
  exists i, pt = side_patch L cn cx cy lv b i ncomp /\
    (snd (slice_idx L cn P lv b) = Some i \/
     (fst (slice_idx L cn P lv b) = Some i /\ centre L lv (nthZ (sb_lo b) cn + i) = dom_hi * 8 - 4 * fz L lv)).
Proof.
  unfold box_paints. destruct (selected L cn P lv b); [|intros []].
  destruct (slice_idx L cn P lv b) as [l r]. cbn [fst snd]. intros H. split; [reflexivity|].
  apply in_app_or in H. destruct H as [H|H].
  - destruct l as [i|]; [|contradiction].
    destruct (centre L lv (nthZ (sb_lo b) cn + i) =? dom_hi * 8 - 4 * fz L lv) eqn:E; [|contradiction].
    destruct H as [<-|[]]. exists i. split; [reflexivity|]. right. split; [reflexivity | apply Z.eqb_eq; exact E].
  - destruct r as [i|]; [|contradiction]. destruct H as [<-|[]]. exists i. split; [reflexivity | left; reflexivity].
Qed.

Lemma level_paints_in ncomp lv bs pt (side : bool) :
  In pt (pick2 side (lp ncomp (lv, bs))) <->
  exists b, In b bs /\ In pt (pick2 side (bp lv ncomp b)).
Proof.
  unfold level_paints, pick2. cbn [fst snd].
  destruct side; cbn [fst snd]; rewrite in_concat; split.
  - intros (l & Hl & Hpt). apply in_map_iff in Hl. destruct Hl as (x & <- & Hx).
    apply in_map_iff in Hx. destruct Hx as (b & <- & Hb). exists b. split; assumption.
  - intros (b & Hb & Hpt). exists (fst (bp lv ncomp b)). split; [|exact Hpt].
    apply in_map_iff. exists (bp lv ncomp b). split; [reflexivity | apply in_map; exact Hb].
  - intros (l & Hl & Hpt). apply in_map_iff in Hl. destruct Hl as (x & <- & Hx).
    apply in_map_iff in Hx. destruct Hx as (b & <- & Hb). exists b. split; assumption.
  - intros (b & Hb & Hpt). exists (snd (bp lv ncomp b)). split; [|exact Hpt].
    apply in_map_iff. exists (bp lv ncomp b). split; [reflexivity | apply in_map; exact Hb].
Qed.

(* the left (right) canvas holds at every pixel what the FINEST selected
   level that paints that side there painted: finer data overwrite coarser *)
Theorem slice_side_finest : forall (side : bool) lvls ncomp p lv bs v,
  (lv <= L)%nat -> nth_error lvls lv = Some bs ->
  (exists pt, In pt (pick2 side (lp ncomp (lv, bs))) /\ covers pt p = true) ->
  (forall pt, In pt (pick2 side (lp ncomp (lv, bs))) -> covers pt p = true -> p_val pt p = v) ->
  (forall j bs' pt, (lv < j <= L)%nat -> nth_error lvls j = Some bs' ->
                    In pt (pick2 side (lp ncomp (j, bs'))) -> covers pt p = false) ->
  pick2 side (slice3d L cn cx cy P dom_lo dom_hi lvls ncomp) p = Some v.
Proof.
  intros side lvls ncomp p lv bs v Hle Hn Hex Hall Hfiner.
  set (sel := firstn (S L) lvls).
  set (per := map (lp ncomp) (combine (seq 0 (length sel)) sel)).
  assert (Hpick : pick2 side (slice3d L cn cx cy P dom_lo dom_hi lvls ncomp)
                  = paint_levels (map (pick2 side) per) blank).
  { unfold slice3d, pick2. fold sel. fold per. destruct side; reflexivity. }
  rewrite Hpick.
  assert (Hnth : forall j bs', (j <= L)%nat -> nth_error lvls j = Some bs' ->
                   nth_error (map (pick2 side) per) j = Some (pick2 side (lp ncomp (j, bs')))).
  { intros j bs' Hj Hnj. unfold per. rewrite !nth_error_map.
    rewrite (nth_error_combine_seq sel 0 j bs').
    - reflexivity.
    - unfold sel. rewrite nth_error_firstn_lt by lia. exact Hnj. }
  apply (paint_levels_finest _ lv _ _ _ (pick2 side (lp ncomp (lv, bs))) (Hnth lv bs Hle Hn) Hex Hall).
  intros j pts' pt Hj Hnj Hpt.
  unfold per in Hnj. rewrite !nth_error_map in Hnj.
  destruct (nth_error (combine (seq 0 (length sel)) sel) j) as [[k bs']|] eqn:Ej; [|discriminate].
  cbn in Hnj. injection Hnj as <-.
  destruct (nth_error_combine_seq_inv _ _ _ _ _ Ej) as [-> Hsel]. cbn [Nat.add] in *.
  unfold sel in Hsel. destruct (nth_error_firstn_some _ _ _ _ Hsel) as [HjL Hnl].
  apply (Hfiner j bs' pt); [lia | exact Hnl | exact Hpt].
Qed.
End Canvases.
