(* mandoline, plotfile-format output of a 3D slice: interpolate_bylevel and
   write_cell_data_at_level (with the repairs of KNOWN_FINDINGS.txt: one array
   set per level and side; boxes distributed over the binary files by ceiling
   division).  Same lattice as Slice3D.  Per level, every box written holds
   that level's own two bracketing planes; the floating-point interpolation of
   the two is numpy's (evaluated by the correspondence on the model's samples). *)
From AK Require Import Base.Prelude Bytes.Text Bytes.FabHeader Bytes.BinFile Array.Paint Mandoline.Plate Mandoline.Slice3D.

Section SlicePlot.
Variable L : nat.
Variable cn cx cy : nat.
Variable P : Z.

(* a box written at level lv: its 2D index range and, per component, per cell of the
   footprint (x fastest), the left and right sample words with their normal coordinates *)
Record box2d := {
  b2_lo : list Z; b2_hi : list Z;
  b2_left : Z; b2_right : Z;                          (* normal coordinates of the two planes *)
  b2_cells : list (list (bytes * bytes))            (* per component: (left word, right word) per cell *)
}.

Definition footprint_cells (b : sbox) : list (Z * Z) :=
  let nx := nthZ (sb_hi b) cx - nthZ (sb_lo b) cx + 1 in
  let ny := nthZ (sb_hi b) cy - nthZ (sb_lo b) cy + 1 in
  map (fun ji => (snd ji, fst ji))
      (list_prod (map Z.of_nat (seq 0 (Z.to_nat ny))) (map Z.of_nat (seq 0 (Z.to_nat nx)))).

Definition word3 (b : sbox) (comp : nat) (idx i j : Z) : bytes :=
  let ijk := fun a => if (a =? cn)%nat then idx else if (a =? cx)%nat then i else j in
  cell_word_at b comp (ijk 0%nat) (ijk 1%nat) (ijk 2%nat).

(* the boxes of level lv that the plane meets with both bracketing planes inside the box *)
Definition slice_box2d (lv : nat) (ncomp : nat) (b : sbox) : option box2d :=
  if selected L cn P lv b then
    match slice_idx L cn P lv b with
    | (Some il, Some ir) =>
        Some {| b2_lo := [nthZ (sb_lo b) cx; nthZ (sb_lo b) cy];
                b2_hi := [nthZ (sb_hi b) cx; nthZ (sb_hi b) cy];
                b2_left := centre L lv (nthZ (sb_lo b) cn + il);
                b2_right := centre L lv (nthZ (sb_lo b) cn + ir);
                b2_cells := map (fun c => map (fun ij => (word3 b c il (fst ij) (snd ij), word3 b c ir (fst ij) (snd ij)))
                                              (footprint_cells b)) (seq 0 ncomp) |}
    | _ => None               (* one-sided: the other side of this level is not written (known finding) *)
    end
  else None.

Definition level_boxes2d (lv : nat) (ncomp : nat) (bs : list sbox) : list (option box2d) :=
  map (slice_box2d lv ncomp) (filter (selected L cn P lv) bs).
End SlicePlot.

(* ---- write_cell_data_at_level: boxes -> binary files ---- *)
(* nfiles = total_size // 10^6 + 1 ; chunk = ceil(nboxes / nfiles) ; file k holds boxes k*chunk .. *)
Definition nfiles_of (total_size : Z) : Z := total_size / 1000000 + 1.
Definition chunk_of (nboxes nfiles : Z) : Z := - ((- nboxes) / nfiles).

Fixpoint chunk_list {A} (fuel : nat) (k : nat) (l : list A) : list (list A) :=
  match fuel with
  | O => []
  | S fuel' => match l with
               | [] => []
               | _ => firstn k l :: chunk_list fuel' k (skipn k l)
               end
  end.

Definition file_chunks {A} (boxes : list A) (total_size : Z) : list (list A) :=
  let nf := nfiles_of total_size in
  let k := Z.to_nat (chunk_of (blen boxes) nf) in
  (* zip(fnames (nfiles + 1 names), range(0, n, chunk)) *)
  firstn (Z.to_nat (nf + 1)) (chunk_list (length boxes) k boxes).

(* the pinned distribution: floor division *)
Definition file_chunks_pinned {A} (boxes : list A) (total_size : Z) : list (list A) :=
  let nf := nfiles_of total_size in
  let k := Z.to_nat (blen boxes / nf) in
  firstn (Z.to_nat (nf + 1)) (chunk_list (length boxes) k boxes).
