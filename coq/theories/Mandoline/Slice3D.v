(* mandoline on 3D plotfiles, array output: compute_mpinput_3d, blades.slice_box
   and Mandoline.reducemp_data_ortho (with the repairs of KNOWN_FINDINGS.txt).

   Along the slice normal, coordinates are integers in units of dx_L / 8 (dx_L
   the cell size of the limit level) measured from the domain origin: a
   level-lv cell is 8f wide with f = 2^(L - lv), half a cell is 4f, the centre
   of cell c is (2c + 1) * 4f.  Slice positions on this lattice include cell
   centres, cell faces, box faces and the quarter points around them; the
   float comparisons of the implementation (incl. np.isclose) are exact there
   for the domain sizes generated.  A sample is (value word, normal
   coordinate, level).  The interpolation arithmetic is floating point and
   stays outside: the model returns the two bracketing samples per pixel. *)
From AK Require Import Base.Prelude Bytes.FabHeader Bytes.BinFile Array.Paint Mandoline.Plate.

Record sbox := { sb_lo : list Z; sb_hi : list Z; sb_comps : list bytes }.   (* requested components, Fortran order *)

Definition nthZ (l : list Z) (i : nat) : Z := nth i l 0.

Section Slice.
Variable L : nat.
Variable cn cx cy : nat.          (* normal and in-plane axes *)
Variable P : Z.                   (* slice position, lattice units *)
Variable dom_lo dom_hi : Z.       (* domain bounds along the normal, in level-L cells: [dom_lo, dom_hi) *)

Definition fz (lv : nat) : Z := Z.of_nat (nat_pow2 (L - lv)).
Definition centre (lv : nat) (c : Z) : Z := (2 * c + 1) * (4 * fz lv).

(* compute_mpinput_3d: box[cn][0] - dx/2 < pos < box[cn][1] + dx/2 *)
Definition selected (lv : nat) (b : sbox) : bool :=
  let f := fz lv in
  (nthZ (sb_lo b) cn * (8 * f) - 4 * f <? P) && (P <? (nthZ (sb_hi b) cn + 1) * (8 * f) + 4 * f).

(* slice_box: the cell indices (relative to the box) of the left / right sample *)
Definition slice_idx (lv : nat) (b : sbox) : option Z * option Z :=
  let lo := nthZ (sb_lo b) cn in
  let hi := nthZ (sb_hi b) cn in
  let n := hi - lo + 1 in
  if centre lv hi <? P then (Some (n - 1), None)                      (* beyond the last centre *)
  else if P <? centre lv lo then (None, Some 0)                       (* before the first centre *)
  else
    (* the cell whose centre is the last one <= P *)
    let k := (P / (4 * fz lv) - 1) / 2 - lo in
    if centre lv (lo + k) =? P then (Some k, Some k)                 (* on a cell centre *)
    else (Some k, Some (k + 1)).                                      (* strictly between two centres *)

Definition cell_word_at (b : sbox) (comp : nat) (i j k : Z) : bytes :=
  let nx := nthZ (sb_hi b) 0 - nthZ (sb_lo b) 0 + 1 in
  let ny := nthZ (sb_hi b) 1 - nthZ (sb_lo b) 1 + 1 in
  sub (8 * (i + nx * (j + ny * k))) 8 (nth comp (sb_comps b) []).

(* the value a pixel (x, y) of the limit-level grid receives from plane [idx] of the box *)
Definition plane_val (lv : nat) (b : sbox) (idx : Z) (comp : nat) (p : list Z) : bytes :=
  match p with
  | [x; y] =>
      let f := fz lv in
      let rx := x / f - nthZ (sb_lo b) cx in
      let ry := y / f - nthZ (sb_lo b) cy in
      let ijk := fun a => if (a =? cn)%nat then idx else if (a =? cx)%nat then rx else ry in
      cell_word_at b comp (ijk 0%nat) (ijk 1%nat) (ijk 2%nat)
  | _ => []
  end.

(* a sample painted on one side: values per component, normal coordinate, level *)
Definition sample := (list bytes * Z * Z)%type.

Definition side_patch (lv : nat) (b : sbox) (idx : Z) (ncomp : nat) : @patch sample :=
  let f := fz lv in
  {| p_start := [nthZ (sb_lo b) cx * f; nthZ (sb_lo b) cy * f];
     p_stop := [(nthZ (sb_hi b) cx + 1) * f; (nthZ (sb_hi b) cy + 1) * f];
     p_val := fun p => (map (fun c => plane_val lv b idx c p) (seq 0 ncomp),
                        centre lv (nthZ (sb_lo b) cn + idx), Z.of_nat lv) |}.

(* reducemp_data_ortho: per box, what is painted on the left and on the right canvas
   (in this order), including the two domain-face rules *)
Definition box_paints (lv : nat) (ncomp : nat) (b : sbox) : list (@patch sample) * list (@patch sample) :=
  if selected lv b then
    let '(l, r) := slice_idx lv b in
    let first_pt := dom_lo * 8 + 4 * fz lv in            (* geo_low + dx_lv / 2 *)
    let last_pt := dom_hi * 8 - 4 * fz lv in              (* geo_high - dx_lv / 2 *)
    let lp := match l with Some i => [side_patch lv b i ncomp] | None => [] end in
    let rp := match r with Some i => [side_patch lv b i ncomp] | None => [] end in
    let l_at_last := match l with
                     | Some i => if centre lv (nthZ (sb_lo b) cn + i) =? last_pt then [side_patch lv b i ncomp] else []
                     | None => [] end in
    let r_at_first := match r with
                      | Some i => if centre lv (nthZ (sb_lo b) cn + i) =? first_pt then [side_patch lv b i ncomp] else []
                      | None => [] end in
    (* order of the writes: left from output[0]; right from output[0] at the last grid point;
       right from output[1]; left from output[1] at the first grid point *)
    (lp ++ r_at_first, l_at_last ++ rp)
  else ([], []).

Definition level_paints (ncomp : nat) (klv : nat * list sbox) : list (@patch sample) * list (@patch sample) :=
  let ps := map (box_paints (fst klv) ncomp) (snd klv) in
  (concat (map fst ps), concat (map snd ps)).

Definition slice3d (lvls : list (list sbox)) (ncomp : nat) : @canvas sample * @canvas sample :=
  let sel := firstn (S L) lvls in
  let per := map (level_paints ncomp) (combine (seq 0 (length sel)) sel) in
  (paint_levels (map fst per) blank, paint_levels (map snd per) blank).
End Slice.

(* rendering: per pixel (x fastest inner? no: row = x, column = y as in the left / right arrays of
   shape (nx, ny)) the two samples, or nothing where a side was never written *)
Definition render_side (c : @canvas sample) (nx ny : nat) : list (option sample) :=
  map (fun xy => c [Z.of_nat (fst xy); Z.of_nat (snd xy)]) (list_prod (seq 0 nx) (seq 0 ny)).
