(* mandoline on 2D plotfiles: Mandoline.plate / blades.plate_box /
   utils.expand_array as functions on the directory image of the levels.

   plate_box(args): seek(offset); readline(); seek(cells*8*fidx, 1);
                    fromfile(cells).reshape(shape, order='F');
                    expand_array(arr, 2**(limit-Lv))
   plate():         for Lv in 0..limit: for out in plane_data[Lv]:
                        all_data[i][xa:xo, ya:yo] = out['data'][i]
                        grid_level[xa:xo, ya:yo] = out['level']
                    all_data[i] = all_data[i].T                          *)
From AK Require Import Base.Prelude Bytes.Text Bytes.FabHeader Bytes.BinFile
  Reader.Select Reader.BoxRead Reader.Level Array.Paint.

Definition word := bytes.                 (* the 8 bytes of one float64 *)

(* ---- numpy pieces ---- *)
Definition np_repeat {A} (f : nat) (l : list A) : list A := flat_map (fun v => repeat v f) l.

Fixpoint reshape_C {A} (rows cols : nat) (flat : list A) : list (list A) :=
  match rows with
  | O => []
  | S r => firstn cols flat :: reshape_C r cols (skipn cols flat)
  end.

(* arr.reshape(shape, order='F') of a flat float64 buffer, as arr[i][j] *)
Definition reshape_F2 (nx ny : nat) (data : bytes) : list (list word) :=
  map (fun i => map (fun j => sub (8 * Z.of_nat (i + nx * j)) 8 data) (seq 0 ny)) (seq 0 nx).

(* utils.expand_array *)
Definition expand_array {A} (arr : list (list A)) (f : nat) : list (list A) :=
  let n0 := length arr in
  let n1 := length (hd [] arr) in
  let e := reshape_C n0 (n1 * f) (np_repeat f (concat arr)) in
  np_repeat f e.        (* repeat along axis 0; the final reshape keeps the shape *)

(* ---- blades.plate_box: the read of one field of one box ---- *)
Definition plate_read (f : bytes) (off : Z) (shape : list Z) (fidx : Z) : option bytes :=
  guard (0 <=? off);
  let line := readline f off in
  let n := zprod shape in
  guard (0 <=? off + blen line + n * 8 * fidx);
  let data := fromfile f (off + blen line + n * 8 * fidx) n in
  guard reshape_ok data shape;
  Some data.

Definition nat_pow2 (k : nat) : nat := Nat.pow 2 k.

(* one box of level [lv]: the patch it writes into the level-[L] grid *)
Record plated := {
  pl_start : list Z; pl_stop : list Z;
  pl_data : list (list (list word));     (* per requested field, expanded *)
  pl_level : Z
}.

Definition plate_box (disk : list (bytes * bytes)) (L lv : nat) (fidxs : list Z)
           (lo hi : list Z) (file : bytes) (off : Z) : option plated :=
  match lo, hi with
  | [lx; ly], [hx; hy] =>
      let factor := nat_pow2 (L - lv) in
      let fz := Z.of_nat factor in
      let shape := [hx - lx + 1; hy - ly + 1] in
      do f <- lookup file disk;
      do arrs <- omap_all (fun fidx =>
                   do data <- plate_read f off shape fidx;
                   Some (reshape_F2 (Z.to_nat (hx - lx + 1)) (Z.to_nat (hy - ly + 1)) data)) fidxs;
      Some {| pl_start := [lx * fz; ly * fz];
              pl_stop := [(hx + 1) * fz; (hy + 1) * fz];
              pl_data := map (fun a => expand_array a factor) arrs;
              pl_level := Z.of_nat lv |}
  | _, _ => None
  end.

Definition nth2 {A} (d : A) (a : list (list A)) (i j : Z) : A :=
  nth (Z.to_nat j) (nth (Z.to_nat i) a []) d.

(* all_data[k][xa:xo, ya:yo] = out['data'][k] *)
Definition field_patch (k : nat) (o : plated) : @patch word :=
  {| p_start := pl_start o; p_stop := pl_stop o;
     p_val := fun p => match p, pl_start o with
                       | [x; y], [xa; ya] => nth2 [] (nth k (pl_data o) []) (x - xa) (y - ya)
                       | _, _ => []
                       end |}.

Definition level_patch (o : plated) : @patch Z :=
  {| p_start := pl_start o; p_stop := pl_stop o; p_val := fun _ => pl_level o |}.

(* the boxes of one level as the reader's cells table gives them *)
Definition level_boxes (lv : level) : option (list (list Z * list Z * bytes * Z)) :=
  do cells <- lv_cells lv;
  Some (map (fun fc => (fab_lo (fst fc), fab_hi (fst fc), fst (snd fc), snd (snd fc)))
            (combine (lv_fabs lv) cells)).

Definition plate_level (L : nat) (fidxs : list Z) (klv : nat * level) : option (list plated) :=
  let '(k, lv) := klv in
  do boxes <- level_boxes lv;
  omap_all (fun b => let '(lo, hi, file, off) := b in
                     plate_box (lv_disk lv) L k fidxs lo hi file off) boxes.

(* the canvases: one per requested field, and the grid level *)
Definition plate (lvls : list level) (L : nat) (fidxs : list Z)
  : option (list (@canvas word) * @canvas Z) :=
  let sel := firstn (S L) lvls in
  do outs <- omap_all (plate_level L fidxs) (combine (seq 0 (length sel)) sel);
  Some (map (fun k => paint_levels (map (map (field_patch k)) outs) blank) (seq 0 (length fidxs)),
        paint_levels (map (map level_patch) outs) blank).

(* ---- rendering for the correspondence: out[name] has shape (ny, nx);
   an unwritten pixel (uninitialised np.empty memory) is reported ---- *)
Definition render {V} (c : @canvas V) (nx ny : nat) : option (list V) :=
  omap_all (fun yx => c [Z.of_nat (snd yx); Z.of_nat (fst yx)])
           (list_prod (seq 0 ny) (seq 0 nx)).
