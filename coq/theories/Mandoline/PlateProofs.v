(* Proofs about the 2D flattening model (Mandoline/Plate.v): expansion
   replicates coarse cells, the box read returns the stored component, and
   the painted canvases are the covering grid.  Standard library only. *)
From AK Require Import Base.Prelude Bytes.Text Bytes.FabHeader Bytes.FabHeaderProofs
  Bytes.BinFile Reader.Select Reader.BoxRead Reader.Level Reader.ReadSpec
  Reader.LayoutProofs Reader.ReadProofs Reader.GetItemProofs Array.Paint Mandoline.Plate.

(* ------------------------------------------------------------------ *)
(** * np.repeat, reshape *)

Lemma nth_repeat_lt {A} (v d : A) f k : (k < f)%nat -> nth k (repeat v f) d = v.
Proof. revert k; induction f as [|f IH]; intros [|k] H; cbn; try lia; [reflexivity|]. apply IH. lia. Qed.

Lemma nth_np_repeat {A} (f : nat) (d : A) : (0 < f)%nat -> forall l k,
  nth k (np_repeat f l) d = nth (k / f) l d.
Proof.
  intros Hf. unfold np_repeat. induction l as [|v l IH]; intros k.
  - cbn. destruct (k / f)%nat; destruct k; reflexivity.
  - cbn [flat_map]. destruct (Nat.lt_ge_cases k f) as [Hlt|Hge].
    + rewrite app_nth1 by (rewrite repeat_length; exact Hlt).
      rewrite Nat.div_small by exact Hlt. cbn [nth]. apply nth_repeat_lt. exact Hlt.
    + rewrite app_nth2 by (rewrite repeat_length; exact Hge).
      rewrite repeat_length, IH.
      replace (k / f)%nat with (S ((k - f) / f)).
      * reflexivity.
      * replace k with ((k - f) + 1 * f)%nat at 2 by lia.
        rewrite Nat.div_add by lia. lia.
Qed.

Lemma np_repeat_length {A} f (l : list A) : length (np_repeat f l) = (length l * f)%nat.
Proof.
  unfold np_repeat. induction l as [|v l IH]; [reflexivity|].
  cbn [flat_map length]. rewrite app_length, repeat_length, IH. lia.
Qed.

Lemma np_repeat_concat {A} f (ls : list (list A)) :
  np_repeat f (concat ls) = concat (map (np_repeat f) ls).
Proof.
  unfold np_repeat. induction ls as [|l ls IH]; [reflexivity|].
  cbn [concat map]. rewrite flat_map_app, IH. reflexivity.
Qed.

Lemma reshape_C_concat {A} (c : nat) : forall (arr : list (list A)),
  Forall (fun r => length r = c) arr -> reshape_C (length arr) c (concat arr) = arr.
Proof.
  induction arr as [|r arr IH]; intros H; [reflexivity|].
  inversion H as [|? ? Hr Harr]; subst.
  cbn [length reshape_C concat].
  rewrite firstn_app, Nat.sub_diag, firstn_all. cbn [firstn]. rewrite app_nil_r.
  rewrite skipn_app, Nat.sub_diag, skipn_all. cbn [skipn app].
  rewrite IH by exact Harr. reflexivity.
Qed.

(* utils.expand_array: out[i][j] = arr[i // f][j // f] *)
Theorem expand_spec {A} (d : A) : forall (arr : list (list A)) (n1 f i j : nat),
  (0 < f)%nat -> Forall (fun r => length r = n1) arr ->
  nth j (nth i (expand_array arr f) []) d = nth (j / f) (nth (i / f) arr []) d.
Proof.
  intros arr n1 f i j Hf Hrect. unfold expand_array.
  assert (Hn1 : arr <> [] -> length (hd [] arr) = n1).
  { destruct arr as [|r arr]; [congruence|]. intros _. inversion Hrect; assumption. }
  destruct arr as [|r0 arr0] eqn:Earr.
  { cbn. destruct (i / f)%nat; destruct i; destruct (j / f)%nat; destruct j; reflexivity. }
  rewrite <- Earr in *. rewrite (Hn1 ltac:(rewrite Earr; discriminate)).
  rewrite np_repeat_concat.
  replace (length arr) with (length (map (np_repeat f) arr)) by apply map_length.
  rewrite reshape_C_concat.
  - rewrite nth_np_repeat by exact Hf.
    change (@nil A) with (np_repeat f (@nil A)) at 1.
    rewrite map_nth. apply nth_np_repeat. exact Hf.
  - apply Forall_map. revert Hrect. apply Forall_impl. intros r Hr.
    rewrite np_repeat_length, Hr. reflexivity.
Qed.

Lemma expand_rows {A} (arr : list (list A)) (n1 f : nat) :
  Forall (fun r => length r = n1) arr -> arr <> [] ->
  length (expand_array arr f) = (length arr * f)%nat.
Proof.
  intros Hrect Hne. unfold expand_array.
  destruct arr as [|r arr]; [congruence|].
  assert (Hr : length r = n1) by (inversion Hrect; assumption).
  cbn [hd]. rewrite Hr, np_repeat_concat.
  replace (length (r :: arr)) with (length (map (np_repeat f) (r :: arr))) by apply map_length.
  rewrite reshape_C_concat.
  - rewrite np_repeat_length. reflexivity.
  - apply Forall_map. revert Hrect. apply Forall_impl. intros x Hx.
    rewrite np_repeat_length, Hx. reflexivity.
Qed.

Lemma nth_map_seq {B} (g : nat -> B) (d : B) (n k : nat) :
  (k < n)%nat -> nth k (map g (seq 0 n)) d = g k.
Proof.
  intros Hk. rewrite (nth_indep _ d (g 0%nat)) by (rewrite map_length, seq_length; exact Hk).
  rewrite (map_nth g (seq 0 n) 0%nat k). rewrite seq_nth by exact Hk. reflexivity.
Qed.

(* Fortran-order reshape: arr[i][j] is element i + nx*j of the buffer *)
Lemma reshape_F2_nth (nx ny : nat) (data : bytes) (i j : nat) :
  (i < nx)%nat -> (j < ny)%nat ->
  nth j (nth i (reshape_F2 nx ny data) []) [] = sub (8 * Z.of_nat (i + nx * j)) 8 data.
Proof.
  intros Hi Hj. unfold reshape_F2.
  rewrite nth_map_seq by exact Hi. rewrite nth_map_seq by exact Hj. reflexivity.
Qed.

Lemma reshape_F2_rect nx ny data :
  Forall (fun r => length r = ny) (reshape_F2 nx ny data) /\ length (reshape_F2 nx ny data) = nx.
Proof.
  unfold reshape_F2. split.
  - apply Forall_map. apply Forall_forall. intros i _. rewrite map_length, seq_length. reflexivity.
  - rewrite map_length, seq_length. reflexivity.
Qed.

(* ------------------------------------------------------------------ *)
(** * the read of one component of one box *)

Theorem plate_read_spec : forall pre fb post fidx,
  fab_ok fb = true -> 0 <= fidx < fab_nc fb ->
  plate_read (pre ++ encode_fab fb ++ post) (blen pre) (fab_shape fb) fidx = Some (fab_comp fb fidx).
Proof.
  intros pre fb post fidx Hok Hf.
  destruct (fab_ok_inv fb Hok) as (Hlo & Hhi & Hlen & Hshape & Hncpos & Hdata).
  pose proof (fab_cells_pos fb Hok) as Hcells.
  unfold plate_read. cbv zeta.
  pose proof (blen_nonneg pre) as Hpre.
  destruct (0 <=? blen pre) eqn:E0; [|lia].
  assert (Hline : readline (pre ++ encode_fab fb ++ post) (blen pre) = fab_hdr fb).
  { unfold readline, rest. rewrite zskipn_app_exact. unfold encode_fab. rewrite <- app_assoc.
    unfold fab_hdr. apply take_line_print_hdr. }
  rewrite Hline. change (zprod (fab_shape fb)) with (fab_cells fb).
  pose proof (blen_nonneg (fab_hdr fb)) as Hh.
  assert (Hnn : 0 <= fab_cells fb * 8 * fidx) by nia.
  destruct (0 <=? blen pre + blen (fab_hdr fb) + fab_cells fb * 8 * fidx) eqn:E1; [|lia].
  unfold encode_fab. rewrite <- app_assoc.
  replace (fab_cells fb * 8 * fidx) with (fab_cells fb * fidx * 8) by ring.
  rewrite fromfile_at; [| nia | lia | rewrite Hdata; nia].
  replace (8 * (fab_cells fb * fidx)) with (8 * fab_cells fb * fidx) by ring.
  change (sub (8 * fab_cells fb * fidx) (8 * fab_cells fb) (fab_data fb)) with (fab_comp fb fidx).
  rewrite reshape_ok_true; [reflexivity | |].
  - apply (forallb_imp (fun d => 1 <=? d)); [|exact Hshape]. intros d Hd. lia.
  - change (zprod (fab_shape fb)) with (fab_cells fb).
    unfold fab_comp. apply blen_sub; nia.
Qed.

(* ------------------------------------------------------------------ *)
(** * what plate_box returns for a stored box *)

Definition fab2d (fb : fab) : Prop := length (fab_lo fb) = 2%nat.

Definition comp_array (fb : fab) (fidx : Z) : list (list word) :=
  match fab_shape fb with
  | [nx; ny] => reshape_F2 (Z.to_nat nx) (Z.to_nat ny) (fab_comp fb fidx)
  | _ => []
  end.

Definition plated_of (L lv : nat) (fidxs : list Z) (fb : fab) : plated :=
  let fz := Z.of_nat (nat_pow2 (L - lv)) in
  {| pl_start := slice_start fz (fab_lo fb);
     pl_stop := slice_stop fz (fab_hi fb);
     pl_data := map (fun fidx => expand_array (comp_array fb fidx) (nat_pow2 (L - lv))) fidxs;
     pl_level := Z.of_nat lv |}.

Lemma plate_box_spec : forall disk L lv fidxs fb file pre post,
  fab_ok fb = true -> fab2d fb ->
  Forall (fun i => 0 <= i < fab_nc fb) fidxs ->
  lookup file disk = Some (pre ++ encode_fab fb ++ post) ->
  plate_box disk L lv fidxs (fab_lo fb) (fab_hi fb) file (blen pre) = Some (plated_of L lv fidxs fb).
Proof.
  intros disk L lv fidxs fb file pre post Hok H2 Hf Hlook.
  destruct (fab_ok_inv fb Hok) as (_ & _ & Hlen & _).
  unfold fab2d in H2.
  destruct (fab_lo fb) as [|lx [|ly [|? ?]]] eqn:Elo; try (cbn in H2; lia).
  destruct (fab_hi fb) as [|hx [|hy [|? ?]]] eqn:Ehi; try (cbn in Hlen; lia).
  unfold plate_box. rewrite Hlook. cbn [obind].
  assert (Hshape : fab_shape fb = [hx - lx + 1; hy - ly + 1]).
  { unfold fab_shape, box_shape. rewrite Elo, Ehi. reflexivity. }
  rewrite (omap_all_map _ (fun fidx => reshape_F2 (Z.to_nat (hx - lx + 1)) (Z.to_nat (hy - ly + 1)) (fab_comp fb fidx))).
  - cbn [obind]. unfold plated_of. rewrite Elo, Ehi. f_equal. unfold slice_start, slice_stop. cbn [map].
    f_equal. rewrite map_map. apply map_ext. intros fidx. unfold comp_array. rewrite Hshape. reflexivity.
  - intros fidx Hin. rewrite Forall_forall in Hf. specialize (Hf fidx Hin).
    rewrite <- Hshape. rewrite plate_read_spec by assumption. reflexivity.
Qed.

(* ------------------------------------------------------------------ *)
(** * one level, all levels *)

Definition level_ok (nf : Z) (lv : level) : Prop :=
  wf_level lv = true /\ Forall (fun fb => fab2d fb /\ fab_nc fb = nf) (lv_fabs lv).

Lemma wf_level_fab_ok lv fb : wf_level lv = true -> In fb (lv_fabs lv) -> fab_ok fb = true.
Proof.
  intros Hwf Hin. unfold wf_level in Hwf.
  rewrite !andb_true_iff in Hwf. destruct Hwf as ((((Hok & _) & _) & _) & _).
  rewrite forallb_forall in Hok. apply Hok. exact Hin.
Qed.

Lemma omap_all_combine_nth {A B C} (f : A * B -> option C) (g : A -> C) (da : A) :
  forall (la : list A) (lb : list B), length lb = length la ->
  (forall i b, (i < length la)%nat -> nth_error lb i = Some b -> f (nth i la da, b) = Some (g (nth i la da))) ->
  omap_all f (combine la lb) = Some (map g la).
Proof.
  induction la as [|a la IH]; intros [|b lb] Hlen H; cbn in Hlen; try lia; [reflexivity|].
  cbn [combine omap_all map].
  pose proof (H 0%nat b) as H0. cbn [nth length nth_error] in H0.
  rewrite H0 by (try lia; reflexivity). cbn [obind].
  rewrite IH; [reflexivity | lia |].
  intros i b' Hi Hb'. apply (H (S i) b'); [cbn; lia | exact Hb'].
Qed.

Lemma plate_level_spec : forall L fidxs nf k lv,
  level_ok nf lv -> Forall (fun i => 0 <= i < nf) fidxs ->
  plate_level L fidxs (k, lv) = Some (map (plated_of L k fidxs) (lv_fabs lv)).
Proof.
  intros L fidxs nf k lv [Hwf Hfabs] Hf. unfold plate_level, level_boxes.
  destruct (lv_cells_spec lv Hwf) as (cells & Hc & Hlen & Hnth).
  rewrite Hc. cbn [obind].
  rewrite Forall_forall in Hfabs.
  assert (Hgoal : omap_all (fun b : list Z * list Z * bytes * Z =>
                      let '(lo, hi, file, off) := b in plate_box (lv_disk lv) L k fidxs lo hi file off)
                    (map (fun fc => (fab_lo (fst fc), fab_hi (fst fc), fst (snd fc), snd (snd fc)))
                         (combine (lv_fabs lv) cells))
                  = Some (map (plated_of L k fidxs) (lv_fabs lv))).
  { assert (Hm : forall (l : list (fab * (bytes * Z))) (h : list Z * list Z * bytes * Z -> option plated),
               omap_all h (map (fun fc => (fab_lo (fst fc), fab_hi (fst fc), fst (snd fc), snd (snd fc))) l)
               = omap_all (fun fc => h (fab_lo (fst fc), fab_hi (fst fc), fst (snd fc), snd (snd fc))) l).
    { induction l as [|x l IHl]; intros h; cbn [map omap_all]; [reflexivity|]. rewrite IHl. reflexivity. }
    rewrite Hm.
    apply (omap_all_combine_nth _ (plated_of L k fidxs) dummy_fab); [exact Hlen|].
    intros i c Hi Hci. cbn [fst snd].
    rewrite (Hnth i Hi) in Hci.
    destruct (locate_spec lv i c Hwf Hi Hci) as (pre & post & Hlook & Hoff).
    set (fb := nth i (lv_fabs lv) dummy_fab) in *.
    assert (Hin : In fb (lv_fabs lv)) by (apply nth_In; exact Hi).
    destruct (Hfabs fb Hin) as [H2 Hnc].
    rewrite <- Hoff.
    apply (plate_box_spec _ _ _ _ fb (fst c) pre post).
    - apply (wf_level_fab_ok lv); assumption.
    - exact H2.
    - rewrite Hnc. exact Hf.
    - exact Hlook. }
  exact Hgoal.
Qed.

Lemma omap_all_combine_seq {A C} (f : nat * A -> option C) (g : nat -> A -> C) :
  forall (l : list A) (s : nat),
  (forall i a, nth_error l i = Some a -> f ((s + i)%nat, a) = Some (g (s + i)%nat a)) ->
  omap_all f (combine (seq s (length l)) l) = Some (map (fun ka => g (fst ka) (snd ka)) (combine (seq s (length l)) l)).
Proof.
  induction l as [|a l IH]; intros s H; [reflexivity|].
  cbn [length seq combine omap_all map fst snd].
  pose proof (H 0%nat a eq_refl) as H0. rewrite Nat.add_0_r in H0. rewrite H0. cbn [obind].
  rewrite (IH (S s)); [reflexivity|].
  intros i a' Hi. replace (S s + i)%nat with (s + S i)%nat by lia. apply H. exact Hi.
Qed.

(* the per-box outputs of all selected levels *)
Definition plate_outs (lvls : list level) (L : nat) (fidxs : list Z) : list (list plated) :=
  let sel := firstn (S L) lvls in
  map (fun kl => map (plated_of L (fst kl) fidxs) (lv_fabs (snd kl))) (combine (seq 0 (length sel)) sel).

Theorem plate_spec : forall lvls L fidxs nf,
  Forall (level_ok nf) lvls -> Forall (fun i => 0 <= i < nf) fidxs ->
  plate lvls L fidxs =
    Some (map (fun k => paint_levels (map (map (field_patch k)) (plate_outs lvls L fidxs)) blank)
              (seq 0 (length fidxs)),
          paint_levels (map (map level_patch) (plate_outs lvls L fidxs)) blank).
Proof.
  intros lvls L fidxs nf Hl Hf. unfold plate. cbv zeta.
  rewrite (omap_all_combine_seq _ (fun k lv => map (plated_of L k fidxs) (lv_fabs lv))).
  - reflexivity.
  - intros i lv Hi. cbn [Nat.add].
    apply (plate_level_spec L fidxs nf). 2: exact Hf.
    rewrite Forall_forall in Hl. apply Hl.
    apply nth_error_In in Hi.
    revert Hi. generalize (S L). clear. intros n. revert lvls.
    induction n as [|n IH]; intros [|x l] H; cbn in H; try contradiction.
    destruct H as [H|H]; [left; exact H | right; apply IH; exact H].
Qed.

(* ------------------------------------------------------------------ *)
(** * the canvases are the covering grid *)

Lemma nth_error_combine_seq {A} : forall (l : list A) s i a,
  nth_error l i = Some a -> nth_error (combine (seq s (length l)) l) i = Some ((s + i)%nat, a).
Proof.
  induction l as [|x l IH]; intros s [|i] a H; cbn in H; try discriminate.
  - injection H as ->. cbn. rewrite Nat.add_0_r. reflexivity.
  - cbn [length seq combine nth_error]. rewrite (IH (S s) i a H). f_equal. f_equal. lia.
Qed.

Lemma nth_error_combine_seq_inv {A} : forall (l : list A) s i k a,
  nth_error (combine (seq s (length l)) l) i = Some (k, a) -> k = (s + i)%nat /\ nth_error l i = Some a.
Proof.
  induction l as [|x l IH]; intros s [|i] k a H; cbn in H; try discriminate.
  - injection H as <- <-. split; [lia | reflexivity].
  - destruct (IH (S s) i k a H) as [-> Hn]. split; [lia | exact Hn].
Qed.

Lemma nth_error_firstn_lt {A} : forall (l : list A) n i, (i < n)%nat -> nth_error (firstn n l) i = nth_error l i.
Proof.
  induction l as [|x l IH]; intros n i H.
  - rewrite firstn_nil. reflexivity.
  - destruct n as [|n]; [lia|]. destruct i as [|i]; cbn [firstn nth_error]; [reflexivity|].
    apply IH. lia.
Qed.

Lemma nth_error_firstn_some {A} : forall (l : list A) n i a, nth_error (firstn n l) i = Some a ->
  (i < n)%nat /\ nth_error l i = Some a.
Proof.
  induction l as [|x l IH]; intros [|n] [|i] a H; cbn in H; try discriminate.
  - split; [lia | exact H].
  - destruct (IH n i a H). split; [lia | assumption].
Qed.

Lemma plate_outs_nth lvls L fidxs lv lvl :
  (lv <= L)%nat -> nth_error lvls lv = Some lvl ->
  nth_error (plate_outs lvls L fidxs) lv = Some (map (plated_of L lv fidxs) (lv_fabs lvl)).
Proof.
  intros Hle Hn. unfold plate_outs. cbv zeta. rewrite nth_error_map.
  rewrite (nth_error_combine_seq _ 0 lv lvl).
  - reflexivity.
  - rewrite nth_error_firstn_lt by lia. exact Hn.
Qed.

Lemma plate_outs_nth_inv lvls L fidxs j os :
  nth_error (plate_outs lvls L fidxs) j = Some os ->
  exists lvl, (j <= L)%nat /\ nth_error lvls j = Some lvl /\ os = map (plated_of L j fidxs) (lv_fabs lvl).
Proof.
  unfold plate_outs. cbv zeta. rewrite nth_error_map. intros H.
  destruct (nth_error (combine (seq 0 (length (firstn (S L) lvls))) (firstn (S L) lvls)) j) as [[k lvl]|] eqn:E;
    [|discriminate].
  cbn in H. injection H as <-.
  destruct (nth_error_combine_seq_inv _ _ _ _ _ E) as [-> Hn]. cbn [Nat.add fst snd].
  destruct (nth_error_firstn_some _ _ _ _ Hn) as [Hlt Hn'].
  exists lvl. split; [lia|]. split; [exact Hn' | reflexivity].
Qed.

Lemma pow2_pos k : 0 < Z.of_nat (nat_pow2 k).
Proof. unfold nat_pow2. pose proof (Nat.pow_nonzero 2 k). lia. Qed.

Lemma covers_plated {V} (mk : plated -> @patch V) L lv fidxs fb p :
  (forall o, p_start (mk o) = pl_start o /\ p_stop (mk o) = pl_stop o) ->
  covers (mk (plated_of L lv fidxs fb)) p
  = cell_in (fab_lo fb) (fab_hi fb) (coarsen (Z.of_nat (nat_pow2 (L - lv))) p).
Proof.
  intros H. unfold covers. destruct (H (plated_of L lv fidxs fb)) as [-> ->].
  cbn [plated_of pl_start pl_stop]. apply in_slice_coarsen. apply pow2_pos.
Qed.

(* the stored word of component [c] at cell (i, j) relative to the box's low corner *)
Definition cell_word (fb : fab) (c : Z) (i j : Z) : word :=
  sub (8 * (i + hd 0 (fab_shape fb) * j)) 8 (fab_comp fb c).

Lemma field_patch_val L lv fidxs fb k x y :
  fab_ok fb = true -> fab2d fb -> (k < length fidxs)%nat ->
  cell_in (fab_lo fb) (fab_hi fb) (coarsen (Z.of_nat (nat_pow2 (L - lv))) [x; y]) = true ->
  p_val (field_patch k (plated_of L lv fidxs fb)) [x; y]
  = cell_word fb (nth k fidxs 0)
      (x / Z.of_nat (nat_pow2 (L - lv)) - hd 0 (fab_lo fb))
      (y / Z.of_nat (nat_pow2 (L - lv)) - hd 0 (tl (fab_lo fb))).
Proof.
  intros Hok H2 Hk Hin.
  destruct (fab_ok_inv fb Hok) as (_ & _ & Hlen & _).
  unfold fab2d in H2.
  destruct (fab_lo fb) as [|lx [|ly [|? ?]]] eqn:Elo; try (cbn in H2; lia).
  destruct (fab_hi fb) as [|hx [|hy [|? ?]]] eqn:Ehi; try (cbn in Hlen; lia).
  set (f := nat_pow2 (L - lv)) in *. pose proof (pow2_pos (L - lv)) as Hfz. fold f in Hfz.
  assert (Hf : (0 < f)%nat) by lia.
  unfold cell_in, coarsen in Hin. cbn [map in_slice] in Hin.
  rewrite !andb_true_iff in Hin. destruct Hin as [[Hx1 Hx2] [[Hy1 Hy2] _]].
  cbn [field_patch p_val plated_of pl_start pl_data]. rewrite Elo. cbn [slice_start map hd tl].
  unfold nth2. fold f.
  rewrite (nth_indep _ [] (expand_array (comp_array fb 0) f)) by (rewrite map_length; exact Hk).
  rewrite (map_nth (fun fidx => expand_array (comp_array fb fidx) f) fidxs 0 k).
  assert (Hshape : fab_shape fb = [hx - lx + 1; hy - ly + 1]).
  { unfold fab_shape, box_shape. rewrite Elo, Ehi. reflexivity. }
  unfold comp_array. rewrite Hshape.
  destruct (reshape_F2_rect (Z.to_nat (hx - lx + 1)) (Z.to_nat (hy - ly + 1)) (fab_comp fb (nth k fidxs 0))) as [Hrect _].
  rewrite (expand_spec [] _ _ f _ _ Hf Hrect).
  assert (Hdx : (Z.to_nat (x - lx * Z.of_nat f) / f)%nat = Z.to_nat (x / Z.of_nat f - lx)).
  { rewrite <- (rel_div (Z.of_nat f) lx x Hfz).
    assert (0 <= x - lx * Z.of_nat f) by (pose proof (Z.mul_div_le x (Z.of_nat f) Hfz); nia).
    rewrite <- (Nat2Z.id (Z.to_nat (x - lx * Z.of_nat f) / f)).
    f_equal. rewrite Nat2Z.inj_div. rewrite Z2Nat.id by lia. reflexivity. }
  assert (Hdy : (Z.to_nat (y - ly * Z.of_nat f) / f)%nat = Z.to_nat (y / Z.of_nat f - ly)).
  { rewrite <- (rel_div (Z.of_nat f) ly y Hfz).
    assert (0 <= y - ly * Z.of_nat f) by (pose proof (Z.mul_div_le y (Z.of_nat f) Hfz); nia).
    rewrite <- (Nat2Z.id (Z.to_nat (y - ly * Z.of_nat f) / f)).
    f_equal. rewrite Nat2Z.inj_div. rewrite Z2Nat.id by lia. reflexivity. }
  rewrite Hdx, Hdy.
  clear Hdx Hdy.
  set (qx := x / Z.of_nat f) in *. set (qy := y / Z.of_nat f) in *. clearbody qx qy.
  rewrite reshape_F2_nth by lia.
  unfold cell_word. rewrite Hshape. cbn [hd]. f_equal.
  rewrite Nat2Z.inj_add, Nat2Z.inj_mul, !Z2Nat.id by lia. reflexivity.
Qed.

Theorem plate_covering : forall lvls L fidxs nf cs gl,
  Forall (level_ok nf) lvls -> Forall (fun i => 0 <= i < nf) fidxs ->
  plate lvls L fidxs = Some (cs, gl) ->
  forall x y lv lvl fb,
    (lv <= L)%nat -> nth_error lvls lv = Some lvl -> In fb (lv_fabs lvl) ->
    let f := fun j => Z.of_nat (nat_pow2 (L - j)) in
    cell_in (fab_lo fb) (fab_hi fb) (coarsen (f lv) [x; y]) = true ->
    (* boxes of one level are disjoint: fb is the only box of its level over the pixel *)
    (forall fb', In fb' (lv_fabs lvl) -> cell_in (fab_lo fb') (fab_hi fb') (coarsen (f lv) [x; y]) = true -> fb' = fb) ->
    (* no box of a finer selected level lies over the pixel *)
    (forall j lvl' fb', (lv < j <= L)%nat -> nth_error lvls j = Some lvl' -> In fb' (lv_fabs lvl') ->
                        cell_in (fab_lo fb') (fab_hi fb') (coarsen (f j) [x; y]) = false) ->
    gl [x; y] = Some (Z.of_nat lv) /\
    forall k, (k < length fidxs)%nat ->
      nth k cs blank [x; y]
      = Some (cell_word fb (nth k fidxs 0) (x / f lv - hd 0 (fab_lo fb)) (y / f lv - hd 0 (tl (fab_lo fb)))).
Proof.
  intros lvls L fidxs nf cs gl Hl Hf Hplate x y lv lvl fb Hle Hn Hin f Hcell Huniq Hfiner.
  rewrite (plate_spec lvls L fidxs nf Hl Hf) in Hplate. injection Hplate as <- <-.
  assert (Hlvl : level_ok nf lvl).
  { rewrite Forall_forall in Hl. apply Hl. apply (nth_error_In _ _ Hn). }
  destruct Hlvl as [Hwf Hfabs]. rewrite Forall_forall in Hfabs.
  pose proof (plate_outs_nth lvls L fidxs lv lvl Hle Hn) as Houts.
  (* common reasoning for both canvases *)
  assert (Hgen : forall V (mk : plated -> @patch V) v,
             (forall o, p_start (mk o) = pl_start o /\ p_stop (mk o) = pl_stop o) ->
             p_val (mk (plated_of L lv fidxs fb)) [x; y] = v ->
             paint_levels (map (map mk) (plate_outs lvls L fidxs)) blank [x; y] = Some v).
  { intros V mk v Hmk Hv.
    apply (paint_levels_finest _ lv _ _ _ (map mk (map (plated_of L lv fidxs) (lv_fabs lvl)))).
    - rewrite nth_error_map, Houts. reflexivity.
    - exists (mk (plated_of L lv fidxs fb)). split.
      + apply in_map. apply in_map. exact Hin.
      + rewrite (covers_plated mk) by exact Hmk. exact Hcell.
    - intros pt Hpt Hc. apply in_map_iff in Hpt. destruct Hpt as (o & <- & Ho).
      apply in_map_iff in Ho. destruct Ho as (fb' & <- & Hfb').
      rewrite (covers_plated mk) in Hc by exact Hmk.
      rewrite (Huniq fb' Hfb' Hc). exact Hv.
    - intros j pts' pt Hj Hnj Hpt.
      rewrite nth_error_map in Hnj.
      destruct (nth_error (plate_outs lvls L fidxs) j) as [os|] eqn:Ej; [|discriminate].
      cbn in Hnj. injection Hnj as <-.
      destruct (plate_outs_nth_inv _ _ _ _ _ Ej) as (lvl' & HjL & Hnl' & ->).
      apply in_map_iff in Hpt. destruct Hpt as (o & <- & Ho).
      apply in_map_iff in Ho. destruct Ho as (fb' & <- & Hfb').
      rewrite (covers_plated mk) by exact Hmk.
      apply (Hfiner j lvl' fb'); [lia | exact Hnl' | exact Hfb']. }
  split.
  - apply (Hgen Z level_patch); [intros o; split; reflexivity | reflexivity].
  - intros k Hk.
    rewrite (nth_indep _ blank (paint_levels (map (map (field_patch 0)) (plate_outs lvls L fidxs)) blank))
      by (rewrite map_length, seq_length; exact Hk).
    rewrite (map_nth (fun k0 => paint_levels (map (map (field_patch k0)) (plate_outs lvls L fidxs)) blank)
                     (seq 0 (length fidxs)) 0%nat k).
    rewrite seq_nth by exact Hk. cbn [Nat.add].
    apply (Hgen word (field_patch k)); [intros o; split; reflexivity|].
    destruct (Hfabs fb Hin) as [H2 _].
    apply field_patch_val; try assumption.
    apply (wf_level_fab_ok lvl); assumption.
Qed.

(* ------------------------------------------------------------------ *)
(** * totality: no pixel keeps the uninitialised np.empty value *)

Lemma finest_true (P : nat -> bool) : forall L,
  (exists j, (j <= L)%nat /\ P j = true) ->
  exists j, (j <= L)%nat /\ P j = true /\ forall j', (j < j' <= L)%nat -> P j' = false.
Proof.
  induction L as [|L IH]; intros [j [Hj Hp]].
  - exists 0%nat. replace j with 0%nat in Hp by lia. repeat split; [lia | exact Hp | intros; lia].
  - destruct (P (S L)) eqn:E.
    + exists (S L). repeat split; [lia | exact E | intros; lia].
    + assert (HjL : (j <= L)%nat).
      { destruct (Nat.eq_dec j (S L)) as [->|Hne]; [congruence | lia]. }
      destruct (IH (ex_intro _ j (conj HjL Hp))) as (j0 & Hj0 & Hp0 & Hlater).
      exists j0. repeat split; [lia | exact Hp0 |].
      intros j' Hj'. destruct (Nat.eq_dec j' (S L)) as [->|Hne]; [exact E | apply Hlater; lia].
Qed.

Definition level_covers (lvls : list level) (L : nat) (p : list Z) (j : nat) : bool :=
  match nth_error lvls j with
  | Some lvl => existsb (fun fb => cell_in (fab_lo fb) (fab_hi fb) (coarsen (Z.of_nat (nat_pow2 (L - j))) p)) (lv_fabs lvl)
  | None => false
  end.

(* boxes of one level do not overlap *)
Definition level_disjoint (lvl : level) : Prop :=
  forall fb fb' q, In fb (lv_fabs lvl) -> In fb' (lv_fabs lvl) ->
    cell_in (fab_lo fb) (fab_hi fb) q = true -> cell_in (fab_lo fb') (fab_hi fb') q = true -> fb' = fb.

Theorem plate_total : forall lvls L fidxs nf cs gl,
  Forall (level_ok nf) lvls -> Forall (fun i => 0 <= i < nf) fidxs ->
  Forall level_disjoint lvls ->
  plate lvls L fidxs = Some (cs, gl) ->
  forall x y,
    (exists j, (j <= L)%nat /\ level_covers lvls L [x; y] j = true) ->
    (exists lv, gl [x; y] = Some (Z.of_nat lv) /\ (lv <= L)%nat /\ level_covers lvls L [x; y] lv = true) /\
    forall k, (k < length fidxs)%nat -> nth k cs blank [x; y] <> None.
Proof.
  intros lvls L fidxs nf cs gl Hl Hf Hdis Hplate x y Hex.
  destruct (finest_true (level_covers lvls L [x; y]) L Hex) as (lv & Hle & Hcov & Hlater).
  unfold level_covers in Hcov.
  destruct (nth_error lvls lv) as [lvl|] eqn:En; [|discriminate].
  apply existsb_exists in Hcov. destruct Hcov as (fb & Hin & Hcell).
  assert (Hd : level_disjoint lvl).
  { rewrite Forall_forall in Hdis. apply Hdis. apply (nth_error_In _ _ En). }
  destruct (plate_covering lvls L fidxs nf cs gl Hl Hf Hplate x y lv lvl fb Hle En Hin Hcell) as [Hg Hc].
  - intros fb' Hin' Hc'. apply (Hd fb fb' _ Hin Hin' Hcell Hc').
  - intros j lvl' fb' Hj Hnj Hin'.
    specialize (Hlater j Hj). unfold level_covers in Hlater. rewrite Hnj in Hlater.
    destruct (cell_in (fab_lo fb') (fab_hi fb') (coarsen (Z.of_nat (nat_pow2 (L - j))) [x; y])) eqn:E; [|reflexivity].
    assert (existsb (fun fb0 => cell_in (fab_lo fb0) (fab_hi fb0) (coarsen (Z.of_nat (nat_pow2 (L - j))) [x; y]))
                    (lv_fabs lvl') = true); [|congruence].
    apply existsb_exists. exists fb'. split; assumption.
  - split.
    + exists lv. split; [exact Hg|]. split; [exact Hle|].
      unfold level_covers. rewrite En. apply existsb_exists. exists fb. split; assumption.
    + intros k Hk. rewrite (Hc k Hk). discriminate.
Qed.
