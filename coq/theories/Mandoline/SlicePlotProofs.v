From AK Require Import Base.Prelude Bytes.Text Bytes.FabHeader Bytes.BinFile Array.Paint Mandoline.Plate
  Mandoline.Slice3D Mandoline.Slice3DProofs Mandoline.SlicePlot.

(* ------------------------------------------------------------------ *)
(** * every box goes to exactly one binary file *)

Lemma chunk_list_concat {A} (k : nat) : (0 < k)%nat -> forall fuel (l : list A),
  (length l <= fuel)%nat -> concat (chunk_list fuel k l) = l.
Proof.
  intros Hk. induction fuel as [|fuel IH]; intros l Hl.
  - destruct l; [reflexivity | cbn in Hl; lia].
  - cbn [chunk_list]. destruct l as [|a l]; [reflexivity|].
    cbn [concat]. rewrite IH; [apply firstn_skipn|].
    rewrite skipn_length. cbn [length] in *. lia.
Qed.

Lemma chunk_list_count {A} (k : nat) : (0 < k)%nat -> forall fuel (l : list A),
  (length l <= fuel)%nat -> l <> [] ->
  ((length (chunk_list fuel k l) - 1) * k < length l)%nat /\ (0 < length (chunk_list fuel k l))%nat.
Proof.
  intros Hk. induction fuel as [|fuel IH]; intros l Hl Hne.
  - destruct l; [congruence | cbn in Hl; lia].
  - cbn [chunk_list]. destruct l as [|a l]; [congruence|]. cbn [length].
    destruct (skipn k (a :: l)) as [|b r] eqn:Es.
    + destruct fuel; cbn [chunk_list length]; lia.
    + destruct (IH (b :: r)) as [H1 H2].
      * rewrite <- Es, skipn_length. cbn [length] in *. lia.
      * discriminate.
      * assert (Hlen : (length (b :: r) = S (length l) - k)%nat) by (rewrite <- Es, skipn_length; reflexivity).
        split; [|lia]. nia.
Qed.

(* with the boxes spread by CEILING division, the at most nfiles + 1 file names
   suffice: the files hold every box exactly once, in order *)
Theorem file_chunks_cover : forall (A : Type) (boxes : list A) total_size,
  boxes <> [] -> 0 <= total_size ->
  concat (file_chunks boxes total_size) = boxes /\
  (length (file_chunks boxes total_size) <= Z.to_nat (nfiles_of total_size))%nat.
Proof.
  intros A boxes total Hne Ht. unfold file_chunks. cbv zeta.
  set (nf := nfiles_of total). set (n := blen boxes).
  assert (Hnf : 1 <= nf) by (unfold nf, nfiles_of; pose proof (Z.div_pos total 1000000 Ht ltac:(lia)); lia).
  assert (Hn : 1 <= n) by (unfold n, blen; destruct boxes; [congruence | cbn [length]; lia]).
  set (k := chunk_of n nf).
  assert (Hk : 1 <= k /\ n <= k * nf).
  { unfold k, chunk_of. pose proof (Z.div_mod (- n) nf ltac:(lia)) as Hd.
    pose proof (Z.mod_pos_bound (- n) nf ltac:(lia)) as Hm. nia. }
  destruct Hk as [Hk1 Hk2].
  destruct (chunk_list_count (Z.to_nat k) ltac:(lia) (length boxes) boxes ltac:(lia) Hne) as [Hc1 Hc2].
  assert (Hcount : (length (chunk_list (length boxes) (Z.to_nat k) boxes) <= Z.to_nat nf)%nat).
  { unfold n, blen in *. nia. }
  rewrite firstn_all2 by lia. split; [apply chunk_list_concat; lia | exact Hcount].
Qed.

(* the pinned floor division: 8 boxes over 5 files lost two of them *)
Theorem file_chunks_pinned_refuted :
  concat (file_chunks_pinned (seq 0 8) 4000000) = seq 0 6.
Proof. vm_compute. reflexivity. Qed.

(* ------------------------------------------------------------------ *)
(** * every written box holds its own level's two bracketing planes *)
Theorem slice_box2d_own_level : forall L cn cx cy P lv ncomp b r,
  nthZ (sb_lo b) cn <= nthZ (sb_hi b) cn ->
  slice_box2d L cn cx cy P lv ncomp b = Some r ->
  selected L cn P lv b = true /\
  exists il ir, slice_idx L cn P lv b = (Some il, Some ir) /\
    0 <= il <= nthZ (sb_hi b) cn - nthZ (sb_lo b) cn /\ 0 <= ir <= nthZ (sb_hi b) cn - nthZ (sb_lo b) cn /\
    b2_left r = centre L lv (nthZ (sb_lo b) cn + il) /\ b2_right r = centre L lv (nthZ (sb_lo b) cn + ir) /\
    b2_left r <= P <= b2_right r /\
    ((il = ir /\ b2_left r = P) \/ (ir = il + 1 /\ b2_left r < P < b2_right r)) /\
    b2_lo r = [nthZ (sb_lo b) cx; nthZ (sb_lo b) cy] /\ b2_hi r = [nthZ (sb_hi b) cx; nthZ (sb_hi b) cy].
Proof.
  intros L cn cx cy P lv ncomp b r Hle H. unfold slice_box2d in H.
  destruct (selected L cn P lv b) eqn:Es; [|discriminate]. split; [reflexivity|].
  pose proof (slice_idx_spec L cn P lv b Hle) as Hs.
  destruct (slice_idx L cn P lv b) as [[il|] [ir|]]; try discriminate.
  injection H as <-. cbn [b2_left b2_right b2_lo b2_hi].
  destruct Hs as (H1 & H2 & H3 & H4).
  exists il, ir. repeat split; try lia; try reflexivity; try exact H4.
Qed.
